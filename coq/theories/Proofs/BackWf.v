(** * C03: every recorded trace is a connected sequence of backward steps ending at the entry argument *)
From Coq Require Import List PArith NArith ZArith Bool Lia FMapPositive Permutation.
Import ListNotations.
From Argot Require Import Model.Back Proofs.BackBase.

Section Wf.
Variable g : graph.
Variable cfg : config.

Lemma bstep_in : forall a x b, get_node g a = Some x -> In b (in_srcs x) -> bstepb g a b = true.
Proof.
  intros a x b Hx Hin. unfold bstepb. rewrite Hx. apply orb_true_iff. left. apply pos_mem_In. exact Hin.
Qed.

Lemma in_cands_src : forall k x c, In c (in_cands k x) -> In (c_node c) (in_srcs x).
Proof.
  intros k x c H. unfold in_cands in H. apply in_map_iff in H. destruct H as [e [He Hin]]. subst c. simpl.
  unfold in_srcs. apply in_map. exact Hin.
Qed.

Lemma args_at_spec : forall k idx l r, args_at g k idx l = Some r ->
  forall c, In c r -> exists cs csn, In cs l /\ get_node g cs = Some csn /\ nth_error (n_list csn) idx = Some (c_node c).
Proof.
  intros k idx l. induction l as [|cs l IH]; intros r H c Hc; simpl in H.
  - inversion H; subst. destruct Hc.
  - destruct (get_node g cs) as [csn|] eqn:Hcs; try discriminate.
    destruct (nth_error (n_list csn) idx) as [a|] eqn:Hn; try discriminate.
    destruct (args_at g k idx l) as [r'|] eqn:Hr; try discriminate.
    inversion H; subst. destruct Hc as [Hc|Hc].
    + subst c. simpl. exists cs, csn. split; [left; reflexivity|]. auto.
    + destruct (IH r' eq_refl c Hc) as [cs' [csn' [H1 H2]]]. exists cs', csn'. split; [right; exact H1|exact H2].
Qed.

Lemma bvs_at_spec : forall k idx l r, bvs_at g k idx l = Some r ->
  forall c, In c r -> exists mc cl, In mc l /\ get_node g mc = Some cl /\ nth_error (n_list cl) idx = Some (c_node c).
Proof.
  intros k idx l. induction l as [|mc l IH]; intros r H c Hc; simpl in H.
  - inversion H; subst. destruct Hc.
  - destruct (get_node g mc) as [cl|] eqn:Hcs; try discriminate.
    destruct (nth_error (n_list cl) idx) as [a|] eqn:Hn; try discriminate.
    destruct (bvs_at g k idx l) as [r'|] eqn:Hr; try discriminate.
    inversion H; subst. destruct Hc as [Hc|Hc].
    + subst c. simpl. exists mc, cl. split; [left; reflexivity|]. auto.
    + destruct (IH r' eq_refl c Hc) as [mc' [cl' [H1 H2]]]. exists mc', cl'. split; [right; exact H1|exact H2].
Qed.

Lemma unwind_in : forall callsites tr cs, unwind g callsites tr = Some cs -> In cs callsites.
Proof.
  intros callsites tr cs H. unfold unwind in H. destruct tr as [|lbl tr]; try discriminate.
  destruct (get_node g lbl); try discriminate. apply find_some in H. destruct H; auto.
Qed.

Lemma bstep_param : forall a x sg cs csn b,
  get_node g a = Some x -> n_kind x = KParam -> get_graph g (n_graph x) = Some sg ->
  In cs (g_callsites sg) -> get_node g cs = Some csn -> nth_error (n_list csn) (n_idx x) = Some b ->
  bstepb g a b = true.
Proof.
  intros a x sg cs csn b Hx Hk Hg Hcs Hn Hb. unfold bstepb. rewrite Hx, Hk, Hg. apply orb_true_iff. right.
  apply existsb_exists. exists cs. split; auto. rewrite Hn, Hb. apply Pos.eqb_refl.
Qed.

Lemma expand_param_bstep : forall k pc x cs rep,
  get_node g (k_node k) = Some x -> n_kind x = KParam ->
  expand_param g k pc x = XCands cs rep -> forall c, In c cs -> bstepb g (k_node k) (c_node c) = true.
Proof.
  intros k pc x cs rep Hx Hk H c Hc. unfold expand_param in H.
  destruct pc as [[[[same fb] ip] pa]|]; try discriminate.
  destruct (get_graph g (n_graph x)) as [sg|] eqn:Hg; try discriminate.
  set (intra := if same then [] else in_cands k x) in *.
  assert (Hintra : In c intra -> bstepb g (k_node k) (c_node c) = true).
  { intros Hi. unfold intra in Hi. destruct same; [destruct Hi|].
    eapply bstep_in; eauto. eapply in_cands_src; eauto. }
  destruct (if fb then None else unwind g (g_callsites sg) (k_trace k)) as [csid|] eqn:Hctx.
  - destruct (get_node g csid) as [csn|] eqn:Hcsn; try discriminate.
    destruct (nth_error (n_list csn) (n_idx x)) as [a|] eqn:Hn; try discriminate.
    inversion H; subst. apply in_app_or in Hc. destruct Hc as [Hc|[Hc|[]]]; auto.
    subst c. simpl. destruct fb; try discriminate. apply unwind_in in Hctx.
    eapply bstep_param; eauto.
  - destruct (args_at g k (n_idx x) (g_callsites sg)) as [r|] eqn:Hr; try discriminate.
    inversion H; subst. apply in_app_or in Hc. destruct Hc as [Hc|Hc]; auto.
    destruct (args_at_spec _ _ _ _ Hr c Hc) as [cs' [csn' [H1 [H2 H3]]]].
    eapply bstep_param; eauto.
Qed.

Lemma expand_arg_bstep : forall k pc x cs rep,
  get_node g (k_node k) = Some x -> n_kind x = KArg ->
  expand_arg g cfg k pc x = XCands cs rep -> forall c, In c cs -> bstepb g (k_node k) (c_node c) = true.
Proof.
  intros k pc x cs rep Hx Hk H c Hc. unfold expand_arg in H.
  destruct (get_node g (n_parent x)) as [csn|] eqn:Hp; try discriminate.
  match type of H with
  | (match ?tp with _ => _ end) = _ => destruct tp as [[pcands|]|] eqn:Htp; try discriminate
  end.
  inversion H; subst. clear H.
  apply in_app_or in Hc. destruct Hc as [Hc|Hc].
  - (* callee parameter *)
    destruct (n_fa x); [|inversion Htp; subst; destruct Hc].
    destruct (n_sum csn) as [sgid|] eqn:Hs.
    + destruct (get_graph g sgid) as [sg|] eqn:Hg; [|discriminate].
      destruct (negb (g_constructed sg) && negb (on_demand cfg)); [discriminate|].
      destruct (nth_error (g_params sg) (n_idx x)) as [[p|]|] eqn:Hn; try discriminate.
      inversion Htp; subst. destruct Hc as [Hc|[]]. subst c. simpl.
      unfold bstepb. rewrite Hx, Hk, Hp, Hs, Hg, Hn. rewrite Pos.eqb_refl.
      rewrite orb_true_r. apply orb_true_r.
    + destruct (on_demand cfg); discriminate.
  - apply in_app_or in Hc. destruct Hc as [Hc|Hc].
    + (* bound: Out() *)
      destruct (n_fb x); [|destruct Hc].
      apply in_flat_map in Hc. destruct Hc as [e [He Hc]]. apply in_map_iff in Hc. destruct Hc as [i [Hi _]].
      subst c. simpl. unfold bstepb. rewrite Hx, Hk. apply orb_true_iff. right. apply orb_true_iff. left.
      apply pos_mem_In. apply in_map. exact He.
    + (* In() *)
      match type of Hc with In _ (if ?b then _ else _) => destruct b end; [|destruct Hc].
      apply in_map_iff in Hc. destruct Hc as [e [He Hin]]. subst c. simpl.
      eapply bstep_in; eauto. unfold in_srcs. apply in_map. exact Hin.
Qed.

Lemma expand_call_bstep : forall k pc x p cs rep,
  get_node g (k_node k) = Some x -> n_kind x = KCall ->
  expand_call g k pc x p = XCands cs rep -> forall c, In c cs -> bstepb g (k_node k) (c_node c) = true.
Proof.
  intros k pc x p cs rep Hx Hk H c Hc. unfold expand_call in H.
  destruct (N.eqb (n_fn x) 0); try discriminate.
  destruct (n_sum x) as [sgid|] eqn:Hs; try discriminate.
  destruct (get_graph g sgid) as [sg|] eqn:Hg; try discriminate.
  inversion H; subst. clear H. apply in_app_or in Hc. destruct Hc as [Hc|Hc].
  - apply in_flat_map in Hc. destruct Hc as [r [Hr Hc]].
    assert (c_node c = r).
    { match type of Hc with In _ (match ?pe with _ => _ end) => destruct pe end.
      - destruct Hc as [Hc|[]]. subst c. reflexivity.
      - apply in_map_iff in Hc. destruct Hc as [i [Hi _]]. subst c. reflexivity. }
    subst r. unfold bstepb. rewrite Hx, Hk, Hs, Hg. apply orb_true_iff. right. apply pos_mem_In. exact Hr.
  - eapply bstep_in; eauto. eapply in_cands_src; eauto.
Qed.

Lemma expand_global_bstep : forall k x cs rep,
  get_node g (k_node k) = Some x -> n_kind x = KGlobal ->
  expand_global g k x = XCands cs rep -> forall c, In c cs -> bstepb g (k_node k) (c_node c) = true.
Proof.
  intros k x cs rep Hx Hk H c Hc. unfold expand_global in H. destruct (n_fa x) eqn:Hw.
  - inversion H; subst. eapply bstep_in; eauto. eapply in_cands_src; eauto.
  - inversion H; subst. clear H. apply in_map_iff in Hc. destruct Hc as [w [Hw' Hin]]. subst c. simpl.
    unfold bstepb. rewrite Hx, Hk, Hw. apply orb_true_iff. right. simpl.
    destruct (n_sum x) as [gl|]; [|destruct Hin].
    destruct (PositiveMap.find gl (globals g)) as [l|]; [|destruct Hin].
    apply pos_mem_In. exact Hin.
Qed.

Lemma expand_boundvar_bstep : forall k x cs rep,
  get_node g (k_node k) = Some x -> n_kind x = KBoundVar ->
  expand_boundvar g k x = XCands cs rep -> forall c, In c cs -> bstepb g (k_node k) (c_node c) = true.
Proof.
  intros k x cs rep Hx Hk H c Hc. unfold expand_boundvar in H.
  destruct (get_node g (n_parent x)) as [cl|] eqn:Hp; try discriminate.
  destruct (n_sum cl) as [sgid|] eqn:Hs; try discriminate.
  destruct (get_graph g sgid) as [sg|] eqn:Hg; try discriminate.
  destruct (nth_error (g_freevars sg) (n_idx x)) as [[fv|]|] eqn:Hn; try discriminate.
  inversion H; subst. clear H. apply in_app_or in Hc. destruct Hc as [Hc|[Hc|[]]].
  - eapply bstep_in; eauto. eapply in_cands_src; eauto.
  - subst c. simpl. unfold bstepb. rewrite Hx, Hk, Hp, Hs, Hg, Hn. rewrite Pos.eqb_refl. apply orb_true_r.
Qed.

Lemma bstep_freevar : forall a x cid cl b,
  get_node g a = Some x -> n_kind x = KFreeVar -> get_node g cid = Some cl ->
  nth_error (n_list cl) (n_idx x) = Some b -> bstepb g a b = true.
Proof.
  intros a x cid cl b Hx Hk Hc Hn. unfold bstepb. rewrite Hx, Hk. apply orb_true_iff. right.
  apply existsb_exists. exists (cid, cl). split.
  - apply PositiveMap.elements_correct. exact Hc.
  - simpl. rewrite Hn. apply Pos.eqb_refl.
Qed.

Lemma expand_freevar_bstep : forall k pc x cs rep,
  get_node g (k_node k) = Some x -> n_kind x = KFreeVar ->
  expand_freevar g cfg k pc x = XCands cs rep -> forall c, In c cs -> bstepb g (k_node k) (c_node c) = true.
Proof.
  intros k pc x cs rep Hx Hk H c Hc. unfold expand_freevar in H.
  destruct pc as [[[[same fb] ip] pa]|]; try discriminate.
  destruct (negb same).
  - inversion H; subst. eapply bstep_in; eauto. eapply in_cands_src; eauto.
  - destruct (ctrace_top g cfg k x) as [[cid crest]|].
    + destruct (get_node g cid) as [cl|] eqn:Hcl; try discriminate.
      destruct (n_list cl) as [|b0 bs] eqn:Hl; try discriminate.
      destruct (nth_error (b0 :: bs) (n_idx x)) as [bv|] eqn:Hn; try discriminate.
      inversion H; subst. destruct Hc as [Hc|[]]. subst c. simpl.
      eapply bstep_freevar; eauto. rewrite Hl. exact Hn.
    + destruct (get_graph g (n_graph x)) as [sg|] eqn:Hg; try discriminate.
      destruct (g_refclosures sg) as [|mc0 rest] eqn:Hrc; try discriminate.
      destruct (bvs_at g k (n_idx x) (mc0 :: rest)) as [r|] eqn:Hr; try discriminate.
      inversion H; subst. destruct (bvs_at_spec _ _ _ _ Hr c Hc) as [mc [cl [H1 [H2 H3]]]].
      eapply bstep_freevar; eauto.
Qed.

(** every candidate of an expansion is a backward step of the current node *)
Lemma expand_bstep : forall k prev p cs rep,
  expand_k g cfg k prev p = XCands cs rep -> forall c, In c cs -> bstepb g (k_node k) (c_node c) = true.
Proof.
  intros k prev p cs rep H c Hc. unfold expand_k in H.
  destruct (get_node g (k_node k)) as [x|] eqn:Hx; try discriminate.
  destruct (get_graph g (n_graph x)) as [sg|] eqn:Hg; try discriminate.
  destruct (negb (g_constructed sg) && negb (on_demand cfg)); try discriminate.
  destruct (is_base_case g cfg x); try discriminate.
  destruct (n_kind x) eqn:Hk.
  - eapply expand_param_bstep; eauto.
  - eapply expand_freevar_bstep; eauto.
  - eapply expand_arg_bstep; eauto.
  - eapply expand_call_bstep; eauto.
  - inversion H; subst. eapply bstep_in; eauto. eapply in_cands_src; eauto.
  - inversion H; subst. apply in_map_iff in Hc. destruct Hc as [b [Hb Hin]]. subst c. simpl.
    unfold bstepb. rewrite Hx, Hk. apply orb_true_iff. right. apply pos_mem_In. exact Hin.
  - eapply expand_boundvar_bstep; eauto.
  - destruct (skip_bound_labels cfg); inversion H; subst; [destruct Hc|].
    eapply bstep_in; eauto. eapply in_cands_src; eauto.
  - eapply expand_global_bstep; eauto.
  - inversion H; subst. eapply bstep_in; eauto. eapply in_cands_src; eauto.
  - discriminate.
Qed.

End Wf.

(** ** The invariant of the run *)
Section WfRun.
Variable rank : oracle.
Variable g : graph.
Variable cfg : config.
Variable entry : nid.

Definition good (v : vnode) : Prop :=
  trace_wfb g entry (v_path v) = true /\ exists tl, v_path v = v_node v :: tl.

Definition inv1 (s : state) : Prop :=
  (forall v, In v (stack s) -> good v) /\
  (forall t, In t (traces s) -> trace_wfb g entry t = true) /\
  (forall t, In t (silent s) -> trace_wfb g entry t = true) /\
  (forall v, In v (visited s) -> good v).

Ltac isplit := unfold inv1; split; [|split; [|split]].

Lemma last_is_cons : forall b l e, l <> [] -> last_is (b :: l) e = last_is l e.
Proof.
  intros b l e Hl. unfold last_is. simpl. destruct (rev l) as [|x r] eqn:Hr.
  - exfalso. apply Hl. rewrite <- (rev_involutive l). rewrite Hr. reflexivity.
  - reflexivity.
Qed.

Lemma good_next : forall cur c, good cur -> bstepb g (v_node cur) (c_node c) = true -> good (next_of cur c).
Proof.
  intros cur c [Hw [tl Hp]] Hb. unfold good. simpl. split; [|eexists; reflexivity].
  unfold trace_wfb in *. rewrite Hp in *. apply andb_true_iff in Hw. destruct Hw as [Hl Hc].
  apply andb_true_iff. split.
  - rewrite last_is_cons; [exact Hl|discriminate].
  - simpl. simpl in Hc. rewrite Hb. simpl. exact Hc.
Qed.

Lemma good_root : good (root entry).
Proof.
  unfold good, root. simpl. split; [|exists []; reflexivity].
  unfold trace_wfb, last_is. simpl. rewrite Pos.eqb_refl. reflexivity.
Qed.

Lemma inv1_add_trace : forall s t, inv1 s -> trace_wfb g entry t = true -> inv1 (add_trace s t).
Proof.
  intros s t [H1 [H2 [H3 H4]]] Ht. unfold add_trace. destruct (trace_mem t (traces s)).
  - isplit; auto.
  - isplit; simpl; auto. intros t' [E|Hin]; [subst; auto|auto].
Qed.

Lemma inv1_add_silent : forall s t, inv1 s -> trace_wfb g entry t = true -> inv1 (add_silent s t).
Proof.
  intros s t [H1 [H2 [H3 H4]]] Ht. unfold add_silent. isplit; simpl; auto.
  intros t' [E|Hin]; [subst; auto|auto].
Qed.

Lemma step_inv1 : forall s s' o, err s = None -> inv1 s -> step rank g cfg s = (s', o) -> inv1 s'.
Proof.
  intros s s' o Herr Hinv H.
  destruct (step_shape _ _ _ _ _ _ Herr H) as [[_ [Hs _]]|[cur [rest [Hst K]]]]; [subst; exact Hinv|].
  destruct Hinv as [I1 [I2 [I3 I4]]].
  assert (Hcur : good cur) by (apply I1; rewrite Hst; left; reflexivity).
  assert (Hp : inv1 (popped s cur rest)).
  { unfold popped, visit_one. isplit; simpl; auto.
    - intros v Hv. apply I1. rewrite Hst. right. exact Hv.
    - intros v [E|Hv]; [subst; exact Hcur|auto]. }
  destruct K as [c ? Hs ?|? Hs ?|? Hs ?|? Hs ?|cs rep s1 news He K1 K2 K3 K4 K5 K6 K7 Hc]; subst.
  - destruct Hp as [P1 [P2 [P3 P4]]]. isplit; simpl; auto.
  - apply inv1_add_silent; auto. apply Hcur.
  - apply inv1_add_silent; auto. apply Hcur.
  - apply inv1_add_trace; auto. apply Hcur.
  - assert (Hs1 : inv1 s1).
    { destruct Hp as [P1 [P2 [P3 P4]]]. unfold inv1. rewrite K1, K3, K4, K5. isplit; auto.
      intros v Hv. apply in_app_or in Hv. destruct Hv as [Hv|Hv].
        + destruct (K6 v Hv) as [c [Hcin [Hv' _]]]. subst v. apply good_next; auto.
          unfold expand in He. change (v_node cur) with (k_node (key_of cur)).
          eapply expand_bstep; eauto.
        + apply I1. rewrite Hst. right. exact Hv. }
    destruct Hc as [[c [_ [Hs _]]]|[[_ [_ [_ [Hs _]]]]|[[_ [_ [_ [Hs _]]]]|[_ [_ [Hs _]]]]]]; subst; auto.
    + apply inv1_add_trace; auto. apply Hcur.
    + apply inv1_add_silent; auto. apply Hcur.
Qed.

Lemma loop_inv1 : forall fuel s s' o,
  err s = None -> inv1 s -> loop rank g cfg fuel s = (s', o) -> inv1 s'.
Proof.
  induction fuel as [|f IH]; intros s s' o Herr Hinv H; simpl in H.
  - inversion H; subst. exact Hinv.
  - destruct (step rank g cfg s) as [s1 [o1|]] eqn:Hs.
    + inversion H; subst. eapply step_inv1; eauto.
    + eapply IH; [| |exact H].
      * eapply step_err; eauto.
      * eapply step_inv1; eauto.
Qed.

Lemma init_inv1 : forall p, inv1 (init_state entry p).
Proof.
  intros p. unfold init_state. isplit; simpl.
  - intros v [E|F]; [subst; apply good_root|destruct F].
  - intros t F; destruct F.
  - intros t F; destruct F.
  - intros t F; destruct F.
Qed.

(** every recorded trace — and every path of a silent leaf — passes the checker *)
Lemma back_trace_wf : forall fuel p s o,
  back rank g cfg fuel p entry = (s, o) ->
  (forall t, In t (traces s) -> trace_wfb g entry t = true) /\
  (forall t, In t (silent s) -> trace_wfb g entry t = true) /\
  (forall v, In v (visited s) -> exists tl, v_path v = v_node v :: tl).
Proof.
  intros fuel p s o H. unfold back in H.
  assert (Hi : inv1 s) by (eapply loop_inv1; [| |exact H]; [reflexivity|apply init_inv1]).
  destruct Hi as [_ [H2 [H3 H4]]]. split; [|split]; auto. intros v Hv. apply (H4 v Hv).
Qed.

End WfRun.

(** The checker's verdict unfolded: the last node is the entry argument and consecutive nodes are backward steps. *)
Definition bstep (g : graph) (a b : nid) : Prop := bstepb g a b = true.

Inductive chain (g : graph) : list nid -> Prop :=
| chain_nil : chain g []
| chain_one : forall a, chain g [a]
| chain_cons : forall b a rest, bstep g a b -> chain g (a :: rest) -> chain g (b :: a :: rest).

Lemma chainb_chain : forall g t, chainb g t = true -> chain g t.
Proof.
  intros g t. induction t as [|b t IH]; intros H; [constructor|].
  destruct t as [|a rest]; [constructor|].
  simpl in H. apply andb_true_iff in H. destruct H as [H1 H2]. constructor; auto.
Qed.

Lemma trace_wfb_spec : forall g e t, trace_wfb g e t = true -> chain g t /\ exists pre, t = pre ++ [e].
Proof.
  intros g e t H. unfold trace_wfb in H. apply andb_true_iff in H. destruct H as [Hl Hc]. split.
  - apply chainb_chain. exact Hc.
  - unfold last_is in Hl. destruct (rev t) as [|x r] eqn:Hr; [discriminate|].
    apply Pos.eqb_eq in Hl. subst x. exists (rev r). rewrite <- (rev_involutive t). rewrite Hr. reflexivity.
Qed.
