(** * [visit_terminates]: the traversal model never runs out of the fuel [fuel_bound g] on a path-insensitive graph.

    Argument (DESIGN 9, C07): call and closure traces of queued visitor nodes are lasso-free ([wf_trace]) because a
    successor whose trace has a lasso is not queued; lasso-free traces over the finitely many nodes of the graph are
    finitely many; with constant access paths the keys range over the finite list [keys_for g aps]; every loop
    iteration dequeues one node and enqueues only nodes whose key is added to [seen] for the first time.  *)
From Coq Require Import List PArith NArith ZArith Bool FMapPositive Lia Permutation.
From Argot Require Import Model.Visit Proofs.VisitBase Proofs.VisitInv.
Import ListNotations.

Set Default Proof Using "Type".

Local Opaque lt_mem lt_add.

(** all lists of length <= n over an alphabet *)
Fixpoint lists_upto (A : list id) (n : nat) : list (list id) :=
  match n with
  | O => [[]]
  | S m => [] :: flat_map (fun l => map (fun a => a :: l) A) (lists_upto A m)
  end.

Lemma lists_upto_complete A : forall n l, length l <= n -> incl l A -> In l (lists_upto A n).
Proof.
  induction n as [|n IH]; intros l Hl Hi; destruct l as [|x l]; simpl in *.
  - auto.
  - lia.
  - auto.
  - right. apply in_flat_map. exists l. split.
    + apply IH; [lia|]. intros y Hy. apply Hi. right. exact Hy.
    + apply (in_map (fun a => a :: l)). apply Hi. left. reflexivity.
Qed.

Definition dom_list (g : graph) : list id := map fst (PositiveMap.elements (g_nodes g)).

Definition traces_of (g : graph) : list (list id) := lists_upto (dom_list g) (length (dom_list g)).

(** the finite universe of keys for fixed access paths *)
Definition keys_for (g : graph) (aps : list positive) : list (list positive) :=
  flat_map (fun n => flat_map (fun t => flat_map (fun c => [key_of n t c false aps; key_of n t c true aps])
                                                 (traces_of g)) (traces_of g)) (dom_list g).

(** the fuel that always suffices: computed from the graph only *)
Definition fuel_bound (g : graph) : nat := S (S (length (keys_for g [1%positive]))).

Section Term.
  Variable g : graph.
  Variable P : preds.
  Variable cfg : config.
  Variable ord : oracle.
  Variable src : id.
  Hypothesis Hord : ord_perm ord.
  Hypothesis Hpi : path_insensitive g.

  Lemma in_dom_list n : in_dom g n -> In n (dom_list g).
  Proof.
    unfold in_dom, node_of, dom_list. destruct (PositiveMap.find n (g_nodes g)) as [nd|] eqn:E; [|congruence].
    intros _. apply PositiveMap.elements_correct in E. apply in_map_iff. exists (n, nd). auto.
  Qed.

  Lemma wf_trace_traces t : wf_trace g t -> In t (traces_of g).
  Proof.
    intros [Hnd Hall]. rewrite Forall_forall in Hall.
    assert (incl t (dom_list g)) as Hi by (intros x Hx; apply in_dom_list; auto).
    apply lists_upto_complete; [|exact Hi].
    apply NoDup_incl_length; [|exact Hi]. eapply NoDup_map_inv; eauto.
  Qed.

  Lemma key_in_keys v aps : in_dom g (v_node v) -> wf_v g v -> v_aps v = aps -> In (vkey v) (keys_for g aps).
  Proof.
    intros Hd [Ht Hc] Ha. unfold keys_for. change (vkey v) with (key_of (v_node v) (v_trace v) (v_ctrace v) (v_kind v) (v_aps v)). rewrite Ha.
    apply in_flat_map. exists (v_node v). split; [apply in_dom_list; exact Hd|].
    apply in_flat_map. exists (v_trace v). split; [apply wf_trace_traces; exact Ht|].
    apply in_flat_map. exists (v_ctrace v). split; [apply wf_trace_traces; exact Hc|].
    destruct (v_kind v); simpl; auto.
  Qed.

  Definition Qv (aps : list positive) (v : vnode) : Prop := wf_v g v /\ v_aps v = aps.

  Lemma add_all_inv aps : forall cds s j cur q seen q' seen' S,
    add_all g P cfg ord s j cur cds q seen = Ok (q', seen') ->
    (forall cd, In cd cds -> cand_inv g cur cd) -> Qv aps cur ->
    represents S seen -> NoDup S -> incl S (keys_for g aps) ->
    exists new S', q' = q ++ new /\ represents S' seen' /\ NoDup S' /\ incl S' (keys_for g aps) /\
                   length S' = length S + length new /\ Forall (Qv aps) new.
  Proof using Hpi.
    induction cds as [|cd cds IH]; simpl; intros s j cur q seen q' seen' S H Hc Hq Hr Hn Hi.
    - injection H as <- <-. exists [], S. rewrite app_nil_r.
      split; [reflexivity|]. split; [exact Hr|]. split; [exact Hn|]. split; [exact Hi|]. split; [simpl; lia|constructor].
    - apply bind_ok in H as (o & Hm & H).
      assert (forall cd', In cd' cds -> cand_inv g cur cd') as Hc' by (intros; apply Hc; right; assumption).
      destruct o as [nv|].
      + destruct Hq as [Hw Ha].
        pose proof (make_next_inv g P cfg ord s j cur cd nv Hm (Hc cd (or_introl eq_refl)) Hw) as (Hwn & Hdn & _).
        pose proof (make_next_aps_const g P cfg ord s j cur cd nv Hpi Hm (Hc cd (or_introl eq_refl)) Hw) as Han.
        destruct (lt_mem (vkey nv) seen) eqn:Em.
        * eapply IH; eauto. split; assumption.
        * assert (~ In (vkey nv) S) as Hni by (intro Hin; apply Hr in Hin; congruence).
          destruct (IH _ _ _ _ _ _ _ (vkey nv :: S) H Hc' (conj Hw Ha)) as (new & S' & -> & Hr' & Hn' & Hi' & Hl' & Hf').
          -- apply represents_add. exact Hr.
          -- constructor; assumption.
          -- intros k [<-|Hk]; [|apply Hi; exact Hk]. apply key_in_keys; auto. congruence.
          -- exists (nv :: new), S'. rewrite <- app_assoc. simpl.
             split; [reflexivity|]. split; [exact Hr'|]. split; [exact Hn'|]. split; [exact Hi'|]. split.
             ++ simpl in Hl'. lia.
             ++ constructor; [|exact Hf']. split; [exact Hwn|congruence].
      + eapply IH; eauto.
  Qed.

  Lemma loop_terminates aps : forall fuel st S,
    represents S (st_seen st) -> NoDup S -> incl S (keys_for g aps) -> Forall (Qv aps) (st_queue st) ->
    length (st_queue st) + (length (keys_for g aps) - length S) < fuel ->
    forall st', loop g P cfg ord src fuel st <> OutOfFuel st'.
  Proof using Hord Hpi.
    induction fuel as [|fuel IH]; intros st S Hr Hn Hi Hq Hm st'.
    - lia.
    - simpl. destruct (st_queue st) as [|cur q] eqn:Eq; [discriminate|].
      inversion Hq as [|? ? Hcur Hq']; subst. simpl in Hm.
      destruct (stop_of g P cfg cur) as [[r|]|c] eqn:Es; [| |discriminate].
      + destruct r.
        * eapply IH with (S := S); simpl; eauto. lia.
        * destruct (_ && _); [discriminate|]. eapply IH with (S := S); simpl; eauto. lia.
        * eapply IH with (S := S); simpl; eauto. lia.
        * eapply IH with (S := S); simpl; eauto. lia.
      + destruct (expand g cfg ord src (st_step st) cur) as [cds|c] eqn:Ee; [|discriminate].
        destruct (add_all g P cfg ord (st_step st) 16 cur cds q (st_seen st)) as [[q' seen']|c] eqn:Ea; [|discriminate].
        destruct (add_all_inv aps _ _ _ _ _ _ _ _ S Ea (expand_inv g cfg ord src Hord _ _ _ Ee) Hcur Hr Hn Hi)
          as (new & S' & -> & Hr' & Hn' & Hi' & Hl' & Hf').
        eapply IH with (S := S'); simpl; eauto.
        * apply Forall_app. split; assumption.
        * pose proof (NoDup_incl_length Hn' Hi'). rewrite app_length. lia.
  Qed.

End Term.

(** [visit_terminates]: for every path-insensitive graph, every taint problem, configuration, source, entry context with a
    lasso-free call stack and every iteration-order oracle, the run with fuel [fuel_bound g] does not end in [OutOfFuel]. *)
Theorem visit_terminates_lemma :
  forall (g : graph) (P : preds) (cfg : config) (ord : oracle) (src : id) (t : list id) (alarms : N),
    ord_perm ord -> path_insensitive g -> wf_trace g t ->
    forall st, visit g P cfg ord src (fuel_bound g) t alarms <> OutOfFuel st.
Proof.
  intros g P cfg ord src t alarms Hord Hpi Ht st. unfold visit, fuel_bound.
  eapply (loop_terminates g P cfg ord src Hord Hpi [1%positive]) with (S := []).
  - apply represents_empty.
  - constructor.
  - intros k [].
  - simpl. constructor; [|constructor]. split; [|reflexivity]. split; [exact Ht|apply wf_trace_nil].
  - simpl. lia.
Qed.
