(** * [visit_terminates]: the traversal model never runs out of the fuel [fuel_bound g] on a path-insensitive graph.

    Argument (DESIGN 9, C07): call and closure traces of queued visitor nodes are lasso-free ([wf_trace]) because a
    successor whose trace has a lasso is not queued; lasso-free traces over the finitely many nodes of the graph are
    finitely many; with constant access paths the keys range over the finite list [keys_for g aps]; every loop
    iteration dequeues one node and enqueues only nodes whose key is added to [seen] for the first time.  *)
From Coq Require Import List PArith NArith ZArith Bool FMapPositive Lia Permutation Sorted.
From Argot Require Import Model.Visit Proofs.VisitBase Proofs.VisitInv.
Import ListNotations.

Set Default Proof Using "Type".

Local Opaque lt_mem lt_add.

(** all lists of length <= n over an alphabet *)
Fixpoint lists_upto (A : list id) (n : nat) : list (list id) :=
  match n with
  | O => [[]]
  | S m => [] :: flat_map (fun l => map (fun a => a :: l) A) (lists_upto A m)
  end.

Lemma lists_upto_complete A : forall n l, length l <= n -> incl l A -> In l (lists_upto A n).
Proof.
  induction n as [|n IH]; intros l Hl Hi; destruct l as [|x l]; simpl in *.
  - auto.
  - lia.
  - auto.
  - right. apply in_flat_map. exists l. split.
    + apply IH; [lia|]. intros y Hy. apply Hi. right. exact Hy.
    + apply (in_map (fun a => a :: l)). apply Hi. left. reflexivity.
Qed.

Definition dom_list (g : graph) : list id := map fst (PositiveMap.elements (g_nodes g)).

Definition traces_of (g : graph) : list (list id) := lists_upto (dom_list g) (length (dom_list g)).

(** the finite universe of keys, for access paths ranging over the finite list [APS] *)
Definition keys_for (g : graph) (APS : list (list positive)) : list (list positive) :=
  flat_map (fun aps =>
    flat_map (fun n => flat_map (fun t => flat_map (fun c => [key_of n t c false aps; key_of n t c true aps])
                                                   (traces_of g)) (traces_of g)) (dom_list g)) APS.

(** the fuel that always suffices in path-insensitive mode: computed from the graph only *)
Definition fuel_bound (g : graph) : nat := S (S (length (keys_for g [[1%positive]]))).

(** all relative out-paths occurring on edges of the graph *)
Definition path_list (g : graph) : list positive :=
  flat_map (fun kn : positive * node =>
              flat_map (fun de : id * list edgeinfo => flat_map (fun e => map snd (e_relpath e)) (snd de)) (n_out (snd kn)))
           (PositiveMap.elements (g_nodes g)).

(** access paths of the REPAIRED [addNext]: the initial [""], or a duplicate-free list of paths of the graph *)
Definition aps_fixed (g : graph) : list (list positive) :=
  [1%positive] :: lists_upto (path_list g) (length (path_list g)).

Definition fuel_bound_fs (g : graph) : nat := S (S (length (keys_for g (aps_fixed g)))).

Section Term.
  Variable g : graph.
  Variable P : preds.
  Variable cfg : config.
  Variable ord : oracle.
  Variable src : id.
  Hypothesis Hord : ord_perm ord.
  Variable APS : list (list positive).
  (** the access paths stay in the finite set [APS] *)
  Hypothesis Haps : forall s j cur cd nv,
    make_next g P cfg ord s j cur cd = Ok (Some nv) -> cand_inv g cur cd -> wf_v g cur ->
    In (v_aps cur) APS -> In (v_aps nv) APS.

  Lemma in_dom_list n : in_dom g n -> In n (dom_list g).
  Proof.
    unfold in_dom, node_of, dom_list. destruct (PositiveMap.find n (g_nodes g)) as [nd|] eqn:E; [|congruence].
    intros _. apply PositiveMap.elements_correct in E. apply in_map_iff. exists (n, nd). auto.
  Qed.

  Lemma wf_trace_traces t : wf_trace g t -> In t (traces_of g).
  Proof.
    intros [Hnd Hall]. rewrite Forall_forall in Hall.
    assert (incl t (dom_list g)) as Hi by (intros x Hx; apply in_dom_list; auto).
    apply lists_upto_complete; [|exact Hi].
    apply NoDup_incl_length; [|exact Hi]. eapply NoDup_map_inv; eauto.
  Qed.

  Lemma key_in_keys v : in_dom g (v_node v) -> wf_v g v -> In (v_aps v) APS -> In (vkey v) (keys_for g APS).
  Proof.
    intros Hd [Ht Hc] Ha. unfold keys_for.
    change (vkey v) with (key_of (v_node v) (v_trace v) (v_ctrace v) (v_kind v) (v_aps v)).
    apply in_flat_map. exists (v_aps v). split; [exact Ha|].
    apply in_flat_map. exists (v_node v). split; [apply in_dom_list; exact Hd|].
    apply in_flat_map. exists (v_trace v). split; [apply wf_trace_traces; exact Ht|].
    apply in_flat_map. exists (v_ctrace v). split; [apply wf_trace_traces; exact Hc|].
    destruct (v_kind v); simpl; auto.
  Qed.

  Definition Qv (v : vnode) : Prop := wf_v g v /\ In (v_aps v) APS.

  Lemma add_all_inv : forall cds s j cur q seen q' seen' S,
    add_all g P cfg ord s j cur cds q seen = Ok (q', seen') ->
    (forall cd, In cd cds -> cand_inv g cur cd) -> Qv cur ->
    represents S seen -> NoDup S -> incl S (keys_for g APS) ->
    exists new S', q' = q ++ new /\ represents S' seen' /\ NoDup S' /\ incl S' (keys_for g APS) /\
                   length S' = length S + length new /\ Forall Qv new.
  Proof using Haps.
    induction cds as [|cd cds IH]; simpl; intros s j cur q seen q' seen' S H Hc Hq Hr Hn Hi.
    - injection H as <- <-. exists [], S. rewrite app_nil_r.
      split; [reflexivity|]. split; [exact Hr|]. split; [exact Hn|]. split; [exact Hi|]. split; [simpl; lia|constructor].
    - apply bind_ok in H as (o & Hm & H).
      assert (forall cd', In cd' cds -> cand_inv g cur cd') as Hc' by (intros; apply Hc; right; assumption).
      destruct o as [nv|].
      + destruct Hq as [Hw Ha].
        pose proof (make_next_inv g P cfg ord s j cur cd nv Hm (Hc cd (or_introl eq_refl)) Hw) as (Hwn & Hdn & _).
        pose proof (Haps s j cur cd nv Hm (Hc cd (or_introl eq_refl)) Hw Ha) as Han.
        destruct (lt_mem (vkey nv) seen) eqn:Em.
        * eapply IH; eauto. split; assumption.
        * assert (~ In (vkey nv) S) as Hni by (intro Hin; apply Hr in Hin; congruence).
          destruct (IH _ _ _ _ _ _ _ (vkey nv :: S) H Hc' (conj Hw Ha)) as (new & S' & -> & Hr' & Hn' & Hi' & Hl' & Hf').
          -- apply represents_add. exact Hr.
          -- constructor; assumption.
          -- intros k [<-|Hk]; [|apply Hi; exact Hk]. apply key_in_keys; auto.
          -- exists (nv :: new), S'. rewrite <- app_assoc. simpl.
             split; [reflexivity|]. split; [exact Hr'|]. split; [exact Hn'|]. split; [exact Hi'|]. split.
             ++ simpl in Hl'. lia.
             ++ constructor; [|exact Hf']. split; [exact Hwn|exact Han].
      + eapply IH; eauto.
  Qed.

  Lemma loop_terminates : forall fuel st S,
    represents S (st_seen st) -> NoDup S -> incl S (keys_for g APS) -> Forall Qv (st_queue st) ->
    length (st_queue st) + (length (keys_for g APS) - length S) < fuel ->
    forall st', loop g P cfg ord src fuel st <> OutOfFuel st'.
  Proof using Hord Haps.
    induction fuel as [|fuel IH]; intros st S Hr Hn Hi Hq Hm st'.
    - lia.
    - simpl. destruct (st_queue st) as [|cur q] eqn:Eq; [discriminate|].
      inversion Hq as [|? ? Hcur Hq']; subst. simpl in Hm.
      destruct (stop_of g P cfg cur) as [[r|]|c] eqn:Es; [| |discriminate].
      + destruct r.
        * eapply IH with (S := S); simpl; eauto. lia.
        * destruct (_ && _); [discriminate|]. eapply IH with (S := S); simpl; eauto. lia.
        * eapply IH with (S := S); simpl; eauto. lia.
        * eapply IH with (S := S); simpl; eauto. lia.
      + destruct (expand g cfg ord src (st_step st) cur) as [cds|c] eqn:Ee; [|discriminate].
        destruct (add_all g P cfg ord (st_step st) 16 cur cds q (st_seen st)) as [[q' seen']|c] eqn:Ea; [|discriminate].
        destruct (add_all_inv _ _ _ _ _ _ _ _ S Ea (expand_inv g cfg ord src Hord _ _ _ Ee) Hcur Hr Hn Hi)
          as (new & S' & -> & Hr' & Hn' & Hi' & Hl' & Hf').
        eapply IH with (S := S'); simpl; eauto.
        * apply Forall_app. split; assumption.
        * pose proof (NoDup_incl_length Hn' Hi'). rewrite app_length. lia.
  Qed.

  Lemma visit_terminates_gen t alarms :
    wf_trace g t -> In [1%positive] APS ->
    forall st, visit g P cfg ord src (S (S (length (keys_for g APS)))) t alarms <> OutOfFuel st.
  Proof using Hord Haps.
    intros Ht H1 st. unfold visit.
    eapply loop_terminates with (S := []).
    - apply represents_empty.
    - constructor.
    - intros k [].
    - simpl. constructor; [|constructor]. split; [|exact H1]. split; [exact Ht|apply wf_trace_nil].
    - simpl. lia.
  Qed.

End Term.

(** [visit_terminates]: for every path-insensitive graph, every taint problem, configuration, source, entry context with a
    lasso-free call stack and every iteration-order oracle, the run with fuel [fuel_bound g] does not end in [OutOfFuel]. *)
Theorem visit_terminates_lemma :
  forall (g : graph) (P : preds) (cfg : config) (ord : oracle) (src : id) (t : list id) (alarms : N),
    ord_perm ord -> path_insensitive g -> wf_trace g t ->
    forall st, visit g P cfg ord src (fuel_bound g) t alarms <> OutOfFuel st.
Proof.
  intros g P cfg ord src t alarms Hord Hpi Ht st. unfold fuel_bound.
  apply (visit_terminates_gen g P cfg ord src Hord [[1%positive]]); [|exact Ht|left; reflexivity].
  intros s j cur cd nv Hm Hc Hw [E|[]].
  left. symmetry. apply (make_next_aps_const g P cfg ord s j cur cd nv Hpi Hm Hc Hw). symmetry. exact E.
Qed.

(** ** The repaired [addNext] terminates in field-sensitive mode as well *)

Section Fixed.
  Variable g : graph.

  Lemma ins_path_in x l y : In y (ins_path g x l) -> y = x \/ In y l.
  Proof.
    induction l as [|z l IH]; simpl.
    - intros [<-|[]]. auto.
    - destruct (Pos.compare (g_prank g x) (g_prank g z)).
      + intros H. right. exact H.
      + intros [<-|H]; [auto|right; exact H].
      + intros [<-|H]; [right; left; reflexivity|]. destruct (IH H) as [->|H']; [auto|right; right; exact H'].
  Qed.

  Lemma sort_dedup_in l y : In y (sort_dedup g l) -> In y l.
  Proof.
    induction l as [|x l IH]; simpl; [auto|]. intros H. apply ins_path_in in H as [->|H]; [auto|right; apply IH; exact H].
  Qed.

  (** strictly increasing ranks *)
  Definition rsorted (l : list positive) : Prop :=
    StronglySorted (fun a b => Pos.lt (g_prank g a) (g_prank g b)) l.

  Lemma ins_path_sorted x : forall l, rsorted l -> rsorted (ins_path g x l).
  Proof.
    induction l as [|z l IH]; simpl; intros Hs.
    - constructor; constructor.
    - inversion Hs as [|? ? Hl Hz]; subst.
      destruct (Pos.compare (g_prank g x) (g_prank g z)) eqn:Ec.
      + exact Hs.
      + apply Pos.compare_lt_iff in Ec. constructor; [exact Hs|].
        constructor; [exact Ec|]. rewrite Forall_forall in *. intros y Hy. eapply Pos.lt_trans; [exact Ec|apply Hz; exact Hy].
      + apply Pos.compare_gt_iff in Ec. constructor; [apply IH; exact Hl|].
        rewrite Forall_forall in *. intros y Hy. apply ins_path_in in Hy as [->|Hy]; [exact Ec|apply Hz; exact Hy].
  Qed.

  Lemma sort_dedup_sorted l : rsorted (sort_dedup g l).
  Proof. induction l as [|x l IH]; simpl; [constructor|apply ins_path_sorted; exact IH]. Qed.

  Lemma rsorted_nodup l : rsorted l -> NoDup l.
  Proof.
    induction l as [|x l IH]; intros Hs; [constructor|].
    inversion Hs as [|? ? Hl Hx]; subst. constructor; [|apply IH; exact Hl].
    intros Hin. rewrite Forall_forall in Hx. specialize (Hx x Hin). apply Pos.lt_irrefl in Hx. exact Hx.
  Qed.

  Lemma edge_paths_in_list n nd dst eis e io :
    node_of g n = Some nd -> In (dst, eis) (n_out nd) -> In e eis -> In io (e_relpath e) -> In (snd io) (path_list g).
  Proof.
    intros Hn Hd He Hio. unfold path_list, node_of in *. apply PositiveMap.elements_correct in Hn.
    apply in_flat_map. exists (n, nd). split; [exact Hn|]. simpl.
    apply in_flat_map. exists (dst, eis). split; [exact Hd|]. simpl.
    apply in_flat_map. exists e. split; [exact He|]. apply in_map. exact Hio.
  Qed.
End Fixed.

Theorem visit_terminates_fixed_lemma :
  forall (g : graph) (P : preds) (cfg : config) (ord : oracle) (src : id) (t : list id) (alarms : N),
    ord_perm ord -> c_fixaps cfg = true -> wf_trace g t ->
    forall st, visit g P cfg ord src (fuel_bound_fs g) t alarms <> OutOfFuel st.
Proof.
  intros g P cfg ord src t alarms Hord Hfix Ht st. unfold fuel_bound_fs.
  apply (visit_terminates_gen g P cfg ord src Hord (aps_fixed g)); [|exact Ht|left; reflexivity].
  intros s j cur cd nv Hm Hc Hw Hin.
  pose proof (make_next_inv g P cfg ord s j cur cd nv Hm Hc Hw) as (_ & _ & _ & _ & _ & _ & _ & Hn & _).
  destruct Hc as (_ & _ & He).
  unfold cand_aps, next_aps in Hn. rewrite Hfix in Hn.
  assert (forall l, incl l (path_list g) -> In (sort_dedup g l) (lists_upto (path_list g) (length (path_list g)))) as Hsd.
  { intros l Hl. apply lists_upto_complete.
    - apply NoDup_incl_length; [apply (rsorted_nodup g); apply sort_dedup_sorted|].
      intros y Hy. apply Hl. apply sort_dedup_in in Hy. exact Hy.
    - intros y Hy. apply Hl. apply sort_dedup_in in Hy. exact Hy. }
  assert (forall io, In io (e_relpath (c_edge cd)) -> In (snd io) (path_list g)) as Hrel.
  { intros io Hio. destruct He as [E|(n & nd & dst & eis & H1 & H2 & H3)]; [rewrite E in Hio; destruct Hio|].
    eapply edge_paths_in_list; eauto. }
  destruct (N.eqb (e_nin (c_edge cd)) 0 || (N.eqb (e_nin (c_edge cd)) 1 && e_ee (c_edge cd))).
  - destruct (same_presum g cur cd).
    + injection Hn as <-. left. reflexivity.
    + destruct (v_aps cur); [discriminate|]. injection Hn as <-. exact Hin.
  - match type of Hn with context [sort_dedup g (flat_map ?f ?l)] => set (comp := flat_map f l) in * end.
    assert (incl comp (path_list g)) as Hcomp.
    { intros y Hy. unfold comp in Hy. apply in_flat_map in Hy as (io & Hio & Hy). apply (ord_in _ Hord) in Hio.
      apply in_flat_map in Hy as (ap & _ & Hy). destruct (g_pfx g (fst io) ap); [|destruct Hy].
      destruct Hy as [<-|[]]. apply Hrel. exact Hio. }
    destruct (sort_dedup g comp) as [|a l'] eqn:Esd.
    + destruct (N.ltb 0 (e_nin (c_edge cd)) && negb (g_labelled g (edge_source cur cd))); [|discriminate].
      destruct (sort_dedup g (map snd (e_relpath (c_edge cd)))) as [|b l''] eqn:Esd2; [discriminate|].
      injection Hn as <-. rewrite <- Esd2. right. apply Hsd.
      intros y Hy. apply in_map_iff in Hy as (io & <- & Hio). apply Hrel. exact Hio.
    + injection Hn as <-. rewrite <- Esd. right. apply Hsd. exact Hcomp.
Qed.
