(** * C03: witness graphs (non-vacuity examples and refutations), all by computation *)
From Coq Require Import List PArith NArith ZArith Bool FMapPositive.
Import ListNotations.
From Argot Require Import Model.Back Proofs.BackBase Proofs.BackWf Proofs.BackCover Proofs.BackTerm.
Local Open Scope positive_scope.

Definition nd k gr idx par fa fb sm fn ins i o l := mkNode k gr idx par fa fb sm fn ins i o l.
Definition mk_nodes (l : list (positive * node)) :=
  fold_right (fun e m => PositiveMap.add (fst e) (snd e) m) (PositiveMap.empty node) l.
Definition mk_graphs (l : list (positive * sgraph)) :=
  fold_right (fun e m => PositiveMap.add (fst e) (snd e) m) (PositiveMap.empty sgraph) l.
Definition mk_globals (l : list (positive * list nid)) :=
  fold_right (fun e m => PositiveMap.add (fst e) (snd e) m) (PositiveMap.empty (list nid)) l.
Definition cfg_eager := mkConfig false None false false false.
Definition cfg_ondemand := mkConfig true None false false false.
Definition sg0 := mkSGraph true [] [] [] [] [].

(** [x := origin(); bt(x)]: 1 = argument of bt, 2 = call bt, 3 = call origin, 4 = origin's return value *)
Definition g_direct := mkGraph
  (mk_nodes [(1, nd KArg 1 0%nat 2 false false None 0%N 0%N [(3, 0%Z)] [] []);
             (2, nd KCall 1 0%nat 1 false false None 1%N 1%N [] [] [1]);
             (3, nd KCall 1 0%nat 1 false false (Some 2) 2%N 2%N [] [(1, [0%Z])] []);
             (4, nd KReturn 2 0%nat 1 false false None 0%N 0%N [] [] [])])
  (mk_graphs [(1, sg0); (2, mkSGraph true [] [] [4] [3] [])])
  (mk_globals []).

Lemma direct_run :
  let '(s, o) := back no_oracle g_direct cfg_eager 100%nat empty_pei 1 in
  o = Done /\ traces s = [[4; 3; 1]] /\ silent s = [] /\ closed_runb g_direct cfg_eager s = true.
Proof. vm_compute. auto. Qed.

(** [bt(G)] where the global G is only read (e.g. os.Args): 3 = read access of global 1, no write location *)
Definition g_glob := mkGraph
  (mk_nodes [(1, nd KArg 1 0%nat 2 false false None 0%N 0%N [(3, 0%Z)] [] []);
             (2, nd KCall 1 0%nat 1 false false None 1%N 1%N [] [] [1]);
             (3, nd KGlobal 1 0%nat 1 false false (Some 1) 0%N 0%N [] [(1, [0%Z])] [])])
  (mk_graphs [(1, sg0)])
  (mk_globals [(1, [])]).

(** eagerly the global read is a base case and its trace is recorded; on demand [isBaseCase] assumes inter-procedural
    edges, the read has no write location, nothing is pushed, and a Global node records nothing: a silent leaf *)
Lemma glob_eager :
  let '(s, o) := back no_oracle g_glob cfg_eager 100%nat empty_pei 1 in o = Done /\ traces s = [[3; 1]] /\ silent s = [].
Proof. vm_compute. auto. Qed.

Lemma glob_ondemand :
  let '(s, o) := back no_oracle g_glob cfg_ondemand 100%nat empty_pei 1 in
  o = Done /\ traces s = [] /\ silent s = [[3; 1]] /\ map v_node (visited s) = [3; 1].
Proof. vm_compute. auto. Qed.

(** [func two() (T, T) { return o4(), o5() }; a, b := two(); bt(a + b)]:
    3 = call two with Out() edge infos 1 and 0 to the argument, but In() of the argument keeps ONE info per source (0);
    4, 5 = return values 0 and 1; 6, 7 = their origins *)
Definition g_tuple := mkGraph
  (mk_nodes [(1, nd KArg 1 0%nat 2 false false None 0%N 0%N [(3, 0%Z)] [] []);
             (2, nd KCall 1 0%nat 1 false false None 1%N 1%N [] [] [1]);
             (3, nd KCall 1 0%nat 1 false false (Some 2) 2%N 2%N [] [(1, [1%Z; 0%Z])] []);
             (4, nd KReturn 2 0%nat 1 false false None 0%N 0%N [(6, 0%Z)] [] []);
             (5, nd KReturn 2 1%nat 1 false false None 0%N 0%N [(7, 0%Z)] [] []);
             (6, nd KSynth 2 0%nat 1 false false None 0%N 0%N [] [(4, [0%Z])] []);
             (7, nd KSynth 2 0%nat 1 false false None 0%N 0%N [] [(5, [0%Z])] [])])
  (mk_graphs [(1, sg0); (2, mkSGraph true [] [] [4; 5] [3] [])])
  (mk_globals []).

Definition tuple_state : state := fst (back no_oracle g_tuple cfg_eager 100%nat empty_pei 1).

Lemma tuple_run :
  back no_oracle g_tuple cfg_eager 100%nat empty_pei 1 = (tuple_state, Done) /\
  traces tuple_state = [[6; 4; 3; 1]] /\ silent tuple_state = [] /\ closed_runb g_tuple cfg_eager tuple_state = false.
Proof. vm_compute. auto. Qed.

(** with the tuple repair ([fix_tuple]) both return values are followed and the run is closed *)
Definition cfg_fix_tuple := mkConfig false None false true false.

Lemma tuple_fixed_run :
  let '(s, o) := back no_oracle g_tuple cfg_fix_tuple 100%nat empty_pei 1 in
  o = Done /\ traces s = [[6; 4; 3; 1]; [7; 5; 3; 1]] /\ silent s = [] /\ closed_runb g_tuple cfg_fix_tuple s = true.
Proof. vm_compute. auto. Qed.

Definition c3 := mkC 3 [] [] false 0%Z [0%Z].
Definition c5 := mkC 5 [3] [] false 0%Z [].
Definition c7 := mkC 7 [3] [] false 0%Z [].

Lemma tuple_reach7 : vreach g_tuple cfg_eager 1 (next_of (next_of (next_of (root 1) c3) c5) c7).
Proof.
  apply vr_step; [apply vr_step; [apply vr_step; [apply vr_root|]|]|]; vm_compute; auto.
Qed.

Lemma tuple_not_covered : ~ back_cover g_tuple cfg_eager 1 tuple_state.
Proof.
  intros H. destruct (H _ tuple_reach7) as [t [Ht Hin]].
  destruct tuple_run as [_ [Htr _]]. rewrite Htr in Ht. destruct Ht as [E|[]]. subst t.
  simpl in Hin. repeat (destruct Hin as [Hin|Hin]; [discriminate|]). exact Hin.
Qed.

(** a closure created inside a call made by another closure: the closure trace of the outer closure (3) is used to
    leave the inner one (free variable 7 of graph 3) — the step 7 -> 2 is on the recorded trace although closure node 3
    does not create the closure that owns 7 *)
Definition g_clo := mkGraph
  (mk_nodes [(1, nd KArg 1 0%nat 8 false false None 0%N 0%N [(2, 0%Z)] [] []);
             (8, nd KCall 1 0%nat 1 false false None 1%N 1%N [] [] [1]);
             (2, nd KBoundVar 1 0%nat 3 false false None 0%N 0%N [] [(1, [0%Z])] []);
             (3, nd KClosure 1 0%nat 1 false false (Some 2) 0%N 0%N [] [] [2]);
             (4, nd KFreeVar 2 0%nat 1 false false None 0%N 0%N [(5, 0%Z)] [] []);
             (5, nd KCall 2 0%nat 1 false false (Some 3) 3%N 3%N [] [(4, [0%Z])] []);
             (6, nd KReturn 3 0%nat 1 false false None 0%N 0%N [(7, 0%Z)] [] []);
             (7, nd KFreeVar 3 0%nat 1 false false None 0%N 0%N [] [(6, [0%Z])] [])])
  (mk_graphs [(1, sg0); (2, mkSGraph true [] [Some 4] [] [] [3]); (3, mkSGraph true [] [Some 7] [6] [5] [])])
  (mk_globals []).

Lemma clo_run :
  let '(s, o) := back no_oracle g_clo cfg_eager 100%nat empty_pei 1 in
  o = Done /\ traces s = [[7; 6; 5; 4; 2; 7; 6; 5; 4; 2; 1]] /\
  map (trace_wfb g_clo 1) (traces s) = [true] /\ map (chain_strictb g_clo) (traces s) = [false].
Proof. vm_compute. auto. Qed.
