(** * Finite facts about the regenerated tables, witness programs (C18)

    Everything here is re-proved (by [vm_compute]) against coq/gen/GenReach.v, i.e. against what
    analysis/reachability/value_visitor.go and reachable_functions.go say on the checked tree. *)
From Coq Require Import List PArith Bool FMapPositive.
From Argot Require Import Model.Reach Model.ReachGen Proofs.Reach.
From ArgotGen Require Import GenReach.
Import ListNotations.
Local Open Scope positive_scope.

Lemma tables_wf_holds : tables_wf gen_tables = true.
Proof. vm_compute. reflexivity. Qed.

Lemma call_cover_holds : call_cover gen_tables = true.
Proof. vm_compute. reflexivity. Qed.

(** the visitor visits every operand field that may hold a function constant, except (at most) the arguments of
    deferred and go calls *)
Lemma operand_cover_except_known : operand_cover_except gen_tables known_uncovered = true.
Proof. vm_compute. reflexivity. Qed.

Lemma known_uncovered_resolved : length known_uncovered = 2%nat.
Proof. vm_compute. reflexivity. Qed.

(** ** Witness programs (ids of [GenReach]) *)

Definition fnval (f : positive) : value := mkValue T_Function (Some f) [].
Definition leaf (f : positive) : func := mkFunc f false false (PM.empty value) [].
Definition all_roots : sel := mkSel false false.

(** [func main() { defer runit(hidden) }]: 1 = main, 2 = runit, 3 = hidden *)
Definition ex_defer : program :=
  [ mkFunc 1 true false (vals_of_list [(1, fnval 2); (2, fnval 3)])
      [ mkInstr T_Defer false [(K_Call_Value, [1]); (K_Call_Args, [2])] [] [] ];
    leaf 2; leaf 3 ].

Lemma ex_defer_wf : wf_refs ex_defer = true /\ wf_ops gen_tables ex_defer = true.
Proof. vm_compute. auto. Qed.

Lemma ex_defer_executed : executed gen_tables (index ex_defer) (roots all_roots ex_defer) 3.
Proof.
  eapply (ex_operand _ _ _ 1 _ _ K_Call_Args [2] 2 3).
  - apply ex_root. vm_compute. auto.
  - vm_compute. reflexivity.
  - left. reflexivity.
  - right. left. reflexivity.
  - left. reflexivity.
  - vm_compute. reflexivity.
Qed.

(** [var a A = T{}; a.M(); a.(B).N()]: 1 = main, 2 = T.M, 3 = T.N; method names 1 = M, 2 = N.  The TypeAssert carries the
    methods of the runtime types implementing B (here T) *)
Definition ex_widen_mk : instr := mkInstr T_MakeInterface false [] [(1, 2); (2, 3)] [1].
Definition ex_widen_ta : instr := mkInstr T_TypeAssert false [] [(1, 2); (2, 3)] [2].
Definition ex_widen : program :=
  [ mkFunc 1 true false (PM.empty value) [ ex_widen_mk; ex_widen_ta ]; leaf 2; leaf 3 ].

Lemma ex_widen_wf : wf_refs ex_widen = true /\ wf_ops gen_tables ex_widen = true.
Proof. vm_compute. auto. Qed.

Lemma ex_widen_executed : executed gen_tables (index ex_widen) (roots all_roots ex_widen) 3.
Proof.
  eapply (ex_assert _ _ _ 1 _ ex_widen_mk 2 3 1 _ ex_widen_ta).
  - apply ex_root. vm_compute. auto.
  - vm_compute. reflexivity.
  - left. reflexivity.
  - vm_compute. reflexivity.
  - right. left. reflexivity.
  - apply ex_root. vm_compute. auto.
  - vm_compute. reflexivity.
  - right. left. reflexivity.
  - vm_compute. reflexivity.
  - right. left. reflexivity.
  - left. reflexivity.
Qed.

(** a program on which all hypotheses of the soundness theorems hold (non-vacuity): a function stored in a global,
    a closure that is called, a method invoked through the interface its receiver is converted to, an init root,
    and an unreachable function.  1 = main, 2 = stored, 3 = closure body, 4 = method, 5 = init, 6 = never referenced *)
Definition ex_ok : program :=
  [ mkFunc 1 true false
      (vals_of_list [(1, fnval 2); (2, mkValue T_MakeClosure None [(K_Fn, [3])]); (3, fnval 3)])
      [ mkInstr T_Store false [(K_Val, [1])] [] [];
        mkInstr T_MakeClosure false [(K_Fn, [3])] [] [];
        mkInstr T_Call false [(K_Call_Value, [2])] [] [];
        mkInstr T_MakeInterface false [] [(1, 4)] [1] ];
    leaf 2; leaf 3; leaf 4; mkFunc 5 false true (PM.empty value) []; leaf 6 ].

Lemma ex_ok_facts :
  wf_refs ex_ok = true /\ wf_ops gen_tables ex_ok = true
  /\ exists out, reach_prog gen_tables ex_ok all_roots (prog_fuel ex_ok) = Done out
                 /\ cert_gaps gen_tables (index ex_ok) (roots all_roots ex_ok) out = []
                 /\ In 2 out /\ In 3 out /\ In 4 out /\ In 5 out /\ ~ In 6 out.
Proof.
  split; [vm_compute; reflexivity|]. split; [vm_compute; reflexivity|].
  eexists. split; [vm_compute; reflexivity|]. split; [vm_compute; reflexivity|].
  simpl. repeat split; auto 10. intros H. repeat (destruct H as [H|H]; [discriminate|]). exact H.
Qed.

(** with -nomain -noinit nothing is a root *)
Lemma ex_ok_noroots : reach_prog gen_tables ex_ok (mkSel true true) (prog_fuel ex_ok) = Done [].
Proof. vm_compute. reflexivity. Qed.
