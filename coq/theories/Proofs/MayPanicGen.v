(* T-gen tie for C19: the dispatch of the model (Model/MayPanic.v) agrees with the tables regenerated from the Go AST of
   analysis/maypanic/lightweight.go and internal/analysisutil/paths.go (coq/gen/GenMayPanic.v).  All statements are finite
   and closed by vm_compute; they are re-proved on every run against the code as it is now, so emptying or adding a
   branch in one of the three type switches, or changing a filter rule, breaks the corresponding theorem. *)
From Coq Require Import List String Bool.
From Argot Require Import Model.MayPanic.
From ArgotGen Require GenMayPanic.
Import ListNotations.
Local Open Scope string_scope.
Local Open Scope list_scope.

Definition form_of_tag (t : string) : option form :=
  match find (fun pf => String.eqb (fst pf) t) probe_forms with Some pf => Some (snd pf) | None => None end.

Definition table_action (tbl : list (string * string * string)) (kind tag : string) : option string :=
  match find (fun e => String.eqb (fst (fst e)) kind && String.eqb (snd (fst e)) tag) tbl with
  | Some e => Some (snd e)
  | None => None
  end.

(* (1) every branch listed in the table: the model acts the same on that form (a branch for a form the model does not
       distinguish must be empty, like the model's treatment of "other" values);
   (2) every (instruction kind, form) the table does not list: the model does nothing. *)
Definition switch_ok (act : string -> form -> string) (tbl : list (string * string * string)) : bool :=
  forallb (fun e => match form_of_tag (snd (fst e)) with
                    | Some fm => String.eqb (act (fst (fst e)) fm) (snd e)
                    | None => String.eqb (snd e) "empty"
                    end) tbl
  && forallb (fun k => forallb (fun pf => match table_action tbl k (fst pf) with
                                          | Some _ => true
                                          | None => String.eqb (act k (snd pf)) "empty"
                                          end) probe_forms) instr_kinds.

Lemma go_switch_matches_code : switch_ok go_action GenMayPanic.go_switch = true.
Proof. vm_compute. reflexivity. Qed.

Lemma recover_switch_matches_code : switch_ok recover_action GenMayPanic.recover_switch = true.
Proof. vm_compute. reflexivity. Qed.

Lemma defer_switch_matches_code : switch_ok defer_action GenMayPanic.defer_switch = true.
Proof. vm_compute. reflexivity. Qed.

(* the scans are plain nested loops over ALL functions / blocks / instructions, exactly as find_go_functions, does_recover
   and does_defer_recover_fn fold over every function and every instruction: no statement beside the switch (continue,
   break, return, filtering if) restricts what reaches it -- e.g. skipping synthetic functions (generic instances). *)
Lemma scans_have_no_guards :
  GenMayPanic.go_switch_guards ++ GenMayPanic.recover_switch_guards ++ GenMayPanic.defer_switch_guards = [].
Proof. vm_compute. reflexivity. Qed.

(* the filter: allowListed's rule, the guard/condition/action of the filter loop, the three rules of isExcludedOne *)
Definition pair_eqb (a b : string * string) : bool := String.eqb (fst a) (fst b) && String.eqb (snd a) (snd b).
Fixpoint list_eqb {A} (eq : A -> A -> bool) (l1 l2 : list A) : bool :=
  match l1, l2 with
  | [], [] => true
  | a :: r1, b :: r2 => eq a b && list_eqb eq r1 r2
  | _, _ => false
  end.

(* what the model implements, read off the model by probing it *)
Definition model_exclude_rule (excl : string) : string :=
  let eq     := is_excluded_one excl excl in                               (* file name equal to the pattern *)
  let below  := is_excluded_one (excl ++ "/x.go")%string excl in           (* file below pattern + "/" *)
  let glued  := is_excluded_one (excl ++ "x.go")%string excl in            (* pattern is a plain string prefix *)
  match eq, below, glued with
  | true, false, false => "eq"
  | true, true, true => "prefix"
  | false, true, false => "prefix-slash"
  | _, _, _ => "?"
  end.

Definition model_exclude_rules : list (string * string) :=
  [(".go", model_exclude_rule "/w/a.go"); ("/", model_exclude_rule "/w/d/"); ("", model_exclude_rule "/w/d")].

Definition model_allow_rule : string :=
  if allow_listed ["net"] "net" && allow_listed ["net"] "net/http" && negb (allow_listed ["net"] "network")
     && negb (allow_listed ["net"] "ne") && negb (allow_listed ["net"] "x/net")
  then "eq-or-prefix-slash" else "?".

Definition model_filter_shape : string * string * string :=
  let c := mkConfig ["net"] "/w" ["d"] in
  let guard := if filtered_fn c (mkFunc None "/w/d/a.go" []) then "?" else "pkg-non-nil" in
  let cond := if filtered_fn c (mkFunc (Some "net") "/w/a.go" []) && filtered_fn c (mkFunc (Some "p") "/w/d/a.go" [])
                 && negb (filtered_fn c (mkFunc (Some "p") "/w/a.go" []))
              then "allowlisted-or-excluded" else "?" in
  (guard, cond, "delete").

Definition filter_ok : bool :=
  String.eqb GenMayPanic.allow_rule model_allow_rule
  && list_eqb pair_eqb GenMayPanic.exclude_rules model_exclude_rules
  && String.eqb GenMayPanic.exclude_filename "position.Filename"
  && (let '(g, c, a) := GenMayPanic.filter_shape in let '(g', c', a') := model_filter_shape in
      String.eqb g g' && String.eqb c c' && String.eqb a a').

Lemma filter_matches_code : filter_ok = true.
Proof. vm_compute. reflexivity. Qed.
