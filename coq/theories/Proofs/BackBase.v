(** * Proofs about the backward traversal model (C03): basic lemmas, the candidate loop *)
From Coq Require Import List PArith NArith ZArith Bool Lia FMapPositive Permutation.
Import ListNotations.
From Argot Require Import Model.Back.

(** ** The oracle can only permute the candidates *)
Lemma rinsert_perm : forall x l, Permutation (rinsert x l) (x :: l).
Proof.
  induction l as [|y l IH]; simpl; auto.
  destruct (N.leb (fst x) (fst y)); auto.
  rewrite IH. apply perm_swap.
Qed.

Lemma with_ranks_snd : forall cs rs, map snd (with_ranks cs rs) = cs.
Proof.
  induction cs as [|c cs IH]; intros rs; simpl; auto.
  destruct rs; simpl; rewrite IH; reflexivity.
Qed.

Lemma sort_by_rank_perm : forall cs rs, Permutation (sort_by_rank cs rs) cs.
Proof.
  intros cs rs. unfold sort_by_rank.
  rewrite <- (with_ranks_snd cs rs) at 2.
  apply Permutation_map.
  induction (with_ranks cs rs) as [|x l IH]; simpl; auto.
  rewrite rinsert_perm. constructor. exact IH.
Qed.

(** ** Boolean equalities *)
Lemma list_pos_eqb_eq : forall a b, list_pos_eqb a b = true <-> a = b.
Proof.
  induction a as [|x a IH]; destruct b as [|y b]; simpl; split; intros H; try discriminate; auto.
  - apply andb_true_iff in H. destruct H as [H1 H2]. apply Pos.eqb_eq in H1. apply IH in H2. subst. reflexivity.
  - inversion H; subst. rewrite Pos.eqb_refl. simpl. apply IH. reflexivity.
Qed.

Lemma key_eqb_eq : forall a b, key_eqb a b = true <-> a = b.
Proof.
  intros [[[n1 t1] c1] k1] [[[n2 t2] c2] k2]. unfold key_eqb. split; intros H.
  - repeat (apply andb_true_iff in H; destruct H as [H ?]).
    apply Pos.eqb_eq in H. apply list_pos_eqb_eq in H2. apply list_pos_eqb_eq in H1. apply Bool.eqb_prop in H0.
    subst. reflexivity.
  - inversion H; subst. rewrite Pos.eqb_refl, Bool.eqb_reflx.
    rewrite (proj2 (list_pos_eqb_eq t2 t2) eq_refl), (proj2 (list_pos_eqb_eq c2 c2) eq_refl). reflexivity.
Qed.

Lemma seen_mem_In : forall k s, seen_mem k s = true <-> In k s.
Proof.
  intros k s. unfold seen_mem. rewrite existsb_exists. split.
  - intros [x [Hx He]]. apply key_eqb_eq in He. subst. exact Hx.
  - intros H. exists k. split; auto. apply key_eqb_eq. reflexivity.
Qed.

Lemma trace_mem_In : forall t l, trace_mem t l = true <-> In t l.
Proof.
  intros t l. unfold trace_mem. rewrite existsb_exists. split.
  - intros [x [Hx He]]. apply list_pos_eqb_eq in He. subst. exact Hx.
  - intros H. exists t. split; auto. apply list_pos_eqb_eq. reflexivity.
Qed.

Lemma pos_mem_In : forall x l, pos_mem x l = true <-> In x l.
Proof.
  intros x l. unfold pos_mem. rewrite existsb_exists. split.
  - intros [y [Hy He]]. apply Pos.eqb_eq in He. subst. exact Hy.
  - intros H. exists x. split; auto. apply Pos.eqb_refl.
Qed.

(** ** addNext / the candidate loop *)
Section Run.
Variable rank : oracle.
Variable g : graph.
Variable cfg : config.

Definition pushed (cur : vnode) (c : cand) (s : state) : state :=
  mkSt (next_of cur c :: stack s) (key_of (next_of cur c) :: seen s)
       (fold_left (fun m i => pei_add m (v_node cur) i) (c_pei c) (pei s))
       (traces s) (silent s) (visited s) (err s) (N.succ (n_adds s)).

Lemma add_next_cases : forall cur c s,
  (addable g cfg cur c s = VYes /\ add_next g cfg cur c s = (pushed cur c s, true)) \/
  (addable g cfg cur c s = VNo /\ add_next g cfg cur c s = (s, false)) \/
  (addable g cfg cur c s = VCrash /\ add_next g cfg cur c s = (set_err s CrNilPrev, false)).
Proof.
  intros cur c s. unfold add_next. destruct (addable g cfg cur c s); auto.
Qed.

Lemma addable_yes : forall cur c s, addable g cfg cur c s = VYes ->
  seen_mem (key_of (next_of cur c)) (seen s) = false /\ lasso (c_trace c) = false /\ lasso (c_ctrace c) = false.
Proof.
  intros cur c s. unfold addable.
  destruct (tuple_filter g cur c (pei s)) as [[|]|]; try discriminate.
  destruct (seen_mem _ _) eqn:Hs; simpl; try discriminate.
  destruct (exceeds cfg (v_depth cur)); simpl; try discriminate.
  destruct (lasso (c_trace c)) eqn:H1; simpl; try discriminate.
  destruct (lasso (c_ctrace c)) eqn:H2; simpl; try discriminate. auto.
Qed.

(** What the candidate loop does to the state: it pushes some [news] (most recent first) on the stack and their keys on
    [seen], and touches nothing else but prevEdgeInfos, the add counter and possibly the error flag. *)
Lemma add_all_spec : forall cur cs s n s' m,
  add_all g cfg cur cs s n = (s', m) ->
  exists news,
    stack s' = news ++ stack s /\
    seen s' = map key_of news ++ seen s /\
    traces s' = traces s /\ silent s' = silent s /\ visited s' = visited s /\
    (forall w, In w news -> exists c, In c cs /\ w = next_of cur c /\
                                      lasso (c_trace c) = false /\ lasso (c_ctrace c) = false) /\
    (NoDup (seen s) -> NoDup (seen s')) /\
    (err s = None -> err s' = None -> m = n + length news) /\
    (err s = None -> err s' = None \/ err s' = Some CrNilPrev).
Proof.
  intros cur cs. induction cs as [|c cs IH]; intros s n s' m H; simpl in H.
  - inversion H; subst. exists []. simpl. repeat split; auto. intros w [].
  - destruct (add_next_cases cur c s) as [[Ha He]|[[Ha He]|[Ha He]]]; rewrite He in H.
    + (* pushed *)
      simpl in H. destruct (err s) eqn:Herr.
      * inversion H; subst. exists [next_of cur c]. simpl. repeat split; auto.
        -- intros w [Hw|[]]. subst w. exists c. destruct (addable_yes _ _ _ Ha) as [_ [H1 H2]]. auto.
        -- intros Hnd. constructor; auto. destruct (addable_yes _ _ _ Ha) as [Hs _].
           intros Hin. apply seen_mem_In in Hin. congruence.
        -- intros Hn. discriminate.
        -- intros Hn. discriminate.
      * apply IH in H. destruct H as [news [H1 [H2 [H3 [H4 [H5 [H6 [H7 [H8 H9]]]]]]]]].
        exists (news ++ [next_of cur c]). simpl in *.
        repeat split; auto.
        -- rewrite H1. rewrite <- app_assoc. reflexivity.
        -- rewrite H2. rewrite map_app. rewrite <- app_assoc. reflexivity.
        -- intros w Hw. apply in_app_or in Hw. destruct Hw as [Hw|[Hw|[]]].
           ++ destruct (H6 w Hw) as [c' [Hc' R]]. exists c'. split; auto.
           ++ subst w. exists c. destruct (addable_yes _ _ _ Ha) as [_ [Hl1 Hl2]]. auto.
        -- intros Hnd. apply H7. constructor; auto. destruct (addable_yes _ _ _ Ha) as [Hs _].
           intros Hin. apply seen_mem_In in Hin. congruence.
        -- intros _ Hn. rewrite (H8 Herr Hn). rewrite app_length. simpl. lia.
    + (* rejected *)
      destruct (err s) eqn:Herr.
      * inversion H; subst. exists []. simpl. repeat split; auto; try (intros w []); try congruence.
      * apply IH in H. destruct H as [news [H1 [H2 [H3 [H4 [H5 [H6 [H7 [H8 H9]]]]]]]]].
        exists news. repeat split; auto.
        intros w Hw. destruct (H6 w Hw) as [c' [Hc' R]]. exists c'. split; auto. right; auto.
    + (* crash *)
      simpl in H. inversion H; subst. exists []. simpl. repeat split; auto; try (intros w []).
      all: try (intros; discriminate).
Qed.


(** ** The shape of one loop iteration *)
Definition popped (s : state) (cur : vnode) (rest : list vnode) : state :=
  visit_one (mkSt rest (seen s) (pei s) (traces s) (silent s) (visited s) (err s) (n_adds s)) cur.

Inductive step_kind (s : state) (cur : vnode) (rest : list vnode) (s' : state) (o : option outcome) : Prop :=
| SkCrash c : expand g cfg cur (popped s cur rest) = XCrash c -> s' = set_err (popped s cur rest) c ->
              o = Some (Crashed c) -> step_kind s cur rest s' o
| SkAbort : expand g cfg cur (popped s cur rest) = XAbort -> s' = add_silent (popped s cur rest) (v_path cur) ->
            o = Some Aborted -> step_kind s cur rest s' o
| SkSkip : expand g cfg cur (popped s cur rest) = XSkip -> s' = add_silent (popped s cur rest) (v_path cur) ->
           o = None -> step_kind s cur rest s' o
| SkBase : expand g cfg cur (popped s cur rest) = XBase -> s' = add_trace (popped s cur rest) (v_path cur) ->
           o = None -> step_kind s cur rest s' o
| SkCands cs rep s1 news :
    expand g cfg cur (popped s cur rest) = XCands cs rep ->
    stack s1 = news ++ rest -> seen s1 = map key_of news ++ seen s ->
    traces s1 = traces s -> silent s1 = silent s -> visited s1 = cur :: visited s ->
    (forall w, In w news -> exists c, In c cs /\ w = next_of cur c /\
                                      lasso (c_trace c) = false /\ lasso (c_ctrace c) = false) ->
    (NoDup (seen s) -> NoDup (seen s1)) ->
    ((exists c, err s1 = Some c /\ s' = s1 /\ o = Some (Crashed c)) \/
     (err s1 = None /\ news = [] /\ rep = true /\ s' = add_trace s1 (v_path cur) /\ o = None) \/
     (err s1 = None /\ news = [] /\ rep = false /\ s' = add_silent s1 (v_path cur) /\ o = None) \/
     (err s1 = None /\ news <> [] /\ s' = s1 /\ o = None)) ->
    step_kind s cur rest s' o.

Lemma step_shape : forall s s' o,
  err s = None -> step rank g cfg s = (s', o) ->
  (stack s = [] /\ s' = s /\ o = Some Done) \/
  (exists cur rest, stack s = cur :: rest /\ step_kind s cur rest s' o).
Proof.
  intros s s' o Herr H. unfold step in H. destruct (stack s) as [|cur rest] eqn:Hst.
  - left. inversion H; subst. auto.
  - right. exists cur, rest. split; auto. fold (popped s cur rest) in H.
    destruct (expand g cfg cur (popped s cur rest)) as [c| | | |cs rep] eqn:He.
    + inversion H; subst. eapply SkCrash; eauto.
    + inversion H; subst. eapply SkAbort; eauto.
    + inversion H; subst. eapply SkSkip; eauto.
    + inversion H; subst. eapply SkBase; eauto.
    + destruct (add_all g cfg cur (ordered rank g cfg cur cs (popped s cur rest)) (popped s cur rest) 0)
        as [s1 added] eqn:Ha.
      destruct (add_all_spec _ _ _ _ _ _ Ha) as [news [H1 [H2 [H3 [H4 [H5 [H6 [H7 [H8 H9]]]]]]]]].
      simpl in H1, H2, H3, H4, H5, H8, H9.
      eapply SkCands with (s1 := s1) (news := news); eauto.
      * intros w Hw. destruct (H6 w Hw) as [c [Hc R]]. exists c. split; auto.
        unfold ordered in Hc. eapply Permutation_in; [apply sort_by_rank_perm|exact Hc].
      * destruct (err s1) as [c|] eqn:He1.
        -- left. exists c. inversion H; subst. auto.
        -- right. rewrite (H8 Herr eq_refl) in H. simpl in H.
           destruct news as [|w news].
           ++ simpl in H. destruct rep; inversion H; subst; [left|right; left]; auto.
           ++ simpl in H. inversion H; subst. right. right. repeat split; auto. discriminate.
Qed.

(** the loop keeps [err = None] as long as it goes on *)
Lemma step_err : forall s s', err s = None -> step rank g cfg s = (s', None) -> err s' = None.
Proof.
  intros s s' Herr H. destruct (step_shape _ _ _ Herr H) as [[_ [_ Ho]]|[cur [rest [Hst K]]]]; try discriminate.
  destruct K as [c ? ? Ho|? ? Ho|? Hs ?|? Hs ?|cs rep s1 news ? ? ? ? ? ? ? ? Hc]; try discriminate; subst.
  - simpl. exact Herr.
  - unfold add_trace. destruct (trace_mem _ _); simpl; exact Herr.
  - destruct Hc as [[c [_ [_ Ho]]]|[[He [_ [_ [Hs _]]]]|[[He [_ [_ [Hs _]]]]|[He [_ [Hs _]]]]]]; try discriminate; subst; auto.
    unfold add_trace. destruct (trace_mem _ _); simpl; exact He.
Qed.

End Run.
