(** * Proofs about the access-matrix model (C20): the boolean race check decides exactly the absence of
      conflicting accesses unordered by happens-before; verdicts for the analyzer's matrix. *)
From Coq Require Import List Arith Bool Lia String.
From Argot Require Import Model.Conc.
Import ListNotations.

(** happens-before as a relation: the transitive closure of the direct edges *)
Inductive HB (M : matrix) : nat -> nat -> Prop :=
| HB_edge a b : In (a, b) (m_hb M) -> HB M a b
| HB_step a c b : In (a, c) (m_hb M) -> HB M c b -> HB M a b.

Definition WfHB (M : matrix) : Prop := forall a b, In (a, b) (m_hb M) -> a < b < m_nsteps M.

Definition Conflict (x y : access) : Prop :=
  a_obj x = a_obj y /\ a_step x <> a_step y /\ (a_mode x = Wr \/ a_mode y = Wr) /\
  ~ (exists l, a_lock x = Some l /\ a_lock y = Some l) /\ ~ (a_atomic x = true /\ a_atomic y = true).

Definition Ordered (M : matrix) (x y : access) : Prop :=
  HB M (a_step x) (a_step y) \/ HB M (a_step y) (a_step x).

(** the property: no two conflicting accesses are unordered *)
Definition RaceFree (M : matrix) : Prop :=
  WfHB M /\ forall x y, In x (m_acc M) -> In y (m_acc M) -> Conflict x y -> Ordered M x y.

Lemma wf_hb_spec M : wf_hb M = true <-> WfHB M.
Proof.
  unfold wf_hb, WfHB. rewrite forallb_forall. split.
  - intros H a b I. specialize (H _ I). simpl in H. apply andb_true_iff in H. destruct H as [H1 H2].
    apply Nat.ltb_lt in H1, H2. lia.
  - intros H [a b] I. specialize (H _ _ I). simpl. apply andb_true_iff. split; apply Nat.ltb_lt; lia.
Qed.

Lemma edge_spec M a b : edge M a b = true <-> In (a, b) (m_hb M).
Proof.
  unfold edge. rewrite existsb_exists. split.
  - intros ([x y] & I & E). simpl in E. apply andb_true_iff in E. destruct E as [E1 E2].
    apply Nat.eqb_eq in E1, E2. now subst.
  - intros I. exists (a, b). split; auto. simpl. now rewrite !Nat.eqb_refl.
Qed.

Lemma existsb_ext {X} (g h : X -> bool) l : (forall x, g x = h x) -> existsb g l = existsb h l.
Proof. intros E. induction l; simpl; auto. now rewrite E, IHl. Qed.

Lemma reach_unfold M k a b :
  reach M k a b = edge M a b ||
    match k with
    | O => false
    | S k' => existsb (fun e => (fst e =? a) && reach M k' (snd e) b) (m_hb M)
    end.
Proof.
  destruct k; simpl; destruct (edge M a b); auto.
Qed.

Lemma racy_unfold M p :
  racy M p = conflict (fst p) (snd p) && negb (hb M (a_step (fst p)) (a_step (snd p)))
             && negb (hb M (a_step (snd p)) (a_step (fst p))).
Proof.
  unfold racy. destruct (conflict (fst p) (snd p)); simpl; auto.
  destruct (hb M (a_step (fst p)) (a_step (snd p))); simpl; auto.
Qed.

Lemma reach_sound M k : forall a b, reach M k a b = true -> HB M a b.
Proof.
  induction k as [|k IH]; intros a b H; rewrite reach_unfold in H; apply orb_true_iff in H; destruct H as [H|H];
    try (apply edge_spec in H; now constructor); try discriminate.
  apply existsb_exists in H. destruct H as ([x y] & I & E). simpl in E. apply andb_true_iff in E.
  destruct E as [E1 E2]. apply Nat.eqb_eq in E1. subst. eapply HB_step; eauto.
Qed.

Lemma HB_lt M a b : WfHB M -> HB M a b -> a < b < m_nsteps M.
Proof.
  intros W H. induction H as [a b I|a c b I _ IH].
  - now apply W.
  - apply W in I. lia.
Qed.

Lemma reach_complete M : WfHB M -> forall k a b, HB M a b -> b - a <= S k -> reach M k a b = true.
Proof.
  intros W. induction k as [|k IH]; intros a b H L; rewrite reach_unfold; apply orb_true_iff.
  - destruct H as [a b I|a c b I H].
    + left. now apply edge_spec.
    + exfalso. apply W in I. apply (HB_lt M _ _ W) in H. lia.
  - destruct H as [a b I|a c b I H].
    + left. now apply edge_spec.
    + right. apply existsb_exists. exists (a, c). split; auto. simpl. rewrite Nat.eqb_refl. simpl.
      apply IH; auto. apply W in I. lia.
Qed.

Lemma hb_spec M a b : WfHB M -> (hb M a b = true <-> HB M a b).
Proof.
  intros W. unfold hb. split.
  - apply reach_sound.
  - intros H. apply reach_complete; auto. apply (HB_lt M _ _ W) in H. lia.
Qed.

Lemma common_lock_spec x y : common_lock x y = true <-> exists l, a_lock x = Some l /\ a_lock y = Some l.
Proof.
  unfold common_lock. destruct (a_lock x) as [l1|], (a_lock y) as [l2|]; split; try discriminate.
  - intros E. apply Nat.eqb_eq in E. subst. eauto.
  - intros (l & E1 & E2). inversion E1; inversion E2; subst. apply Nat.eqb_refl.
  - intros (l & _ & E). discriminate.
  - intros (l & E & _). discriminate.
  - intros (l & E & _). discriminate.
Qed.

Lemma conflict_spec x y : conflict x y = true <-> Conflict x y.
Proof.
  unfold conflict, Conflict, is_wr. rewrite !andb_true_iff, !negb_true_iff, orb_true_iff, Nat.eqb_eq, Nat.eqb_neq.
  rewrite <- (common_lock_spec x y).
  assert (Hm : forall m, (match m with Wr => true | Rd => false end) = true <-> m = Wr)
    by (intros []; split; auto; discriminate).
  rewrite !Hm.
  split.
  - intros ((((H1 & H2) & H3) & H4) & H5). repeat split; auto.
    + rewrite H4. discriminate.
    + intros [E1 E2]. rewrite E1, E2 in H5. discriminate.
  - intros (H1 & H2 & H3 & H4 & H5). repeat split; auto.
    + destruct (common_lock x y); auto. exfalso; auto.
    + destruct (a_atomic x), (a_atomic y); auto. exfalso; auto.
Qed.

Theorem race_free_spec M : race_free M = true <-> RaceFree M.
Proof.
  unfold race_free, RaceFree. split.
  - intros H0. apply andb_true_iff in H0. destruct H0 as [W H]. apply wf_hb_spec in W.
    split; auto. intros x y Ix Iy C.
    destruct (hb M (a_step x) (a_step y)) eqn:H1; [left; now apply hb_spec|].
    destruct (hb M (a_step y) (a_step x)) eqn:H2; [right; now apply hb_spec|].
    exfalso. assert (I : In (x, y) (racy_pairs M)).
    { unfold racy_pairs. apply filter_In. split; [now apply in_prod|].
      rewrite racy_unfold; simpl. rewrite H1, H2. apply conflict_spec in C. now rewrite C. }
    destruct (racy_pairs M); [destruct I|discriminate].
  - intros [W H]. apply andb_true_iff. split; [now apply wf_hb_spec|].
    destruct (racy_pairs M) as [|[x y] l] eqn:E; auto. exfalso.
    assert (I : In (x, y) (racy_pairs M)) by (rewrite E; now left).
    unfold racy_pairs in I. apply filter_In in I. destruct I as [I R].
    apply in_prod_iff in I. destruct I as [Ix Iy].
    rewrite racy_unfold in R; simpl in R. rewrite !andb_true_iff, !negb_true_iff in R. destruct R as [[C H1] H2].
    apply conflict_spec in C. destruct (H x y Ix Iy C) as [O|O]; apply hb_spec in O; auto; congruence.
Qed.

(** a reported pair is a genuine unordered conflict *)
Lemma racy_pairs_sound M x y :
  WfHB M -> In (x, y) (racy_pairs M) ->
  In x (m_acc M) /\ In y (m_acc M) /\ Conflict x y /\ ~ Ordered M x y.
Proof.
  intros W I. unfold racy_pairs in I. apply filter_In in I. destruct I as [I R].
  apply in_prod_iff in I. destruct I as [Ix Iy].
  rewrite racy_unfold in R; simpl in R. rewrite !andb_true_iff, !negb_true_iff in R. destruct R as [[C H1] H2].
  split; [|split; [|split]]; auto. { now apply conflict_spec. }
  intros [O|O]; apply hb_spec in O; auto; congruence.
Qed.

(** boolean membership of a pair of accesses (so that witnesses are checked by computation) *)
Definition mode_eqb (m1 m2 : mode) : bool := match m1, m2 with Rd, Rd | Wr, Wr => true | _, _ => false end.
Definition lock_eqb (l1 l2 : option nat) : bool :=
  match l1, l2 with Some a, Some b => a =? b | None, None => true | _, _ => false end.
Definition acc_eqb (x y : access) : bool :=
  (a_step x =? a_step y) && (a_obj x =? a_obj y) && mode_eqb (a_mode x) (a_mode y)
  && lock_eqb (a_lock x) (a_lock y) && Bool.eqb (a_atomic x) (a_atomic y).

Lemma acc_eqb_eq x y : acc_eqb x y = true -> x = y.
Proof.
  destruct x as [s1 o1 m1 l1 t1], y as [s2 o2 m2 l2 t2]. unfold acc_eqb; simpl.
  rewrite !andb_true_iff. intros ((((H1 & H2) & H3) & H4) & H5).
  apply Nat.eqb_eq in H1, H2. apply Bool.eqb_prop in H5. subst.
  assert (m1 = m2) by (destruct m1, m2; auto; discriminate). subst.
  assert (l1 = l2).
  { destruct l1, l2; simpl in H4; try discriminate; auto. apply Nat.eqb_eq in H4. now subst. }
  now subst.
Qed.

Definition pair_mem (p : access * access) (l : list (access * access)) : bool :=
  existsb (fun q => if acc_eqb (fst p) (fst q) then acc_eqb (snd p) (snd q) else false) l.

Lemma pair_mem_In p l : pair_mem p l = true -> In p l.
Proof.
  unfold pair_mem. intros H. apply existsb_exists in H. destruct H as ([q1 q2] & I & E). simpl in E.
  destruct (acc_eqb (fst p) q1) eqn:E1; try discriminate.
  apply acc_eqb_eq in E1, E. destruct p; simpl in *; subst. exact I.
Qed.

(** ** the analyzer's matrix *)

(** the matrix of the code as it is ([fixed = true]: the summaries report is written synchronously before STEP 3):
    race free under every combination of options *)
Theorem analyzer_race_free :
  forall report_summaries report_coverage report_paths on_demand,
    race_free (analyzer report_summaries report_coverage report_paths on_demand true) = true.
Proof. intros [] [] [] []; vm_compute; reflexivity. Qed.

Theorem analyzer_race_free_prop :
  forall report_summaries report_coverage report_paths on_demand,
    RaceFree (analyzer report_summaries report_coverage report_paths on_demand true).
Proof. intros. apply race_free_spec. apply analyzer_race_free. Qed.

(** without report-summaries: race free under every combination of the other options, in both variants *)
Theorem analyzer_race_free_without_report_summaries :
  forall report_coverage report_paths on_demand fixed,
    race_free (analyzer false report_coverage report_paths on_demand fixed) = true.
Proof. intros [] [] [] []; vm_compute; reflexivity. Qed.

(** the matrix of the code BEFORE the repair ([fixed = false]) with report-summaries: the detached writer goroutine
    conflicts with STEP 3 of BuildGraph (and more) *)
Definition writer_witness : access * access :=
  (rd s_writer o_summaries, wr s_build3 o_summaries).

Theorem analyzer_report_writer_races :
  forall report_coverage report_paths on_demand,
    let M := analyzer true report_coverage report_paths on_demand false in
    race_free M = false /\ In writer_witness (racy_pairs M).
Proof. intros [] [] []; (split; [vm_compute; reflexivity|apply pair_mem_In; vm_compute; reflexivity]). Qed.

(** the file is not ordered before the return either: "report files are complete when the analysis returns" fails *)
Definition file_witness : access * access :=
  (wr s_writer o_sumfile, rd s_return o_sumfile).

Theorem analyzer_report_file_incomplete :
  forall report_coverage report_paths on_demand,
    In file_witness (racy_pairs (analyzer true report_coverage report_paths on_demand false)).
Proof. intros [] [] []; apply pair_mem_In; vm_compute; reflexivity. Qed.
