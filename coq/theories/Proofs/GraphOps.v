(** * Proofs about the model of the dataflow-graph mutators (C17) *)
From stdpp Require Import gmap.
From Coq Require Import ZArith.
From Argot Require Import Model.GraphOps.

(** ** The readable statements *)

Definition has_out (s : state) (a b : N) : Prop := is_Some (get2 (outm s) a b).
Definition has_in (s : state) (b a : N) : Prop := is_Some (get2 (inm s) b a).

(** an edge is recorded as outgoing from [a] exactly when it is recorded as incoming at [b] *)
Definition C_edges (s : state) : Prop := forall a b, has_out s a b <-> has_in s b a.

(** a call node linked to a callee summary is registered among that summary's call sites, and vice versa *)
Definition C_calls (s : state) : Prop :=
  (forall n g, callee s !! n = Some g -> get2 (callsites s) g (instr_of s n) = Some n) /\
  (forall g i n, get2 (callsites s) g i = Some n -> callee s !! n = Some g /\ instr_of s n = i).

(** a closure-creation node linked to the closure's summary is registered with it, and vice versa *)
Definition C_closures (s : state) : Prop :=
  (forall c g, closum s !! c = Some g -> get2 (refclos s) g (instr_of s c) = Some c) /\
  (forall g i c, get2 (refclos s) g i = Some c -> closum s !! c = Some g /\ instr_of s c = i).

(** a global's write (read) locations are exactly the written (read, with an outgoing edge) access nodes of the
    constructed summaries *)
Definition C_globals (s : state) : Prop :=
  (forall gl n, is_Some (get2 (wlocs s) gl n) <-> is_wloc s gl n) /\
  (forall gl n, is_Some (get2 (rlocs s) gl n) <-> is_rloc s gl n).

Definition consistent (s : state) : Prop := C_edges s /\ C_calls s /\ C_closures s /\ C_globals s.

(** the tuple indices agree in both directions: every edge info stored on the out side of (a, b) carries the
    index stored on the in side of (b, a) *)
Definition idx_agree (s : state) : Prop :=
  forall a b es, get2 (outm s) a b = Some es ->
    es <> [] /\ forall e', e' ∈ es -> Some (ei_idx e') = ei_idx <$> get2 (inm s) b a.
Definition consistent_idx (s : state) : Prop := consistent s /\ idx_agree s.

(** what does hold: the index stored on the in side is one of those stored on the out side *)
Definition idx_partial (s : state) : Prop :=
  forall a b e, get2 (inm s) b a = Some e ->
    exists e', e' ∈ default [] (get2 (outm s) a b) /\ ei_idx e' = ei_idx e.

(** auxiliary invariant: the global access nodes of summaries that are not constructed are untouched *)
Definition clean (s : state) : Prop :=
  forall n na, nodes s !! n = Some na -> n_kind na = KG -> mem (constructed s) (n_sum na) = false ->
    mem (iswrite s) n = false /\ out_nonempty s n = false.

Definition inv (s : state) : Prop := consistent s /\ clean s.

(** side conditions of the linking operations: the callee has no OTHER call node registered for the instruction of
    the node being linked; closure nodes have their own instruction and keep their closure summary *)
Definition valid_op (s : state) (o : op) : Prop :=
  match o with
  | OLink n g => get2 (callsites s) g (instr_of s n) = None \/ get2 (callsites s) g (instr_of s n) = Some n
  | OSyncClosure c g =>
      if bool_decide (g = 0%N) then closum s !! c = None
      else (get2 (refclos s) g (instr_of s c) = None \/ get2 (refclos s) g (instr_of s c) = Some c)
           /\ (closum s !! c = None \/ closum s !! c = Some g)
  | _ => True
  end.

Fixpoint valid_seq (s : state) (os : list op) : Prop :=
  match os with
  | [] => True
  | o :: os' => valid_op s o /\ valid_seq (apply_op s o) os'
  end.

(** ** get2 / set2 *)

Lemma get2_set2 {A} (m : gmap N (gmap N A)) a b x a' b' :
  get2 (set2 m a b x) a' b' = if decide (a = a' /\ b = b') then Some x else get2 m a' b'.
Proof.
  unfold get2, set2. destruct (decide (a = a')) as [->|Ha].
  - rewrite lookup_insert. cbn. destruct (decide (b = b')) as [->|Hb].
    + rewrite lookup_insert. rewrite decide_True; auto.
    + rewrite lookup_insert_ne by done. rewrite decide_False by (intros [_ ?]; done).
      destruct (m !! a'); simpl; auto.
  - rewrite lookup_insert_ne by done. rewrite decide_False by (intros [? _]; done). done.
Qed.

Lemma get2_set2_eq {A} (m : gmap N (gmap N A)) a b x : get2 (set2 m a b x) a b = Some x.
Proof. rewrite get2_set2. rewrite decide_True; auto. Qed.

Lemma get2_set2_ne {A} (m : gmap N (gmap N A)) a b x a' b' :
  ~ (a = a' /\ b = b') -> get2 (set2 m a b x) a' b' = get2 m a' b'.
Proof. intros. rewrite get2_set2. rewrite decide_False; auto. Qed.

Lemma set2_lookup_ne {A} (m : gmap N (gmap N A)) a b x a' : a <> a' -> set2 m a b x !! a' = m !! a'.
Proof. intros. unfold set2. by rewrite lookup_insert_ne. Qed.

Lemma mem_true (s : nset) x : mem s x = true <-> is_Some (s !! x).
Proof. unfold mem. by rewrite bool_decide_eq_true. Qed.

Lemma mem_insert (s : nset) x y : mem (<[x := tt]> s) y = true <-> x = y \/ mem s y = true.
Proof.
  rewrite !mem_true. destruct (decide (x = y)) as [->|].
  - rewrite lookup_insert. split; eauto.
  - rewrite lookup_insert_ne by done. split; [eauto | intros [?|?]; done].
Qed.

Lemma mem_false (s : nset) x : mem s x = false <-> ~ (mem s x = true).
Proof. destruct (mem s x); split; try done. Qed.

Lemma is_kind_true s n k : is_kind s n k = true <-> exists na, nodes s !! n = Some na /\ n_kind na = k.
Proof.
  unfold is_kind, kind_of. rewrite bool_decide_eq_true. destruct (nodes s !! n) as [na|]; simpl.
  - split. { intros [= <-]. eauto. } intros (? & [= <-] & <-). done.
  - split; [done | intros (? & ? & _); done].
Qed.

(** ** the validators decide the readable statements (T-cert) *)

Lemma edges_ok_spec s : edges_ok s <-> C_edges s.
Proof.
  unfold edges_ok, C_edges, has_out, has_in. split.
  - intros [H1 H2] a b. split; intros [x Hx]; unfold get2 in Hx.
    + destruct (outm s !! a) as [m|] eqn:Ha; [|done].
      exact (map_Forall_lookup_1 _ _ _ _ (map_Forall_lookup_1 _ _ _ _ H1 Ha) Hx).
    + destruct (inm s !! b) as [m|] eqn:Hb; [|done].
      exact (map_Forall_lookup_1 _ _ _ _ (map_Forall_lookup_1 _ _ _ _ H2 Hb) Hx).
  - intros H. split; apply map_Forall_lookup_2; intros a m Ha; apply map_Forall_lookup_2; intros b x Hb.
    + apply H. exists x. unfold get2. by rewrite Ha.
    + apply H. exists x. unfold get2. by rewrite Ha.
Qed.

Lemma reg_ok_spec (lnk : gmap N N) (reg : gmap N (gmap N N)) (ins : N -> N) :
  (map_Forall (fun n g => get2 reg g (ins n) = Some n) lnk
   /\ map_Forall (fun g m => map_Forall (fun i n => lnk !! n = Some g /\ ins n = i) m) reg)
  <->
  ((forall n g, lnk !! n = Some g -> get2 reg g (ins n) = Some n) /\
   (forall g i n, get2 reg g i = Some n -> lnk !! n = Some g /\ ins n = i)).
Proof.
  split; intros [H1 H2]; split.
  - intros n g Hn. exact (map_Forall_lookup_1 _ _ _ _ H1 Hn).
  - intros g i n Hg. unfold get2 in Hg. destruct (reg !! g) as [m|] eqn:Hm; [|done].
    exact (map_Forall_lookup_1 _ _ _ _ (map_Forall_lookup_1 _ _ _ _ H2 Hm) Hg).
  - apply map_Forall_lookup_2. intros n g Hn. by apply H1.
  - apply map_Forall_lookup_2. intros g m Hm. apply map_Forall_lookup_2. intros i n Hi.
    apply H2. unfold get2. by rewrite Hm.
Qed.

Lemma calls_ok_spec s : calls_ok s <-> C_calls s.
Proof. apply reg_ok_spec. Qed.

Lemma closures_ok_spec s : closures_ok s <-> C_closures s.
Proof. apply reg_ok_spec. Qed.

Lemma is_wloc_glob s gl n : is_wloc s gl n -> exists na, nodes s !! n = Some na /\ n_glob na = gl.
Proof. unfold is_wloc. destruct (nodes s !! n) as [na|]; [|done]. intros (_ & ? & _). eauto. Qed.
Lemma is_rloc_glob s gl n : is_rloc s gl n -> exists na, nodes s !! n = Some na /\ n_glob na = gl.
Proof. unfold is_rloc. destruct (nodes s !! n) as [na|]; [|done]. intros (_ & ? & _). eauto. Qed.

Lemma locs_ok_spec (locs : gmap N nset) (nds : gmap N nattr) (P : N -> N -> Prop) :
  (forall gl n, P gl n -> exists na, nds !! n = Some na /\ n_glob na = gl) ->
  (map_Forall (fun gl m => map_Forall (fun n (_ : unit) => P gl n) m) locs
   /\ map_Forall (fun n na => P (n_glob na) n -> is_Some (get2 locs (n_glob na) n)) nds)
  <-> (forall gl n, is_Some (get2 locs gl n) <-> P gl n).
Proof.
  intros HP. split.
  - intros [H1 H2] gl n. split.
    + intros [x Hx]. unfold get2 in Hx. destruct (locs !! gl) as [m|] eqn:Hm; [|done].
      exact (map_Forall_lookup_1 _ _ _ _ (map_Forall_lookup_1 _ _ _ _ H1 Hm) Hx).
    + intros Hp. destruct (HP _ _ Hp) as (na & Hn & <-).
      exact (map_Forall_lookup_1 _ _ _ _ H2 Hn Hp).
  - intros H. split.
    + apply map_Forall_lookup_2. intros gl m Hm. apply map_Forall_lookup_2. intros n x Hx.
      apply H. exists x. unfold get2. by rewrite Hm.
    + apply map_Forall_lookup_2. intros n na Hn Hp. by apply H.
Qed.

Lemma globals_ok_spec s : globals_ok s <-> C_globals s.
Proof.
  unfold globals_ok, C_globals.
  rewrite <- (locs_ok_spec (wlocs s) (nodes s) (is_wloc s) (is_wloc_glob s)).
  rewrite <- (locs_ok_spec (rlocs s) (nodes s) (is_rloc s) (is_rloc_glob s)).
  tauto.
Qed.

Lemma check_consistent_spec s : check_consistent s = true <-> consistent s.
Proof.
  unfold check_consistent, check_edges, check_calls, check_closures, check_globals, consistent.
  rewrite !andb_true_iff, !bool_decide_eq_true.
  rewrite edges_ok_spec, calls_ok_spec, closures_ok_spec, globals_ok_spec. tauto.
Qed.

Lemma idx_ok_spec s : idx_ok s <-> idx_agree s.
Proof.
  unfold idx_ok, idx_agree. split.
  - intros H a b es Hes. unfold get2 in Hes. destruct (outm s !! a) as [m|] eqn:Ha; [|done].
    destruct (map_Forall_lookup_1 _ _ _ _ (map_Forall_lookup_1 _ _ _ _ H Ha) Hes) as [Hne Hall].
    split; [done|]. intros e' He'. by apply (proj1 (Forall_forall _ _) Hall).
  - intros H. apply map_Forall_lookup_2. intros a m Ha. apply map_Forall_lookup_2. intros b es Hes.
    destruct (H a b es) as [Hne Hall]. { unfold get2. by rewrite Ha. }
    split; [done|]. apply Forall_forall. done.
Qed.

Lemma check_idx_spec s : check_consistent s && check_idx s = true <-> consistent_idx s.
Proof.
  unfold consistent_idx, check_idx. rewrite andb_true_iff, bool_decide_eq_true.
  by rewrite check_consistent_spec, idx_ok_spec.
Qed.

Lemma idx_partial_ok_spec s : idx_partial_ok s <-> idx_partial s.
Proof.
  unfold idx_partial_ok, idx_partial. split.
  - intros H a b e He. unfold get2 in He at 1. destruct (inm s !! b) as [m|] eqn:Hb; [|done].
    pose proof (map_Forall_lookup_1 _ _ _ _ (map_Forall_lookup_1 _ _ _ _ H Hb) He) as Hex.
    apply Exists_exists in Hex. done.
  - intros H. apply map_Forall_lookup_2. intros b m Hb. apply map_Forall_lookup_2. intros a e He.
    apply Exists_exists. apply H. unfold get2. by rewrite Hb.
Qed.

Lemma clean_ok_spec s : clean_ok s <-> clean s.
Proof.
  unfold clean_ok, clean. split.
  - intros H n na Hn. exact (map_Forall_lookup_1 _ _ _ _ H Hn).
  - intros H. apply map_Forall_lookup_2. done.
Qed.
