(** * Building a summary (edges, SyncGlobals, Constructed), linking, and the main theorems (C17) *)
From stdpp Require Import gmap.
From Coq Require Import ZArith.
From Argot Require Import Model.GraphOps Proofs.GraphOps Proofs.GraphOpsInv.

(** ** while the summary [g] is being built *)

Definition clean_except (g : N) (s : state) : Prop :=
  forall n na, nodes s !! n = Some na -> n_kind na = KG -> n_sum na <> g ->
    mem (constructed s) (n_sum na) = false -> mem (iswrite s) n = false /\ out_nonempty s n = false.

Definition inv_building (g : N) (s : state) : Prop :=
  consistent s /\ clean_except g s /\ mem (constructed s) g = false.

Lemma inv_inv_building g s : inv s -> mem (constructed s) g = false -> inv_building g s.
Proof. intros [Hc Hcl] Hg. split; [done|]. split; [|done]. intros n na ? ? _ ?. by apply (Hcl n na). Qed.

Lemma not_wloc_building g s gl n na :
  mem (constructed s) g = false -> nodes s !! n = Some na -> n_sum na = g -> ~ is_wloc s gl n.
Proof. intros Hg Hna <- H. rewrite (is_wloc_constructed _ _ _ _ Hna H) in Hg. done. Qed.
Lemma not_rloc_building g s gl n na :
  mem (constructed s) g = false -> nodes s !! n = Some na -> n_sum na = g -> ~ is_rloc s gl n.
Proof. intros Hg Hna <- H. rewrite (is_rloc_constructed _ _ _ _ Hna H) in Hg. done. Qed.

(** an edge whose source belongs to the summary being built *)
Lemma adds_edge_building g s s' a b na :
  adds_edge s s' a b -> nodes s !! a = Some na -> n_sum na = g -> inv_building g s -> inv_building g s'.
Proof.
  intros Hadd Hna Hsum ((He & Hc & Hcl & [Hw Hr]) & Hclean & Hg).
  pose proof Hadd as (Hl & (Hiw & Hco & Hwl & Hrl) & _ & _ & Hout).
  pose proof Hl as (Hn & _).
  split; [split; [|split; [|split; [|split]]]|split].
  - by eapply adds_edge_C_edges.
  - by eapply C_calls_ext.
  - by eapply C_closures_ext.
  - intros gl n. rewrite Hwl, (is_wloc_ext s s'); [apply Hw | done | done | by rewrite Hiw].
  - intros gl n. rewrite Hrl, (Hr gl n). destruct (decide (n = a)) as [->|Hne].
    + split; intros H; exfalso.
      * by eapply (not_rloc_building g s).
      * eapply (not_rloc_building g s'); [by rewrite Hco | by rewrite Hn | done | done].
    + apply iff_sym, is_rloc_ext; [done | done | by rewrite Hiw | by apply out_nonempty_ext, Hout].
  - intros n na'. rewrite Hn, Hco, Hiw. intros Hna' Hkg Hsum' Hnc.
    destruct (Hclean n na' Hna' Hkg Hsum' Hnc) as [? ?]. split; [done|].
    rewrite (out_nonempty_ext s s'); [done|]. apply Hout. intros ->. congruence.
  - by rewrite Hco.
Qed.

Lemma set_write_building g s d na :
  nodes s !! d = Some na -> n_sum na = g -> inv_building g s -> inv_building g (set_write s d).
Proof.
  intros Hna Hsum ((He & Hc & Hcl & [Hw Hr]) & Hclean & Hg).
  assert (Hm : forall n, n <> d -> mem (iswrite (set_write s d)) n = mem (iswrite s) n).
  { intros n Hn. simpl. destruct (mem (iswrite s) n) eqn:E.
    - apply mem_insert. by right.
    - apply mem_false. intros H. apply mem_insert in H as [?|?]; congruence. }
  split; [split; [|split; [|split; [|split]]]|split]; try done.
  - intros gl n. simpl. rewrite (Hw gl n). destruct (decide (n = d)) as [->|Hne].
    + split; intros H; exfalso.
      * by eapply (not_wloc_building g s).
      * by eapply (not_wloc_building g (set_write s d)).
    + apply iff_sym, is_wloc_ext; [done | done | by apply Hm].
  - intros gl n. simpl. rewrite (Hr gl n). destruct (decide (n = d)) as [->|Hne].
    + split; intros H; exfalso.
      * by eapply (not_rloc_building g s).
      * by eapply (not_rloc_building g (set_write s d)).
    + apply iff_sym, is_rloc_ext; [done | done | by apply Hm | done].
  - intros n na' Hna' Hkg Hsum' Hnc. simpl in Hna', Hnc.
    destruct (Hclean n na' Hna' Hkg Hsum' Hnc) as [? ?]. split; [|done].
    rewrite Hm; [done|]. intros ->. congruence.
Qed.

Lemma sum_of_node s n na : nodes s !! n = Some na -> sum_of s n = n_sum na.
Proof. unfold sum_of. by intros ->. Qed.

Lemma build_edge_building g s e : inv_building g s -> inv_building g (build_edge g s e).
Proof.
  intros H. unfold build_edge.
  destruct (bool_decide (sum_of s (m_src e) = g)) eqn:E1; [|done].
  destruct (is_kind s (m_src e) KR); [done|].
  destruct (bool_decide (is_Some (nodes s !! m_src e))) eqn:E2; [|done]. simpl.
  apply bool_decide_eq_true in E1. apply bool_decide_eq_true in E2. destruct E2 as [na Hna].
  rewrite (sum_of_node _ _ _ Hna) in E1.
  destruct (m_glob e).
  - destruct (is_kind s (m_dst e) KG) eqn:E3; [|done].
    destruct (bool_decide (sum_of s (m_dst e) = g)) eqn:E4; [|done]. simpl.
    apply is_kind_true in E3 as (nd & Hnd & Hkd). apply bool_decide_eq_true in E4.
    rewrite (sum_of_node _ _ _ Hnd) in E4.
    eapply adds_edge_building; [apply update_edge_adds | exact Hna | done |].
    by eapply set_write_building.
  - eapply adds_edge_building; [apply update_edge_adds | exact Hna | done | done].
Qed.

Lemma build_edges_building g es : forall s, inv_building g s -> inv_building g (fold_left (build_edge g) es s).
Proof. induction es as [|e es IH]; intros s H; simpl; [done|]. apply IH. by apply build_edge_building. Qed.

(** ** [SyncGlobals] *)

Definition sync_same (s s' : state) : Prop :=
  same_links s s' /\ same_edges s s' /\ iswrite s' = iswrite s /\ constructed s' = constructed s.

Lemma is_Some_add_loc (m : gmap N nset) gl n gl' n' :
  is_Some (get2 (add_loc m gl n) gl' n') <-> is_Some (get2 m gl' n') \/ (gl = gl' /\ n = n').
Proof. unfold add_loc. rewrite get2_set2, is_Some_if. done. Qed.

Lemma sync_node_spec g s n na :
  let s' := sync_node g s (n, na) in
  sync_same s s' /\
  (forall gl x, is_Some (get2 (wlocs s') gl x) <->
     is_Some (get2 (wlocs s) gl x) \/
     (x = n /\ n_kind na = KG /\ n_sum na = g /\ n_glob na = gl /\ mem (iswrite s) n = true)) /\
  (forall gl x, is_Some (get2 (rlocs s') gl x) <->
     is_Some (get2 (rlocs s) gl x) \/
     (x = n /\ n_kind na = KG /\ n_sum na = g /\ n_glob na = gl /\ mem (iswrite s) n = false
      /\ out_nonempty s n = true)).
Proof.
  cbv zeta. unfold sync_node, sync_same, same_links, same_edges.
  destruct (bool_decide (n_kind na = KG)) eqn:E1; simpl.
  2:{ apply bool_decide_eq_false in E1. split_and!; try done; intros gl x; intuition congruence. }
  destruct (bool_decide (n_sum na = g)) eqn:E2; simpl.
  2:{ apply bool_decide_eq_false in E2. split_and!; try done; intros gl x; intuition congruence. }
  apply bool_decide_eq_true in E1. apply bool_decide_eq_true in E2.
  destruct (mem (iswrite s) n) eqn:E3; simpl.
  { split_and!; try done; intros gl x.
    - rewrite is_Some_add_loc. intuition congruence.
    - intuition congruence. }
  destruct (out_nonempty s n) eqn:E4; simpl.
  { split_and!; try done; intros gl x.
    - intuition congruence.
    - rewrite is_Some_add_loc. intuition congruence. }
  split_and!; try done; intros gl x; intuition congruence.
Qed.

Lemma sync_same_trans s1 s2 s3 : sync_same s1 s2 -> sync_same s2 s3 -> sync_same s1 s3.
Proof.
  unfold sync_same, same_links, same_edges.
  intros ((?&?&?&?&?&?) & (?&?) & ? & ?) ((?&?&?&?&?&?) & (?&?) & ? & ?). split_and!; congruence.
Qed.

Lemma sync_fold_spec g l : forall s,
  let s' := fold_left (sync_node g) l s in
  sync_same s s' /\
  (forall gl x, is_Some (get2 (wlocs s') gl x) <->
     is_Some (get2 (wlocs s) gl x) \/
     (exists na, (x, na) ∈ l /\ n_kind na = KG /\ n_sum na = g /\ n_glob na = gl /\ mem (iswrite s) x = true)) /\
  (forall gl x, is_Some (get2 (rlocs s') gl x) <->
     is_Some (get2 (rlocs s) gl x) \/
     (exists na, (x, na) ∈ l /\ n_kind na = KG /\ n_sum na = g /\ n_glob na = gl /\ mem (iswrite s) x = false
      /\ out_nonempty s x = true)).
Proof.
  induction l as [|[n na] l IH]; intros s; cbv zeta; simpl.
  - split_and!.
    + unfold sync_same, same_links, same_edges. by split_and!.
    + intros gl x. split; [eauto|]. intros [?|(na & Hin & _)]; [done|]. by apply elem_of_nil in Hin.
    + intros gl x. split; [eauto|]. intros [?|(na & Hin & _)]; [done|]. by apply elem_of_nil in Hin.
  - destruct (sync_node_spec g s n na) as (Hs1 & Hw1 & Hr1).
    destruct (IH (sync_node g s (n, na))) as (Hs2 & Hw2 & Hr2).
    pose proof Hs1 as (_ & [Ho1 _] & Hiw1 & _).
    split_and!.
    + by eapply sync_same_trans.
    + intros gl x. rewrite Hw2, Hw1, Hiw1. split.
      * intros [[?|(-> & ? & ? & ? & ?)]|(na' & Hin & ?)]; [by left | |].
        -- right. exists na. split; [apply elem_of_cons; by left | done].
        -- right. exists na'. split; [apply elem_of_cons; by right | done].
      * intros [?|(na' & Hin & ?)]; [by left; left|].
        apply elem_of_cons in Hin as [[= -> ->]|Hin].
        -- left. right. done.
        -- right. exists na'. done.
    + intros gl x. rewrite Hr2, Hr1, Hiw1.
      rewrite (out_nonempty_ext s (sync_node g s (n, na)) x) by (by rewrite Ho1). split.
      * intros [[?|(-> & ? & ? & ? & ?)]|(na' & Hin & ?)]; [by left | |].
        -- right. exists na. split; [apply elem_of_cons; by left | done].
        -- right. exists na'. split; [apply elem_of_cons; by right | done].
      * intros [?|(na' & Hin & ?)]; [by left; left|].
        apply elem_of_cons in Hin as [[= -> ->]|Hin].
        -- left. right. done.
        -- right. exists na'. done.
Qed.

Lemma sync_finish g s : inv_building g s -> inv (set_constructed (sync_globals s g) g).
Proof.
  intros ((He & Hc & Hcl & [Hw Hr]) & Hclean & Hg).
  unfold sync_globals.
  destruct (sync_fold_spec g (map_to_list (nodes s)) s) as ((Hl & Hed & Hiw & Hco) & Hws & Hrs).
  set (s1 := fold_left (sync_node g) (map_to_list (nodes s)) s) in *.
  pose proof Hl as (Hn & _). destruct Hed as [Ho Hi].
  split; [split; [|split; [|split; [|split]]]|].
  - apply (C_edges_ext s1); [by split|]. by apply (C_edges_ext s).
  - apply (C_calls_ext s1); [by repeat split|]. by apply (C_calls_ext s).
  - apply (C_closures_ext s1); [by repeat split|]. by apply (C_closures_ext s).
  - intros gl n. simpl. rewrite Hws, (Hw gl n). unfold is_wloc. simpl. rewrite Hn, Hco, Hiw.
    destruct (nodes s !! n) as [na|] eqn:Hna.
    + split.
      * intros [(? & ? & ? & ?)|(na' & Hin & ? & ? & ? & ?)].
        -- split_and!; try done. apply mem_insert. by right.
        -- apply elem_of_map_to_list in Hin. assert (na' = na) as -> by congruence.
           split_and!; try done. apply mem_insert. by left.
      * intros (? & ? & Hm & ?). apply mem_insert in Hm as [Hm|Hm].
        -- right. exists na. split; [by apply elem_of_map_to_list | done].
        -- left. done.
    + split; [|done]. intros [?|(na' & Hin & _)]; [done|]. apply elem_of_map_to_list in Hin. congruence.
  - intros gl n. simpl. rewrite Hrs, (Hr gl n). unfold is_rloc. simpl. rewrite Hn, Hco, Hiw.
    rewrite (out_nonempty_ext s (set_constructed s1 g) n) by (simpl; by rewrite Ho).
    destruct (nodes s !! n) as [na|] eqn:Hna.
    + split.
      * intros [(? & ? & ? & ? & ?)|(na' & Hin & ? & ? & ? & ? & ?)].
        -- split_and!; try done. apply mem_insert. by right.
        -- apply elem_of_map_to_list in Hin. assert (na' = na) as -> by congruence.
           split_and!; try done. apply mem_insert. by left.
      * intros (? & ? & Hm & ? & ?). apply mem_insert in Hm as [Hm|Hm].
        -- right. exists na. split; [by apply elem_of_map_to_list | done].
        -- left. done.
    + split; [|done]. intros [?|(na' & Hin & _)]; [done|]. apply elem_of_map_to_list in Hin. congruence.
  - intros n na. simpl. rewrite Hn, Hco, Hiw. intros Hna Hk Hnc.
    rewrite (out_nonempty_ext s (set_constructed s1 g) n) by (simpl; by rewrite Ho).
    apply (Hclean n na); [done | done | |].
    + intros <-. apply mem_false in Hnc. apply Hnc. apply mem_insert. by left.
    + apply mem_false. intros Ht. apply mem_false in Hnc. apply Hnc. apply mem_insert. by right.
Qed.

Lemma build_inv s g es : inv s -> inv (build s g es).
Proof.
  intros H. unfold build. destruct (mem (constructed s) g) eqn:Hg; [done|].
  apply sync_finish, build_edges_building. by apply inv_inv_building.
Qed.

(** ** linking *)

Lemma link_inv s n g :
  inv s -> valid_op s (OLink n g) -> inv (link s n g).
Proof.
  intros [(He & [Hc1 Hc2] & Hcl & Hgl) Hclean] Hv. unfold link.
  destruct (is_kind s n KC); [|done]. simpl.
  destruct (bool_decide (is_Some (callee s !! n))) eqn:Hcn; [done|]. simpl.
  apply bool_decide_eq_false in Hcn. apply eq_None_not_Some in Hcn.
  simpl in Hv. set (i := instr_of s n) in *.
  split; [split; [|split; [|split]]|]; try done.
  split.
  - intros m h. simpl. destruct (decide (m = n)) as [->|Hne].
    + rewrite lookup_insert. intros [= <-]. fold i.
      destruct Hv as [Hv|Hv]; rewrite Hv; [apply get2_set2_eq | done].
    + rewrite lookup_insert_ne by done. intros Hm. pose proof (Hc1 _ _ Hm) as Hreg.
      change (instr_of _ m) with (instr_of s m).
      destruct Hv as [Hv|Hv]; rewrite Hv; [|done].
      rewrite get2_set2_ne; [done|]. intros [-> Hi]. rewrite <- Hi in Hreg. congruence.
  - intros h j m. simpl. change (instr_of _ m) with (instr_of s m).
    destruct Hv as [Hv|Hv]; rewrite Hv.
    + rewrite get2_set2. destruct (decide (g = h /\ i = j)) as [[-> <-]|Hne].
      * intros [= <-]. by rewrite lookup_insert.
      * intros Hm. destruct (Hc2 _ _ _ Hm) as [Hcm Him]. split; [|done].
        rewrite lookup_insert_ne; [done|]. intros ->. congruence.
    + intros Hm. destruct (Hc2 _ _ _ Hm) as [Hcm Him]. split; [|done].
      rewrite lookup_insert_ne; [done|]. intros ->. congruence.
Qed.

Lemma sync_closure_inv s c g :
  inv s -> valid_op s (OSyncClosure c g) -> inv (sync_closure s c g).
Proof.
  intros [(He & Hc & [Hc1 Hc2] & Hgl) Hclean] Hv. unfold sync_closure.
  destruct (is_kind s c KK); [|done]. simpl in Hv.
  destruct (bool_decide (g = 0%N)) eqn:Hg.
  - rewrite (delete_notin _ _ Hv). done.
  - destruct Hv as [Hv1 Hv2]. set (i := instr_of s c) in *.
    split; [split; [|split; [|split]]|]; try done.
    split.
    + intros m h. simpl. change (instr_of _ m) with (instr_of s m). destruct (decide (m = c)) as [->|Hne].
      * rewrite lookup_insert. intros [= <-]. apply get2_set2_eq.
      * rewrite lookup_insert_ne by done. intros Hm. pose proof (Hc1 _ _ Hm) as Hreg.
        rewrite get2_set2_ne; [done|]. intros [-> Hi]. rewrite <- Hi in Hreg.
        destruct Hv1 as [Hv1|Hv1]; congruence.
    + intros h j m. simpl. change (instr_of _ m) with (instr_of s m).
      rewrite get2_set2. destruct (decide (g = h /\ i = j)) as [[-> <-]|Hne].
      * intros [= <-]. by rewrite lookup_insert.
      * intros Hm. destruct (Hc2 _ _ _ Hm) as [Hcm Him]. split; [|done].
        rewrite lookup_insert_ne; [done|]. intros ->.
        destruct Hv2 as [Hv2|Hv2]; [congruence|].
        apply Hne. split; [congruence | done].
Qed.

(** ** main theorem: every (valid) operation preserves the invariant *)

Theorem apply_op_inv s o : inv s -> valid_op s o -> inv (apply_op s o).
Proof.
  intros H Hv. destruct o as [a b i p c | g i j | g i p | g es | g a r | n g | c g].
  - by apply update_op_inv.
  - by apply param_edge_inv.
  - by apply return_edge_inv.
  - by apply build_inv.
  - simpl. destruct (mem (constructed s) g) eqn:Hg; [done|]. by apply populate_inv.
  - simpl. destruct (bool_decide (g = 0%N)); [done|]. by apply link_inv.
  - by apply sync_closure_inv.
Qed.

Lemma empty_inv ns ss : inv (empty_over ns ss).
Proof.
  split; [split; [|split; [|split; [|split]]]|].
  - intros a b. unfold has_out, has_in, get2. simpl. rewrite !lookup_empty. split; intros [? ?]; done.
  - split; [intros n g; simpl; by rewrite lookup_empty|].
    intros g i n. unfold get2. simpl. by rewrite lookup_empty.
  - split; [intros n g; simpl; by rewrite lookup_empty|].
    intros g i n. unfold get2. simpl. by rewrite lookup_empty.
  - intros gl n. unfold get2, is_wloc. simpl. rewrite lookup_empty.
    split; [intros [? ?]; done|]. destruct (ns !! n); [|done]. intros (_ & _ & H & _).
    unfold mem in H. apply bool_decide_eq_true in H. rewrite lookup_empty in H. by destruct H.
  - intros gl n. unfold get2, is_rloc. simpl. rewrite lookup_empty.
    split; [intros [? ?]; done|]. destruct (ns !! n); [|done]. intros (_ & _ & H & _).
    unfold mem in H. apply bool_decide_eq_true in H. rewrite lookup_empty in H. by destruct H.
  - intros n na _ _ _. split.
    + apply mem_false. intros H. apply mem_true in H. simpl in H. rewrite lookup_empty in H. by destruct H.
    + unfold out_nonempty. simpl. by rewrite lookup_empty.
Qed.

Theorem run_inv os : forall s, inv s -> valid_seq s os -> inv (run s os).
Proof.
  unfold run. induction os as [|o os IH]; intros s H Hv; simpl; [done|].
  destruct Hv as [Hv1 Hv2]. apply IH; [by apply apply_op_inv | done].
Qed.

(** ** the tuple indices: what holds *)

Lemma add_path_found idx p es es' :
  add_path idx p es = (es', true) -> exists e', e' ∈ es' /\ ei_idx e' = idx.
Proof.
  revert es'. induction es as [|e es IH]; intros es' H; simpl in H; [done|].
  destruct (add_path idx p es) as [r f]. destruct (bool_decide (ei_idx e = idx)) eqn:E.
  - injection H as <-. apply bool_decide_eq_true in E. eexists. split; [apply elem_of_cons; by left | done].
  - injection H as <- ->. destruct (IH r eq_refl) as (e' & ? & ?). exists e'. split; [apply elem_of_cons; by right | done].
Qed.

Lemma idx_partial_ext s s' : same_edges s s' -> idx_partial s -> idx_partial s'.
Proof. intros [Ho Hi] H a b e. rewrite Ho, Hi. apply H. Qed.

Lemma update_edge_idxp s a b i p c : idx_partial s -> idx_partial (update_edge s a b i p c).
Proof.
  intros H x y e. unfold update_edge.
  destruct (add_path i p (default [] (get2 (outm s) a b))) as [es' found] eqn:Hap. simpl.
  rewrite !get2_set2. destruct (decide (b = y /\ a = x)) as [[<- <-]|Hne].
  - intros [= <-]. rewrite decide_True by done. simpl. destruct found.
    + by apply (add_path_found _ _ _ _ Hap).
    + eexists. split; [apply elem_of_app; right; apply elem_of_list_singleton; done | done].
  - intros He. rewrite decide_False by naive_solver. by apply H.
Qed.

Lemma append_edge_idxp s a b e0 : idx_partial s -> idx_partial (append_edge s a b e0).
Proof.
  intros H x y e. unfold append_edge. simpl.
  rewrite !get2_set2. destruct (decide (b = y /\ a = x)) as [[<- <-]|Hne].
  - intros [= <-]. rewrite decide_True by done. simpl.
    eexists. split; [apply elem_of_app; right; apply elem_of_list_singleton; done | done].
  - intros He. rewrite decide_False by naive_solver. by apply H.
Qed.

Lemma param_edge_idxp s g i j : idx_partial s -> idx_partial (param_edge s g i j).
Proof.
  intros H. unfold param_edge. destruct (sums s !! g) as [sa|]; [|done].
  destruct (zpos (s_params sa) i) as [a|]; [|done]. destruct (zpos (s_params sa) j) as [b|]; [|done].
  destruct (is_kind s a KP && is_kind s b KP); [|done]. by apply append_edge_idxp.
Qed.
Lemma return_edge_idxp s g i j : idx_partial s -> idx_partial (return_edge s g i j).
Proof.
  intros H. unfold return_edge. destruct (sums s !! g) as [sa|]; [|done]. destruct (s_hasret sa); [|done].
  destruct (zpos (s_params sa) i) as [a|]; [|done]. destruct (zpos (s_rets sa) j) as [b|]; [|done].
  destruct (is_kind s a KP && is_kind s b KR); [|done]. by apply append_edge_idxp.
Qed.

Lemma build_edge_idxp g s e : idx_partial s -> idx_partial (build_edge g s e).
Proof.
  intros H. unfold build_edge.
  destruct (bool_decide (sum_of s (m_src e) = g) && negb (is_kind s (m_src e) KR)
            && bool_decide (is_Some (nodes s !! m_src e))); [|done].
  destruct (m_glob e).
  - destruct (is_kind s (m_dst e) KG && bool_decide (sum_of s (m_dst e) = g)); [|done].
    apply update_edge_idxp. by apply (idx_partial_ext s).
  - by apply update_edge_idxp.
Qed.

Lemma fold_idxp {X} (f : state -> X -> state) :
  (forall s x, idx_partial s -> idx_partial (f s x)) -> forall l s, idx_partial s -> idx_partial (fold_left f l s).
Proof. intros Hf l. induction l as [|x l IH]; intros s Hs; simpl; [done|]. by apply IH, Hf. Qed.

Lemma sync_node_idxp g s x : idx_partial s -> idx_partial (sync_node g s x).
Proof.
  destruct x as [n na]. intros H. destruct (sync_node_spec g s n na) as ((_ & He & _) & _). by apply (idx_partial_ext s).
Qed.

Theorem apply_op_idxp s o : idx_partial s -> idx_partial (apply_op s o).
Proof.
  intros H. destruct o as [a b i p c | g i j | g i p | g es | g a r | n g | c g]; simpl.
  - destruct (is_kind s a KG || is_kind s a KR); [done|]. by apply update_edge_idxp.
  - by apply param_edge_idxp.
  - by apply return_edge_idxp.
  - unfold build. destruct (mem (constructed s) g); [done|].
    apply (idx_partial_ext (sync_globals (fold_left (build_edge g) es s) g)); [done|].
    unfold sync_globals. apply fold_idxp; [apply sync_node_idxp|].
    apply fold_idxp; [apply build_edge_idxp | done].
  - destruct (mem (constructed s) g); [done|]. unfold populate.
    apply (idx_partial_ext (fold_left (fun s x => return_edge s g x.1 x.2) r
                              (fold_left (fun s x => param_edge s g x.1 x.2) a s))); [done|].
    apply fold_idxp; [intros; by apply return_edge_idxp|].
    apply fold_idxp; [intros; by apply param_edge_idxp | done].
  - destruct (bool_decide (g = 0%N)); [done|]. unfold link.
    destruct (is_kind s n KC && negb (bool_decide (is_Some (callee s !! n)))); [|done].
    by apply (idx_partial_ext s).
  - unfold sync_closure. destruct (is_kind s c KK); [|done].
    destruct (bool_decide (g = 0%N)); by apply (idx_partial_ext s).
Qed.

Lemma empty_idxp ns ss : idx_partial (empty_over ns ss).
Proof. intros a b e. unfold get2. simpl. by rewrite lookup_empty. Qed.

Theorem run_idxp os : forall s, idx_partial s -> idx_partial (run s os).
Proof. unfold run. induction os as [|o os IH]; intros s H; simpl; [done|]. by apply IH, apply_op_idxp. Qed.
