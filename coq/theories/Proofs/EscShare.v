(* Executions: alpha holds along every schedule; soundness of Local verdicts; the sharing-event theorem (C13). *)
From Coq Require Import List Arith Bool Lia.
From Argot Require Import Lang.Conc Model.Esc Proofs.EscGraph0 Proofs.Esc Proofs.EscStep Proofs.EscSound.
Import ListNotations.

Lemma alpha_init : forall P A, check_annot P A = true -> 0 < length P -> alpha P A init_state.
Proof.
  intros P A CA HP. split.
  - constructor; simpl; intros; try discriminate.
    destruct k as [|k]; simpl in H; [inversion H; subst; simpl in H0; discriminate | destruct k; discriminate].
  - exists (fun _ _ _ => False). intros tid t Ht _. destruct tid as [|tid]; simpl in Ht; [|destruct tid; discriminate].
    inversion Ht; subst; simpl. destruct P as [|f0 P]; [simpl in HP; lia|].
    destruct (check_annot_entry (f0 :: P) A 0 f0 CA eq_refl) as [_ C].
    assert (NoLoc : forall g l, ~ loc_in g (fun _ _ => False) l) by (intros g l (n & [] & _)).
    constructor.
    + intros l n [].
    + intros r l H; discriminate.
    + intros l n f l' [].
    + intros l f l' Hl; exfalso; eapply NoLoc; eauto.
    + intros l gv Hl; exfalso; eapply NoLoc; eauto.
    + intros l k t' r Hl; exfalso; eapply NoLoc; eauto.
    + intros l n n' [].
    + exact C.
Qed.

Lemma fold_step_alpha : forall P A, check_annot P A = true -> forall sched s, alpha P A s -> alpha P A (fold_left (step P) sched s).
Proof. intros P A CA; induction sched as [|c sched IH]; simpl; intros s H; auto. apply IH. apply alpha_step; auto. Qed.

Theorem alpha_run : forall P A, check_annot P A = true -> 0 < length P -> forall sched, alpha P A (run P sched).
Proof. intros; unfold run. apply fold_step_alpha; auto. apply alpha_init; auto. Qed.

(* the pointer operand whose pointees the impl's instructionLocality inspects with derefsAreLocal *)
Definition guarded_operand (i : instr) : option reg :=
  match i with
  | ILoad _ q _ => Some q
  | IStore r _ _ => Some r
  | _ => None
  end.

Lemma verdict_local : forall g i q, guarded_operand i = Some q -> instr_verdict g i = VLocal -> is_local g q = true.
Proof.
  intros g i q H V; destruct i; simpl in *; try discriminate; inversion H; subst;
    destruct (is_local g q); auto; discriminate.
Qed.

(* local_sound (proved fragment): in every reachable state of every program under every schedule, if the instruction a
   live thread is about to execute is classified Local in the (valid) annotation, the object its pointer operand refers
   to is unreachable from the globals and from every other thread's registers. *)
Theorem local_sound_core : forall P A, check_annot P A = true -> 0 < length P ->
  forall sched tid t i succs q l,
    nth_error (thr (run P sched)) tid = Some t -> t_live t = true ->
    fetch P (t_fn t) (t_pc t) = Some (i, succs) ->
    guarded_operand i = Some q ->
    instr_verdict (getA A (t_fn t) (t_pc t)) i = VLocal ->
    t_regs t q = Some l ->
    ~ shared (run P sched) tid l.
Proof.
  intros P A CA HP sched tid t i succs q l Ht Hl F G V Hq.
  destruct (alpha_run P A CA HP sched) as [_ [R Hall]].
  eapply local_not_shared; [apply (Hall tid t Ht Hl) | eapply verdict_local; eauto | exact Hq].
Qed.

(* ------------------------------------------------------------------------------------------ sharing events *)
Lemma hreach_trans : forall h a b c, hreach h a b -> hreach h b c -> hreach h a c.
Proof. intros h a b c H; induction H; intro H2; auto. econstructor; eauto. Qed.

Lemma hreach_upd2 : forall h l f v a o, hreach (upd2 h l f v) a o ->
  hreach h a o \/ (hreach h a l /\ exists v0, v = Some v0 /\ hreach h v0 o).
Proof.
  intros h l f v a o H; induction H as [x | x f1 x' x'' E H IH].
  - left; constructor.
  - destruct (upd2_cases h l f v x f1) as [(-> & -> & E1) | (_ & E1)]; rewrite E1 in E.
    + destruct IH as [IH | [_ (v0 & Ev & Hv)]].
      * right; split; [constructor | exists x'; auto].
      * right; split; [constructor | exists v0; auto].
    + destruct IH as [IH | [Hl Hv]].
      * left; econstructor; eauto.
      * right; split; auto. econstructor; eauto.
Qed.

Definition touches (s : state) (t : thread) (q : reg) (o : loc) : Prop :=
  exists l0, t_regs t q = Some l0 /\ hreach (heap s) l0 o.

(* what makes an object of thread `owner` reachable by others: one of three instructions executed by owner itself *)
Inductive share_cause (P : prog) (A : annot) (s : state) (owner : nat) (o : loc) : Prop :=
| sc_gstore : forall t gv q succs, nth_error (thr s) owner = Some t ->
    fetch P (t_fn t) (t_pc t) = Some (IGStore gv q, succs) -> touches s t q o ->
    instr_verdict (getA A (t_fn t) (t_pc t)) (IGStore gv q) = VNonLocal -> share_cause P A s owner o
| sc_store : forall t r f q succs, nth_error (thr s) owner = Some t ->
    fetch P (t_fn t) (t_pc t) = Some (IStore r f q, succs) -> touches s t q o ->
    instr_verdict (getA A (t_fn t) (t_pc t)) (IStore r f q) = VNonLocal -> share_cause P A s owner o
| sc_go : forall t fn args succs a, nth_error (thr s) owner = Some t ->
    fetch P (t_fn t) (t_pc t) = Some (IGo fn args, succs) -> In a args -> touches s t a o -> share_cause P A s owner o.

Lemma shared_intro_thread : forall s owner k t r l0 o, k <> owner -> nth_error (thr s) k = Some t -> t_regs t r = Some l0 ->
  hreach (heap s) l0 o -> shared s owner o.
Proof. intros; right; exists k, t, r, l0; auto. Qed.

Lemma shared_intro_glob : forall s owner gv l0 o, glob s gv = Some l0 -> hreach (heap s) l0 o -> shared s owner o.
Proof. intros; left; exists gv, l0; auto. Qed.

Lemma hreach_fresh : forall s l o, wf s -> nxt s <= l -> hreach (heap s) l o -> o = l.
Proof.
  intros s l o WF Hl H; inversion H; subst; auto. apply (wf_heap _ WF) in H0. lia.
Qed.

Theorem share_event : forall P A s, alpha P A s -> forall tid br owner o,
  o < nxt s -> ~ shared s owner o -> shared (step P s (tid, br)) owner o ->
  tid = owner /\ share_cause P A s owner o.
Proof.
  intros P A s [WF [R Hall]] tid br owner o Ho NS. unfold step.
  destruct (nth_error (thr s) tid) as [t|] eqn:Ht; [|intro; contradiction].
  destruct (t_live t) eqn:Hlive; simpl; [|intro; contradiction].
  assert (Hlt : tid < length (thr s)) by (eapply nth_error_lt; eauto).
  (* a value held by a thread other than owner, or by a global, cannot reach o *)
  assert (NoT : forall k tk r l0, k <> owner -> nth_error (thr s) k = Some tk -> t_regs tk r = Some l0 -> ~ hreach (heap s) l0 o).
  { intros k tk r l0 Hk Hn Hr Hre; apply NS; eapply shared_intro_thread; eauto. }
  assert (NoG : forall gv l0, glob s gv = Some l0 -> ~ hreach (heap s) l0 o).
  { intros gv l0 Hg Hre; apply NS; eapply shared_intro_glob; eauto. }
  destruct (fetch P (t_fn t) (t_pc t)) as [[i succs]|] eqn:F.
  2:{ intros [ (gv & l0 & Hg & Hr) | (k & tk & r & l0 & Hk & Hn & Hreg & Hr) ]; simpl in *.
      - exfalso; eapply NoG; eauto.
      - exfalso. destruct (Nat.eq_dec k tid) as [-> | Hne].
        + rewrite nth_set_nth_eq in Hn by auto. inversion Hn; subst; simpl in Hreg. eapply NoT; eauto.
        + rewrite nth_set_nth_neq in Hn by auto. eapply NoT; eauto. }
  (* generic treatment of a step that changes neither heap nor globals *)
  assert (Same : forall regs' ox n',
     (forall r l0, regs' r = Some l0 -> tid <> owner -> ~ hreach (heap s) l0 o) ->
     (forall x, ox = Some x -> forall r l0, t_regs x r = Some l0 -> ~ hreach (heap s) l0 o) ->
     ~ shared (mk (heap s) n' (glob s) (set_nth (thr s) tid (advance t regs' succs br) ++ extra ox)) owner o).
  { intros regs' ox n' Hregs Hx [ (gv & l0 & Hg & Hr) | (k & tk & r & l0 & Hk & Hn & Hreg & Hr) ]; simpl in *.
    - eapply NoG; eauto.
    - apply nth_thr' in Hn; auto. destruct Hn as [[-> ->] | [(Hne & _ & Hold) | [_ Hox]]].
      + rewrite advance_regs in Hreg. eapply Hregs; eauto.
      + eapply NoT; eauto.
      + eapply Hx; eauto. }
  assert (Held : forall r l0, t_regs t r = Some l0 -> tid <> owner -> ~ hreach (heap s) l0 o).
  { intros r l0 Hr Hne; eapply NoT; eauto. }
  destruct i as [r | r q | r q f | r f q | r gv | gv q | callee args | ].
  - (* alloc *) intro Sh. exfalso. rewrite <- (app_nil_r (set_nth _ _ _)) in Sh. revert Sh.
    apply (Same (upd (t_regs t) r (Some (nxt s))) None (S (nxt s))); [|discriminate].
    intros r' l0 H Hne. destruct (upd_cases _ (t_regs t) r (Some (nxt s)) r') as [[-> E] | [Hne' E]]; rewrite E in H.
    + inversion H; subst. intro Hre. apply hreach_fresh in Hre; auto. lia.
    + eapply Held; eauto.
  - (* copy *) intro Sh. exfalso. rewrite <- (app_nil_r (set_nth _ _ _)) in Sh. revert Sh.
    apply (Same (upd (t_regs t) r (t_regs t q)) None (nxt s)); [|discriminate].
    intros r' l0 H Hne. destruct (upd_cases _ (t_regs t) r (t_regs t q) r') as [[-> E] | [Hne' E]]; rewrite E in H; eapply Held; eauto.
  - (* load *) destruct (t_regs t q) as [lb|] eqn:Hq; [|intro; contradiction].
    intro Sh. exfalso. rewrite <- (app_nil_r (set_nth _ _ _)) in Sh. revert Sh.
    apply (Same (upd (t_regs t) r (heap s lb f)) None (nxt s)); [|discriminate].
    intros r' l0 H Hne. destruct (upd_cases _ (t_regs t) r (heap s lb f) r') as [[-> E] | [Hne' E]]; rewrite E in H.
    + intro Hre. eapply (Held q lb); eauto. econstructor; eauto.
    + eapply Held; eauto.
  - (* store *) destruct (t_regs t r) as [lb|] eqn:Hr; [|intro; contradiction].
    intros [ (gv & l0 & Hg & Hre) | (k & tk & r' & l0 & Hk & Hn & Hreg & Hre) ]; simpl in *.
    + apply hreach_upd2 in Hre. destruct Hre as [Hre | [Hb (v0 & Ev & Hv)]]; [exfalso; eapply NoG; eauto|].
      destruct (Nat.eq_dec tid owner) as [-> | Hne]; [|exfalso; eapply (Held q v0); eauto].
      split; auto. eapply (sc_store P A s owner o t r f q succs); eauto; [exists v0; auto|].
      simpl. destruct (is_local (getA A (t_fn t) (t_pc t)) r) eqn:L; auto. exfalso.
      eapply (local_not_shared _ _ _ _ _ (Hall owner t Ht Hlive) r lb L Hr). eapply shared_intro_glob; eauto.
    + assert (Hn0 : exists tk0, nth_error (thr s) k = Some tk0 /\ t_regs tk0 r' = Some l0).
      { rewrite <- (app_nil_r (set_nth _ _ _)) in Hn. apply (nth_thr' _ _ _ None) in Hn; auto.
        destruct Hn as [[-> ->] | [(Hne & _ & Hold) | [_ Hox]]]; [|eauto|discriminate].
        rewrite advance_regs in Hreg. eauto. }
      destruct Hn0 as (tk0 & Hn0 & Hreg0).
      apply hreach_upd2 in Hre. destruct Hre as [Hre | [Hb (v0 & Ev & Hv)]]; [exfalso; eapply NoT; eauto|].
      destruct (Nat.eq_dec tid owner) as [-> | Hne]; [|exfalso; eapply (Held q v0); eauto].
      split; auto. eapply (sc_store P A s owner o t r f q succs); eauto; [exists v0; auto|].
      simpl. destruct (is_local (getA A (t_fn t) (t_pc t)) r) eqn:L; auto. exfalso.
      eapply (local_not_shared _ _ _ _ _ (Hall owner t Ht Hlive) r lb L Hr). eapply shared_intro_thread; eauto.
  - (* global load *) intro Sh. exfalso. rewrite <- (app_nil_r (set_nth _ _ _)) in Sh. revert Sh.
    apply (Same (upd (t_regs t) r (glob s gv)) None (nxt s)); [|discriminate].
    intros r' l0 H Hne. destruct (upd_cases _ (t_regs t) r (glob s gv) r') as [[-> E] | [Hne' E]]; rewrite E in H.
    + eapply NoG; eauto.
    + eapply Held; eauto.
  - (* global store *)
    intros [ (gv' & l0 & Hg & Hre) | (k & tk & r' & l0 & Hk & Hn & Hreg & Hre) ]; simpl in *.
    + destruct (upd_cases _ (glob s) gv (t_regs t q) gv') as [[-> E] | [Hne' E]]; rewrite E in Hg; [|exfalso; eapply NoG; eauto].
      destruct (Nat.eq_dec tid owner) as [-> | Hne]; [|exfalso; eapply (Held q l0); eauto].
      split; auto. eapply (sc_gstore P A s owner o t gv q succs); eauto. exists l0; auto.
    + exfalso. rewrite <- (app_nil_r (set_nth _ _ _)) in Hn. apply (nth_thr' _ _ _ None) in Hn; auto.
      destruct Hn as [[-> ->] | [(Hne & _ & Hold) | [_ Hox]]]; [|eapply NoT; eauto|discriminate].
      rewrite advance_regs in Hreg. eapply NoT; eauto.
  - (* go *)
    intros [ (gv' & l0 & Hg & Hre) | (k & tk & r' & l0 & Hk & Hn & Hreg & Hre) ]; simpl in *.
    + exfalso; eapply NoG; eauto.
    + apply (nth_thr' _ _ _ (Some _)) in Hn; auto.
      destruct Hn as [[-> ->] | [(Hne & _ & Hold) | [_ Hox]]].
      * exfalso. rewrite advance_regs in Hreg. eapply NoT; eauto.
      * exfalso; eapply NoT; eauto.
      * inversion Hox; subst tk; simpl in Hreg. unfold spawn_regs in Hreg.
        destruct (nth_error args r') as [a|] eqn:Ea; [|discriminate].
        destruct (Nat.eq_dec tid owner) as [-> | Hne]; [|exfalso; eapply (Held a l0); eauto].
        split; auto. eapply (sc_go P A s owner o t callee args succs a); eauto.
        -- eapply nth_error_In; eauto.
        -- exists l0; auto.
  - (* nop *) intro Sh. exfalso. rewrite <- (app_nil_r (set_nth _ _ _)) in Sh. revert Sh.
    apply (Same (t_regs t) None (nxt s)); [|discriminate]. intros; eapply Held; eauto.
Qed.
