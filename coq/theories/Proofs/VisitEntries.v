(** * The alarm limit over the entry-point loop ([RunVisitorOnEntryPoints], shared alarm counter).

    [visit_entries k es a]: for each entry point (source node, calling context) in the order [es] (a Go map iteration order,
    arbitrary): if [TestAlarmCount()] fails the remaining entry points are skipped, otherwise [Visit] runs with the shared
    counter.  [alarm_limit_entries_lemma]: with max-alarms = k > 0 the reported sink visits are a subset of the unlimited
    ones, there are at most k of them, and there is at least one whenever the unlimited run reports one. *)
From Coq Require Import List PArith NArith ZArith Bool FMapPositive Lia Permutation.
From Argot Require Import Model.Visit Proofs.VisitBase Proofs.VisitStop.
Import ListNotations.

Set Default Proof Using "Type".

Local Opaque lt_mem lt_add.

Section Entries.
  Variable g : graph.
  Variable P : preds.
  Variable cfg : config.
  Variable ord : oracle.
  Variable fuel : nat.

  Definition limit_reached (k a : N) : bool := N.ltb 0 k && negb (N.ltb a k).

  Definition entry_hits (k : N) (src : id) (t : list id) (a : N) : list vnode :=
    st_hits (outcome_state (visit g P (with_alarms cfg k) ord src fuel t a)).

  Definition entry_alarms (k : N) (src : id) (t : list id) (a : N) : N :=
    st_alarms (outcome_state (visit g P (with_alarms cfg k) ord src fuel t a)).

  Fixpoint visit_entries (k : N) (es : list (id * list id)) (a : N) : list (id * vnode) :=
    match es with
    | [] => []
    | (src, t) :: es' =>
        if limit_reached k a then []
        else map (fun h => (src, h)) (entry_hits k src t a) ++ visit_entries k es' (entry_alarms k src t a)
    end.

  (** the counter is the initial value plus the number of sink visits recorded *)
  Lemma loop_alarm_count cfg' src : forall fl st a0,
    st_alarms st = (a0 + N.of_nat (length (st_hits st)))%N ->
    let st' := outcome_state (loop g P cfg' ord src fl st) in
    st_alarms st' = (a0 + N.of_nat (length (st_hits st')))%N.
  Proof.
    induction fl as [|fl IH]; intros st a0 H; simpl; [exact H|].
    destruct (st_queue st) as [|cur q]; [exact H|].
    destruct (stop_of g P cfg' cur) as [[r|]|c]; [| |exact H].
    - destruct r; try (apply IH; simpl; exact H).
      set (st1 := mkState q (st_seen st) (cur :: st_hits st) (N.succ (st_alarms st)) (cur :: st_visited st) (N.succ (st_step st))).
      assert (st_alarms st1 = (a0 + N.of_nat (length (st_hits st1)))%N) as H1.
      { unfold st1. cbn [st_alarms st_hits length]. rewrite Nat2N.inj_succ. lia. }
      destruct (_ && _); [exact H1|]. apply IH. exact H1.
    - destruct (expand g cfg' ord src (st_step st) cur); [|exact H].
      destruct (add_all _ _ _ _ _ _ _ _ _ _) as [[q' seen']|]; [|exact H].
      apply IH. simpl. exact H.
  Qed.

  Lemma entry_alarms_count k src t a : entry_alarms k src t a = (a + N.of_nat (length (entry_hits k src t a)))%N.
  Proof.
    unfold entry_alarms, entry_hits, visit. apply (loop_alarm_count (with_alarms cfg k) src fuel (init_state src t a) a).
    simpl. lia.
  Qed.

  (** without a limit nothing reads the counter: states that differ only in [st_alarms] evolve in lock-step *)
  Definition same_but_alarms (s1 s2 : state) : Prop :=
    st_queue s1 = st_queue s2 /\ st_seen s1 = st_seen s2 /\ st_hits s1 = st_hits s2 /\ st_visited s1 = st_visited s2 /\ st_step s1 = st_step s2.

  Definition same_outcome (o1 o2 : outcome) : Prop :=
    same_but_alarms (outcome_state o1) (outcome_state o2) /\
    match o1, o2 with
    | Done _, Done _ | AlarmStop _, AlarmStop _ | OutOfFuel _, OutOfFuel _ => True
    | Crashed c1 _, Crashed c2 _ => c1 = c2
    | _, _ => False
    end.

  Lemma loop_unlimited_counter src : forall fl s1 s2,
    same_but_alarms s1 s2 ->
    same_outcome (loop g P (with_alarms cfg 0) ord src fl s1) (loop g P (with_alarms cfg 0) ord src fl s2).
  Proof.
    induction fl as [|fl IH]; intros s1 s2 H; simpl.
    - split; [exact H|exact I].
    - destruct H as (Hq & Hs & Hh & Hv & Hst). rewrite <- Hq, <- Hst, <- Hs.
      destruct (st_queue s1) as [|cur q] eqn:E1.
      + split; [repeat split; simpl; congruence|exact I].
      + rewrite !stop_of_alarms.
        destruct (stop_of g P cfg cur) as [[r|]|c].
        * destruct r; try (apply IH; repeat split; simpl; congruence).
        * rewrite !expand_alarms.
          destruct (expand g cfg ord src (st_step s1) cur) as [cds|c].
          -- rewrite !add_all_alarms.
             destruct (add_all g P cfg ord (st_step s1) 16 cur cds q (st_seen s1)) as [[q' seen']|c].
             ++ apply IH. repeat split; simpl; congruence.
             ++ split; [repeat split; simpl; congruence|reflexivity].
          -- split; [repeat split; simpl; congruence|reflexivity].
        * split; [repeat split; simpl; congruence|reflexivity].
  Qed.

  Lemma unlimited_hits_counter src t a a' : entry_hits 0 src t a = entry_hits 0 src t a'.
  Proof.
    unfold entry_hits, visit.
    destruct (loop_unlimited_counter src fuel (init_state src t a) (init_state src t a')) as [(_ & _ & Hh & _) _].
    - repeat split.
    - exact Hh.
  Qed.

  Lemma unlimited_done_counter src t a a' :
    (exists st, visit g P (with_alarms cfg 0) ord src fuel t a = Done st) ->
    exists st', visit g P (with_alarms cfg 0) ord src fuel t a' = Done st'.
  Proof.
    intros [st H]. unfold visit in *.
    destruct (loop_unlimited_counter src fuel (init_state src t a) (init_state src t a')) as [_ Hk]; [repeat split|].
    rewrite H in Hk. destruct (loop g P (with_alarms cfg 0) ord src fuel (init_state src t a')); try contradiction. eauto.
  Qed.

  (** what [alarm_limit_lemma] says about one entry point, in terms of [entry_hits] *)
  Lemma entry_limit k src t a :
    (0 < k)%N -> (a < k)%N ->
    (exists st, visit g P (with_alarms cfg 0) ord src fuel t a = Done st) ->
    incl (entry_hits k src t a) (entry_hits 0 src t a) /\
    (N.of_nat (length (entry_hits k src t a)) <= k - a)%N /\
    (entry_hits 0 src t a <> [] -> entry_hits k src t a <> []).
  Proof.
    intros Hk Ha [stu Hu].
    destruct (alarm_limit_lemma g P cfg ord src k a fuel t stu Hk Ha Hu) as (stk & Hl & (later & Hs) & Hlen & Hne).
    unfold entry_hits. rewrite Hu. simpl.
    assert (outcome_state (visit g P (with_alarms cfg k) ord src fuel t a) = stk) as ->.
    { destruct Hl as [-> | ->]; reflexivity. }
    split; [|split; assumption].
    intros h Hh. rewrite Hs. apply in_or_app. right. exact Hh.
  Qed.

  Lemma limit_reached_false k a : (a < k)%N -> limit_reached k a = false.
  Proof. intros H. unfold limit_reached. apply N.ltb_lt in H. rewrite H. apply andb_false_r. Qed.

  Lemma limit_reached_zero a : limit_reached 0 a = false.
  Proof. reflexivity. Qed.

  Lemma entries_limit_gen k : (0 < k)%N -> forall es a au,
    (forall src t b, In (src, t) es -> exists st, visit g P (with_alarms cfg 0) ord src fuel t b = Done st) ->
    (a < k)%N ->
    incl (visit_entries k es a) (visit_entries 0 es au) /\
    (N.of_nat (length (visit_entries k es a)) <= k - a)%N /\
    (visit_entries 0 es au <> [] -> visit_entries k es a <> []).
  Proof.
    intros Hk. induction es as [|[src t] es IH]; intros a au Hd Ha; simpl.
    - split; [intros x []|]. split; [lia|congruence].
    - rewrite (limit_reached_false k a Ha).
      destruct (entry_limit k src t a Hk Ha (Hd src t a (or_introl eq_refl))) as (Hi & Hlen & Hne).
      rewrite (unlimited_hits_counter src t a au) in Hi, Hne.
      assert (forall src' t' b, In (src', t') es -> exists st, visit g P (with_alarms cfg 0) ord src' fuel t' b = Done st) as Hd'
        by (intros; apply Hd; right; assumption).
      pose proof (entry_alarms_count k src t a) as Ec.
      destruct (N.ltb (entry_alarms k src t a) k) eqn:El.
      + apply N.ltb_lt in El.
        destruct (IH (entry_alarms k src t a) (entry_alarms 0 src t au) Hd' El) as (Hi2 & Hlen2 & Hne2).
        split; [|split].
        * intros x Hx. apply in_app_or in Hx as [Hx|Hx]; apply in_or_app.
          -- left. apply in_map_iff in Hx as (h & <- & Hh). apply in_map. apply Hi. exact Hh.
          -- right. apply Hi2. exact Hx.
        * rewrite app_length, map_length, Nat2N.inj_add. lia.
        * intros Hu. destruct (entry_hits 0 src t au) as [|h0 l0] eqn:E0.
          -- simpl in Hu. specialize (Hne2 Hu). intros Hc. apply app_eq_nil in Hc as [_ Hc]. contradiction.
          -- assert (entry_hits k src t a <> []) as Hn by (apply Hne; discriminate).
             intros Hc. apply app_eq_nil in Hc as [Hc _]. apply map_eq_nil in Hc. contradiction.
      + (* the counter reached k during this visit: every later entry point is skipped *)
        apply N.ltb_ge in El.
        assert (visit_entries k es (entry_alarms k src t a) = []) as ->.
        { destruct es as [|[s' t'] es']; [reflexivity|]. simpl. unfold limit_reached.
          apply N.ltb_lt in Hk. rewrite Hk. simpl.
          assert (N.ltb (entry_alarms k src t a) k = false) as -> by (apply N.ltb_ge; exact El). reflexivity. }
        rewrite app_nil_r. split; [|split].
        * intros x Hx. apply in_or_app. left. apply in_map_iff in Hx as (h & <- & Hh). apply in_map. apply Hi. exact Hh.
        * rewrite map_length. exact Hlen.
        * intros _ Hc. apply map_eq_nil in Hc.
          (* k <= a + |hits|, a < k: at least one hit *)
          rewrite Hc in Ec. simpl in Ec. lia.
  Qed.

  (** [alarm_limit] for the whole taint problem: subset of the unlimited result, at most k sink visits (hence at most k distinct
      (source, sink) pairs), non-empty whenever the unlimited result is non-empty.  Any order [es] of the entry points. *)
  Theorem alarm_limit_entries_lemma (k : N) (es : list (id * list id)) :
    (0 < k)%N ->
    (forall src t b, In (src, t) es -> exists st, visit g P (with_alarms cfg 0) ord src fuel t b = Done st) ->
    incl (visit_entries k es 0) (visit_entries 0 es 0) /\
    (N.of_nat (length (visit_entries k es 0)) <= k)%N /\
    (visit_entries 0 es 0 <> [] -> visit_entries k es 0 <> []).
  Proof.
    intros Hk Hd. destruct (entries_limit_gen k Hk es 0%N 0%N Hd Hk) as (H1 & H2 & H3).
    split; [exact H1|]. split; [lia|exact H3].
  Qed.
End Entries.
