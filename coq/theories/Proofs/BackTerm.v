(** * C03: the backward traversal terminates (a fuel bound computed from the graph suffices) *)
From Coq Require Import List PArith NArith ZArith Bool Lia FMapPositive Permutation.
Import ListNotations.
From Argot Require Import Model.Back Proofs.BackBase Proofs.BackWf.

(** ** All node identifiers mentioned by a graph *)
Definition opt_ids (l : list (option nid)) : list nid :=
  flat_map (fun o => match o with Some x => [x] | None => [] end) l.

Definition node_ids (e : positive * node) : list nid :=
  fst e :: n_parent (snd e) :: map fst (n_in (snd e)) ++ map fst (n_out (snd e)) ++ n_list (snd e).

Definition sgraph_ids (e : positive * sgraph) : list nid :=
  opt_ids (g_params (snd e)) ++ opt_ids (g_freevars (snd e)) ++ g_returns (snd e) ++ g_callsites (snd e)
  ++ g_refclosures (snd e).

Definition all_ids (g : graph) : list nid :=
  flat_map node_ids (PositiveMap.elements (nodes g)) ++
  flat_map sgraph_ids (PositiveMap.elements (graphs g)) ++
  flat_map snd (PositiveMap.elements (globals g)).

(** all lists of length at most [n] over [I] *)
Fixpoint lists_upto (n : nat) (I : list nid) : list (list nid) :=
  match n with
  | O => [[]]
  | S n' => [] :: flat_map (fun a => map (cons a) (lists_upto n' I)) I
  end.

Lemma lists_upto_complete : forall n I l, incl l I -> length l <= n -> In l (lists_upto n I).
Proof.
  induction n as [|n IH]; intros I l Hi Hl.
  - destruct l; simpl in *; [left; reflexivity|lia].
  - destruct l as [|a l]; simpl; [left; reflexivity|]. right.
    apply in_flat_map. exists a. split.
    + apply Hi. left. reflexivity.
    + apply in_map. apply IH.
      * intros y Hy. apply Hi. right. exact Hy.
      * simpl in Hl. lia.
Qed.

(** the universe of keys: node, duplicate-free call trace, duplicate-free closure trace, status kind *)
Definition universe (I : list nid) : list key :=
  let L := lists_upto (length I) I in
  list_prod (list_prod (list_prod I L) L) [true; false].

Definition fuel_bound (g : graph) (entry : nid) : nat := S (S (length (universe (entry :: all_ids g)))).

Lemma nodup_list_in : forall I l, NoDup l -> incl l I -> In l (lists_upto (length I) I).
Proof.
  intros I l Hn Hi. apply lists_upto_complete; auto. apply NoDup_incl_length; auto.
Qed.

Lemma key_in_universe : forall I n t c b,
  In n I -> NoDup t -> incl t I -> NoDup c -> incl c I -> In (n, t, c, b) (universe I).
Proof.
  intros I n t c b Hn Ht1 Ht2 Hc1 Hc2. unfold universe.
  apply in_prod; [apply in_prod; [apply in_prod|]|]; auto using nodup_list_in.
  destruct b; simpl; auto.
Qed.

Section Term.
Variable rank : oracle.
Variable g : graph.
Variable cfg : config.
Variable entry : nid.

Let I := entry :: all_ids g.
Let U := universe I.

Lemma node_in_ids : forall n x y, get_node g n = Some x -> In y (node_ids (n, x)) -> In y I.
Proof.
  intros n x y Hx Hy. right. unfold all_ids. apply in_or_app. left. apply in_flat_map.
  exists (n, x). split; auto. apply PositiveMap.elements_correct. exact Hx.
Qed.

Lemma graph_in_ids : forall i sg y, get_graph g i = Some sg -> In y (sgraph_ids (i, sg)) -> In y I.
Proof.
  intros i sg y Hx Hy. right. unfold all_ids. apply in_or_app. right. apply in_or_app. left. apply in_flat_map.
  exists (i, sg). split; auto. apply PositiveMap.elements_correct. exact Hx.
Qed.

Lemma glob_in_ids : forall gl l y, PositiveMap.find gl (globals g) = Some l -> In y l -> In y I.
Proof.
  intros gl l y Hx Hy. right. unfold all_ids. apply in_or_app. right. apply in_or_app. right. apply in_flat_map.
  exists (gl, l). split; auto. apply PositiveMap.elements_correct. exact Hx.
Qed.

Lemma opt_ids_nth : forall l k p, nth_error l k = Some (Some p) -> In p (opt_ids l).
Proof.
  intros l k p H. unfold opt_ids. apply in_flat_map. exists (Some p). split.
  - eapply nth_error_In; eauto.
  - left. reflexivity.
Qed.

Lemma ids_self : forall n x, get_node g n = Some x -> In n I.
Proof. intros n x H. eapply node_in_ids; eauto. left. reflexivity. Qed.

Lemma ids_parent : forall n x, get_node g n = Some x -> In (n_parent x) I.
Proof. intros n x H. eapply node_in_ids; eauto. right. left. reflexivity. Qed.

Lemma ids_in : forall n x y, get_node g n = Some x -> In y (in_srcs x) -> In y I.
Proof.
  intros n x y H Hy. eapply node_in_ids; eauto. right. right. apply in_or_app. left. exact Hy.
Qed.

Lemma ids_out : forall n x y, get_node g n = Some x -> In y (map fst (n_out x)) -> In y I.
Proof.
  intros n x y H Hy. eapply node_in_ids; eauto. right. right. apply in_or_app. right. apply in_or_app. left. exact Hy.
Qed.

Lemma ids_list : forall n x y, get_node g n = Some x -> In y (n_list x) -> In y I.
Proof.
  intros n x y H Hy. eapply node_in_ids; eauto. right. right. apply in_or_app. right. apply in_or_app. right. exact Hy.
Qed.

(** a backward step stays inside the identifiers of the graph *)
Lemma bstepb_in_ids : forall a b, bstepb g a b = true -> In b I.
Proof.
  intros a b H. unfold bstepb in H. destruct (get_node g a) as [x|] eqn:Hx; try discriminate.
  apply orb_true_iff in H. destruct H as [H|H].
  - apply pos_mem_In in H. eapply ids_in; eauto.
  - destruct (n_kind x).
    + (* param *)
      destruct (get_graph g (n_graph x)) as [sg|] eqn:Hg; try discriminate.
      apply existsb_exists in H. destruct H as [cs [Hcs H]].
      destruct (get_node g cs) as [csn|] eqn:Hn; try discriminate.
      destruct (nth_error (n_list csn) (n_idx x)) as [a'|] eqn:Hnth; try discriminate.
      apply Pos.eqb_eq in H. subst a'. eapply ids_list; eauto. eapply nth_error_In; eauto.
    + (* free variable *)
      apply existsb_exists in H. destruct H as [[cid cl] [Hin H]]. simpl in H.
      destruct (nth_error (n_list cl) (n_idx x)) as [bv|] eqn:Hnth; try discriminate.
      apply Pos.eqb_eq in H. subst bv. apply PositiveMap.elements_complete in Hin.
      eapply ids_list; eauto. eapply nth_error_In; eauto.
    + (* argument *)
      apply orb_true_iff in H. destruct H as [H|H].
      * apply pos_mem_In in H. eapply ids_out; eauto.
      * destruct (get_node g (n_parent x)) as [cs|]; try discriminate.
        destruct (n_sum cs) as [sgid|]; try discriminate.
        destruct (get_graph g sgid) as [sg|] eqn:Hg; try discriminate.
        destruct (nth_error (g_params sg) (n_idx x)) as [[p|]|] eqn:Hnth; try discriminate.
        apply Pos.eqb_eq in H. subst p. eapply graph_in_ids; eauto.
        unfold sgraph_ids. simpl. apply in_or_app. left. eapply opt_ids_nth; eauto.
    + (* call *)
      destruct (n_sum x) as [sgid|]; try discriminate.
      destruct (get_graph g sgid) as [sg|] eqn:Hg; try discriminate.
      apply pos_mem_In in H. eapply graph_in_ids; eauto.
      unfold sgraph_ids. simpl. apply in_or_app. right. apply in_or_app. right. apply in_or_app. left. exact H.
    + discriminate.
    + (* closure *)
      apply pos_mem_In in H. eapply ids_list; eauto.
    + (* bound variable *)
      destruct (get_node g (n_parent x)) as [cl|]; try discriminate.
      destruct (n_sum cl) as [sgid|]; try discriminate.
      destruct (get_graph g sgid) as [sg|] eqn:Hg; try discriminate.
      destruct (nth_error (g_freevars sg) (n_idx x)) as [[fv|]|] eqn:Hnth; try discriminate.
      apply Pos.eqb_eq in H. subst fv. eapply graph_in_ids; eauto.
      unfold sgraph_ids. simpl. apply in_or_app. right. apply in_or_app. left. eapply opt_ids_nth; eauto.
    + discriminate.
    + (* global *)
      apply andb_true_iff in H. destruct H as [_ H].
      destruct (n_sum x) as [gl|]; try discriminate.
      destruct (PositiveMap.find gl (globals g)) as [l|] eqn:Hl; try discriminate.
      apply pos_mem_In in H. eapply glob_in_ids; eauto.
    + discriminate.
    + discriminate.
Qed.

(** ** The shape of candidate traces *)
Definition tr_shape (t kt : list nid) : Prop :=
  t = kt \/ t = tl kt \/ t = [] \/ exists y, In y I /\ t = y :: kt.

Lemma shape_ok : forall t kt, tr_shape t kt -> NoDup kt -> incl kt I -> lasso t = false -> NoDup t /\ incl t I.
Proof.
  intros t kt [E|[E|[E|[y [Hy E]]]]] Hn Hi Hl; subst.
  - auto.
  - destruct kt as [|a kt]; simpl; auto. inversion Hn; subst. split; auto.
    intros z Hz. apply Hi. right. exact Hz.
  - split; [constructor|intros z []].
  - simpl in Hl. split.
    + constructor; auto. intros Hin. apply pos_mem_In in Hin. congruence.
    + intros z [E|Hz]; [subst; auto|auto].
Qed.

Definition cshape (k : key) (c : cand) : Prop :=
  tr_shape (c_trace c) (k_trace k) /\ tr_shape (c_ctrace c) (k_ctrace k).

Lemma sh_same : forall kt, tr_shape kt kt. Proof. intros; left; reflexivity. Qed.
Lemma sh_tl : forall kt, tr_shape (tl kt) kt. Proof. intros; right; left; reflexivity. Qed.
Lemma sh_nil : forall kt, tr_shape [] kt. Proof. intros; right; right; left; reflexivity. Qed.
Lemma sh_cons : forall y kt, In y I -> tr_shape (y :: kt) kt.
Proof. intros; right; right; right; eexists; split; eauto. Qed.
Hint Resolve sh_same sh_tl sh_nil sh_cons : shapes.

Lemma in_cands_shape : forall k x c, In c (in_cands k x) -> cshape k c.
Proof.
  intros k x c H. unfold in_cands in H. apply in_map_iff in H. destruct H as [e [He _]]. subst c.
  split; simpl; auto with shapes.
Qed.

Lemma args_at_shape : forall k idx l r, args_at g k idx l = Some r -> forall c, In c r -> cshape k c.
Proof.
  intros k idx l. induction l as [|cs l IH]; intros r H c Hc; simpl in H.
  - inversion H; subst. destruct Hc.
  - destruct (get_node g cs) as [csn|]; try discriminate.
    destruct (nth_error (n_list csn) idx) as [a|]; try discriminate.
    destruct (args_at g k idx l) as [r'|]; try discriminate.
    inversion H; subst. destruct Hc as [Hc|Hc].
    + subst c. split; simpl; auto with shapes.
    + eapply IH; eauto.
Qed.

Lemma bvs_at_shape : forall k idx l r, bvs_at g k idx l = Some r -> forall c, In c r -> cshape k c.
Proof.
  intros k idx l. induction l as [|cs l IH]; intros r H c Hc; simpl in H.
  - inversion H; subst. destruct Hc.
  - destruct (get_node g cs) as [csn|]; try discriminate.
    destruct (nth_error (n_list csn) idx) as [a|]; try discriminate.
    destruct (bvs_at g k idx l) as [r'|]; try discriminate.
    inversion H; subst. destruct Hc as [Hc|Hc].
    + subst c. split; simpl; auto with shapes.
    + eapply IH; eauto.
Qed.

Ltac inc :=
  repeat match goal with
  | H : In _ (_ ++ _) |- _ => apply in_app_or in H; destruct H as [H|H]
  | H : In _ (map _ _) |- _ => apply in_map_iff in H; destruct H as [? [? H]]
  | H : In _ (flat_map _ _) |- _ => apply in_flat_map in H; destruct H as [? [? H]]
  | H : In _ [] |- _ => destruct H
  | H : In _ [_] |- _ => destruct H as [H|H]
  | H : In _ (if ?b then _ else _) |- _ => destruct b
  end.

Lemma expand_shapes : forall k prev p cs rep,
  In (k_node k) I ->
  expand_k g cfg k prev p = XCands cs rep -> forall c, In c cs -> cshape k c.
Proof.
  intros k prev p cs rep Hk H c Hc. unfold expand_k in H.
  destruct (get_node g (k_node k)) as [x|] eqn:Hx; try discriminate.
  destruct (get_graph g (n_graph x)) as [sg|] eqn:Hg; try discriminate.
  destruct (negb (g_constructed sg) && negb (on_demand cfg)); try discriminate.
  destruct (is_base_case g cfg x); try discriminate.
  assert (Hpar : In (n_parent x) I) by (eapply ids_parent; eauto).
  destruct (n_kind x).
  - (* param *)
    unfold expand_param in H. destruct (class_of g x prev) as [[[[same fb] ip] pa]|]; try discriminate.
    rewrite Hg in H.
    destruct (if fb then None else unwind g (g_callsites sg) (k_trace k)) as [csid|].
    + destruct (get_node g csid) as [csn|]; try discriminate.
      destruct (nth_error (n_list csn) (n_idx x)) as [a|]; try discriminate.
      inversion H; subst. inc; subst; try (eapply in_cands_shape; eauto; fail).
      split; simpl; auto with shapes.
    + destruct (args_at g k (n_idx x) (g_callsites sg)) as [r|] eqn:Hr; try discriminate.
      inversion H; subst. inc; subst; try (eapply in_cands_shape; eauto; fail).
      eapply args_at_shape; eauto.
  - (* free variable *)
    unfold expand_freevar in H. destruct (class_of g x prev) as [[[[same fb] ip] pa]|]; try discriminate.
    destruct (negb same).
    + inversion H; subst. eapply in_cands_shape; eauto.
    + destruct (ctrace_top g cfg k x) as [[cid crest]|] eqn:Hct.
      * destruct (get_node g cid) as [cl|]; try discriminate.
        destruct (n_list cl) as [|b0 bs]; try discriminate.
        destruct (nth_error (b0 :: bs) (n_idx x)) as [bv|]; try discriminate.
        inversion H; subst. destruct Hc as [Hc|[]]. subst c. split; simpl; auto with shapes.
        unfold ctrace_top in Hct. destruct (k_ctrace k) as [|c0 cr]; try discriminate.
        assert (E : crest = cr).
        { destruct (fix_ctrace cfg); [|inversion Hct; reflexivity].
          destruct (get_node g c0) as [cl0|]; [|inversion Hct; reflexivity].
          destruct (opos_eqb (n_sum cl0) (Some (n_graph x))); [inversion Hct; reflexivity|discriminate]. }
        subst cr. right. left. reflexivity.
      * rewrite Hg in H. destruct (g_refclosures sg) as [|mc0 rest]; try discriminate.
        destruct (bvs_at g k (n_idx x) (mc0 :: rest)) as [r|] eqn:Hr; try discriminate.
        inversion H; subst. destruct (bvs_at_shape _ _ _ _ Hr c Hc) as [S1 S2]. split; auto.
  - (* argument *)
    unfold expand_arg in H. destruct (get_node g (n_parent x)) as [csn|]; try discriminate.
    match type of H with
    | (match ?tp with _ => _ end) = _ => destruct tp as [[pcands|]|] eqn:Htp; try discriminate
    end.
    inversion H; subst. clear H. apply in_app_or in Hc. destruct Hc as [Hc|Hc].
    + destruct (n_fa x); [|inversion Htp; subst; destruct Hc].
      destruct (n_sum csn) as [sgid|].
      * destruct (get_graph g sgid) as [sg'|]; [|discriminate].
        destruct (negb (g_constructed sg') && negb (on_demand cfg)); [discriminate|].
        destruct (nth_error (g_params sg') (n_idx x)) as [[p'|]|]; try discriminate.
        inversion Htp; subst. destruct Hc as [Hc|[]]. subst c. split; simpl; auto with shapes.
      * destruct (on_demand cfg); discriminate.
    + inc; subst; split; simpl; auto with shapes.
  - (* call *)
    unfold expand_call in H. destruct (N.eqb (n_fn x) 0); try discriminate.
    destruct (n_sum x) as [sgid|]; try discriminate.
    destruct (get_graph g sgid) as [sg'|]; try discriminate.
    inversion H; subst. clear H. apply in_app_or in Hc. destruct Hc as [Hc|Hc].
    + apply in_flat_map in Hc. destruct Hc as [r [Hr Hc]].
      match type of Hc with In _ (match ?pe with _ => _ end) => destruct pe end.
      * destruct Hc as [Hc|[]]. subst c. split; simpl; auto with shapes.
      * apply in_map_iff in Hc. destruct Hc as [i [Hi _]]. subst c. split; simpl; auto with shapes.
    + eapply in_cands_shape; eauto.
  - inversion H; subst. eapply in_cands_shape; eauto.
  - inversion H; subst. inc; subst. split; simpl; auto with shapes.
  - (* bound variable *)
    unfold expand_boundvar in H. destruct (get_node g (n_parent x)) as [cl|]; try discriminate.
    destruct (n_sum cl) as [sgid|]; try discriminate.
    destruct (get_graph g sgid) as [sg'|]; try discriminate.
    destruct (nth_error (g_freevars sg') (n_idx x)) as [[fv|]|]; try discriminate.
    inversion H; subst. inc; subst; try (eapply in_cands_shape; eauto; fail).
    split; simpl; auto with shapes.
  - destruct (skip_bound_labels cfg); inversion H; subst; [destruct Hc|]. eapply in_cands_shape; eauto.
  - (* global *)
    unfold expand_global in H. destruct (n_fa x); inversion H; subst.
    + eapply in_cands_shape; eauto.
    + inc; subst. split; simpl; auto with shapes.
  - inversion H; subst. eapply in_cands_shape; eauto.
  - discriminate.
Qed.

(** ** The invariant and the potential *)
Definition okv (v : vnode) : Prop :=
  In (v_node v) I /\ NoDup (v_trace v) /\ incl (v_trace v) I /\ NoDup (v_ctrace v) /\ incl (v_ctrace v) I.

Definition inv2 (s : state) : Prop :=
  NoDup (seen s) /\ incl (seen s) U /\ (forall v, In v (stack s) -> okv v).

Definition phi (s : state) : nat := length (stack s) + (length U - length (seen s)).

Lemma okv_key : forall v, okv v -> In (key_of v) U.
Proof.
  intros v [H1 [H2 [H3 [H4 H5]]]]. unfold key_of, U. apply key_in_universe; auto.
Qed.

Lemma okv_next : forall cur c cs rep s0,
  okv cur -> expand g cfg cur s0 = XCands cs rep -> In c cs ->
  lasso (c_trace c) = false -> lasso (c_ctrace c) = false -> okv (next_of cur c).
Proof.
  intros cur c cs rep s0 [H1 [H2 [H3 [H4 H5]]]] He Hc L1 L2. unfold expand in He.
  assert (Hn : In (c_node c) I).
  { eapply bstepb_in_ids. eapply expand_bstep; eauto. }
  destruct (expand_shapes (key_of cur) _ _ _ _ H1 He c Hc) as [S1 S2]. simpl in S1, S2.
  destruct (shape_ok _ _ S1 H2 H3 L1) as [A1 A2]. destruct (shape_ok _ _ S2 H4 H5 L2) as [B1 B2].
  unfold okv. simpl. auto.
Qed.

Lemma inv2_same : forall s s' rest cur, inv2 s -> stack s = cur :: rest -> stack s' = rest -> seen s' = seen s ->
  inv2 s' /\ phi s' < phi s.
Proof.
  intros s s' rest cur [N [Hi Hs]] Hst Hst' Hse. split.
  - unfold inv2. rewrite Hse, Hst'. split; [|split]; auto. intros v Hv. apply Hs. rewrite Hst. right. exact Hv.
  - unfold phi. rewrite Hse, Hst', Hst. cbn [length]. lia.
Qed.

Lemma step_inv2 : forall s s', err s = None -> inv2 s -> step rank g cfg s = (s', None) ->
  inv2 s' /\ phi s' < phi s.
Proof.
  intros s s' Herr Hinv H.
  destruct (step_shape _ _ _ _ _ _ Herr H) as [[_ [_ Ho]]|[cur [rest [Hst K]]]]; [discriminate|].
  destruct K as [c ? Hs Ho|? Hs Ho|? Hs ?|? Hs ?|cs rep s1 news He K1 K2 K3 K4 K5 K6 K7 Hc]; try discriminate; subst.
  - eapply inv2_same; eauto.
  - eapply inv2_same; eauto; unfold add_trace; destruct (trace_mem _ _); reflexivity.
  - assert (Hs1 : inv2 s1 /\ phi s1 < phi s).
    { destruct Hinv as [N [Hi Hs]].
      assert (Hcur : okv cur) by (apply Hs; rewrite Hst; left; reflexivity).
      assert (Hnews : forall w, In w news -> okv w).
      { intros w Hw. destruct (K6 w Hw) as [c [Hcin [E [L1 L2]]]]. subst w. eapply okv_next; eauto. }
      assert (Hincl : incl (seen s1) U).
      { rewrite K2. intros k Hk. apply in_app_or in Hk. destruct Hk as [Hk|Hk]; [|auto].
        apply in_map_iff in Hk. destruct Hk as [w [E Hw]]. subst k. apply okv_key. auto. }
      assert (Hnd : NoDup (seen s1)) by auto.
      assert (Hlen : length (seen s1) <= length U) by (apply NoDup_incl_length; auto).
      split.
      - unfold inv2. split; [|split]; auto. rewrite K1. intros v Hv. apply in_app_or in Hv.
        destruct Hv as [Hv|Hv]; auto. apply Hs. rewrite Hst. right. exact Hv.
      - rewrite K2 in Hlen. rewrite app_length, map_length in Hlen.
        unfold phi. rewrite K1, K2, Hst. rewrite !app_length, map_length. cbn [length].
        generalize dependent (length U). intros u Hlen. lia. }
    destruct Hs1 as [Hi1 Hp1].
    destruct Hc as [[c [_ [_ Ho]]]|[[_ [Hn [_ [Hs _]]]]|[[_ [Hn [_ [Hs _]]]]|[_ [Hn [Hs _]]]]]]; try discriminate; subst; auto.
    + assert (E : stack (add_trace s1 (v_path cur)) = stack s1 /\ seen (add_trace s1 (v_path cur)) = seen s1).
      { unfold add_trace. destruct (trace_mem _ _); auto. }
      destruct E as [E1 E2]. unfold inv2, phi. rewrite E1, E2. auto.
Qed.

Lemma step_not_fuel : forall s s' o, err s = None -> step rank g cfg s = (s', Some o) -> o <> OutOfFuel.
Proof.
  intros s s' o Herr H.
  destruct (step_shape _ _ _ _ _ _ Herr H) as [[_ [_ Ho]]|[cur [rest [Hst K]]]].
  - inversion Ho. discriminate.
  - destruct K as [c ? ? Ho|? ? Ho|? ? Ho|? ? Ho|cs rep s1 news ? ? ? ? ? ? ? ? Hc]; try (inversion Ho; discriminate).
    destruct Hc as [[c [_ [_ Ho]]]|[[_ [_ [_ [_ Ho]]]]|[[_ [_ [_ [_ Ho]]]]|[_ [_ [_ Ho]]]]]]; inversion Ho; discriminate.
Qed.

Lemma loop_terminates : forall fuel s, err s = None -> inv2 s -> phi s < fuel ->
  snd (loop rank g cfg fuel s) <> OutOfFuel.
Proof.
  induction fuel as [|f IH]; intros s Herr Hinv Hphi; [lia|].
  simpl. destruct (step rank g cfg s) as [s1 [o1|]] eqn:Hs.
  - simpl. eapply step_not_fuel; eauto.
  - destruct (step_inv2 _ _ Herr Hinv Hs) as [Hi Hp]. apply IH; auto.
    + eapply step_err; eauto.
    + lia.
Qed.

Lemma init_inv2 : forall p, inv2 (init_state entry p).
Proof.
  intros p. unfold inv2, init_state. simpl. split; [constructor|split; [intros k []|]].
  intros v [E|[]]. subst v. unfold okv, root. simpl.
  split; [left; reflexivity|]. split; [constructor|]. split; [intros z []|]. split; [constructor|intros z []].
Qed.

(** [back_terminates] *)
Lemma back_terminates_lemma : forall fuel p,
  fuel_bound g entry <= fuel -> snd (back rank g cfg fuel p entry) <> OutOfFuel.
Proof.
  intros fuel p Hf. unfold back. apply loop_terminates.
  - reflexivity.
  - apply init_inv2.
  - unfold phi, init_state. cbn [stack seen length]. unfold fuel_bound in Hf.
    change (length (universe (entry :: all_ids g))) with (length U) in Hf. lia.
Qed.

End Term.
