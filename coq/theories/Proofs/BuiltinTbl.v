(* Proofs/BuiltinTbl.v -- the arity class ">= 5" of Model/BuiltinTbl.v is sound: a row without arity guard that loops over
   all operands transfers all operands at every arity. *)
From Coq Require Import List String Bool Arith.
From Argot Require Import Model.BuiltinTbl.
Import ListNotations.

Lemma transfers_all_any r n : b_arity r = None -> b_all r = true -> transfers_all r n = true.
Proof. intros Ha Hb. unfold transfers_all. rewrite Ha, Hb. reflexivity. Qed.

Lemma row_any_arity_sound tbl name :
  row_any_arity tbl name = true -> forall n, some_row_transfers_all tbl name n = true.
Proof.
  unfold row_any_arity, some_row_transfers_all. intros H n.
  apply existsb_exists in H. destruct H as (r & Hin & Hr).
  apply andb_true_iff in Hr. destruct Hr as [Hn Ha].
  apply existsb_exists. exists r. split; auto.
  rewrite Hn. simpl.
  destruct (b_arity r) eqn:E; [discriminate|].
  apply transfers_all_any; auto.
Qed.
