(** * C16, part 5: the theorems about [analyze] — exactness, unboundedness criterion, order independence. *)
From Coq Require Import List Arith Bool Lia.
From Argot Require Import Model.Defers Model.DefersSpec.
From Argot Require Export Proofs.DefersOrder Proofs.DefersSem Proofs.DefersInv Proofs.DefersTerm.
Import ListNotations.

(** ** the final state of a finished run *)
Section Final.
  Variable c : cfg.
  Variable order : list nat.
  Variable st : astate.
  Hypothesis W : wf_cfg c = true.
  Hypothesis Hc : c <> [].
  Hypothesis F : fair c order.
  Hypothesis I1 : inv1 c st.
  Hypothesis I2 : inv2 c st.
  Hypothesis Flags : forall i, In i order -> nth i (chg st) false = false.

  Lemma final_path p b :
    epath c p b -> In (apath c p) (nth b (inits st) []) /\ processed c st b.
  Proof.
    unfold epath. remember 0 as a eqn:Ea. intros H.
    assert (G : forall p b, bpath c a p b -> In (apath c p) (nth b (inits st) []) -> processed c st b).
    { intros p' b' Hp Hin. subst a.
      assert (Hb : b' < length c) by (eapply epath_lt; eauto).
      destruct (I2 b' Hb) as [E|[E|E]]; auto.
      - rewrite Flags in E; [discriminate|]. apply F; auto. exists p'; auto.
      - rewrite E in Hin; destruct Hin. }
    induction H as [a|a p b b' H IH Hs].
    - assert (In (apath c []) (nth a (inits st) [])) by (subst a; apply (i1_entry _ _ I1 Hc)).
      split; auto. apply (G [] a); auto. constructor.
    - destruct (IH Ea G) as [Hin Hp].
      assert (In (apath c (p ++ [b])) (nth b' (inits st) [])).
      { unfold apath; rewrite path_exec_snoc. apply Hp; auto. }
      split; auto. apply (G (p ++ [b]) b'); auto. econstructor; eauto.
  Qed.

  Lemma final_abs_exact r s :
    (exists set, run_sets st r = Some set /\ In s set) <-> abs_stacks c r s.
  Proof.
    unfold run_sets, abs_stacks; split.
    - intros (set & L & Hs). apply lookup_in in L. destruct (i1_rds _ _ I1 _ _ L) as (R & _ & _ & P).
      split; auto.
    - intros (R & p & Hp & ->). destruct r as [b j]; simpl in *.
      destruct (final_path p b Hp) as [Hin (_ & P2 & _)].
      destruct (P2 j R) as (set & L & M). exists set; split; auto. apply M; eauto.
  Qed.

  Lemma final_run_set_sorted r set : run_sets st r = Some set -> sorted set /\ set <> [].
  Proof. intros L. apply lookup_in in L. destruct (i1_rds _ _ I1 _ _ L) as (_ & S & N & _); auto. Qed.

  (** unbounded => a reachable defer on a cycle *)
  Lemma final_rep_cycle : rep st = true -> defer_on_cycle c.
  Proof.
    intros R. destruct (i1_rep _ _ I1 R) as ([b j] & p & D & Hp & Hin). simpl in Hp.
    apply aat_self_in in Hin. apply apath_elems in Hin as [Hin _]; simpl in Hin.
    apply in_split in Hin as (p1 & p2 & ->).
    apply bpath_split in Hp as [A B].
    exists (b, j); split; auto; simpl. split; [exists p1; auto|].
    exists (b :: p2); split; [discriminate | auto].
  Qed.

  (** a reachable defer on a cycle => unbounded *)
  Lemma final_cycle_rep : defer_on_cycle c -> rep st = true.
  Proof.
    intros ([b j] & D & (p & Hp) & (q & Nq & Hq)); simpl in *.
    assert (Hpq : epath c (p ++ q) b) by (eapply bpath_app; eauto).
    destruct (final_path _ _ Hpq) as [Hin (_ & _ & P3)].
    apply (P3 j _ D Hin).
    assert (NR : forall x, In x q -> no_run (instrs (blk c x))).
    { intros x Hx. destruct (bpath_has_succ _ _ _ _ Hq x Hx) as [y Hy]. eapply wf_succ_no_run; eauto. }
    destruct (bpath_head _ _ _ _ Hq Nq) as [q' ->].
    assert (Hb : In (b, j) (apath c (p ++ b :: q'))).
    { unfold apath. rewrite path_exec_app. simpl.
      assert (In (b, j) (block_exec step_abs c b (path_exec step_abs c p))).
      { unfold block_exec. apply (abs_push b 0 _ _ j); [apply NR; left; auto | exact D]. }
      revert H. generalize (block_exec step_abs c b (path_exec step_abs c p)).
      assert (NR' : forall x, In x q' -> no_run (instrs (blk c x))) by (intros x Hx; apply NR; right; auto).
      clear - NR'. induction q' as [|x q' IH]; intros s Hs; simpl; auto.
      apply IH; [intros y Hy; apply NR'; right; auto|].
      apply abs_preserve; auto. apply NR'; left; auto. }
    unfold aat, at_exec; simpl. apply abs_preserve; auto.
    apply no_run_firstn. apply NR; left; auto.
  Qed.

  (** bounded => the abstraction is the identity on every entry path *)
  Lemma final_norep p b j :
    rep st = false -> epath c p b -> is_defer c (b, j) -> ~ In (b, j) (aat c (b, j) (apath c p)).
  Proof.
    intros R Hp D Hin. destruct (final_path p b Hp) as [Hi (_ & _ & P3)].
    rewrite (P3 j _ D Hi Hin) in R; discriminate.
  Qed.

  Lemma final_block_agree p b m :
    rep st = false -> epath c p b ->
    exec step_abs b 0 (firstn m (instrs (blk c b))) (apath c p)
    = exec step_real b 0 (firstn m (instrs (blk c b))) (apath c p).
  Proof.
    intros R Hp. apply exec_agree. intros k Hk. apply nth_error_firstn in Hk as [Hk Hkm].
    rewrite firstn_firstn_le by lia. simpl. apply (final_norep p b k R Hp). exact Hk.
  Qed.

  Lemma final_path_agree p b :
    rep st = false -> epath c p b -> apath c p = path_exec step_real c p.
  Proof.
    intros R. unfold epath. remember 0 as a eqn:Ea. intros H.
    induction H as [a|a p b b' H IH Hs]; auto.
    specialize (IH Ea). unfold apath in *. rewrite !path_exec_snoc, <- IH.
    subst a. pose proof (final_block_agree p b (length (instrs (blk c b))) R H) as E.
    rewrite firstn_all in E. exact E.
  Qed.

  Lemma final_exact r s :
    rep st = false ->
    ((exists set, run_sets st r = Some set /\ In s set) <-> path_stacks c r s).
  Proof.
    intros R. rewrite final_abs_exact. unfold abs_stacks, path_stacks, point_stacks.
    split; intros (D & p & Hp & ->); split; auto; exists p; split; auto.
    - rewrite <- (final_path_agree p _ R Hp). destruct r as [b j]. apply (final_block_agree p b j R Hp).
    - rewrite <- (final_path_agree p _ R Hp). destruct r as [b j]. symmetry. apply (final_block_agree p b j R Hp).
  Qed.
End Final.

(** ** from [analyze] to the final-state lemmas *)
Lemma analyze_final fuel c order st :
  c <> [] -> analyze fuel c order = Done st ->
  inv1 c st /\ (wf_cfg c = true -> inv2 c st) /\ (forall i, In i order -> nth i (chg st) false = false).
Proof.
  intros Hc H. assert (A : analyze fuel c order = iterate fuel c order (init_state c)).
  { destruct c; [congruence | reflexivity]. }
  rewrite A in H. split; [|split].
  - eapply iterate_inv1; eauto. apply init_inv1; auto.
  - intros W. eapply iterate_inv2; eauto. apply init_inv1; auto. apply init_inv2; auto.
  - eapply iterate_flags; eauto.
Qed.

Lemma analyze_nil fuel order st : analyze fuel [] order = Done st -> st = mkA [] [] [] false.
Proof. simpl; intros H; inversion H; auto. Qed.

Lemma no_instr_nil r k : instr_at [] r <> Some k.
Proof. unfold instr_at, blk; simpl. destruct (fst r); simpl; destruct (snd r); discriminate. Qed.

Lemma covers_all_fair c order : covers_all c order -> fair c order.
Proof. intros H b Hb _; auto. Qed.

Theorem defers_abs_exact fuel c order st :
  wf_cfg c = true -> fair c order -> analyze fuel c order = Done st ->
  forall r s, (exists set, run_sets st r = Some set /\ In s set) <-> abs_stacks c r s.
Proof.
  intros W F H r s. destruct c as [|b0 c'] eqn:Ec.
  - apply analyze_nil in H; subst st. split.
    + intros (set & L & _); discriminate.
    + intros (R & _). exfalso; exact (no_instr_nil _ _ R).
  - rewrite <- Ec in *. assert (Hc : c <> []) by (subst; discriminate).
    destruct (analyze_final _ _ _ _ Hc H) as (I1 & I2 & Fl).
    apply (final_abs_exact c order st W Hc F I1 (I2 W) Fl).
Qed.

Theorem defers_exact fuel c order st :
  wf_cfg c = true -> fair c order -> analyze fuel c order = Done st -> bounded st = true ->
  forall r s, (exists set, run_sets st r = Some set /\ In s set) <-> path_stacks c r s.
Proof.
  intros W F H B r s. destruct c as [|b0 c'] eqn:Ec.
  - apply analyze_nil in H; subst st. split.
    + intros (set & L & _); discriminate.
    + intros (R & _). exfalso; exact (no_instr_nil _ _ R).
  - rewrite <- Ec in *. assert (Hc : c <> []) by (subst; discriminate).
    destruct (analyze_final _ _ _ _ Hc H) as (I1 & I2 & Fl).
    apply (final_exact c order st W Hc F I1 (I2 W) Fl).
    unfold bounded in B. destruct (rep st); auto; discriminate.
Qed.

Theorem unbounded_iff fuel c order st :
  wf_cfg c = true -> fair c order -> analyze fuel c order = Done st ->
  (bounded st = false <-> defer_on_cycle c).
Proof.
  intros W F H. destruct c as [|b0 c'] eqn:Ec.
  - apply analyze_nil in H; subst st. split; [discriminate|].
    intros (d & D & _). exfalso; exact (no_instr_nil _ _ D).
  - rewrite <- Ec in *. assert (Hc : c <> []) by (subst; discriminate).
    destruct (analyze_final _ _ _ _ Hc H) as (I1 & I2 & Fl).
    unfold bounded. split.
    + intros B. apply (final_rep_cycle c st I1). destruct (rep st); auto; discriminate.
    + intros D. rewrite (final_cycle_rep c order st W Hc F I1 (I2 W) Fl D); auto.
Qed.

(** every recorded run set is a sorted, duplicate-free, non-empty set, keyed by a reachable [RunDefers] *)
Theorem run_sets_wf fuel c order st r set :
  analyze fuel c order = Done st -> run_sets st r = Some set ->
  sorted set /\ set <> [] /\ is_rundefers c r /\ reachable c (fst r).
Proof.
  intros H L. destruct c as [|b0 c'] eqn:Ec.
  - apply analyze_nil in H; subst st; discriminate.
  - rewrite <- Ec in *. assert (Hc : c <> []) by (subst; discriminate).
    destruct (analyze_final _ _ _ _ Hc H) as (I1 & _ & _).
    apply lookup_in in L. destruct (i1_rds _ _ I1 _ _ L) as (R & S & N & P).
    repeat split; auto. destruct (nonempty_ex _ N) as [s Hs]. destruct (P s Hs) as (p & Hp & _).
    exists p; auto.
Qed.

Corollary order_free fuel1 fuel2 c order1 order2 st1 st2 :
  wf_cfg c = true -> fair c order1 -> fair c order2 ->
  analyze fuel1 c order1 = Done st1 -> analyze fuel2 c order2 = Done st2 ->
  bounded st1 = bounded st2 /\ forall r, run_sets st1 r = run_sets st2 r.
Proof.
  intros W F1 F2 H1 H2. split.
  - pose proof (unbounded_iff _ _ _ _ W F1 H1) as U1. pose proof (unbounded_iff _ _ _ _ W F2 H2) as U2.
    destruct (bounded st1), (bounded st2); auto.
    + apply (proj2 U1). apply (proj1 U2). auto.
    + symmetry. apply (proj2 U2). apply (proj1 U1). auto.
  - intros r.
    assert (E : forall s, (exists set, run_sets st1 r = Some set /\ In s set) <->
                          (exists set, run_sets st2 r = Some set /\ In s set)).
    { intros s. rewrite (defers_abs_exact _ _ _ _ W F1 H1), (defers_abs_exact _ _ _ _ W F2 H2); tauto. }
    destruct (run_sets st1 r) as [a|] eqn:E1; destruct (run_sets st2 r) as [b|] eqn:E2; auto.
    + destruct (run_sets_wf _ _ _ _ _ _ H1 E1) as (S1 & _). destruct (run_sets_wf _ _ _ _ _ _ H2 E2) as (S2 & _).
      f_equal. apply sorted_ext; auto. intros s; split; intros Hs.
      * destruct (proj1 (E s)) as (set & L & Hin); eauto. inversion L; subst; auto.
      * destruct (proj2 (E s)) as (set & L & Hin); eauto. inversion L; subst; auto.
    + destruct (run_sets_wf _ _ _ _ _ _ H1 E1) as (_ & N & _). destruct (nonempty_ex _ N) as [s Hs].
      destruct (proj1 (E s)) as (set & L & _); eauto. discriminate.
    + destruct (run_sets_wf _ _ _ _ _ _ H2 E2) as (_ & N & _). destruct (nonempty_ex _ N) as [s Hs].
      destruct (proj2 (E s)) as (set & L & _); eauto. discriminate.
Qed.

(** ** packaged statements for [Properties/C16.v] *)
Theorem stack_compare_order :
  (forall a b, stack_compare a b = Eq <-> a = b) /\
  (forall a b, stack_compare b a = CompOpp (stack_compare a b)) /\
  (forall a, ~ slt a a) /\
  (forall a b c, slt a b -> slt b c -> slt a c) /\
  (forall a b, slt a b \/ a = b \/ slt b a).
Proof.
  split; [exact sc_eq_iff|]. split; [exact sc_antisym|]. split; [exact sc_irrefl|].
  split; [exact sc_lt_trans | exact sc_trichotomy].
Qed.

Theorem union_spec_full a b r same :
  sorted a -> sorted b -> stack_set_union a b = (r, same) ->
  sorted r /\ (forall s, In s r <-> In s a \/ In s b) /\ (same = true <-> incl b a) /\ (same = true -> r = a).
Proof.
  intros Sa Sb U. destruct (union_spec _ _ _ _ Sa Sb U) as (A & B & C).
  split; [auto | split; [auto | split; [auto|]]].
  intros E; subst same. eapply union_same_eq; eauto.
Qed.

Theorem transfer_spec d k v r rp :
  sorted v -> transfer d k v = (r, rp) ->
  match k with
  | KDefer => sorted r /\ (forall s', In s' r <-> exists s, In s v /\ s' = push_defer d s)
              /\ (rp = true <-> exists s, In s v /\ In d s)
  | KRunDefers => r = [[]] /\ rp = false
  | KOther => r = v /\ rp = false
  end.
Proof.
  intros Sv T. destruct k.
  - apply transfer_defer_spec; auto.
  - simpl in T; inversion T; auto.
  - simpl in T; inversion T; auto.
Qed.

(** ** the reset in the concrete semantics is invisible under [wf_cfg]:
    at the first [RunDefers] of a block the stack is the plain sequence of all defers executed on the path *)
Lemma exec_real_seq b j ks s : no_run ks -> exec step_real b j ks s = exec step_seq b j ks s.
Proof.
  revert j s; induction ks as [|k ks IH]; intros j s N; simpl; auto.
  assert (E : step_real (b, j) k s = step_seq (b, j) k s).
  { destruct k; simpl; auto. exfalso; apply (N KRunDefers); [left|]; auto. }
  rewrite E. apply IH. intros k' Hk; apply N; right; auto.
Qed.

Theorem real_no_reset c p b j :
  wf_cfg c = true -> epath c p b -> is_rundefers c (b, j) ->
  (forall j', j' < j -> ~ is_rundefers c (b, j')) ->
  at_exec step_real c (b, j) (path_exec step_real c p) = at_exec step_seq c (b, j) (path_exec step_seq c p).
Proof.
  intros W Hp R First.
  assert (E : path_exec step_real c p = path_exec step_seq c p).
  { clear R First. unfold epath in Hp. induction Hp as [a|a p b b' H IH Hs]; auto.
    rewrite !path_exec_snoc, IH. unfold block_exec. apply exec_real_seq. eapply wf_succ_no_run; eauto. }
  rewrite E. unfold at_exec; simpl. apply exec_real_seq.
  intros k Hk ->. apply In_nth_error in Hk as [j' Hj]. apply nth_error_firstn in Hj as [Hj Hlt].
  exact (First j' Hlt Hj).
Qed.
