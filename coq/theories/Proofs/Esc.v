(* Soundness of the locality verdicts of Model/Esc.v for the calculus Lang/Conc.v (C14), and the sharing-event
   theorem used by C13.  All statements quantify over all programs of the calculus, all valid annotations
   (post-fixpoints of the transfer functions, checked by the executable check_annot) and all schedules. *)
From Coq Require Import List Arith Bool Lia.
From Argot Require Import Lang.Conc Model.Esc Proofs.EscGraph0.
Import ListNotations.

(* ------------------------------------------------------------------------------------------ list helpers *)
Lemma length_set_nth : forall (A : Type) (l : list A) n x, length (set_nth l n x) = length l.
Proof. induction l; destruct n; simpl; intros; auto. Qed.

Lemma nth_set_nth_eq : forall (A : Type) (l : list A) n x, n < length l -> nth_error (set_nth l n x) n = Some x.
Proof. induction l; destruct n; simpl; intros; try lia; auto. apply IHl; lia. Qed.

Lemma nth_set_nth_neq : forall (A : Type) (l : list A) n k x, k <> n -> nth_error (set_nth l n x) k = nth_error l k.
Proof. induction l; destruct n, k; simpl; intros; try congruence; auto. Qed.

Lemma nth_error_lt : forall (A : Type) (l : list A) n x, nth_error l n = Some x -> n < length l.
Proof. intros; apply nth_error_Some; congruence. Qed.

Lemma upd_eq : forall (A : Type) (m : nat -> A) k v, upd m k v k = v.
Proof. intros; unfold upd; rewrite Nat.eqb_refl; reflexivity. Qed.

Lemma upd_neq : forall (A : Type) (m : nat -> A) k v x, x <> k -> upd m k v x = m x.
Proof. intros; unfold upd. destruct (Nat.eqb x k) eqn:E; auto. apply Nat.eqb_eq in E; contradiction. Qed.

Lemma upd_cases : forall (A : Type) (m : nat -> A) k v x, (x = k /\ upd m k v x = v) \/ (x <> k /\ upd m k v x = m x).
Proof. intros; destruct (Nat.eq_dec x k); [left; subst; split; auto; apply upd_eq | right; split; auto; apply upd_neq; auto]. Qed.

Lemma upd2_cases : forall h l f v x y,
  (x = l /\ y = f /\ upd2 h l f v x y = v) \/ ((x <> l \/ y <> f) /\ upd2 h l f v x y = h x y).
Proof.
  intros; unfold upd2. destruct (Nat.eqb x l) eqn:E1; destruct (Nat.eqb y f) eqn:E2; simpl.
  - apply Nat.eqb_eq in E1; apply Nat.eqb_eq in E2; left; auto.
  - apply Nat.eqb_neq in E2; right; auto.
  - apply Nat.eqb_neq in E1; right; auto.
  - apply Nat.eqb_neq in E1; right; auto.
Qed.

(* ------------------------------------------------------------------------------------------ invariants *)
Record wf (s : state) : Prop := {
  wf_heap : forall l f l', heap s l f = Some l' -> l < nxt s /\ l' < nxt s;
  wf_glob : forall g l, glob s g = Some l -> l < nxt s;
  wf_regs : forall k t r l, nth_error (thr s) k = Some t -> t_regs t r = Some l -> l < nxt s }.

Definition loc_in (g : graph) (R : loc -> node -> Prop) (l : loc) : Prop := exists n, R l n /\ st g n = 0.

(* the abstraction relation alpha between the concrete state, seen from thread tid, and its escape graph g:
   R relates concrete objects to the abstract nodes representing them *)
Record tinv (s : state) (tid : nat) (g : graph) (R : loc -> node -> Prop) (regs : reg -> val) : Prop := {
  i0 : forall l n, R l n -> l < nxt s;
  i1 : forall r l, regs r = Some l -> exists n, R l n /\ vedge g r n;
  i2 : forall l n f l', R l n -> st g n = 0 -> heap s l f = Some l' -> exists n', R l' n' /\ fedge g n f n';
  i3 : forall l f l', loc_in g R l' -> heap s l f = Some l' -> loc_in g R l;
  i4g : forall l gv, loc_in g R l -> glob s gv <> Some l;
  i4t : forall l k t' r, loc_in g R l -> k <> tid -> nth_error (thr s) k = Some t' -> t_regs t' r <> Some l;
  i5 : forall l n n', R l n -> st g n = 0 -> R l n' -> n' = n;
  i6 : closed g }.

Definition alpha (P : prog) (A : annot) (s : state) : Prop :=
  wf s /\ exists R : nat -> loc -> node -> Prop,
    forall tid t, nth_error (thr s) tid = Some t -> t_live t = true ->
      tinv s tid (getA A (t_fn t) (t_pc t)) (R tid) (t_regs t).

Lemma loc_in_mono : forall g g1 R l, gle g g1 -> loc_in g1 R l -> loc_in g R l.
Proof.
  intros g g1 R l (_ & _ & S) (n & Hn & Z); exists n; split; auto. specialize (S n); lia.
Qed.

Lemma tinv_mono : forall s tid g g1 R regs, tinv s tid g R regs -> gle g g1 -> closed g1 -> tinv s tid g1 R regs.
Proof.
  intros s tid g g1 R regs I L C. pose proof L as (LV & LF & LS). constructor.
  - apply (i0 _ _ _ _ _ I).
  - intros r l H; destruct (i1 _ _ _ _ _ I r l H) as (n & A & B); exists n; auto.
  - intros l n f l' Hr Z Hh. assert (Z0 : st g n = 0) by (specialize (LS n); lia).
    destruct (i2 _ _ _ _ _ I l n f l' Hr Z0 Hh) as (n' & A & B); exists n'; auto.
  - intros l f l' Hl Hh. destruct Hl as (n' & Rn' & Z').
    assert (Z0 : st g n' = 0) by (specialize (LS n'); lia).
    assert (Hl0 : loc_in g R l') by (exists n'; auto).
    destruct (i3 _ _ _ _ _ I l f l' Hl0 Hh) as (n & Rn & Zn).
    destruct (i2 _ _ _ _ _ I l n f l' Rn Zn Hh) as (n'' & Rn'' & E).
    assert (n'' = n') by (eapply (i5 _ _ _ _ _ I); eauto). subst n''.
    exists n; split; auto. apply LF in E. apply C in E. lia.
  - intros l gv Hl; apply (i4g _ _ _ _ _ I). eapply loc_in_mono; eauto.
  - intros l k t' r Hl; apply (i4t _ _ _ _ _ I). eapply loc_in_mono; eauto.
  - intros l n n' Rn Z Rn'. assert (Z0 : st g n = 0) by (specialize (LS n); lia). eapply (i5 _ _ _ _ _ I); eauto.
  - exact C.
Qed.

(* captured objects are not shared *)
Lemma loc_in_hreach : forall s tid g R regs, tinv s tid g R regs ->
  forall l0 l, hreach (heap s) l0 l -> loc_in g R l -> loc_in g R l0.
Proof.
  intros s tid g R regs I l0 l H; induction H; intro Hl; auto.
  apply IHhreach in Hl. eapply (i3 _ _ _ _ _ I); [exact Hl | exact H].
Qed.

Lemma loc_in_not_shared : forall s tid g R regs, tinv s tid g R regs ->
  forall l, loc_in g R l -> ~ shared s tid l.
Proof.
  intros s tid g R regs I l Hl [ (gv & l0 & Hg & Hr) | (k & t & r & l0 & Hk & Ht & Hreg & Hr) ].
  - pose proof (loc_in_hreach _ _ _ _ _ I _ _ Hr Hl) as H0. exact (i4g _ _ _ _ _ I _ gv H0 Hg).
  - pose proof (loc_in_hreach _ _ _ _ _ I _ _ Hr Hl) as H0. exact (i4t _ _ _ _ _ I _ k t r H0 Hk Ht Hreg).
Qed.

Lemma local_not_shared : forall s tid g R regs, tinv s tid g R regs ->
  forall r l, is_local g r = true -> regs r = Some l -> ~ shared s tid l.
Proof.
  intros s tid g R regs I r l HL Hr. destruct (i1 _ _ _ _ _ I r l Hr) as (n & Rn & V).
  apply (loc_in_not_shared _ _ _ _ _ I). exists n; split; auto. exact (proj1 (is_local_spec g r) HL n V).
Qed.

(* ------------------------------------------------------------------------------------------ check_annot facts *)
Lemma check_annot_fetch : forall P A fn pc i succs, check_annot P A = true -> fetch P fn pc = Some (i, succs) ->
  go_ok P i = true /\ closed (getA A fn pc) /\
  exists g', transfer fn pc i (getA A fn pc) = Some g' /\
    forall pc', In pc' succs -> gle g' (getA A fn pc') /\ closed (getA A fn pc').
Proof.
  intros P A fn pc i succs H F. unfold check_annot in H. apply andb_true_iff in H; destruct H as [H1 H2].
  unfold fetch in F. destruct (nth_error P fn) as [f|] eqn:Ef; [|discriminate].
  rewrite forallb_forall in H1. assert (Hfn : In fn (seq 0 (length P))).
  { apply in_seq; split; [lia|]. simpl. apply nth_error_lt in Ef; auto. }
  specialize (H1 _ Hfn); rewrite Ef in H1. unfold check_func in H1. apply andb_true_iff in H1; destruct H1 as [_ H1].
  rewrite forallb_forall in H1.
  assert (Hlt : pc < length (f_code f)) by (eapply nth_error_lt; eauto).
  assert (Hpc : In pc (seq 0 (S (length (f_code f))))) by (apply in_seq; lia).
  pose proof (H1 _ Hpc) as Hp. rewrite F in Hp. apply andb_true_iff in Hp; destruct Hp as [C Hp].
  apply andb_true_iff in Hp; destruct Hp as [G Hp].
  destruct (transfer fn pc i (getA A fn pc)) as [g'|] eqn:T; [|discriminate].
  split; auto. split; [apply closedb_spec; auto|]. exists g'; split; auto.
  intros pc' Hin. rewrite forallb_forall in Hp. split; [apply leb_graph_spec; auto|].
  (* successors are program points of f *)
  rewrite forallb_forall in H2. assert (Hf : In f P) by (eapply nth_error_In; eauto).
  specialize (H2 _ Hf). rewrite forallb_forall in H2. assert (Hic : In (i, succs) (f_code f)) by (eapply nth_error_In; eauto).
  specialize (H2 _ Hic); simpl in H2. rewrite forallb_forall in H2. specialize (H2 _ Hin). apply Nat.ltb_lt in H2.
  assert (Hpc' : In pc' (seq 0 (S (length (f_code f))))) by (apply in_seq; lia).
  specialize (H1 _ Hpc'). apply andb_true_iff in H1; destruct H1 as [C' _]. apply closedb_spec; auto.
Qed.

Lemma check_annot_entry : forall P A fn f, check_annot P A = true -> nth_error P fn = Some f ->
  gle (arb_ctx (f_arity f)) (getA A fn 0) /\ closed (getA A fn 0).
Proof.
  intros P A fn f H Ef. unfold check_annot in H. apply andb_true_iff in H; destruct H as [H1 _].
  rewrite forallb_forall in H1. assert (Hfn : In fn (seq 0 (length P))).
  { apply in_seq; split; [lia|]. simpl. apply nth_error_lt in Ef; auto. }
  specialize (H1 _ Hfn); rewrite Ef in H1. unfold check_func in H1. apply andb_true_iff in H1; destruct H1 as [E H1].
  split; [apply leb_graph_spec; auto|]. rewrite forallb_forall in H1.
  assert (Hpc : In 0 (seq 0 (S (length (f_code f))))) by (apply in_seq; lia).
  specialize (H1 _ Hpc). apply andb_true_iff in H1; destruct H1 as [C _]. apply closedb_spec; auto.
Qed.
