(* Lemmas about the model of the lightweight may-panic analysis (Model/MayPanic.v): specification-level relations,
   exact characterisation of find_go_functions / does_recover / does_defer_recover / report, the provable part of C19
   and the refutations of the full statement. *)
From Coq Require Import List String Ascii Bool Arith Lia.
From Argot Require Import Model.MayPanic.
Import ListNotations.
Local Open Scope string_scope.
Local Open Scope list_scope.

(* ------------------------------------------------------------------------------------------------ specification *)

Fixpoint lookup (k : nat) (l : list (nat * list fid)) : list fid :=
  match l with
  | [] => []
  | (k', v) :: r => if Nat.eqb k' k then v else lookup k r
  end.

(* the functions a go / defer statement of the given form may launch *)
Definition may_target (P : program) (fm : form) (g : fid) : Prop :=
  match fm with
  | FStatic f => g = f
  | FClosure f => g = f
  | FInvoke m => In g (lookup m (impls P))      (* every declared method implementing the interface method *)
  | FValue s => In g (lookup s (values P))      (* every function a value of that signature may denote *)
  | FClosureOther => False
  | FBuiltin _ => False
  end.

Definition direct_form (fm : form) : Prop :=
  match fm with FStatic _ | FClosure _ => True | _ => False end.

(* "g calls recover" (directly, in its own body: recover only has an effect when called directly by the deferred function) *)
Definition calls_recover (P : program) (g : fid) : Prop :=
  exists fn, get_func P g = Some fn /\ In (ICall (FBuiltin "recover")) (f_body fn).

(* "f defers a function that calls recover" *)
Definition defers_recovering (P : program) (f : fid) : Prop :=
  exists fn fm g, get_func P f = Some fn /\ In (IDefer fm) (f_body fn) /\ may_target P fm g /\ calls_recover P g.

(* ... through a defer statement whose callee is syntactically known (named function, method with static receiver, closure) *)
Definition defers_recovering_direct (P : program) (f : fid) : Prop :=
  exists fn fm g, get_func P f = Some fn /\ In (IDefer fm) (f_body fn) /\ direct_form fm /\ may_target P fm g /\
                  calls_recover P g.

(* f is reported with creation site p *)
Definition reported (c : config) (P : program) (f : fid) (p : pos) : Prop :=
  exists ps, In (f, ps) (report c P) /\ In p ps.

(* The full statement of C19 for the go statements whose form satisfies ok: every go statement that lies outside the
   excluded packages/files and may launch f, where f does not defer a function that calls recover, makes the tool report
   f together with the position of the go statement. *)
Definition reports_all_for (ok : form -> Prop) : Prop :=
  forall (c : config) (P : program) (fnh : func) (fm : form) (p : pos) (f : fid),
    In fnh (funcs P) -> In (IGo fm p) (f_body fnh) -> ok fm ->
    filtered_fn c fnh = false ->                     (* the go statement is outside the excluded packages *)
    may_target P fm f ->
    ~ defers_recovering P f ->
    reported c P f p.

Definition reports_all : Prop := reports_all_for (fun _ => True).

Lemma reports_all_unfold : reports_all <->
  (forall (c : config) (P : program) (fnh : func) (fm : form) (p : pos) (f : fid),
    In fnh (funcs P) -> In (IGo fm p) (f_body fnh) -> filtered_fn c fnh = false -> may_target P fm f ->
    ~ defers_recovering P f -> reported c P f p).
Proof.
  unfold reports_all, reports_all_for. split; intros H c P fnh fm p f H1 H2; intros; apply (H c P fnh fm p f); auto.
Qed.

(* ------------------------------------------------------------------------------------------------ add_go / scans *)

Definition has (m : gomap) (f : fid) (p : pos) : Prop := exists ps, In (f, ps) m /\ In p ps.

Lemma add_go_has_new : forall m f p, has (add_go f p m) f p.
Proof.
  induction m as [|[g ps] r IH]; intros f p; simpl.
  - exists [p]. split; simpl; auto.
  - destruct (Nat.eqb g f) eqn:E.
    + apply Nat.eqb_eq in E. subst g. exists (ps ++ [p]). split; [left; reflexivity|].
      apply in_or_app. right. simpl. auto.
    + destruct (IH f p) as [qs [H1 H2]]. exists qs. split; [right; exact H1|exact H2].
Qed.

Lemma add_go_has_old : forall m f p g q, has m g q -> has (add_go f p m) g q.
Proof.
  induction m as [|[g0 ps0] r IH]; intros f p g q [ps [Hin Hq]]; simpl in *.
  - contradiction.
  - destruct Hin as [Heq|Hin].
    + inversion Heq; subst. destruct (Nat.eqb g f).
      * exists (ps ++ [p]). split; [left; reflexivity|]. apply in_or_app. left. exact Hq.
      * exists ps. split; [left; reflexivity|exact Hq].
    + destruct (Nat.eqb g0 f).
      * exists ps. split; [right; exact Hin|exact Hq].
      * destruct (IH f p g q) as [qs [H1 H2]]; [exists ps; auto|].
        exists qs. split; [right; exact H1|exact H2].
Qed.

Lemma add_go_inv : forall m f p g q, has (add_go f p m) g q -> has m g q \/ (g = f /\ q = p).
Proof.
  induction m as [|[g0 ps0] r IH]; intros f p g q [ps [Hin Hq]]; simpl in *.
  - destruct Hin as [Heq|[]]. inversion Heq; subst. destruct Hq as [Hq|[]]. right. auto.
  - destruct (Nat.eqb g0 f) eqn:E.
    + destruct Hin as [Heq|Hin].
      * inversion Heq; subst. apply Nat.eqb_eq in E. subst.
        apply in_app_or in Hq. destruct Hq as [Hq|Hq].
        -- left. exists ps0. split; [left; reflexivity|exact Hq].
        -- destruct Hq as [Hq|[]]. right. auto.
      * left. exists ps. split; [right; exact Hin|exact Hq].
    + destruct Hin as [Heq|Hin].
      * inversion Heq; subst. left. exists ps. split; [left; reflexivity|exact Hq].
      * destruct (IH f p g q) as [[qs [H1 H2]]|H]; [exists ps; auto| |].
        -- left. exists qs. split; [right; exact H1|exact H2].
        -- right. exact H.
Qed.

Lemma add_go_keys : forall m f p g, In g (map fst (add_go f p m)) <-> In g (map fst m) \/ g = f.
Proof.
  induction m as [|[g0 ps0] r IH]; intros f p g; simpl.
  - intuition.
  - destruct (Nat.eqb g0 f) eqn:E; simpl.
    + apply Nat.eqb_eq in E. subst. intuition.
    + rewrite IH. intuition.
Qed.

Lemma add_go_nodup : forall m f p, NoDup (map fst m) -> NoDup (map fst (add_go f p m)).
Proof.
  induction m as [|[g0 ps0] r IH]; intros f p H; simpl.
  - constructor; [intros []|constructor].
  - inversion H; subst. destruct (Nat.eqb g0 f) eqn:E; simpl.
    + constructor; assumption.
    + constructor.
      * rewrite add_go_keys. intros [Hin|Heq]; [contradiction|]. subst. rewrite Nat.eqb_refl in E. discriminate.
      * apply IH. assumption.
Qed.

Lemma scan_go_spec : forall body m g q,
  has (scan_go body m) g q <-> has m g q \/ exists i, In i body /\ go_target i = Some (g, q).
Proof.
  unfold scan_go. induction body as [|i r IH]; intros m g q; simpl.
  - split; [auto|]. intros [H|[i [[] _]]]. exact H.
  - rewrite IH. split.
    + intros [H|[j [Hj Ht]]].
      * destruct (go_target i) as [[f p]|] eqn:E.
        -- apply add_go_inv in H. destruct H as [H|[-> ->]]; [left; exact H|].
           right. exists i. split; [left; reflexivity|exact E].
        -- left. exact H.
      * right. exists j. split; [right; exact Hj|exact Ht].
    + intros [H|[j [[->|Hj] Ht]]].
      * left. destruct (go_target i) as [[f p]|]; [apply add_go_has_old|]; exact H.
      * left. rewrite Ht. apply add_go_has_new.
      * right. exists j. auto.
Qed.

Lemma scan_go_nodup : forall body m, NoDup (map fst m) -> NoDup (map fst (scan_go body m)).
Proof.
  unfold scan_go. induction body as [|i r IH]; intros m H; simpl; [exact H|].
  apply IH. destruct (go_target i) as [[f p]|]; [apply add_go_nodup|]; exact H.
Qed.

Lemma fold_scan_spec : forall fs m g q,
  has (fold_left (fun m fn => scan_go (f_body fn) m) fs m) g q <->
  has m g q \/ exists fn i, In fn fs /\ In i (f_body fn) /\ go_target i = Some (g, q).
Proof.
  induction fs as [|fn r IH]; intros m g q; simpl.
  - split; [auto|]. intros [H|[fn [i [[] _]]]]. exact H.
  - rewrite IH, scan_go_spec. split.
    + intros [[H|[i [Hi Ht]]]|[fn' [i [Hf [Hi Ht]]]]].
      * left. exact H.
      * right. exists fn, i. auto.
      * right. exists fn', i. auto.
    + intros [H|[fn' [i [[->|Hf] [Hi Ht]]]]].
      * left. left. exact H.
      * left. right. exists i. auto.
      * right. exists fn', i. auto.
Qed.

Lemma fold_scan_nodup : forall fs m, NoDup (map fst m) ->
  NoDup (map fst (fold_left (fun m fn => scan_go (f_body fn) m) fs m)).
Proof.
  induction fs as [|fn r IH]; intros m H; simpl; [exact H|]. apply IH. apply scan_go_nodup. exact H.
Qed.

(* findGoFunctions records exactly the static / closure go statements *)
Lemma find_go_functions_spec : forall P g q,
  has (find_go_functions P) g q <-> exists fn i, In fn (funcs P) /\ In i (f_body fn) /\ go_target i = Some (g, q).
Proof.
  intros. unfold find_go_functions. rewrite fold_scan_spec. split.
  - intros [[ps [[] _]]|H]. exact H.
  - intros H. right. exact H.
Qed.

Lemma find_go_functions_nodup : forall P, NoDup (map fst (find_go_functions P)).
Proof. intros. unfold find_go_functions. apply fold_scan_nodup. constructor. Qed.

Lemma go_target_spec : forall i g q,
  go_target i = Some (g, q) <-> (i = IGo (FStatic g) q \/ i = IGo (FClosure g) q).
Proof.
  intros i g q. split.
  - destruct i as [fm p| | |]; simpl; try discriminate. destruct fm; simpl; try discriminate; intros H; inversion H; auto.
  - intros [->| ->]; reflexivity.
Qed.

(* ------------------------------------------------------------------------------------------------ recover *)

Lemma is_recover_call_spec : forall i, is_recover_call i = true <-> i = ICall (FBuiltin "recover").
Proof.
  intros i. split.
  - destruct i as [| |fm|]; simpl; try discriminate. destruct fm; simpl; try discriminate.
    intros H. apply String.eqb_eq in H. subst. reflexivity.
  - intros ->. reflexivity.
Qed.

Lemma in_recover_functions_spec : forall P g, in_recover_functions P g = true <-> calls_recover P g.
Proof.
  intros P g. unfold in_recover_functions, calls_recover. destruct (get_func P g) as [fn|].
  - unfold does_recover. rewrite existsb_exists. split.
    + intros [i [Hi Hr]]. apply is_recover_call_spec in Hr. subst. exists fn. auto.
    + intros [fn' [Heq Hi]]. inversion Heq; subst. exists (ICall (FBuiltin "recover")). split; [exact Hi|reflexivity].
  - split; [discriminate|]. intros [fn [H _]]. discriminate.
Qed.

Lemma is_recovering_defer_spec : forall P i,
  is_recovering_defer P i = true <->
  exists fm g, i = IDefer fm /\ direct_form fm /\ may_target P fm g /\ calls_recover P g.
Proof.
  intros P i. split.
  - destruct i as [|fm| |]; simpl; try discriminate. destruct fm as [g|g| | | |]; simpl; try discriminate; intros H;
      apply in_recover_functions_spec in H.
    + exists (FStatic g), g. simpl. auto.
    + exists (FClosure g), g. simpl. auto.
  - intros [fm [g [-> [Hd [Ht Hc]]]]]. destruct fm; simpl in *; try contradiction; subst;
      apply in_recover_functions_spec; exact Hc.
Qed.

(* doesDeferRecover is exactly "some defer statement with a syntactically known callee defers a function that calls recover" *)
Lemma does_defer_recover_iff_direct : forall P f,
  does_defer_recover P f = true <-> defers_recovering_direct P f.
Proof.
  intros P f. unfold does_defer_recover, defers_recovering_direct. destruct (get_func P f) as [fn|].
  - unfold does_defer_recover_fn. rewrite existsb_exists. split.
    + intros [i [Hi Hr]]. apply is_recovering_defer_spec in Hr. destruct Hr as [fm [g [-> H]]].
      exists fn, fm, g. intuition.
    + intros [fn' [fm [g [Heq [Hi H]]]]]. inversion Heq; subst. exists (IDefer fm). split; [exact Hi|].
      apply is_recovering_defer_spec. exists fm, g. intuition.
  - split; [discriminate|]. intros [fn [fm [g [H _]]]]. discriminate.
Qed.

(* soundness of "not reported because it recovers": whenever the analysis decides that f has a recovering defer, f does
   defer a function that calls recover *)
Lemma does_defer_recover_sound : forall P f, does_defer_recover P f = true -> defers_recovering P f.
Proof.
  intros P f H. apply does_defer_recover_iff_direct in H. destruct H as [fn [fm [g [H1 [H2 [_ [H3 H4]]]]]]].
  exists fn, fm, g. auto.
Qed.

Lemma not_defers_recovering_ddr_false : forall P f, ~ defers_recovering P f -> does_defer_recover P f = false.
Proof.
  intros P f H. destruct (does_defer_recover P f) eqn:E; [|reflexivity].
  exfalso. apply H. apply does_defer_recover_sound. exact E.
Qed.

(* the forms doesDeferRecover does not handle: a recovering function deferred through an interface value or a function
   value is not recognised (the analysis then over-reports, which is the harmless direction) *)
Definition prog_defer_invoke : program :=
  mkProgram [ mkFunc (Some "p1") "/w/main.go" [IDefer (FInvoke 0); IOther];            (* 0: entry, defer r.Rec() *)
              mkFunc (Some "p1") "/w/main.go" [ICall (FBuiltin "recover")] ]           (* 1: (T).Rec calls recover *)
            [(0, [1])] [].

Definition prog_defer_value : program :=
  mkProgram [ mkFunc (Some "p1") "/w/main.go" [IDefer (FValue 0); IOther];             (* 0: entry, defer fv() *)
              mkFunc (Some "p1") "/w/main.go" [ICall (FBuiltin "recover")] ]           (* 1: namedRec *)
            [] [(0, [1])].

Lemma defer_invoke_not_recognised : defers_recovering prog_defer_invoke 0 /\ does_defer_recover prog_defer_invoke 0 = false.
Proof.
  split; [|reflexivity].
  exists (mkFunc (Some "p1") "/w/main.go" [IDefer (FInvoke 0); IOther]), (FInvoke 0), 1.
  repeat split; simpl; auto.
  exists (mkFunc (Some "p1") "/w/main.go" [ICall (FBuiltin "recover")]). simpl. auto.
Qed.

Lemma defer_value_not_recognised : defers_recovering prog_defer_value 0 /\ does_defer_recover prog_defer_value 0 = false.
Proof.
  split; [|reflexivity].
  exists (mkFunc (Some "p1") "/w/main.go" [IDefer (FValue 0); IOther]), (FValue 0), 1.
  repeat split; simpl; auto.
  exists (mkFunc (Some "p1") "/w/main.go" [ICall (FBuiltin "recover")]). simpl. auto.
Qed.

Lemma does_defer_recover_complete_refuted :
  ~ (forall P f, defers_recovering P f -> does_defer_recover P f = true).
Proof.
  intros H. destruct defer_invoke_not_recognised as [H1 H2]. apply H in H1. rewrite H1 in H2. discriminate.
Qed.

(* forms that look like a recovering defer but are not one, neither for the analysis nor for the specification (and not
   at run time either: recover only stops a panic when called directly by the deferred function) *)
Definition prog_defer_noneffective : program :=
  mkProgram [ mkFunc (Some "p1") "/w/main.go" [IDefer (FBuiltin "recover")];            (* 0: defer recover() *)
              mkFunc (Some "p1") "/w/main.go" [IDefer (FStatic 2)];                     (* 1: defer func(){ helper() }() *)
              mkFunc (Some "p1") "/w/main.go" [ICall (FStatic 3)];                      (* 2: the closure: calls helper *)
              mkFunc (Some "p1") "/w/main.go" [ICall (FBuiltin "recover")];             (* 3: helper calls recover *)
              mkFunc (Some "p1") "/w/main.go" [IDefer (FStatic 5)];                     (* 4: defer func(){ defer recover() }() *)
              mkFunc (Some "p1") "/w/main.go" [IDefer (FBuiltin "recover")] ]           (* 5: closure deferring recover *)
            [] [].

Lemma calls_recover_dec_false : forall P g fn,
  get_func P g = Some fn -> existsb is_recover_call (f_body fn) = false -> ~ calls_recover P g.
Proof.
  intros P g fn Hg He [fn' [Hg' Hin]]. rewrite Hg in Hg'. inversion Hg'; subst.
  assert (existsb is_recover_call (f_body fn') = true) as Ht.
  { apply existsb_exists. exists (ICall (FBuiltin "recover")). split; [exact Hin|reflexivity]. }
  rewrite Ht in He. discriminate.
Qed.

Lemma noneffective_defers_agree :
  (does_defer_recover prog_defer_noneffective 0 = false /\ ~ defers_recovering prog_defer_noneffective 0) /\
  (does_defer_recover prog_defer_noneffective 1 = false /\ ~ defers_recovering prog_defer_noneffective 1) /\
  (does_defer_recover prog_defer_noneffective 4 = false /\ ~ defers_recovering prog_defer_noneffective 4).
Proof.
  repeat split; try reflexivity.
  - intros [fn [fm [g [Hg [Hin [Ht Hc]]]]]]. inversion Hg; subst. simpl in Hin.
    destruct Hin as [Heq|[]]. inversion Heq; subst. exact Ht.
  - intros [fn [fm [g [Hg [Hin [Ht Hc]]]]]]. inversion Hg; subst. simpl in Hin.
    destruct Hin as [Heq|[]]. inversion Heq; subst. simpl in Ht. subst.
    revert Hc. eapply calls_recover_dec_false; reflexivity.
  - intros [fn [fm [g [Hg [Hin [Ht Hc]]]]]]. inversion Hg; subst. simpl in Hin.
    destruct Hin as [Heq|[]]. inversion Heq; subst. simpl in Ht. subst.
    revert Hc. eapply calls_recover_dec_false; reflexivity.
Qed.

(* ------------------------------------------------------------------------------------------------ the report *)

Lemma report_spec : forall c P f ps,
  In (f, ps) (report c P) <->
  In (f, ps) (find_go_functions P) /\ filtered c P f = false /\ does_defer_recover P f = false.
Proof.
  intros. unfold report. rewrite filter_In. simpl. rewrite andb_true_iff, !negb_true_iff. tauto.
Qed.

Lemma report_nodup : forall c P, NoDup (map fst (report c P)).
Proof.
  intros c P. unfold report. pose proof (find_go_functions_nodup P) as H.
  induction (find_go_functions P) as [|e r IH]; simpl; [constructor|].
  inversion H; subst. destruct (negb (filtered c P (fst e)) && negb (does_defer_recover P (fst e))); simpl.
  - constructor; [|apply IH; assumption]. intros Hin. apply H2. apply in_map_iff in Hin. destruct Hin as [x [Hx Hin]].
    apply filter_In in Hin. apply in_map_iff. exists x. tauto.
  - apply IH. assumption.
Qed.

(* exact characterisation of what is reported *)
Lemma reported_iff : forall c P f p,
  reported c P f p <->
  (exists fnh fm, In fnh (funcs P) /\ In (IGo fm p) (f_body fnh) /\ (fm = FStatic f \/ fm = FClosure f)) /\
  filtered c P f = false /\ does_defer_recover P f = false.
Proof.
  intros c P f p. unfold reported. split.
  - intros [ps [Hin Hp]]. apply report_spec in Hin. destruct Hin as [Hin [Hf Hd]]. split; [|auto].
    assert (has (find_go_functions P) f p) as Hh by (exists ps; auto).
    apply find_go_functions_spec in Hh. destruct Hh as [fn [i [Hfn [Hi Ht]]]].
    apply go_target_spec in Ht. destruct Ht as [->| ->].
    + exists fn, (FStatic f). auto.
    + exists fn, (FClosure f). auto.
  - intros [[fnh [fm [Hfn [Hi Hfm]]]] [Hf Hd]].
    assert (has (find_go_functions P) f p) as [ps [Hin Hp]].
    { apply find_go_functions_spec. exists fnh, (IGo fm p). repeat split; auto.
      apply go_target_spec. destruct Hfm as [->| ->]; auto. }
    exists ps. split; [|exact Hp]. apply report_spec. auto.
Qed.

(* the provable part of C19, for ALL programs of the mini-IR: a go statement whose callee is syntactically known (named
   function, method with static receiver, anonymous function, closure, bound-method wrapper) and survives the filter
   is reported with the position of that go statement whenever it has no recognised recovering defer *)
Lemma reports_static_closure : forall c P fnh fm p f,
  In fnh (funcs P) -> In (IGo fm p) (f_body fnh) -> (fm = FStatic f \/ fm = FClosure f) ->
  filtered c P f = false -> does_defer_recover P f = false ->
  reported c P f p.
Proof.
  intros. apply reported_iff. split; [|auto]. exists fnh, fm. auto.
Qed.

(* the same against the specification: "does not defer a function that calls recover" *)
Lemma reports_static_closure_spec : forall c P fnh fm p f,
  In fnh (funcs P) -> In (IGo fm p) (f_body fnh) -> direct_form fm -> may_target P fm f ->
  filtered c P f = false -> ~ defers_recovering_direct P f ->
  reported c P f p.
Proof.
  intros c P fnh fm p f Hfn Hi Hd Ht Hf Hn.
  apply reports_static_closure with (fnh := fnh) (fm := fm); auto.
  - destruct fm; simpl in *; try contradiction; subst; auto.
  - destruct (does_defer_recover P f) eqn:E; [|reflexivity]. exfalso. apply Hn.
    apply does_defer_recover_iff_direct. exact E.
Qed.

(* nothing else is reported: every report is justified by a go statement, and the function has no direct recovering defer *)
Lemma report_only_launched : forall c P f p,
  reported c P f p ->
  (exists fnh fm, In fnh (funcs P) /\ In (IGo fm p) (f_body fnh) /\ direct_form fm /\ may_target P fm f) /\
  ~ defers_recovering_direct P f.
Proof.
  intros c P f p H. apply reported_iff in H. destruct H as [[fnh [fm [H1 [H2 H3]]]] [_ Hd]]. split.
  - exists fnh, fm. destruct H3 as [->| ->]; simpl; auto.
  - intros Hn. apply does_defer_recover_iff_direct in Hn. rewrite Hn in Hd. discriminate.
Qed.

(* ------------------------------------------------------------------------------------------------ refutations *)

Definition cfg0 : config := mkConfig ["sort"; "fmt"] "/w" [].

(* go i.M() : main launches method M of T through an interface value *)
Definition prog_go_invoke : program :=
  mkProgram [ mkFunc (Some "p1") "/w/main.go" [IGo (FInvoke 0) 7];     (* 0: main:  go i.M() *)
              mkFunc (Some "p1") "/w/main.go" [IOther] ]                (* 1: (T).M, no defer at all *)
            [(0, [1])] [].

(* go fv() : main launches named through a function value *)
Definition prog_go_value : program :=
  mkProgram [ mkFunc (Some "p1") "/w/main.go" [IGo (FValue 0) 7];      (* 0: main:  go fv() *)
              mkFunc (Some "p1") "/w/main.go" [IOther] ]                (* 1: named *)
            [] [(0, [1])].

(* go sort.Slice(xs, less) : the go statement is in user code, the launched function in an allow-listed package *)
Definition prog_go_allowlisted : program :=
  mkProgram [ mkFunc (Some "p1") "/w/main.go" [IGo (FStatic 1) 7];     (* 0: main *)
              mkFunc (Some "sort") "/go/src/sort/slice.go" [IOther] ]   (* 1: sort.Slice *)
            [] [].

(* go lib.Serve() with -exclude lib : go statement in a file that is not excluded, launched function in an excluded file *)
Definition cfg_excl : config := mkConfig ["sort"; "fmt"] "/w" ["lib"].
Definition prog_go_excluded : program :=
  mkProgram [ mkFunc (Some "p1") "/w/main.go" [IGo (FStatic 1) 7];     (* 0: main *)
              mkFunc (Some "p1/lib") "/w/lib/lib.go" [IOther] ]         (* 1: lib.Serve *)
            [] [].

Lemma no_defer_not_recovering : forall P f fn,
  get_func P f = Some fn -> (forall fm, ~ In (IDefer fm) (f_body fn)) -> ~ defers_recovering P f.
Proof.
  intros P f fn Hg Hn [fn' [fm [g [Hg' [Hin _]]]]]. rewrite Hg in Hg'. inversion Hg'; subst. exact (Hn fm Hin).
Qed.

Ltac refute_with c P fm :=
  let H := fresh "H" in
  intros H;
  specialize (H c P (mkFunc (Some "p1") "/w/main.go" [IGo fm 7]) fm 7 1);
  destruct H as [ps [Hin _]];
  [ simpl; auto | simpl; auto | simpl; auto | reflexivity | simpl; auto
  | eapply no_defer_not_recovering; [reflexivity|]; simpl; intros fm' [Hc|[]]; discriminate
  | vm_compute in Hin; exact Hin ].

Lemma go_invoke_refuted : ~ reports_all_for (fun fm => exists m, fm = FInvoke m).
Proof. refute_with cfg0 prog_go_invoke (FInvoke 0). exists 0. reflexivity. Qed.

Lemma go_funcvalue_refuted : ~ reports_all_for (fun fm => exists s, fm = FValue s).
Proof. refute_with cfg0 prog_go_value (FValue 0). exists 0. reflexivity. Qed.

Lemma go_callee_allowlisted_refuted : ~ reports_all_for direct_form.
Proof. refute_with cfg0 prog_go_allowlisted (FStatic 1). Qed.

Lemma go_callee_excluded_refuted : ~ reports_all_for direct_form.
Proof. refute_with cfg_excl prog_go_excluded (FStatic 1). Qed.

Lemma reports_all_for_weaken : forall (ok ok' : form -> Prop),
  (forall fm, ok' fm -> ok fm) -> reports_all_for ok -> reports_all_for ok'.
Proof. intros ok ok' Himp H c P fnh fm p f H1 H2 H3. apply H; auto. Qed.

Lemma go_forms_refuted : ~ reports_all.
Proof.
  intros H. apply go_invoke_refuted. apply (reports_all_for_weaken (fun _ => True)); [auto | exact H].
Qed.

(* ------------------------------------------------------------------------------------------------ filters *)

Lemma str_prefix_app : forall p s, str_prefix p (p ++ s)%string = true.
Proof. induction p; intros; simpl; [reflexivity|]. rewrite Ascii.eqb_refl. apply IHp. Qed.

Lemma str_prefix_spec : forall p s, str_prefix p s = true <-> exists r, s = (p ++ r)%string.
Proof.
  induction p as [|a p IH]; intros s; simpl.
  - split; [exists s; reflexivity|auto].
  - destruct s as [|b s]; [split; [discriminate|intros [r H]; discriminate]|].
    destruct (Ascii.eqb a b) eqn:E.
    + apply Ascii.eqb_eq in E. subst. rewrite IH. split; intros [r H]; exists r; [rewrite H; reflexivity|inversion H; reflexivity].
    + split; [discriminate|]. intros [r H]. inversion H; subst. rewrite Ascii.eqb_refl in E. discriminate.
Qed.

(* a function without package (wrappers, generic instances) is never filtered *)
Lemma filtered_no_pkg : forall c fn, f_pkg fn = None -> filtered_fn c fn = false.
Proof. intros c fn H. unfold filtered_fn. rewrite H. reflexivity. Qed.

(* exclusion is decided on the launched function only *)
Lemma filtered_fn_spec : forall c fn path,
  f_pkg fn = Some path ->
  filtered_fn c fn = allow_listed (c_allow c) path
                     || existsb (fun e => is_excluded_one (f_file fn) (make_absolute (c_cwd c) e)) (c_exclude c).
Proof.
  intros c fn path H. unfold filtered_fn, is_excluded. rewrite H. f_equal.
  induction (c_exclude c) as [|e r IH]; simpl; [reflexivity|]. rewrite IH. reflexivity.
Qed.
