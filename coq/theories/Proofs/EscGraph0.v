(* Lemmas on the graph operations of Model/Esc.v: membership, status, closure, order. *)
From Coq Require Import List Arith Bool Lia.
From Argot Require Import Lang.Conc Model.Esc.
Import ListNotations.

Lemma node_eqb_eq : forall a b, node_eqb a b = true <-> a = b.
Proof.
  destruct a, b; simpl; split; intro H; try discriminate; try congruence;
    try (apply Nat.eqb_eq in H; congruence);
    try (apply andb_true_iff in H; destruct H as [H1 H2]; apply Nat.eqb_eq in H1; apply Nat.eqb_eq in H2; congruence);
    try (inversion H; subst; rewrite ?Nat.eqb_refl; reflexivity).
Qed.

Lemma node_eqb_refl : forall a, node_eqb a a = true.
Proof. intro a; apply node_eqb_eq; reflexivity. Qed.

Lemma node_eqb_neq : forall a b, node_eqb a b = false <-> a <> b.
Proof.
  intros a b; split; intro H.
  - intro E; apply node_eqb_eq in E; congruence.
  - destruct (node_eqb a b) eqn:E; auto. apply node_eqb_eq in E; contradiction.
Qed.

Definition vedge (g : graph) (r : reg) (n : node) : Prop := In (r, n) (g_v g).
Definition fedge (g : graph) (n : node) (f : fld) (m : node) : Prop := In (n, f, m) (g_f g).
Definition closed (g : graph) : Prop := forall n f m, fedge g n f m -> st g n <= st g m.
Definition gle (g h : graph) : Prop :=
  (forall r n, vedge g r n -> vedge h r n) /\
  (forall n f m, fedge g n f m -> fedge h n f m) /\
  (forall n, st g n <= st h n).

Lemma gle_refl : forall g, gle g g.
Proof. intro g; repeat split; auto. Qed.

Lemma gle_trans : forall a b c, gle a b -> gle b c -> gle a c.
Proof.
  intros a b c (A1 & A2 & A3) (B1 & B2 & B3); repeat split; auto.
  intro n; specialize (A3 n); specialize (B3 n); lia.
Qed.

(* ---- membership in add_v / add_f ---- *)
Lemma ve_eqb_eq : forall a b, ve_eqb a b = true <-> a = b.
Proof.
  intros [r n] [r' n']; unfold ve_eqb; simpl; rewrite andb_true_iff, Nat.eqb_eq, node_eqb_eq.
  split; [intros [-> ->]; reflexivity | intro H; inversion H; auto].
Qed.

Lemma fe_eqb_eq : forall a b, fe_eqb a b = true <-> a = b.
Proof.
  intros [[n f] m] [[n' f'] m']; unfold fe_eqb; simpl.
  rewrite !andb_true_iff, Nat.eqb_eq, !node_eqb_eq.
  split; [intros [[-> ->] ->]; reflexivity | intro H; inversion H; auto].
Qed.

Lemma existsb_ve : forall e l, existsb (ve_eqb e) l = true <-> In e l.
Proof.
  intros e l; rewrite existsb_exists; split.
  - intros (x & Hx & E); apply ve_eqb_eq in E; subst; auto.
  - intro H; exists e; split; auto; apply ve_eqb_eq; reflexivity.
Qed.

Lemma existsb_fe : forall e l, existsb (fe_eqb e) l = true <-> In e l.
Proof.
  intros e l; rewrite existsb_exists; split.
  - intros (x & Hx & E); apply fe_eqb_eq in E; subst; auto.
  - intro H; exists e; split; auto; apply fe_eqb_eq; reflexivity.
Qed.

Lemma In_add_v : forall e e' l, In e (add_v e' l) <-> e = e' \/ In e l.
Proof.
  intros e e' l; unfold add_v; destruct (existsb (ve_eqb e') l) eqn:E.
  - apply existsb_ve in E; split; [auto | intros [-> | H]; auto].
  - simpl; split; [intros [<- | H]; auto | intros [-> | H]; auto].
Qed.

Lemma In_add_f : forall e e' l, In e (add_f e' l) <-> e = e' \/ In e l.
Proof.
  intros e e' l; unfold add_f; destruct (existsb (fe_eqb e') l) eqn:E.
  - apply existsb_fe in E; split; [auto | intros [-> | H]; auto].
  - simpl; split; [intros [<- | H]; auto | intros [-> | H]; auto].
Qed.

Lemma In_fold_add_v : forall es l e, In e (fold_right add_v l es) <-> In e es \/ In e l.
Proof.
  induction es as [|x es IH]; simpl; intros l e.
  - tauto.
  - rewrite In_add_v, IH; split; [intros [-> | [H | H]]; auto | intros [[<- | H] | H]; auto].
Qed.

Lemma In_fold_add_f : forall es l e, In e (fold_right add_f l es) <-> In e es \/ In e l.
Proof.
  induction es as [|x es IH]; simpl; intros l e.
  - tauto.
  - rewrite In_add_f, IH; split; [intros [-> | [H | H]]; auto | intros [[<- | H] | H]; auto].
Qed.

Lemma vedge_with_v : forall g es r n, vedge (with_v g es) r n <-> In (r, n) es \/ vedge g r n.
Proof. intros; unfold vedge, with_v; simpl; apply In_fold_add_v. Qed.

Lemma fedge_with_v : forall g es n f m, fedge (with_v g es) n f m <-> fedge g n f m.
Proof. intros; unfold fedge, with_v; simpl; tauto. Qed.

Lemma vedge_with_f : forall g es r n, vedge (with_f g es) r n <-> vedge g r n.
Proof. intros; unfold vedge, with_f; simpl; tauto. Qed.

Lemma fedge_with_f : forall g es n f m, fedge (with_f g es) n f m <-> In (n, f, m) es \/ fedge g n f m.
Proof. intros; unfold fedge, with_f; simpl; apply In_fold_add_f. Qed.

Lemma st_with_v : forall g es n, st (with_v g es) n = st g n.
Proof. reflexivity. Qed.

Lemma st_with_f : forall g es n, st (with_f g es) n = st g n.
Proof. reflexivity. Qed.

Lemma vsucc_spec : forall g r n, In n (vsucc g r) <-> vedge g r n.
Proof.
  intros g r n; unfold vsucc, vedge; rewrite in_map_iff; split.
  - intros ([r' n'] & E & H); simpl in E; subst. apply filter_In in H; destruct H as [H1 H2]; simpl in H2.
    apply Nat.eqb_eq in H2; subst; auto.
  - intro H; exists (r, n); split; auto. apply filter_In; split; auto; simpl; apply Nat.eqb_refl.
Qed.

Lemma fsucc_spec : forall g n f m, In m (fsucc g n f) <-> fedge g n f m.
Proof.
  intros g n f m; unfold fsucc, fedge; rewrite in_map_iff; split.
  - intros ([[n' f'] m'] & E & H); simpl in E; subst. apply filter_In in H; destruct H as [H1 H2]; simpl in H2.
    apply andb_true_iff in H2; destruct H2 as [A B]. apply node_eqb_eq in A; apply Nat.eqb_eq in B; subst; auto.
  - intro H; exists (n, f, m); split; auto. apply filter_In; split; auto; simpl.
    rewrite node_eqb_refl, Nat.eqb_refl; reflexivity.
Qed.

(* ---- status ---- *)
Lemma st_raise : forall n s g m, st (raise n s g) m = if node_eqb n m then Nat.max s (st g m) else st g m.
Proof.
  intros n s g m; unfold raise. destruct (Nat.leb s (st g n)) eqn:E.
  - apply Nat.leb_le in E. destruct (node_eqb n m) eqn:E2; auto. apply node_eqb_eq in E2; subst; lia.
  - unfold st; simpl. destruct (node_eqb n m); auto. lia.
Qed.

Lemma st_raise_ge : forall n s g m, st g m <= st (raise n s g) m.
Proof. intros; rewrite st_raise; destruct (node_eqb n m); lia. Qed.

Lemma st_raise_self : forall n s g, s <= st (raise n s g) n.
Proof. intros; rewrite st_raise, node_eqb_refl; lia. Qed.

Lemma raise_v : forall n s g, g_v (raise n s g) = g_v g.
Proof. intros; unfold raise; destruct (Nat.leb s (st g n)); reflexivity. Qed.

Lemma raise_f : forall n s g, g_f (raise n s g) = g_f g.
Proof. intros; unfold raise; destruct (Nat.leb s (st g n)); reflexivity. Qed.

Lemma intrinsic_le_st : forall g n, intrinsic n <= st g n.
Proof. intros; unfold st; lia. Qed.

Lemma st_le_2_gen : forall l n, (forall m s, In (m, s) l -> s <= 2) -> lookup_st l n <= 2.
Proof.
  induction l as [|[m s] l IH]; simpl; intros n H; [lia|].
  assert (s <= 2) by (eapply H; left; reflexivity).
  assert (lookup_st l n <= 2) by (apply IH; intros; eapply H; right; eauto).
  destruct (node_eqb m n); lia.
Qed.

(* ---- closure ---- *)
Lemma closedb_spec : forall g, closedb g = true <-> closed g.
Proof.
  intro g; unfold closedb, closed, fedge; rewrite forallb_forall; split.
  - intros H n f m Hin. specialize (H _ Hin); simpl in H. apply Nat.leb_le in H; auto.
  - intros H [[n f] m] Hin; simpl. apply Nat.leb_le. eauto.
Qed.

Lemma fold_raise_props : forall (A : Type) (F : A -> graph -> node * nat) (xs : list A) (g : graph),
  g_v (fold_right (fun x acc => raise (fst (F x acc)) (snd (F x acc)) acc) g xs) = g_v g /\
  g_f (fold_right (fun x acc => raise (fst (F x acc)) (snd (F x acc)) acc) g xs) = g_f g /\
  forall n, st g n <= st (fold_right (fun x acc => raise (fst (F x acc)) (snd (F x acc)) acc) g xs) n.
Proof.
  intros A F xs g; induction xs as [|x xs IH]; simpl.
  - auto.
  - destruct IH as (V & E & S). rewrite raise_v, raise_f. repeat split; auto.
    intro n; specialize (S n). etransitivity; [exact S | apply st_raise_ge].
Qed.

Lemma close_round_props : forall g,
  g_v (close_round g) = g_v g /\ g_f (close_round g) = g_f g /\ forall n, st g n <= st (close_round g) n.
Proof.
  intro g; unfold close_round.
  exact (fold_raise_props _ (fun e acc => (snd e, st acc (fst (fst e)))) (g_f g) g).
Qed.

Lemma close_fuel_props : forall k g g', close_fuel k g = Some g' ->
  closed g' /\ g_v g' = g_v g /\ g_f g' = g_f g /\ forall n, st g n <= st g' n.
Proof.
  induction k as [|k IH]; intros g g' H; simpl in H; destruct (closedb g) eqn:C.
  - inversion H; subst; apply closedb_spec in C; auto.
  - discriminate.
  - inversion H; subst; apply closedb_spec in C; auto.
  - apply IH in H. destruct H as (H1 & H2 & H3 & H4). destruct (close_round_props g) as (R1 & R2 & R3).
    repeat split; auto; try congruence. intro n; specialize (H4 n); specialize (R3 n); lia.
Qed.

Lemma close_props : forall g g', close g = Some g' ->
  closed g' /\ (forall r n, vedge g' r n <-> vedge g r n) /\ (forall n f m, fedge g' n f m <-> fedge g n f m) /\
  forall n, st g n <= st g' n.
Proof.
  intros g g' H; apply close_fuel_props in H; destruct H as (A & B & C & D).
  unfold vedge, fedge; rewrite B, C; repeat split; auto.
Qed.

(* ---- order ---- *)
Lemma lookup_le : forall l n b, (forall m s, In (m, s) l -> m = n -> s <= b) -> lookup_st l n <= b.
Proof.
  induction l as [|[m s] l IH]; simpl; intros n b H; [lia|].
  assert (lookup_st l n <= b) by (apply IH; intros; eapply H; eauto).
  destruct (node_eqb m n) eqn:E; auto. apply node_eqb_eq in E.
  assert (s <= b) by (eapply H; [left; reflexivity | auto]). lia.
Qed.

Lemma leb_graph_spec : forall g h, leb_graph g h = true -> gle g h.
Proof.
  intros g h H; unfold leb_graph in H. apply andb_true_iff in H; destruct H as [H H3].
  apply andb_true_iff in H; destruct H as [H1 H2].
  rewrite forallb_forall in H1, H2, H3. repeat split.
  - intros r n Hin. apply existsb_ve. apply H1; auto.
  - intros n f m Hin. apply existsb_fe. apply H2; auto.
  - intro n; unfold st at 1. apply Nat.max_lub; [apply intrinsic_le_st|].
    apply lookup_le. intros m s Hin ->. specialize (H3 _ Hin); simpl in H3. apply Nat.leb_le in H3; auto.
Qed.

Lemma is_local_spec : forall g r, is_local g r = true <-> forall n, vedge g r n -> st g n = 0.
Proof.
  intros g r; unfold is_local; rewrite forallb_forall; split.
  - intros H n Hv. apply vsucc_spec in Hv. apply H in Hv. apply Nat.eqb_eq in Hv; auto.
  - intros H n Hin. apply Nat.eqb_eq. apply H. apply vsucc_spec; auto.
Qed.

(* status_closed: every graph produced by the model's transfer function satisfies the closure invariant
   (edge a -> b implies status a <= status b), and the transfer only adds edges and raises statuses *)
Lemma transfer_closed : forall fn pc i g g', transfer fn pc i g = Some g' -> closed g'.
Proof. intros fn pc i g g' H; unfold transfer in H; apply close_props in H; tauto. Qed.

Lemma fold_raise2_props : forall ns g,
  g_v (fold_right (fun n acc => raise n 2 acc) g ns) = g_v g /\
  g_f (fold_right (fun n acc => raise n 2 acc) g ns) = g_f g /\
  (forall n, st g n <= st (fold_right (fun n acc => raise n 2 acc) g ns) n) /\
  (forall n, In n ns -> 2 <= st (fold_right (fun n acc => raise n 2 acc) g ns) n).
Proof.
  induction ns as [|x ns IH]; intro g; simpl.
  - repeat split; auto. intros n [].
  - destruct (IH g) as (V & E & S & T). rewrite raise_v, raise_f. repeat split; auto.
    + intro n; specialize (S n). etransitivity; [exact S | apply st_raise_ge].
    + intros n [-> | Hin].
      * apply st_raise_self.
      * specialize (T _ Hin). etransitivity; [exact T | apply st_raise_ge].
Qed.

Lemma transfer_raw_ge : forall fn pc i g, gle g (transfer_raw fn pc i g).
Proof.
  intros fn pc i g; destruct i; simpl; repeat split; intros;
    try (apply vedge_with_v; right; assumption);
    try (apply vedge_with_v; right; apply vedge_with_f; assumption);
    try (apply vedge_with_f; assumption);
    try (apply fedge_with_f; right; assumption);
    try (apply fedge_with_v; assumption);
    try (apply fedge_with_v; apply fedge_with_f; right; assumption);
    try (rewrite ?st_with_v, ?st_with_f; apply le_n); auto.
  - destruct (fold_raise2_props (flat_map (vsucc g) args) g) as (V & E & S & T). unfold vedge; rewrite V; auto.
  - destruct (fold_raise2_props (flat_map (vsucc g) args) g) as (V & E & S & T). unfold fedge; rewrite E; auto.
  - destruct (fold_raise2_props (flat_map (vsucc g) args) g) as (V & E & S & T). apply S.
Qed.

Lemma transfer_ge : forall fn pc i g g', transfer fn pc i g = Some g' -> gle g g'.
Proof.
  intros fn pc i g g' H; unfold transfer in H; apply close_props in H. destruct H as (_ & V & F & S).
  destruct (transfer_raw_ge fn pc i g) as (A & B & C). repeat split.
  - intros; apply V; auto.
  - intros; apply F; auto.
  - intro n; specialize (C n); specialize (S n); lia.
Qed.
