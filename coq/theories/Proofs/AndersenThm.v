(* Final statements for C11 / C12, assembled from Proofs/Andersen.v (invariant) and Proofs/AndersenSolver.v (solver). *)
From Coq Require Import List NArith PArith Bool Lia Arith.
From Argot Require Import Lang.MuSSA Model.Andersen Proofs.Andersen Proofs.AndersenSolver.
Import ListNotations.

Definition lab_site (l : label) : option site :=
  match l with LObj s _ => Some s | LBox s _ => Some s | LFun _ => None end.

Lemma lab_of_site ob off : lab_site (lab_of ob off) = Some (osite ob).
Proof. unfold lab_of. destruct (otag ob); reflexivity. Qed.

(* C11: at every state reachable from the initial state under any oracle, every register of every frame and every heap
   cell that holds a pointer to an object o is abstracted by a label of o's allocation site in the node's points-to set *)
Theorem pts_sound P S : closed P S -> forall os st evs, run P os (init_state P) = (st, evs) ->
  (forall fr r l off, In fr (sstack st) -> fenv fr r = VPtr l off ->
     exists ob, nth_error (sheap st) l = Some ob /\ pts S (NReg (ffn fr) r) (lab_of ob off) /\
                lab_site (lab_of ob off) = Some (osite ob)) /\
  (forall l0 ob0 i l off, nth_error (sheap st) l0 = Some ob0 -> nth_error (ocells ob0) i = Some (VPtr l off) ->
     exists ob, nth_error (sheap st) l = Some ob /\ pts S (cell_node ob0 i) (lab_of ob off) /\
                lab_site (lab_of ob off) = Some (osite ob)) /\
  (forall fr r g cenv, In fr (sstack st) -> fenv fr r = VClo g cenv -> pts S (NReg (ffn fr) r) (LFun g)).
Proof.
  intros HC os st evs Hr.
  destruct (run_ok P S HC os _ _ _ (init_ok P S) Hr) as (Hok & _ & _).
  split; [|split].
  - intros fr r l off Hin He. destruct (state_ok_reg P S st fr r l off Hok Hin He) as (ob & A & B).
    exists ob. split; [exact A|]. split; [exact B|apply lab_of_site].
  - intros l0 ob0 i l off Hl Hc. destruct (state_ok_cell P S st l0 ob0 i l off Hok Hl Hc) as (ob & A & B).
    exists ob. split; [exact A|]. split; [exact B|apply lab_of_site].
  - intros fr r g cenv Hin He. eapply state_ok_fun_reg; eauto.
Qed.

(* two registers, observed at two (possibly different) moments of one execution, holding the same pointer have
   intersecting points-to sets *)
Theorem may_alias_sound P S : closed P S -> forall os1 os2 st1 st2 ev1 ev2,
  run P os1 (init_state P) = (st1, ev1) -> run P os2 st1 = (st2, ev2) ->
  forall fr1 r1 fr2 r2 l off,
    In fr1 (sstack st1) -> fenv fr1 r1 = VPtr l off -> In fr2 (sstack st2) -> fenv fr2 r2 = VPtr l off ->
    exists lab, pts S (NReg (ffn fr1) r1) lab /\ pts S (NReg (ffn fr2) r2) lab.
Proof.
  intros HC os1 os2 st1 st2 ev1 ev2 H1 H2 fr1 r1 fr2 r2 l off I1 E1 I2 E2.
  destruct (run_ok P S HC os1 _ _ _ (init_ok P S) H1) as (Hok1 & _ & _).
  destruct (run_ok P S HC os2 _ _ _ Hok1 H2) as (Hok2 & _ & Hext).
  destruct (state_ok_reg P S st1 fr1 r1 l off Hok1 I1 E1) as (ob1 & A1 & B1).
  destruct (state_ok_reg P S st2 fr2 r2 l off Hok2 I2 E2) as (ob2 & A2 & B2).
  destruct (Hext _ _ A1) as (ob' & A' & Ma & Mb & Mc). rewrite A2 in A'. inversion A'; subst ob'.
  exists (lab_of ob1 off). split; [exact B1|]. rewrite <- (lab_of_meta ob1 ob2 off Ma Mb Mc). exact B2.
Qed.

Corollary may_alias_sound_same_state P S : closed P S -> forall os st evs,
  run P os (init_state P) = (st, evs) ->
  forall fr1 r1 fr2 r2 l off,
    In fr1 (sstack st) -> fenv fr1 r1 = VPtr l off -> In fr2 (sstack st) -> fenv fr2 r2 = VPtr l off ->
    exists lab, pts S (NReg (ffn fr1) r1) lab /\ pts S (NReg (ffn fr2) r2) lab.
Proof.
  intros HC os st evs H. intros. eapply (may_alias_sound P S HC os [] st st evs []); eauto.
Qed.

(* the solver's answer is one such solution, and the least one *)
Theorem analyze_sound fuel P F : analyze fuel P = Done F -> closed P (interp F) /\ forall S, closed P S -> below F S.
Proof.
  intros H. split; [eapply analyze_closed; eauto|].
  intros S HS. pose proof (analyze_least fuel P S HS) as HL. rewrite H in HL. exact HL.
Qed.

Theorem check_closed_pts_sound P F : check_closed P F = true -> forall os st evs, run P os (init_state P) = (st, evs) ->
  forall fr r l off, In fr (sstack st) -> fenv fr r = VPtr l off ->
    exists ob, nth_error (sheap st) l = Some ob /\ In (lab_of ob off) (fpts F (NReg (ffn fr) r)).
Proof.
  intros H os st evs Hr fr r l off Hin He.
  destruct (pts_sound P (interp F) (check_closed_sound P F H) os st evs Hr) as (A & _).
  destruct (A fr r l off Hin He) as (ob & B & C & _). exists ob; auto.
Qed.

(* C12: every call event of every execution is an edge of the derived call graph at that call site, the callee is in
   the reachable set, started roots are roots, and every function with a frame on the stack is reachable *)
Theorem cg_sound P S : closed P S -> forall os st evs, run P os (init_state P) = (st, evs) ->
  (forall cs g, In (ECall cs g) evs -> edge S cs g /\ reach S g /\ cg_reach P S g) /\
  (forall g, In (EStart g) evs -> In g (roots P)) /\
  (forall fr, In fr (sstack st) -> reach S (ffn fr) /\ cg_reach P S (ffn fr)).
Proof.
  intros HC os st evs Hr.
  destruct (run_ok P S HC os _ _ _ (init_ok P S) Hr) as (Hok & Hev & _).
  rewrite Forall_forall in Hev. split; [|split].
  - intros cs g Hin. apply (Hev _ Hin).
  - intros g Hin. apply (Hev _ Hin).
  - intros fr Hin. eapply state_ok_executed; eauto.
Qed.

(* the caller of a call event: the edge belongs to the call graph as an edge out of a function that contains the site *)
Theorem cg_edge_of_site P S f fn cs g :
  In (f, fn) (funcs P) -> calls_in fn cs -> edge S cs g -> cg_edge P S f g.
Proof. intros A B C. exists fn, cs. auto. Qed.

(* model of dataflow.ResolveCallee: static callee, else interface contract, else call-graph callees at the site, else
   implementations by type *)
Definition resolve_callee (static contract : option fname) (cg bytype : list fname) : list fname :=
  match static with
  | Some f => [f]
  | None => match contract with
            | Some c => [c]
            | None => match cg with [] => bytype | _ => cg end
            end
  end.

Theorem resolve_complete static cg bytype g :
  (forall f, static = Some f -> forall g', In g' cg -> g' = f) ->
  In g cg -> In g (resolve_callee static None cg bytype).
Proof.
  intros Hs Hin. unfold resolve_callee. destruct static as [f|].
  - left. symmetry. eapply Hs; eauto.
  - destruct cg; [contradiction|exact Hin].
Qed.

(* with a contract the single contract implementation replaces the call-graph callees: completeness is lost by design *)
Theorem resolve_contract_not_superset : exists cg g c, In g cg /\ ~ In g (resolve_callee None (Some c) cg []).
Proof. exists [1%positive], 1%positive, 2%positive. split; [left; auto|]. simpl. intros [H|[]]. discriminate. Qed.

(* ------------------------------------------------------------------------------------------ non-vacuity witness *)
Local Open Scope positive_scope.
Definition ex_main : func :=
  {| fparams := []; ffree := [];
     fblocks := [ {| binstrs := [ IAlloc 1 10 KStruct 2%nat; IAlloc 2 11 KStruct 1%nat; IFieldAddr 3 (OReg 1) 1%N;
                                  IStore (OReg 3) (OReg 2);
                                  ILoad 4 (OReg 3); IMakeClosure 5 2 [OReg 1]; ICall 6 20 (CDyn (OReg 5)) [OReg 2];
                                  IMakeIface 7 12 1 (OReg 2); ICall 8 21 (CInvoke (OReg 7) 1) [];
                                  IAlloc 9 13 (KArr 1%N) 3%nat; IIndexAddr 10 (OReg 9) 0%N; IStore (OReg 10) (OReg 6);
                                  ILoad 11 (OReg 10) ];
                     bterm := TIf 1%nat 2%nat |};
                  {| binstrs := [ ICopy 12 (OReg 4) ]; bterm := TJump 3%nat |};
                  {| binstrs := [ ICopy 13 (OReg 8) ]; bterm := TJump 3%nat |};
                  {| binstrs := [ IPhi 14 [(1%nat, OReg 12); (2%nat, OReg 13)]; ICall 15 22 (CStatic 3) [OReg 14] ];
                     bterm := TReturn OConst |} ] |}.
Definition ex_clo : func :=
  {| fparams := [1]; ffree := [2];
     fblocks := [ {| binstrs := [ IFieldAddr 3 (OReg 2) 1%N; IStore (OReg 3) (OReg 1) ]; bterm := TReturn (OReg 1) |} ] |}.
Definition ex_meth : func :=
  {| fparams := [1]; ffree := []; fblocks := [ {| binstrs := []; bterm := TReturn (OReg 1) |} ] |}.
Definition ex_prog : prog :=
  {| funcs := [(1, ex_main); (2, ex_clo); (3, ex_meth)]; globals := [(30, (KStruct, 1%nat))];
     mtable := [((1, 1), 3)]; roots := [1] |}.

Definition ex_oracle : list nat := repeat 0%nat 40%nat.

Lemma ex_analyze : exists F, analyze 30 ex_prog = Done F /\
  holdsb F (FPts (NReg 1 6) (LObj 11 0%N)) = true /\ holdsb F (FEdge 20 2) = true /\ holdsb F (FEdge 21 3) = true /\
  holdsb F (FPts (NReg 1 6) (LObj 10 0%N)) = false.
Proof. eexists. split; [vm_compute; reflexivity|]. vm_compute. auto. Qed.

Lemma ex_events : snd (run ex_prog ex_oracle (init_state ex_prog)) =
  [EStart 1; ECall 20 2; ECall 21 3; ECall 22 3].
Proof. vm_compute. reflexivity. Qed.

Lemma ex_pointer : exists fr, In fr (sstack (fst (run ex_prog (repeat 0%nat 12%nat) (init_state ex_prog)))) /\
  fenv fr 6 = VPtr 2%nat 0%N /\ fenv fr 2 = VPtr 2%nat 0%N.
Proof. eexists. split; [vm_compute; left; reflexivity|]. vm_compute. auto. Qed.
