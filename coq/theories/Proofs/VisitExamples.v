(** * Concrete graphs for the traversal model: non-vacuity witnesses and the order-dependence counterexample. *)
From Coq Require Import List PArith NArith ZArith Bool FMapPositive Lia Permutation.
From Argot Require Import Model.Visit Proofs.VisitBase Proofs.VisitInv Proofs.VisitTerm.
Import ListNotations.
Open Scope positive_scope.

Definition mk_map {A} (l : list (positive * A)) : PositiveMap.t A :=
  fold_right (fun kn m => PositiveMap.add (fst kn) (snd kn) m) (PositiveMap.empty A) l.

Definition e0 : edgeinfo := mkEdge (-1) 0 false [] [].      (* an ordinary edge: no tuple index, no relative path, no condition *)

Definition no_pfx : positive -> positive -> bool := fun _ _ => false.
Definition id_rank : positive -> positive := fun p => p.

Definition cfg0 : config := mkConfig false (-1) false false 0 false.

(** a boolean check of path-insensitivity (run on every dumped graph by the driver as well) *)
Definition edge_trivialb (e : edgeinfo) : bool := N.eqb (e_nin e) 0 || (N.eqb (e_nin e) 1 && e_ee e).

Definition check_pi (g : graph) : bool :=
  forallb (fun kn : positive * node => forallb (fun de : id * list edgeinfo => forallb edge_trivialb (snd de)) (n_out (snd kn)))
          (PositiveMap.elements (g_nodes g)).

Lemma check_pi_sound g : check_pi g = true -> path_insensitive g.
Proof.
  unfold check_pi, path_insensitive, node_of. intros H n nd dst eis e Hn Hd He.
  rewrite forallb_forall in H. apply PositiveMap.elements_correct in Hn. specialize (H _ Hn). simpl in H.
  rewrite forallb_forall in H. specialize (H _ Hd). simpl in H.
  rewrite forallb_forall in H. specialize (H _ He).
  unfold edge_trivialb in H. unfold edge_trivial.
  apply orb_true_iff in H as [H|H].
  - left. apply N.eqb_eq. exact H.
  - apply andb_true_iff in H as [H1 H2]. right. split; [apply N.eqb_eq; exact H1|exact H2].
Qed.

(** ** Example 1: a self-recursive function between a source and a sink.

      main:  x := source(); y := f(x); sink(y)          f(p) { if .. { return f(p) }; return p }

    nodes  1 call source()   2 call f(x) in main   3 its argument   4 call sink(y)   5 its argument (the sink)
           6 parameter p of f   7 return value of f   8 the recursive call f(p)   9 its argument          *)
Definition ex1_nodes : list (positive * node) :=
  [ (1, mkNode (KCall (Some 10) None 1 1 false []) 1 [(3, [e0])]);
    (2, mkNode (KCall (Some 11) (Some 2) 2 2 true [Some 3]) 1 [(5, [e0])]);
    (3, mkNode (KCallArg 2 0) 1 []);
    (4, mkNode (KCall (Some 12) None 3 3 false [Some 5]) 1 []);
    (5, mkNode (KCallArg 4 0) 1 []);
    (6, mkNode (KParam 0) 2 [(9, [e0]); (7, [e0])]);
    (7, mkNode (KReturn 0) 2 []);
    (8, mkNode (KCall (Some 11) (Some 2) 4 4 true [Some 9]) 2 [(7, [e0])]);
    (9, mkNode (KCallArg 8 0) 2 []) ].

Definition ex1_fns : list (positive * fnrec) :=
  [ (1, mkFn (Some 20) true [] [] [] []);
    (2, mkFn (Some 11) true [Some 6] [] [2; 8] []) ].

Definition ex1_g : graph := mkGraph (mk_map ex1_nodes) (mk_map ex1_fns) (PositiveMap.empty _) no_pfx id_rank (fun _ => false) (fun _ => true).

Definition ex1_P : preds := mkPreds (fun _ => false) (fun n => Pos.eqb n 5) (fun _ => false) (fun _ => false) (fun _ => false).

Definition hit_nodes (o : outcome) : list (id * list id) :=
  map (fun v => (v_node v, v_trace v)) (st_hits (outcome_state o)).

Definition is_done (o : outcome) : bool := match o with Done _ => true | _ => false end.

Example ex1_pi : path_insensitive ex1_g.
Proof. apply check_pi_sound. vm_compute. reflexivity. Qed.

Example ex1_root_wf : wf_trace ex1_g [1].
Proof.
  split.
  - simpl. constructor; [intros []|constructor].
  - constructor; [|constructor]. unfold in_dom. vm_compute. discriminate.
Qed.

(** the run terminates, reaches the sink through the recursion, and the lasso test cuts the third nested call *)
Example ex1_run :
  let o := visit ex1_g ex1_P cfg0 ord_id 1 40 [1] 0 in
  is_done o = true /\ hit_nodes o = [(5, [])] /\ length (st_visited (outcome_state o)) = 9%nat.
Proof. vm_compute. repeat split. Qed.

(** ** Example 2: the result depends on the iteration order ([order_dep_refuted]).

      main:  s := source(); F(s, v)  where v is reached from s through another node m
      F(p0, p1) { sink(p1) ; *p1 = p0 }     summary edges  p0 -> p1,  p1 -> argument of sink

    Param p1 of F in context [call F] is reached (a) from the call argument (then its outgoing edges are followed: the
    sink is reached) or (b) from p0 inside F (then [Visit] does NOT follow its outgoing edges: `cur.Prev.Node.Graph() !=
    graphNode.Graph()` fails).  Both have the same [Key()].  Which one is queued first - and therefore whether the sink
    is ever reached - is decided by the iteration order of the source's [Out()] map.

    nodes  1 call source()  2 node m (synthetic)  3 argument 0 of F  4 argument 1 of F  5 call F
           6 param p0  7 param p1  8 call sink  9 its argument (the sink)                                  *)
Definition ex2_nodes : list (positive * node) :=
  [ (1, mkNode (KCall (Some 10) None 1 1 false []) 1 [(3, [e0]); (2, [e0])]);
    (2, mkNode KSynth 1 [(4, [e0])]);
    (3, mkNode (KCallArg 5 0) 1 []);
    (4, mkNode (KCallArg 5 1) 1 []);
    (5, mkNode (KCall (Some 11) (Some 2) 2 2 true [Some 3; Some 4]) 1 []);
    (6, mkNode (KParam 0) 2 [(7, [e0])]);
    (7, mkNode (KParam 1) 2 [(9, [e0])]);
    (8, mkNode (KCall (Some 12) None 3 3 false [Some 9]) 2 []);
    (9, mkNode (KCallArg 8 0) 2 []) ].

Definition ex2_fns : list (positive * fnrec) :=
  [ (1, mkFn (Some 20) true [] [] [] []);
    (2, mkFn (Some 11) true [Some 6; Some 7] [] [5] []) ].

Definition ex2_g : graph := mkGraph (mk_map ex2_nodes) (mk_map ex2_fns) (PositiveMap.empty _) no_pfx id_rank (fun _ => false) (fun _ => true).

Definition ex2_P : preds := mkPreds (fun _ => false) (fun n => Pos.eqb n 9) (fun _ => false) (fun _ => false) (fun _ => false).

Example ex2_pi : path_insensitive ex2_g.
Proof. apply check_pi_sound. vm_compute. reflexivity. Qed.

Example ex2_runs :
  let o1 := visit ex2_g ex2_P cfg0 ord_id 1 40 [1] 0 in
  let o2 := visit ex2_g ex2_P cfg0 ord_rev 1 40 [1] 0 in
  is_done o1 = true /\ is_done o2 = true /\ hit_nodes o1 = [] /\ hit_nodes o2 = [(9, [5])].
Proof. vm_compute. repeat split. Qed.

(** The sink-hit set is NOT independent of the iteration order: same graph, same problem, same source, two permutation
    oracles, both runs complete, one reports the sink and the other does not. *)
Theorem order_dep_refuted_lemma :
  exists (g : graph) (P : preds) (cfg : config) (src : id) (t : list id) (fuel : nat) (o1 o2 : oracle),
    ord_perm o1 /\ ord_perm o2 /\ path_insensitive g /\ wf_trace g t /\
    is_done (visit g P cfg o1 src fuel t 0) = true /\ is_done (visit g P cfg o2 src fuel t 0) = true /\
    hit_nodes (visit g P cfg o1 src fuel t 0) = [] /\ hit_nodes (visit g P cfg o2 src fuel t 0) <> [].
Proof.
  exists ex2_g, ex2_P, cfg0, 1, [1], 40%nat, ord_id, ord_rev.
  split; [apply ord_id_perm|]. split; [apply ord_rev_perm|]. split; [apply ex2_pi|].
  split.
  { split.
    - simpl. constructor; [intros []|constructor].
    - constructor; [|constructor]. unfold in_dom. vm_compute. discriminate. }
  vm_compute. repeat split. discriminate.
Qed.

(** ** Example 3: the field-sensitive divergence (finding F3, C07).

      x := source(); for .. { x = id(x) }; sink(x.A)          (struct with fields A, B; field-sensitive: true)

    The edges into the argument of [id] carry the relative paths {.A -> .A, "" -> "", .B -> .B}: [addNext] appends one out
    path per (matching in path, current access path) pair, so the access-path LIST grows on every turn of the loop
    ([""], 3, 5, 7, ... entries) and, being part of the key, never repeats.  Paths: 1 = "", 2 = ".A", 3 = ".B".

    nodes  1 call source()  2 call id(x)  3 its argument  4 call sink  5 its argument (the sink)  6 param of id  7 return of id *)
Definition eABC : edgeinfo := mkEdge 0 3 true [] [(2, 2); (1, 1); (3, 3)].
Definition eSnk : edgeinfo := mkEdge 0 2 true [] [(2, 1); (1, 1)].
Definition eTriv : edgeinfo := mkEdge (-1) 1 true [] [(1, 1)].

Definition ex3_nodes : list (positive * node) :=
  [ (1, mkNode (KCall (Some 10) None 1 1 false []) 1 [(3, [eABC]); (5, [eSnk])]);
    (2, mkNode (KCall (Some 11) (Some 2) 2 2 true [Some 3]) 1 [(3, [eABC]); (5, [eSnk])]);
    (3, mkNode (KCallArg 2 0) 1 [(5, [eTriv])]);
    (4, mkNode (KCall (Some 12) None 3 3 false [Some 5]) 1 []);
    (5, mkNode (KCallArg 4 0) 1 []);
    (6, mkNode (KParam 0) 2 [(7, [e0])]);
    (7, mkNode (KReturn 0) 2 []) ].

Definition ex3_fns : list (positive * fnrec) :=
  [ (1, mkFn (Some 20) true [] [] [] []);
    (2, mkFn (Some 11) true [Some 6] [] [2] []) ].

Definition ex3_pfx (a b : positive) : bool :=
  Pos.eqb b 1 || Pos.eqb a b.        (* every path has prefix "", and itself *)

Definition ex3_g : graph := mkGraph (mk_map ex3_nodes) (mk_map ex3_fns) (PositiveMap.empty _) ex3_pfx id_rank (fun _ => false) (fun _ => true).

Definition ex3_P : preds := mkPreds (fun _ => false) (fun n => Pos.eqb n 5) (fun _ => false) (fun _ => false) (fun _ => false).

Definition cfg_fixed : config := mkConfig false (-1) false false 0 true.

Definition max_aps (o : outcome) : nat := fold_right (fun v m => Nat.max (length (v_aps v)) m) 0%nat (st_visited (outcome_state o)).

Definition is_out_of_fuel (o : outcome) : bool := match o with OutOfFuel _ => true | _ => false end.

(** faithful model: after 300 iterations the queue is still not empty and access-path lists of > 100 entries (over 3
    distinct paths) are being visited; repaired model ([c_fixaps]: deduplicated + sorted): done after 7 visits, same hit *)
Example f3_diverges_bounded :
  let o := visit ex3_g ex3_P cfg0 ord_id 1 300 [1] 0 in
  let o' := visit ex3_g ex3_P cfg_fixed ord_id 1 300 [1] 0 in
  is_out_of_fuel o = true /\ Nat.leb 100 (max_aps o) = true /\
  is_done o' = true /\ Nat.leb (max_aps o') 3 = true /\ map fst (hit_nodes o') = [5] /\ existsb (fun h => Pos.eqb (fst h) 5) (hit_nodes o) = true.
Proof. vm_compute. repeat split. Qed.
