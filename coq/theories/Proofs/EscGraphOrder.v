(** * C15 — the ordering [LessEqual], the equivalence [Matches], the invariant, antisymmetry *)
From stdpp Require Import gmap.
From Coq Require Import Lia.
From Argot Require Import Model.EscGraph Proofs.EscGraphClosure.

(** ** flags *)
Lemma f_bits_has f x : In x (f_bits f) <-> f_has f x = true.
Proof. destruct f as [[] [] []], x; cbn; intuition congruence. Qed.

Lemma flags_ext f1 f2 : (forall x, f_has f1 x = true <-> f_has f2 x = true) -> f1 = f2.
Proof.
  intros H. pose proof (H BInt) as Hi. pose proof (H BExt) as He. pose proof (H BSub) as Hs.
  destruct f1 as [[] [] []], f2 as [[] [] []]; cbn in *; try reflexivity; intuition congruence.
Qed.

Lemma f_nonempty_has f : f_is_none f = false -> exists x, f_has f x = true.
Proof.
  destruct f as [[] [] []]; cbn; intros H; try discriminate;
    first [now exists BInt | now exists BExt | now exists BSub].
Qed.

Lemma f_none_has x : f_has f_none x = false.
Proof. now destruct x. Qed.

Lemma f_eqb_eq f1 f2 : f_eqb f1 f2 = true <-> f1 = f2.
Proof. destruct f1 as [[] [] []], f2 as [[] [] []]; cbv; split; congruence. Qed.

Lemma f_has_or f1 f2 x : f_has (f_or f1 f2) x = f_has f1 x || f_has f2 x.
Proof. now destruct x. Qed.

Lemma f_has_bit x y : f_has (f_bit x) y = true <-> x = y.
Proof. destruct x, y; cbn; split; congruence. Qed.

Lemma f_or_not_none f1 f2 : f_is_none f2 = false -> f_is_none (f_or f1 f2) = false.
Proof. destruct f1 as [[] [] []], f2 as [[] [] []]; cbv; congruence. Qed.

Lemma f_bit_not_none x : f_is_none (f_bit x) = false.
Proof. now destruct x. Qed.

(** ** boolean equality of finite maps as computed by [reflect.DeepEqual] *)
Lemma gmap_eqb_spec {A} (eqb : A -> A -> bool) (Heqb : forall x y, eqb x y = true <-> x = y) (m1 m2 : gmap node A) :
  bool_decide (dom m1 = dom m2) = true /\
  forallb (fun kv => match m2 !! fst kv with Some y => eqb (snd kv) y | None => false end) (map_to_list m1) = true
  <-> m1 = m2.
Proof.
  rewrite bool_decide_eq_true, forallb_forall. split.
  - intros [Hdom Hall]. apply map_eq. intros n.
    destruct (m1 !! n) as [x|] eqn:E1.
    + specialize (Hall (n, x)). simpl in Hall.
      destruct (m2 !! n) as [y|] eqn:E2.
      * f_equal. apply Heqb, Hall. apply elem_of_list_In, elem_of_map_to_list. exact E1.
      * assert (false = true); [|discriminate]. apply Hall. apply elem_of_list_In, elem_of_map_to_list. exact E1.
    + symmetry. apply not_elem_of_dom. rewrite <- Hdom. now apply not_elem_of_dom.
  - intros ->. split; [reflexivity|]. intros [n x] Hin. simpl.
    apply elem_of_list_In, elem_of_map_to_list in Hin. rewrite Hin. now apply Heqb.
Qed.

Lemma graph_eq (g h : graph) : g = h <-> status g = status h /\ edges g = edges h.
Proof. destruct g, h; simpl; split; [intros H; inversion H; auto|intros [-> ->]; reflexivity]. Qed.

Section Order.
  Context (intr : node -> estatus) (ord : list node -> list node) (ord_perm : forall l, ord l ≡ₚ l).

  Definition hasb (g : graph) (a b : node) (x : bit) : Prop := has_bit g a b x = true.

  (** [g ⊑ h]: the relation [LessEqual] decides *)
  Definition le_g (g h : graph) : Prop :=
    (forall a b x, hasb g a b x -> hasb h a b x) /\
    (forall n s, status g !! n = Some s -> exists s', status h !! n = Some s' /\ sle s s').

  Lemma le_g_refl g : le_g g g.
  Proof. split; [auto|]. intros n s H. exists s. split; [assumption|apply sle_refl]. Qed.

  Lemma le_g_trans g h k : le_g g h -> le_g h k -> le_g g k.
  Proof.
    intros [E1 S1] [E2 S2]. split; [auto|]. intros n s H.
    destruct (S1 _ _ H) as (s1 & H1 & L1). destruct (S2 _ _ H1) as (s2 & H2 & L2).
    exists s2. split; [assumption|]. eapply sle_trans; eassumption.
  Qed.

  Lemma hasb_succ g a d x : hasb g a d x -> succ (edges g) a d.
  Proof.
    unfold hasb, has_bit, succ, out_edges. destruct (default ∅ (edges g !! a) !! d) as [f|]; [eauto|].
    simpl. rewrite f_none_has. discriminate.
  Qed.

  Lemma hasb_entry g a d x : hasb g a d x <-> exists f, out_edges g a !! d = Some f /\ f_has f x = true.
  Proof.
    unfold hasb, has_bit. destruct (out_edges g a !! d) as [f|]; simpl.
    - split; [eauto|]. now intros (f' & [= <-] & H).
    - rewrite f_none_has. split; [discriminate|]. now intros (f' & [=] & _).
  Qed.

  Lemma out_edges_lookup g a m : edges g !! a = Some m -> out_edges g a = m.
  Proof. unfold out_edges. now intros ->. Qed.

  Lemma out_edges_none g a : edges g !! a = None -> out_edges g a = ∅.
  Proof. unfold out_edges. now intros ->. Qed.

  (** membership in the enumerations of atomic edges *)
  Lemma in_atomic_out g a d x : In (d, x) (atomic_out ord g a) <-> hasb g a d x.
  Proof.
    unfold atomic_out. rewrite in_flat_map. split.
    - intros (d' & _ & Hin). apply in_map_iff in Hin as (b & [= <- <-] & Hb).
      apply f_bits_has in Hb. exact Hb.
    - intros H. exists d. split.
      + apply elem_of_list_In, elem_of_succs_of; [assumption|]. eapply hasb_succ; eassumption.
      + apply in_map_iff. exists x. split; [reflexivity|]. now apply f_bits_has.
  Qed.

  Lemma in_atomic_edges g a d x : In (a, d, x) (atomic_edges ord g) <-> hasb g a d x.
  Proof.
    unfold atomic_edges. rewrite in_flat_map. split.
    - intros (a' & _ & Hin). apply in_map_iff in Hin as ([d' x'] & [= <- <- <-] & Hb).
      now apply in_atomic_out in Hb.
    - intros H. exists a. split.
      + apply elem_of_list_In. rewrite ord_perm, map_fmap, elem_of_list_fmap.
        pose proof (hasb_succ _ _ _ _ H) as [f Hf]. unfold succ in Hf.
        destruct (edges g !! a) as [m|] eqn:Ea; [|simpl in Hf; now rewrite lookup_empty in Hf].
        exists (a, m). split; [reflexivity|]. now apply elem_of_map_to_list.
      + apply in_map_iff. exists (d, x). split; [reflexivity|]. now apply in_atomic_out.
  Qed.

  (** ** [LessEqual] decides [le_g] *)
  Lemma less_equal_spec g h : less_equal ord g h = true <-> le_g g h.
  Proof.
    unfold less_equal, le_g. rewrite andb_true_iff, !forallb_forall. split.
    - intros [HE HS]. split.
      + intros a b x H. apply in_atomic_edges in H. apply (HE _ H).
      + intros n s H. specialize (HS (n, s)). simpl in HS.
        destruct (status h !! n) as [hs|].
        * exists hs. split; [reflexivity|]. apply HS. now apply elem_of_list_In, elem_of_map_to_list.
        * assert (false = true); [|discriminate]. apply HS. now apply elem_of_list_In, elem_of_map_to_list.
    - intros [HE HS]. split.
      + intros [[a b] x] H. simpl. apply in_atomic_edges in H. now apply HE.
      + intros [n s] H. simpl. apply elem_of_list_In, elem_of_map_to_list in H.
        destruct (HS _ _ H) as (s' & -> & L). exact L.
  Qed.

  (** ** [Matches] decides equality of the two maps *)
  Lemma flags_map_eqb_eq (m1 m2 : gmap node flags) : flags_map_eqb m1 m2 = true <-> m1 = m2.
  Proof. unfold flags_map_eqb. rewrite andb_true_iff. apply gmap_eqb_spec, f_eqb_eq. Qed.

  Lemma matches_spec g h : matches g h = true <-> g = h.
  Proof.
    unfold matches. rewrite graph_eq, !andb_true_iff.
    rewrite <- (gmap_eqb_spec st_eqb st_eqb_eq (status g) (status h)).
    rewrite <- (gmap_eqb_spec flags_map_eqb flags_map_eqb_eq (edges g) (edges h)).
    tauto.
  Qed.

  (** ** The invariant *)
  Record wf (g : graph) : Prop := mkWf {
    wf_dom : dom (edges g) = dom (status g);
    wf_ends : forall a b f, out_edges g a !! b = Some f -> is_Some (status g !! b) /\ f_is_none f = false;
    wf_intr : forall n s, status g !! n = Some s -> sle (intr n) s }.

  Definition closed (g : graph) : Prop := closedf (edges g) (sigma (status g)).
  Definition Inv (g : graph) : Prop := wf g /\ closed g.

  Lemma wf_src g a b f : wf g -> out_edges g a !! b = Some f -> is_Some (status g !! a).
  Proof.
    intros W H. apply elem_of_dom. rewrite <- (wf_dom _ W). apply elem_of_dom.
    unfold out_edges in H. destruct (edges g !! a); [eauto|]. simpl in H. now rewrite lookup_empty in H.
  Qed.

  Lemma sigma_lookup (st : gmap node estatus) n s : st !! n = Some s -> sigma st n = s.
  Proof. unfold sigma. now intros ->. Qed.

  (** on well-formed graphs the order is antisymmetric: two graphs below each other are equal ([Matches]) *)
  Lemma le_g_antisym g h : wf g -> wf h -> le_g g h -> le_g h g -> g = h.
  Proof.
    intros Wg Wh [E1 S1] [E2 S2].
    assert (Hst : status g = status h).
    { apply map_eq. intros n.
      destruct (status g !! n) as [s|] eqn:Eg, (status h !! n) as [s'|] eqn:Eh.
      - destruct (S1 _ _ Eg) as (t & Ht & L1). destruct (S2 _ _ Eh) as (t' & Ht' & L2).
        rewrite Eh in Ht. rewrite Eg in Ht'. injection Ht as <-. injection Ht' as <-.
        f_equal. now apply sle_antisym.
      - destruct (S1 _ _ Eg) as (t & Ht & _). congruence.
      - destruct (S2 _ _ Eh) as (t & Ht & _). congruence.
      - reflexivity. }
    apply graph_eq. split; [assumption|].
    assert (Hdom : dom (edges g) = dom (edges h)).
    { rewrite (wf_dom _ Wg), (wf_dom _ Wh), Hst. reflexivity. }
    assert (Hhalf : forall g h, wf g -> (forall a b x, hasb g a b x -> hasb h a b x) ->
              forall a b f, out_edges g a !! b = Some f -> exists f', out_edges h a !! b = Some f').
    { intros g0 h0 W0 E a b f Hf. destruct (wf_ends _ W0 _ _ _ Hf) as [_ Hne].
      destruct (f_nonempty_has _ Hne) as [x Hx].
      assert (Hb : hasb g0 a b x) by (apply hasb_entry; eauto).
      apply E, hasb_entry in Hb as (f' & Hf' & _). eauto. }
    assert (Hout : forall a, out_edges g a = out_edges h a).
    { intros a. apply map_eq. intros b.
      destruct (out_edges g a !! b) as [f1|] eqn:F1, (out_edges h a !! b) as [f2|] eqn:F2.
      - f_equal. apply flags_ext. intros x. split; intros Hx.
        + assert (Hb : hasb g a b x) by (apply hasb_entry; eauto).
          apply E1, hasb_entry in Hb as (f' & Hf' & Hx'). congruence.
        + assert (Hb : hasb h a b x) by (apply hasb_entry; eauto).
          apply E2, hasb_entry in Hb as (f' & Hf' & Hx'). congruence.
      - destruct (Hhalf g h Wg E1 _ _ _ F1) as [f' Hf']. congruence.
      - destruct (Hhalf h g Wh E2 _ _ _ F2) as [f' Hf']. congruence.
      - reflexivity. }
    apply map_eq. intros a. specialize (Hout a). unfold out_edges in Hout.
    destruct (edges g !! a) as [m1|] eqn:A1, (edges h !! a) as [m2|] eqn:A2; simpl in Hout.
    - now f_equal.
    - exfalso. apply (not_elem_of_dom (D := gset node)) in A2. apply A2. rewrite <- Hdom. apply elem_of_dom. eauto.
    - exfalso. apply (not_elem_of_dom (D := gset node)) in A1. apply A1. rewrite Hdom. apply elem_of_dom. eauto.
    - reflexivity.
  Qed.
End Order.
