(** * Proofs/RW — generic facts about the coverage check of Model/RW.v (all tables) *)
From Coq Require Import List String Bool.
From Argot Require Import Model.RW.
Import ListNotations.
Open Scope string_scope.

Lemma pos_eqb_eq : forall a b, pos_eqb a b = true <-> a = b.
Proof.
  intros [a1 a2] [b1 b2]; unfold pos_eqb; simpl. rewrite andb_true_iff, !String.eqb_eq.
  split; [intros [-> ->]; reflexivity | intros H; inversion H; auto].
Qed.

Lemma covered_In : forall l p, covered l p = true <-> In p l.
Proof.
  intros l p; unfold covered. rewrite existsb_exists. split.
  - intros (x & Hx & E). apply pos_eqb_eq in E. subst; auto.
  - intros H. exists p; split; auto. apply pos_eqb_eq; reflexivity.
Qed.

(** what a gap is *)
Lemma gaps_spec : forall must schema scan t f,
  In (t, f) (gaps must schema scan) <-> exists role, In (t, f, role) schema /\ must role = true /\ ~ In (t, f) scan.
Proof.
  intros must schema scan t f; unfold gaps. rewrite in_map_iff. split.
  - intros ([[t' f'] role] & E & H). simpl in E. inversion E; subst. apply filter_In in H. destruct H as [H1 H2].
    simpl in H2. apply andb_true_iff in H2. destruct H2 as [H2 H3]. exists role. repeat split; auto.
    intros C. apply covered_In in C. rewrite C in H3. discriminate.
  - intros (role & H1 & H2 & H3). exists (t, f, role). split; auto. apply filter_In. split; auto. simpl.
    rewrite H2. simpl. destruct (covered scan (t, f)) eqn:E; auto. apply covered_In in E. contradiction.
Qed.

(** the full statement says: every operand position that must be covered is listed by the scan *)
Lemma rw_cover_spec : forall schema reads writes,
  rw_cover schema reads writes <->
  (forall t f role, In (t, f, role) schema -> must_read role = true -> In (t, f) reads) /\
  (forall t f role, In (t, f, role) schema -> must_write role = true -> In (t, f) writes).
Proof.
  intros schema reads writes; unfold rw_cover, read_gaps, write_gaps. split.
  - intros [Hr Hw]. split; intros t f role Hin Hm.
    + destruct (covered reads (t, f)) eqn:E; [apply covered_In; auto|].
      assert (G : In (t, f) (gaps must_read schema reads)).
      { apply gaps_spec. exists role. repeat split; auto. intros C. apply covered_In in C. congruence. }
      rewrite Hr in G. destruct G.
    + destruct (covered writes (t, f)) eqn:E; [apply covered_In; auto|].
      assert (G : In (t, f) (gaps must_write schema writes)).
      { apply gaps_spec. exists role. repeat split; auto. intros C. apply covered_In in C. congruence. }
      rewrite Hw in G. destruct G.
  - intros [Hr Hw]. split.
    + destruct (gaps must_read schema reads) as [|[t f] l] eqn:E; auto.
      assert (G : In (t, f) (gaps must_read schema reads)) by (rewrite E; left; auto).
      apply gaps_spec in G. destruct G as (role & H1 & H2 & H3). exfalso; apply H3. eapply Hr; eauto.
    + destruct (gaps must_write schema writes) as [|[t f] l] eqn:E; auto.
      assert (G : In (t, f) (gaps must_write schema writes)) by (rewrite E; left; auto).
      apply gaps_spec in G. destruct G as (role & H1 & H2 & H3). exfalso; apply H3. eapply Hw; eauto.
Qed.

(** the weakened statement: every operand position that must be covered is listed by the scan or is a known gap *)
Lemma rw_cover_except_spec : forall known schema reads writes,
  rw_cover_except known schema reads writes = true <->
  (forall t f role, In (t, f, role) schema -> must_read role = true -> In (t, f) reads \/ In (t, f) known) /\
  (forall t f role, In (t, f, role) schema -> must_write role = true -> In (t, f) writes \/ In (t, f) known).
Proof.
  intros known schema reads writes; unfold rw_cover_except, read_gaps, write_gaps.
  rewrite andb_true_iff, !forallb_forall. split.
  - intros [Hr Hw]. split; intros t f role Hin Hm.
    + destruct (covered reads (t, f)) eqn:E; [left; apply covered_In; auto|]. right. apply covered_In. apply Hr.
      apply gaps_spec. exists role. repeat split; auto. intros C. apply covered_In in C. congruence.
    + destruct (covered writes (t, f)) eqn:E; [left; apply covered_In; auto|]. right. apply covered_In. apply Hw.
      apply gaps_spec. exists role. repeat split; auto. intros C. apply covered_In in C. congruence.
  - intros [Hr Hw]. split; intros [t f] G; apply gaps_spec in G; destruct G as (role & H1 & H2 & H3); apply covered_In.
    + destruct (Hr t f role H1 H2); [contradiction | auto].
    + destruct (Hw t f role H1 H2); [contradiction | auto].
Qed.

Lemma rw_cover_except_nil : forall schema reads writes,
  rw_cover_except [] schema reads writes = true <-> rw_cover schema reads writes.
Proof.
  intros. rewrite rw_cover_except_spec, rw_cover_spec. split; intros [A B]; split; intros t f role H1 H2.
  - destruct (A t f role H1 H2) as [|[]]; auto.
  - destruct (B t f role H1 H2) as [|[]]; auto.
  - left; eauto.
  - left; eauto.
Qed.
