(** * Stop conditions and the alarm limit of the traversal model.

    [sanitizer_stop_exact]  a dequeued visitor node is not expanded iff its node is filtered, or a sink reached in default
                            tracing, or a sanitizer, or belongs to an unconstructed summary that the configuration ignores;
                            pruning happens only there (C02, C01).
    [alarm_limit]           with max-alarms = k > 0 the sink visits recorded are exactly the first sink visits of the
                            unlimited run, there are at most k - a0 of them (a0 = counter at the start), and there is at
                            least one whenever the unlimited run has one (C05).  The counter counts sink VISITS (a visitor
                            node whose node is a sink), as [IncrementAndTestAlarms] does, not distinct (source, sink) pairs. *)
From Coq Require Import List PArith NArith ZArith Bool FMapPositive Lia Permutation.
From Argot Require Import Model.Visit Proofs.VisitBase.
Import ListNotations.

Set Default Proof Using "Type".

Local Opaque lt_mem lt_add.

Section Stop.
  Variable g : graph.
  Variable P : preds.
  Variable cfg : config.

  Definition unconstructed_ignored (v : vnode) : Prop :=
    exists n fr, node_of g (v_node v) = Some n /\ fn_of g (n_fn n) = Some fr /\ f_constructed fr = false /\ c_ignore_ns cfg = true.

  Definition stop_spec (v : vnode) (r : stop_reason) : Prop :=
    match r with
    | StFiltered => p_filtered P (v_node v) = true
    | StSink => p_filtered P (v_node v) = false /\ p_sink P (v_node v) = true /\ v_kind v = false
    | StSanitizer => p_filtered P (v_node v) = false /\ (p_sink P (v_node v) && negb (v_kind v)) = false /\
                     p_sanitizer P (v_node v) = true
    | StUnconstructed => p_filtered P (v_node v) = false /\ (p_sink P (v_node v) && negb (v_kind v)) = false /\
                         p_sanitizer P (v_node v) = false /\ unconstructed_ignored v
    end.

  (** the node is pruned for reason [r] exactly when [r]'s condition holds (the conditions are tested in this order) *)
  Theorem sanitizer_stop_exact_lemma v r : stop_of g P cfg v = Ok (Some r) <-> stop_spec v r.
  Proof.
    unfold stop_of, stop_spec, unconstructed_ignored, constructed.
    destruct (p_filtered P (v_node v)) eqn:Ef, (p_sink P (v_node v)) eqn:Es, (v_kind v) eqn:Ek,
             (p_sanitizer P (v_node v)) eqn:Ea; simpl;
      (destruct (node_of g (v_node v)) as [n|] eqn:En;
       [destruct (fn_of g (n_fn n)) as [fr|] eqn:Efn; simpl;
        [destruct (f_constructed fr) eqn:Ec, (c_ignore_ns cfg) eqn:Ei; simpl|]|]);
      destruct r; (split; intros H;
        [ try discriminate H; repeat split; auto; try (exists n, fr; repeat split; auto)
        | try reflexivity;
          repeat match goal with
                 | H : _ /\ _ |- _ => destruct H
                 | H : exists _, _ |- _ => destruct H
                 end; try congruence ]).
  Qed.

  (** a pruned node has no successors; a node that is not pruned gets exactly the successors of [expand] + [make_next] *)
  Lemma step_cands_pruned ord src s v r l : step_cands g P cfg ord src s v = Ok (Some r, l) -> stop_of g P cfg v = Ok (Some r) /\ l = [].
  Proof.
    unfold step_cands. intros H. apply bind_ok in H as (so & Hs & H). destruct so as [r'|].
    - injection H as <- <-. auto.
    - apply bind_ok in H as (? & _ & H). apply bind_ok in H as (? & _ & H). discriminate.
  Qed.

  Lemma step_cands_expanded ord src s v l :
    step_cands g P cfg ord src s v = Ok (None, l) ->
    stop_of g P cfg v = Ok None /\ exists cds, expand g cfg ord src s v = Ok cds /\ make_all g P cfg ord s 16 v cds = Ok l.
  Proof.
    unfold step_cands. intros H. apply bind_ok in H as (so & Hs & H). destruct so as [r'|].
    - discriminate.
    - apply bind_ok in H as (cds & He & H). apply bind_ok in H as (l' & Hm & H). injection H as <-. eauto.
  Qed.
End Stop.

(** ** The alarm limit *)

Definition with_alarms (cfg : config) (k : N) : config :=
  mkConfig (c_ignore_ns cfg) (c_maxdepth cfg) (c_skip_bl cfg) (c_implicit cfg) k (c_fixaps cfg).

Section Alarm.
  Variable g : graph.
  Variable P : preds.
  Variable cfg : config.
  Variable ord : oracle.
  Variable src : id.

  (** nothing but the loop itself looks at max-alarms *)
  Lemma stop_of_alarms k v : stop_of g P (with_alarms cfg k) v = stop_of g P cfg v.
  Proof. reflexivity. Qed.
  Lemma expand_alarms k s v : expand g (with_alarms cfg k) ord src s v = expand g cfg ord src s v.
  Proof. reflexivity. Qed.
  Lemma add_all_alarms k : forall cds s j v q seen,
    add_all g P (with_alarms cfg k) ord s j v cds q seen = add_all g P cfg ord s j v cds q seen.
  Proof. reflexivity. Qed.

  Definition hits_suffix (a b : list vnode) : Prop := exists p, b = p ++ a.

  (** the unlimited run never stops on the counter *)
  Lemma unlimited_no_alarmstop : forall fuel st st', loop g P (with_alarms cfg 0) ord src fuel st <> AlarmStop st'.
  Proof.
    induction fuel as [|fuel IH]; intros st st'; simpl; [discriminate|].
    destruct (st_queue st) as [|cur q]; [discriminate|].
    rewrite stop_of_alarms.
    destruct (stop_of g P cfg cur) as [[r|]|c]; [| |discriminate].
    - destruct r; apply IH.
    - rewrite expand_alarms. destruct (expand g cfg ord src (st_step st) cur); [|discriminate].
      rewrite add_all_alarms. destruct (add_all _ _ _ _ _ _ _ _ _ _) as [[q' seen']|]; [apply IH|discriminate].
  Qed.

  (** the sink visits recorded so far are never dropped *)
  Lemma loop_hits_extend cfg' : forall fuel st stu,
    loop g P cfg' ord src fuel st = Done stu -> hits_suffix (st_hits st) (st_hits stu).
  Proof.
    induction fuel as [|fuel IHf]; intros st stu H; simpl in H; [discriminate|].
    destruct (st_queue st) as [|c1 q1]; [injection H as <-; exists []; reflexivity|].
    destruct (stop_of g P cfg' c1) as [[r|]|c]; [| |discriminate].
    - destruct r; try (apply IHf in H; simpl in H; exact H).
      destruct (_ && _); [discriminate|].
      apply IHf in H. simpl in H. destruct H as [p ->]. exists (p ++ [c1]). rewrite <- app_assoc. reflexivity.
    - destruct (expand g cfg' ord src (st_step st) c1); [|discriminate].
      destruct (add_all _ _ _ _ _ _ _ _ _ _) as [[q' seen']|]; [|discriminate].
      apply IHf in H. exact H.
  Qed.

  (** lock-step lemma: the limited run is the unlimited one, cut at the visit where the counter reaches k *)
  Lemma loop_limit k : (0 < k)%N -> forall fuel st stu,
    loop g P (with_alarms cfg 0) ord src fuel st = Done stu ->
    (st_alarms st < k)%N ->
    exists stk,
      (loop g P (with_alarms cfg k) ord src fuel st = Done stk \/ loop g P (with_alarms cfg k) ord src fuel st = AlarmStop stk) /\
      hits_suffix (st_hits st) (st_hits stk) /\ hits_suffix (st_hits stk) (st_hits stu) /\
      (N.of_nat (length (st_hits stk)) - N.of_nat (length (st_hits st)) <= k - st_alarms st)%N /\
      (length (st_hits st) < length (st_hits stu) -> length (st_hits st) < length (st_hits stk)).
  Proof.
    intros Hk. induction fuel as [|fuel IH]; intros st stu H Hal; simpl in *; [discriminate|].
    destruct (st_queue st) as [|cur q] eqn:Eq.
    - injection H as <-. exists st. split; [left; reflexivity|].
      split; [exists []; reflexivity|]. split; [exists []; reflexivity|]. split; [lia|lia].
    - rewrite stop_of_alarms in *.
      destruct (stop_of g P cfg cur) as [[r|]|c] eqn:Es; [| |discriminate].
      + destruct r.
        * destruct (IH _ _ H Hal) as (stk & Hl & H1 & H2 & H3 & H4). exists stk. simpl in *. auto.
        * simpl in H.
          set (st1 := mkState q (st_seen st) (cur :: st_hits st) (N.succ (st_alarms st)) (cur :: st_visited st) (N.succ (st_step st))) in *.
          destruct (N.ltb (N.succ (st_alarms st)) k) eqn:Elt; simpl.
          -- apply N.ltb_lt in Elt.
             rewrite andb_false_r.
             destruct (IH st1 stu H) as (stk & Hl & H1 & H2 & H3 & H4); [exact Elt|].
             exists stk. split; [exact Hl|]. simpl in *.
             split; [destruct H1 as [p ->]; exists (p ++ [cur]); rewrite <- app_assoc; reflexivity|].
             split; [exact H2|]. split; [lia|]. intros _. destruct H1 as [p ->]. rewrite app_length. simpl. lia.
          -- rewrite andb_true_r. rewrite (proj2 (N.ltb_lt 0 k) Hk).
             exists st1. split; [right; reflexivity|].
             assert (N.of_nat (length (st_hits st1)) = N.succ (N.of_nat (length (st_hits st)))) as Hlen
               by (unfold st1; cbn [st_hits length]; apply Nat2N.inj_succ).
             split; [exists [cur]; reflexivity|].
             split; [apply (loop_hits_extend _ _ _ _ H)|].
             split; [apply N.ltb_ge in Elt; rewrite Hlen; lia|].
             intros _. unfold st1; cbn [st_hits length]. lia.
        * destruct (IH _ _ H Hal) as (stk & Hl & H1 & H2 & H3 & H4). exists stk. simpl in *. auto.
        * destruct (IH _ _ H Hal) as (stk & Hl & H1 & H2 & H3 & H4). exists stk. simpl in *. auto.
      + rewrite expand_alarms in *. destruct (expand g cfg ord src (st_step st) cur) as [cds|]; [|discriminate].
        rewrite add_all_alarms in *. destruct (add_all _ _ _ _ _ _ _ _ _ _) as [[q' seen']|]; [|discriminate].
        destruct (IH _ _ H Hal) as (stk & Hl & H1 & H2 & H3 & H4). exists stk. simpl in *. auto.
  Qed.

  (** [alarm_limit] for one [Visit]: [a0] is the value of the shared counter when the visit starts (a0 < k, otherwise the
      entry point is skipped by the driver loop). *)
  Theorem alarm_limit_lemma (k a0 : N) (fuel : nat) (t : list id) (stu : state) :
    (0 < k)%N -> (a0 < k)%N ->
    visit g P (with_alarms cfg 0) ord src fuel t a0 = Done stu ->
    exists stk,
      (visit g P (with_alarms cfg k) ord src fuel t a0 = Done stk \/ visit g P (with_alarms cfg k) ord src fuel t a0 = AlarmStop stk) /\
      (exists later, st_hits stu = later ++ st_hits stk) /\
      (N.of_nat (length (st_hits stk)) <= k - a0)%N /\
      (st_hits stu <> [] -> st_hits stk <> []).
  Proof.
    intros Hk Ha H. unfold visit in *.
    destruct (loop_limit k Hk fuel _ _ H Ha) as (stk & Hl & _ & H2 & H3 & H4). simpl in *.
    exists stk. split; [exact Hl|]. split; [exact H2|]. split; [lia|].
    intros Hne. destruct (st_hits stu) eqn:E; [congruence|]. simpl in H4.
    specialize (H4 ltac:(lia)). destruct (st_hits stk); [simpl in H4; lia|discriminate].
  Qed.
End Alarm.
