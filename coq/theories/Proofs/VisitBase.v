(** * Base lemmas for the traversal kernel [Model/Visit.v]: the [seen] trie, injectivity of the key, candidates of [expand]. *)
From Coq Require Import List PArith NArith ZArith Bool FMapPositive Lia Permutation.
From Argot Require Import Model.Visit.
Import ListNotations.

Set Default Proof Using "Type".

(** ** The trie implements a set of key lists *)

Lemma lt_mem_empty k : lt_mem k lt_empty = false.
Proof. destruct k; simpl; auto. rewrite PositiveMap.gempty. reflexivity. Qed.

Definition key_eq_dec : forall a b : list positive, {a = b} + {a <> b} := list_eq_dec Pos.eq_dec.

Ltac kdec := repeat match goal with
  | |- context [key_eq_dec ?a ?b] => destruct (key_eq_dec a b)
  end; try congruence; try reflexivity.

Lemma lt_mem_add : forall k' k t,
  lt_mem k (lt_add k' t) = if key_eq_dec k k' then true else lt_mem k t.
Proof.
  induction k' as [|y k' IH]; intros k t; destruct t as [h m].
  - simpl. destruct k; simpl; kdec.
  - simpl. destruct k as [|x k]; simpl.
    + kdec.
    + destruct (Pos.eq_dec x y) as [E|Hne].
      * subst x. rewrite PositiveMap.gss. rewrite IH.
        destruct (key_eq_dec k k') as [E|Hk].
        -- subst k. kdec.
        -- destruct (key_eq_dec (y :: k) (y :: k')) as [E|_]; [congruence|].
           destruct (PositiveMap.find y m); [reflexivity|apply lt_mem_empty].
      * rewrite PositiveMap.gso by auto.
        destruct (key_eq_dec (x :: k) (y :: k')) as [E|_]; [congruence|reflexivity].
Qed.

Lemma lt_mem_add_same k t : lt_mem k (lt_add k t) = true.
Proof. rewrite lt_mem_add. destruct (key_eq_dec k k); congruence. Qed.

Lemma lt_mem_add_other k k' t : k <> k' -> lt_mem k (lt_add k' t) = lt_mem k t.
Proof. intros. rewrite lt_mem_add. destruct (key_eq_dec k k'); congruence. Qed.

(** a ghost list [S] represents the trie *)
Definition represents (S : list (list positive)) (t : ltrie) : Prop :=
  forall k, lt_mem k t = true <-> In k S.

Lemma represents_empty : represents [] lt_empty.
Proof. intro k. rewrite lt_mem_empty. simpl. split; [discriminate|tauto]. Qed.

Lemma represents_add S t k : represents S t -> represents (k :: S) (lt_add k t).
Proof.
  intros H k0. rewrite lt_mem_add. destruct (key_eq_dec k0 k) as [->|Hne]; simpl.
  - tauto.
  - specialize (H k0). split.
    + intro M. right. apply H. exact M.
    + intros [E|E]; [congruence|apply H; exact E].
Qed.

(** ** The key is injective *)

Lemma app_inj_length {A} (a a' b b' : list A) : length a = length a' -> a ++ b = a' ++ b' -> a = a' /\ b = b'.
Proof.
  revert a'. induction a as [|x a IH]; destruct a' as [|x' a']; simpl; intros Hl He; try discriminate.
  - auto.
  - injection He as -> He. destruct (IH a' ltac:(lia) He) as [-> ->]. auto.
Qed.

Lemma len_pos_inj {A B} (l : list A) (l' : list B) : len_pos l = len_pos l' -> length l = length l'.
Proof. unfold len_pos. intros H. apply SuccNat2Pos.inj in H. exact H. Qed.

Lemma key_of_inj n t c k aps n' t' c' k' aps' :
  key_of n t c k aps = key_of n' t' c' k' aps' -> n = n' /\ t = t' /\ c = c' /\ k = k' /\ aps = aps'.
Proof.
  unfold key_of. intros H. injection H as Hn Hk Hl H.
  apply len_pos_inj in Hl.
  apply app_inj_length in H; [|exact Hl]. destruct H as [Ht H].
  injection H as Hl2 H. apply len_pos_inj in Hl2.
  apply app_inj_length in H; [|exact Hl2]. destruct H as [Hc Ha].
  repeat split; auto. destruct k, k'; congruence.
Qed.

Lemma vkey_inj v v' :
  vkey v = vkey v' ->
  v_node v = v_node v' /\ v_trace v = v_trace v' /\ v_ctrace v = v_ctrace v' /\ v_kind v = v_kind v' /\ v_aps v = v_aps v'.
Proof. apply key_of_inj. Qed.

(** ** Order oracles: every Go map iteration is a permutation of the entries *)

Definition oracle := N -> N -> forall A : Type, list A -> list A.

Definition ord_perm (ord : oracle) : Prop := forall s i A (l : list A), Permutation (ord s i A l) l.

Lemma ord_in ord (H : ord_perm ord) s i A (l : list A) x : In x (ord s i A l) <-> In x l.
Proof. split; apply Permutation_in; [apply H|apply Permutation_sym, H]. Qed.

Definition ord_id : oracle := fun _ _ _ l => l.
Definition ord_rev : oracle := fun _ _ _ l => rev l.

Lemma ord_id_perm : ord_perm ord_id.
Proof. intros s i A l. apply Permutation_refl. Qed.

Lemma ord_rev_perm : ord_perm ord_rev.
Proof. intros s i A l. apply Permutation_sym, Permutation_rev. Qed.

(** ** [res] helpers *)

Lemma bind_ok {A B} (r : res A) (f : A -> res B) b : bind r f = Ok b -> exists a, r = Ok a /\ f a = Ok b.
Proof. destruct r; simpl; [eauto|discriminate]. Qed.

Lemma concat_res_ok {A} : forall (l : list (res (list A))) r,
  concat_res l = Ok r -> forall x, In x r -> exists li, In (Ok li) l /\ In x li.
Proof.
  induction l as [|a l IH]; simpl; intros r H x Hx.
  - injection H as <-. contradiction.
  - apply bind_ok in H as (la & -> & H). apply bind_ok in H as (lb & Hb & H). injection H as <-.
    apply in_app_or in Hx as [Hx|Hx].
    + exists la. auto.
    + destruct (IH _ Hb _ Hx) as (li & ? & ?). exists li. auto.
Qed.

Lemma concat_res_ok_conv {A} : forall (l : list (res (list A))) r,
  concat_res l = Ok r -> forall li x, In (Ok li) l -> In x li -> In x r.
Proof.
  induction l as [|a l IH]; simpl; intros r H li x Hl Hx.
  - contradiction.
  - apply bind_ok in H as (la & -> & H). apply bind_ok in H as (lb & Hb & H). injection H as <-.
    apply in_or_app. destruct Hl as [E|Hl].
    + injection E as ->. auto.
    + right. eapply IH; eauto.
Qed.

Lemma in_flat_map_iff {A B} (f : A -> list B) l y : In y (flat_map f l) <-> exists x, In x l /\ In y (f x).
Proof. apply in_flat_map. Qed.

Section Cands.
  Variable g : graph.
  Variable ord : oracle.
  Hypothesis Hord : ord_perm ord.

  (** membership in [out_cands] does not depend on the oracle *)
  Lemma in_out_cands s i n inter t c k ti keep cd :
    In cd (out_cands ord s i n inter t c k ti keep) <->
    exists dst eis ei, In (dst, eis) (n_out n) /\ In ei eis /\ keep ei = true /\ cd = mkCand inter (Some dst) t c k ti ei.
  Proof using Hord.
    unfold out_cands. rewrite in_flat_map. split.
    - intros ([dst eis] & Hin & H). apply (ord_in _ Hord) in Hin. apply in_flat_map in H as (ei & Hei & H). simpl in *.
      destruct (keep ei) eqn:K; simpl in H; [|contradiction]. destruct H as [<-|[]].
      exists dst, eis, ei. auto.
    - intros (dst & eis & ei & Hin & Hei & K & ->). exists (dst, eis). split; [apply (ord_in _ Hord); exact Hin|].
      apply in_flat_map. exists ei. split; [exact Hei|]. simpl. rewrite K. simpl. auto.
  Qed.
End Cands.
