(** * C15 — [Merge] equals the closure of (union of the edge maps, pointwise maximum of the statuses);
      the boolean invariant check is sound *)
From stdpp Require Import gmap.
From Coq Require Import Lia.
From Argot Require Import Model.EscGraph Proofs.EscGraphClosure Proofs.EscGraphOrder Proofs.EscGraphOps
  Proofs.EscGraphMerge.

Section Join.
  Context (intr : node -> estatus) (ord : list node -> list node) (ord_perm : forall l, ord l ≡ₚ l).
  Notation wf := (wf intr).
  Notation Inv := (Inv intr).
  Notation sg g := (sigma (status g)).
  Notation fp ps g := (fold_left (fun acc ab => closure ord (fst ab) (snd ab) acc) ps g).

  Lemma fold_pairs_spec g0 : forall (ps : list (node * node)) g,
    edges g = edges g0 ->
    (forall ab, ab ∈ ps -> succ (edges g0) (fst ab) (snd ab)) ->
    edges (fp ps g) = edges g0 /\
    (forall m, sle (sg g m) (sg (fp ps g) m)) /\
    (forall ab, ab ∈ ps -> sle (sg (fp ps g) (fst ab)) (sg (fp ps g) (snd ab))) /\
    (forall c d, succ (edges g0) c d -> sle (sg g c) (sg g d) -> sle (sg (fp ps g) c) (sg (fp ps g) d)) /\
    (forall t, closedf (edges g0) t -> (forall m, sle (sg g m) (t m)) -> forall m, sle (sg (fp ps g) m) (t m)) /\
    ((forall c d, succ (edges g0) c d -> d ∈ dom (status g)) -> dom (status (fp ps g)) = dom (status g)).
  Proof.
    induction ps as [|q ps IH]; intros g HE Hps; simpl.
    - refine (conj HE (conj _ (conj _ (conj _ (conj _ _))))).
      + intros; apply sle_refl.
      + intros ab Hq. now apply elem_of_nil in Hq.
      + auto.
      + auto.
      + auto.
    - destruct (closure_spec ord ord_perm (fst q) (snd q) g) as (CE & C1 & C2 & C3 & C4 & C5). rewrite HE in *.
      assert (Hq : succ (edges g0) (fst q) (snd q)) by (apply Hps; set_solver).
      assert (HE' : edges (closure ord (fst q) (snd q) g) = edges g0) by exact CE.
      assert (Hps' : forall ab, ab ∈ ps -> succ (edges g0) (fst ab) (snd ab)) by (intros; apply Hps; set_solver).
      destruct (IH _ HE' Hps') as (I0 & I1 & I2 & I3 & I4 & I5).
      refine (conj I0 (conj _ (conj _ (conj _ (conj _ _))))).
      + intros m. eapply sle_trans; [apply C1|apply I1].
      + intros ab Hab. apply elem_of_cons in Hab as [->|Hab]; [|now apply I2].
        apply I3; [assumption|]. now apply C2.
      + intros c d Hcd Hsat. apply I3; [assumption|]. now apply C3.
      + intros t Ht Hle. apply I4; [assumption|]. apply C4; [assumption| |assumption]. now apply Ht.
      + intros Hd. assert (Hdq : dom (status (closure ord (fst q) (snd q) g)) = dom (status g)).
        { apply C5; [|assumption]. eapply Hd; eassumption. }
        rewrite I5; [assumption|]. intros c d Hcd. rewrite Hdq. eapply Hd; eassumption.
  Qed.

  Lemma in_all_pairs e a b : In (a, b) (all_pairs e) <-> succ e a b.
  Proof.
    unfold all_pairs, succ. rewrite in_flat_map. split.
    - intros ([k m] & Hkm & Hin). apply in_map_iff in Hin as ([d f] & Heq & Hdf). simpl in *.
      injection Heq as -> ->.
      apply elem_of_list_In, elem_of_map_to_list in Hkm. apply elem_of_list_In, elem_of_map_to_list in Hdf.
      rewrite Hkm. simpl. eauto.
    - intros [f Hf]. destruct (e !! a) as [m|] eqn:Ea; simpl in Hf; [|now rewrite lookup_empty in Hf].
      exists (a, m). split; [now apply elem_of_list_In, elem_of_map_to_list|].
      apply in_map_iff. exists (b, f). split; [reflexivity|]. now apply elem_of_list_In, elem_of_map_to_list.
  Qed.

  (** ** the union graph *)
  Definition ugraph (g h : graph) : graph := mkGraph (union_edges g h) (max_status g h).

  Lemma ugraph_out g h a b :
    out_edges (ugraph g h) a !! b =
    union_with (fun f1 f2 => Some (f_or f1 f2)) (out_edges g a !! b) (out_edges h a !! b).
  Proof.
    unfold out_edges, ugraph, union_edges. simpl. rewrite lookup_union_with.
    destruct (edges g !! a) as [m1|], (edges h !! a) as [m2|]; cbn.
    - now rewrite lookup_union_with.
    - rewrite lookup_empty. now destruct (m1 !! b).
    - rewrite lookup_empty. now destruct (m2 !! b).
    - now rewrite lookup_empty.
  Qed.

  Lemma ugraph_hasb g h a b x : hasb (ugraph g h) a b x <-> hasb g a b x \/ hasb h a b x.
  Proof.
    unfold hasb, has_bit. rewrite ugraph_out.
    destruct (out_edges g a !! b) as [f1|], (out_edges h a !! b) as [f2|]; cbn;
      rewrite ?f_has_or, ?f_none_has, ?orb_true_iff; intuition congruence.
  Qed.

  Lemma ugraph_sigma g h n : sg (ugraph g h) n = st_max (sg g n) (sg h n).
  Proof.
    unfold sigma, ugraph, max_status. simpl. rewrite lookup_union_with.
    destruct (status g !! n) as [s1|], (status h !! n) as [s2|]; cbn; try reflexivity.
    all: try (now destruct s1); try (now destruct s2).
  Qed.

  Lemma ugraph_dom g h : dom (status (ugraph g h)) = dom (status g) ∪ dom (status h).
  Proof.
    apply set_eq. intros n. rewrite elem_of_union, !elem_of_dom. unfold ugraph, max_status. simpl.
    rewrite lookup_union_with. destruct (status g !! n), (status h !! n); cbn; unfold is_Some; naive_solver.
  Qed.

  Lemma ugraph_dom' g h : dom (max_status g h) = dom (status g) ∪ dom (status h).
  Proof. exact (ugraph_dom g h). Qed.

  Lemma ugraph_edges_dom g h : dom (edges (ugraph g h)) = dom (edges g) ∪ dom (edges h).
  Proof.
    apply set_eq. intros n. rewrite elem_of_union, !elem_of_dom. unfold ugraph, union_edges. simpl.
    rewrite lookup_union_with. destruct (edges g !! n), (edges h !! n); cbn; unfold is_Some; naive_solver.
  Qed.

  Lemma ugraph_wf g h : wf g -> wf h -> wf (ugraph g h).
  Proof.
    intros Wg Wh. constructor.
    - pose proof (ugraph_edges_dom g h) as H1. pose proof (ugraph_dom g h) as H2.
      unfold ugraph in *. simpl in *. rewrite H1, H2. now rewrite (wf_dom _ _ Wg), (wf_dom _ _ Wh).
    - intros a b f. rewrite ugraph_out.
      assert (Hd : forall m, m ∈ dom (status g) \/ m ∈ dom (status h) -> is_Some (status (ugraph g h) !! m)).
      { intros m Hm. apply elem_of_dom. rewrite ugraph_dom. now apply elem_of_union. }
      destruct (out_edges g a !! b) as [f1|] eqn:E1, (out_edges h a !! b) as [f2|] eqn:E2; cbn; intros [= <-].
      + destruct (wf_ends _ _ Wg _ _ _ E1) as [S1 N1]. destruct (wf_ends _ _ Wh _ _ _ E2) as [S2 N2].
        split; [|now apply f_or_not_none]. apply Hd. left. now apply elem_of_dom.
      + destruct (wf_ends _ _ Wg _ _ _ E1) as [S1 N1].
        split; [|assumption]. apply Hd. left. now apply elem_of_dom.
      + destruct (wf_ends _ _ Wh _ _ _ E2) as [S2 N2].
        split; [|assumption]. apply Hd. right. now apply elem_of_dom.
    - intros n s Hs. rewrite <- (sigma_lookup _ _ _ Hs), ugraph_sigma.
      assert (Hn : n ∈ dom (status (ugraph g h))) by (apply elem_of_dom; eauto).
      rewrite ugraph_dom in Hn. apply elem_of_union in Hn as [Hn|Hn]; apply sigma_dom in Hn.
      + eapply sle_trans; [eapply (wf_intr _ _ Wg); exact Hn|apply st_max_ub_l].
      + eapply sle_trans; [eapply (wf_intr _ _ Wh); exact Hn|apply st_max_ub_r].
  Qed.

  Lemma ugraph_ub_l g h : le_g g (ugraph g h).
  Proof.
    apply (le_g_intro intr ord ord_perm).
    - intros a b x H. apply ugraph_hasb. now left.
    - rewrite ugraph_dom. set_solver.
    - intros n. rewrite ugraph_sigma. apply st_max_ub_l.
  Qed.

  Lemma ugraph_ub_r g h : le_g h (ugraph g h).
  Proof.
    apply (le_g_intro intr ord ord_perm).
    - intros a b x H. apply ugraph_hasb. now right.
    - rewrite ugraph_dom. set_solver.
    - intros n. rewrite ugraph_sigma. apply st_max_ub_r.
  Qed.

  Lemma ugraph_least g h k : le_g g k -> le_g h k -> le_g (ugraph g h) k.
  Proof.
    intros Lg Lh. apply (le_g_intro intr ord ord_perm).
    - intros a b x H. apply ugraph_hasb in H as [H|H]; [now apply Lg|now apply Lh].
    - rewrite ugraph_dom. pose proof (le_g_dom _ _ Lg). pose proof (le_g_dom _ _ Lh). set_solver.
    - intros n. rewrite ugraph_sigma. apply st_max_lub; now apply le_g_sigma.
  Qed.

  (** ** closing a well-formed graph *)
  Lemma close_graph_spec u : wf u ->
    Inv (close_graph ord u) /\ le_g u (close_graph ord u) /\
    (forall k, Inv k -> le_g u k -> le_g (close_graph ord u) k).
  Proof.
    intros W. unfold close_graph.
    assert (Hps : forall ab, ab ∈ all_pairs (edges u) -> succ (edges u) (fst ab) (snd ab)).
    { intros [a b] H. apply elem_of_list_In in H. now apply in_all_pairs in H. }
    destruct (fold_pairs_spec u (all_pairs (edges u)) u eq_refl Hps) as (F0 & F1 & F2 & F3 & F4 & F5).
    set (r := fp (all_pairs (edges u)) u) in *.
    assert (Hdom : dom (status r) = dom (status u)).
    { apply F5. intros c d H. eapply wf_target; eassumption. }
    assert (Hhas : forall c d x, hasb r c d x <-> hasb u c d x).
    { intros. unfold hasb, has_bit, out_edges. now rewrite F0. }
    assert (Wr : wf r).
    { constructor.
      - rewrite F0, Hdom. apply (wf_dom _ _ W).
      - intros c d f0 H. unfold out_edges in H. rewrite F0 in H.
        destruct (wf_ends _ _ W _ _ _ H) as [Hs Hn0]. split; [|assumption].
        apply elem_of_dom. rewrite Hdom. now apply elem_of_dom.
      - intros m sm Hsm. assert (Hm : m ∈ dom (status u)) by (rewrite <- Hdom; apply elem_of_dom; eauto).
        apply sigma_dom in Hm. rewrite <- (sigma_lookup _ _ _ Hsm).
        eapply sle_trans; [eapply (wf_intr _ _ W); eassumption|apply F1]. }
    assert (Hcl : closed r).
    { intros c d H. unfold closed in *. rewrite F0 in H.
      apply (F2 (c, d)). apply elem_of_list_In. now apply in_all_pairs. }
    refine (conj (conj Wr Hcl) (conj _ _)).
    - apply (le_g_intro intr ord ord_perm); [intros c d x; apply Hhas|now rewrite Hdom|assumption].
    - intros k [Wk Hck] Hle. apply (le_g_intro intr ord ord_perm).
      + intros c d x H. apply Hhas in H. now apply Hle.
      + rewrite Hdom. now apply le_g_dom.
      + apply F4; [now apply (closedf_below intr u k)|]. intros m. now apply le_g_sigma.
  Qed.

  Theorem join_is_lub g h : Inv g -> Inv h -> is_lub intr g h (join_spec ord g h).
  Proof.
    intros [Wg _] [Wh _]. unfold join_spec. fold (ugraph g h).
    destruct (close_graph_spec (ugraph g h) (ugraph_wf g h Wg Wh)) as (I & L & Least).
    refine (conj I (conj _ (conj _ _))).
    - exact (le_g_trans _ _ _ (ugraph_ub_l g h) L).
    - exact (le_g_trans _ _ _ (ugraph_ub_r g h) L).
    - intros k Ik Lg Lh. apply Least; [assumption|]. now apply ugraph_least.
  Qed.

  (** ** the boolean invariant check used by the tie is sound *)
  Lemma inv_b_sound g : inv_b intr g = true -> Inv g.
  Proof.
    unfold inv_b, wf_b, closed_b. rewrite !andb_true_iff, bool_decide_eq_true, !forallb_forall.
    intros [[[Hdom Hends] Hintr] Hcl].
    assert (Hentry : forall a b f, out_edges g a !! b = Some f ->
              exists m, In (a, m) (map_to_list (edges g)) /\ In (b, f) (map_to_list m)).
    { intros a b f H. unfold out_edges in H. destruct (edges g !! a) as [m|] eqn:Ea; simpl in H; [|now rewrite lookup_empty in H].
      exists m. split; now apply elem_of_list_In, elem_of_map_to_list. }
    split.
    - constructor.
      + exact Hdom.
      + intros a b f H. destruct (Hentry _ _ _ H) as (m & Hm & Hbf).
        specialize (Hends _ Hm). simpl in Hends. rewrite forallb_forall in Hends. specialize (Hends _ Hbf). simpl in Hends.
        apply andb_true_iff in Hends as [H1 H2]. apply bool_decide_eq_true in H1. split; [assumption|].
        unfold flags_ok in H2. now destruct (f_is_none f).
      + intros n s H. apply (Hintr (n, s)). now apply elem_of_list_In, elem_of_map_to_list.
    - intros c d [f H]. destruct (Hentry _ _ _ H) as (m & Hm & Hbf).
      specialize (Hcl _ Hm). simpl in Hcl. rewrite forallb_forall in Hcl. apply (Hcl _ Hbf).
  Qed.
End Join.

(** [Merge] = closure of (union of edges, maximum of statuses), whatever the iteration orders *)
Theorem merge_eq_join intr o1 o2 (p1 : forall l, o1 l ≡ₚ l) (p2 : forall l, o2 l ≡ₚ l) g h :
  Inv intr g -> Inv intr h -> merge intr o1 g h = join_spec o2 g h.
Proof.
  intros Ig Ih. eapply lub_unique; [apply (merge_is_lub intr o1 p1); assumption|now apply (join_is_lub intr o2 p2)].
Qed.

Theorem merge_lists_eq_join intr o1 o2 (p1 : forall l, o1 l ≡ₚ l) (p2 : forall l, o2 l ≡ₚ l) es ss g h :
  covers es ss h -> Inv intr g -> Inv intr h -> merge_lists intr o1 es ss g = join_spec o2 g h.
Proof.
  intros Hc Ig Ih. eapply lub_unique; [apply (merge_lists_lub intr o1 p1); eassumption|now apply (join_is_lub intr o2 p2)].
Qed.
