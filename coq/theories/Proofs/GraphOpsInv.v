(** * Every operation preserves the consistency invariant (C17) *)
From stdpp Require Import gmap.
From Coq Require Import ZArith.
From Argot Require Import Model.GraphOps Proofs.GraphOps.

(** ** which fields an operation leaves alone *)

Definition same_links (s s' : state) : Prop :=
  nodes s' = nodes s /\ sums s' = sums s /\ callee s' = callee s /\ callsites s' = callsites s /\
  closum s' = closum s /\ refclos s' = refclos s.
Definition same_glob (s s' : state) : Prop :=
  iswrite s' = iswrite s /\ constructed s' = constructed s /\ wlocs s' = wlocs s /\ rlocs s' = rlocs s.
Definition same_edges (s s' : state) : Prop := outm s' = outm s /\ inm s' = inm s.

Lemma same_links_refl s : same_links s s. Proof. by repeat split. Qed.
Lemma same_glob_refl s : same_glob s s. Proof. by repeat split. Qed.

Lemma instr_of_ext s s' n : nodes s' = nodes s -> instr_of s' n = instr_of s n.
Proof. unfold instr_of. by intros ->. Qed.
Lemma kind_of_ext s s' n : nodes s' = nodes s -> kind_of s' n = kind_of s n.
Proof. unfold kind_of. by intros ->. Qed.
Lemma out_nonempty_ext s s' n : outm s' !! n = outm s !! n -> out_nonempty s' n = out_nonempty s n.
Proof. unfold out_nonempty. by intros ->. Qed.

Lemma C_calls_ext s s' : same_links s s' -> C_calls s -> C_calls s'.
Proof.
  intros (Hn & _ & Hc & Hcs & _ & _) [H1 H2]. unfold C_calls. rewrite Hc, Hcs. split.
  - intros n g. rewrite (instr_of_ext _ _ _ Hn). apply H1.
  - intros g i n. rewrite (instr_of_ext _ _ _ Hn). apply H2.
Qed.
Lemma C_closures_ext s s' : same_links s s' -> C_closures s -> C_closures s'.
Proof.
  intros (Hn & _ & _ & _ & Hc & Hcs) [H1 H2]. unfold C_closures. rewrite Hc, Hcs. split.
  - intros n g. rewrite (instr_of_ext _ _ _ Hn). apply H1.
  - intros g i n. rewrite (instr_of_ext _ _ _ Hn). apply H2.
Qed.
Lemma C_edges_ext s s' : same_edges s s' -> C_edges s -> C_edges s'.
Proof. intros [Ho Hi] H a b. unfold has_out, has_in. rewrite Ho, Hi. apply H. Qed.

Lemma is_wloc_ext s s' gl n :
  nodes s' = nodes s -> constructed s' = constructed s -> mem (iswrite s') n = mem (iswrite s) n ->
  is_wloc s' gl n <-> is_wloc s gl n.
Proof. unfold is_wloc. intros -> -> ->. done. Qed.
Lemma is_rloc_ext s s' gl n :
  nodes s' = nodes s -> constructed s' = constructed s -> mem (iswrite s') n = mem (iswrite s) n ->
  out_nonempty s' n = out_nonempty s n -> is_rloc s' gl n <-> is_rloc s gl n.
Proof. unfold is_rloc. intros -> -> -> ->. done. Qed.

Lemma is_wloc_constructed s gl n na :
  nodes s !! n = Some na -> is_wloc s gl n -> mem (constructed s) (n_sum na) = true.
Proof. unfold is_wloc. intros ->. tauto. Qed.
Lemma is_rloc_constructed s gl n na :
  nodes s !! n = Some na -> is_rloc s gl n -> mem (constructed s) (n_sum na) = true.
Proof. unfold is_rloc. intros ->. tauto. Qed.
Lemma is_rloc_kind s gl n : is_rloc s gl n -> kind_of s n = Some KG.
Proof. unfold is_rloc, kind_of. destruct (nodes s !! n); [|done]. intros (Hk & _). simpl. by rewrite Hk. Qed.

(** ** adding one edge *)

Definition adds_edge (s s' : state) (a b : N) : Prop :=
  same_links s s' /\ same_glob s s' /\
  (forall x y, has_out s' x y <-> has_out s x y \/ (x = a /\ y = b)) /\
  (forall x y, has_in s' y x <-> has_in s y x \/ (x = a /\ y = b)) /\
  (forall x, x <> a -> outm s' !! x = outm s !! x).

Lemma is_Some_if {A} (P : Prop) `{Decision P} (x : A) (o : option A) :
  is_Some (if decide P then Some x else o) <-> is_Some o \/ P.
Proof. destruct (decide P); split; eauto. - intros [?|?]; done. Qed.

Lemma update_edge_adds s a b i p c : adds_edge s (update_edge s a b i p c) a b.
Proof.
  unfold update_edge. destruct (add_path i p (default [] (get2 (outm s) a b))) as [es' found].
  unfold adds_edge, same_links, same_glob; simpl; split_and!; try done.
  - intros x y. unfold has_out; simpl. rewrite get2_set2, is_Some_if. naive_solver.
  - intros x y. unfold has_in; simpl. rewrite get2_set2, is_Some_if. naive_solver.
  - intros x Hx. by apply set2_lookup_ne.
Qed.

Lemma append_edge_adds s a b e : adds_edge s (append_edge s a b e) a b.
Proof.
  unfold append_edge. unfold adds_edge, same_links, same_glob; simpl; split_and!; try done.
  - intros x y. unfold has_out; simpl. rewrite get2_set2, is_Some_if. naive_solver.
  - intros x y. unfold has_in; simpl. rewrite get2_set2, is_Some_if. naive_solver.
  - intros x Hx. by apply set2_lookup_ne.
Qed.

Lemma adds_edge_C_edges s s' a b : adds_edge s s' a b -> C_edges s -> C_edges s'.
Proof. intros (_ & _ & Ho & Hi & _) H x y. rewrite Ho, Hi, (H x y). done. Qed.

(** adding an edge whose source is not a global access node *)
Lemma adds_edge_inv s s' a b : adds_edge s s' a b -> kind_of s a <> Some KG -> inv s -> inv s'.
Proof.
  intros Hadd Hk [(He & Hc & Hcl & [Hw Hr]) Hclean].
  pose proof Hadd as (Hl & (Hiw & Hco & Hwl & Hrl) & _ & _ & Hout).
  pose proof Hl as (Hn & _).
  assert (Hne : forall n, kind_of s n = Some KG -> out_nonempty s' n = out_nonempty s n).
  { intros n Hkn. apply out_nonempty_ext, Hout. intros ->. done. }
  split; [split; [|split; [|split; [|split]]]|].
  - by eapply adds_edge_C_edges.
  - by eapply C_calls_ext.
  - by eapply C_closures_ext.
  - intros gl n. rewrite Hwl, (is_wloc_ext s s'); [apply Hw | done | done | by rewrite Hiw].
  - intros gl n. rewrite Hrl, (Hr gl n). split; intros H.
    + apply (is_rloc_ext s s'); [done | done | by rewrite Hiw | | done]. apply Hne. by eapply is_rloc_kind.
    + assert (kind_of s n = Some KG) as Hkn. { rewrite <- (kind_of_ext s s') by done. by eapply is_rloc_kind. }
      apply (is_rloc_ext s s') in H; [done | done | done | by rewrite Hiw | by apply Hne].
  - intros n na. rewrite Hn, Hco, Hiw. intros Hna Hkg Hnc.
    destruct (Hclean n na Hna Hkg Hnc) as [? ?]. split; [done|].
    rewrite Hne; [done|]. unfold kind_of. rewrite Hna. simpl. by rewrite Hkg.
Qed.

Lemma is_kind_kind_of s n k : is_kind s n k = true -> kind_of s n = Some k.
Proof. unfold is_kind. by rewrite bool_decide_eq_true. Qed.

Lemma update_op_inv s a b i p c : inv s -> inv (apply_op s (OUpdate a b i p c)).
Proof.
  intros H. simpl. destruct (is_kind s a KG) eqn:Hk; [done|]. destruct (is_kind s a KR); [done|]. simpl.
  eapply adds_edge_inv; [apply update_edge_adds | | done].
  intros Hk'. unfold is_kind in Hk. rewrite bool_decide_eq_false in Hk. done.
Qed.

Lemma param_edge_inv s g i j : inv s -> inv (param_edge s g i j).
Proof.
  intros H. unfold param_edge. destruct (sums s !! g) as [sa|]; [|done].
  destruct (zpos (s_params sa) i) as [a|]; [|done]. destruct (zpos (s_params sa) j) as [b|]; [|done].
  destruct (is_kind s a KP) eqn:Hk; [|done]. destruct (is_kind s b KP); [|done]. simpl.
  eapply adds_edge_inv; [apply append_edge_adds | | done].
  rewrite (is_kind_kind_of _ _ _ Hk). done.
Qed.

Lemma return_edge_inv s g i j : inv s -> inv (return_edge s g i j).
Proof.
  intros H. unfold return_edge. destruct (sums s !! g) as [sa|]; [|done]. destruct (s_hasret sa); [|done].
  destruct (zpos (s_params sa) i) as [a|]; [|done]. destruct (zpos (s_rets sa) j) as [b|]; [|done].
  destruct (is_kind s a KP) eqn:Hk; [|done]. destruct (is_kind s b KR); [|done]. simpl.
  eapply adds_edge_inv; [apply append_edge_adds | | done].
  rewrite (is_kind_kind_of _ _ _ Hk). done.
Qed.

Lemma param_edge_constructed s g i j : constructed (param_edge s g i j) = constructed s.
Proof.
  unfold param_edge. destruct (sums s !! g) as [sa|]; [|done].
  destruct (zpos (s_params sa) i) as [a|]; [|done]. destruct (zpos (s_params sa) j) as [b|]; [|done].
  by destruct (is_kind s a KP && is_kind s b KP).
Qed.
Lemma return_edge_constructed s g i j : constructed (return_edge s g i j) = constructed s.
Proof.
  unfold return_edge. destruct (sums s !! g) as [sa|]; [|done]. destruct (s_hasret sa); [|done].
  destruct (zpos (s_params sa) i) as [a|]; [|done]. destruct (zpos (s_rets sa) j) as [b|]; [|done].
  by destruct (is_kind s a KP && is_kind s b KR).
Qed.

(** ** marking a summary constructed without synchronising its globals ([PopulateGraphFromSummary]) *)

Lemma set_constructed_inv s g : inv s -> mem (constructed s) g = false -> inv (set_constructed s g).
Proof.
  intros [(He & Hc & Hcl & [Hw Hr]) Hclean] Hg.
  split; [split; [|split; [|split; [|split]]]|].
  - done.
  - done.
  - done.
  - intros gl n. simpl. rewrite (Hw gl n). unfold is_wloc. simpl.
    destruct (nodes s !! n) as [na|] eqn:Hna; [|done].
    split; intros (Hk & Hgl & Hco & Hiw); repeat split; try done.
    + apply mem_insert. by right.
    + apply mem_insert in Hco as [Heq|Hco]; [|done].
      destruct (Hclean n na Hna Hk) as [Hf _]; [by rewrite <- Heq|]. congruence.
  - intros gl n. simpl. rewrite (Hr gl n). unfold is_rloc. simpl.
    destruct (nodes s !! n) as [na|] eqn:Hna; [|done].
    split; intros (Hk & Hgl & Hco & Hiw & Hon); repeat split; try done.
    + apply mem_insert. by right.
    + apply mem_insert in Hco as [Heq|Hco]; [|done].
      destruct (Hclean n na Hna Hk) as [_ Hf]; [by rewrite <- Heq|]. unfold out_nonempty in *. simpl in *. congruence.
  - intros n na Hna Hk Hnc. simpl in *. rewrite (out_nonempty_ext s (set_constructed s g) n eq_refl).
    apply (Hclean n na); [done | done |].
    apply mem_false. intros Ht. apply mem_false in Hnc. apply Hnc. apply mem_insert. by right.
Qed.

Lemma fold_inv {X} (f : state -> X -> state) :
  (forall s x, inv s -> inv (f s x)) -> (forall s x, constructed (f s x) = constructed s) ->
  forall l s, inv s -> inv (fold_left f l s) /\ constructed (fold_left f l s) = constructed s.
Proof.
  intros Hf Hc l. induction l as [|x l IH]; intros s Hs; simpl; [done|].
  destruct (IH (f s x) (Hf _ _ Hs)) as [? ->]. by rewrite Hc.
Qed.

Lemma populate_inv s g a r : inv s -> mem (constructed s) g = false -> inv (populate s g a r).
Proof.
  intros Hs Hg. unfold populate.
  destruct (fold_inv (fun s x => param_edge s g x.1 x.2)
              (fun s x => param_edge_inv s g _ _) (fun s x => param_edge_constructed s g _ _) a s Hs) as [H1 E1].
  destruct (fold_inv (fun s x => return_edge s g x.1 x.2)
              (fun s x => return_edge_inv s g _ _) (fun s x => return_edge_constructed s g _ _) r _ H1) as [H2 E2].
  apply set_constructed_inv; [done|]. by rewrite E2, E1.
Qed.
