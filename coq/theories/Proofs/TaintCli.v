(** * Proofs/TaintCli — the exit status is a failure exactly when something was reported; and the traversal-level
    completeness statement used by C01: every path of the key graph from a root (source key) to a sink key is found. *)
From Coq Require Import List Arith Bool Lia.
From Argot Require Import Base.Closure Model.TaintCli.
Import ListNotations.

Lemma exit_code_spec_lemma : forall (Pair Esc : Type) (r : analysis_result Pair Esc),
  analysis_error Pair Esc r = false ->
  (exit_code Pair Esc r <> 0 <-> (flows Pair Esc r <> [] \/ escapes Pair Esc r <> [])) /\
  (exit_code Pair Esc r = 0 \/ exit_code Pair Esc r = 2).
Proof.
  intros Pair Esc [f e a]; simpl; intros ->. unfold exit_code, run_returns_error; simpl.
  destruct f as [|x f], e as [|y e]; simpl; split; try (right; reflexivity); try (left; reflexivity).
  - split; [intros H; exfalso; apply H; reflexivity | intros [H|H]; exfalso; apply H; reflexivity].
  - split; [intros _; right; discriminate | intros _; discriminate].
  - split; [intros _; left; discriminate | intros _; discriminate].
  - split; [intros _; left; discriminate | intros _; discriminate].
Qed.

Lemma exit_code_error_lemma : forall (Pair Esc : Type) (r : analysis_result Pair Esc),
  analysis_error Pair Esc r = true -> exit_code Pair Esc r = 2.
Proof. intros Pair Esc [f e a]; simpl; intros ->. reflexivity. Qed.

Section Paths.
  Variable K : Type.
  Variable K_eq_dec : forall x y : K, {x = y} + {x <> y}.
  Variable succ : K -> list K.
  Variable is_sink : K -> bool.

  (** a path of the key graph starting at [x]: the list of the keys visited after [x] *)
  Fixpoint is_path (g : K -> list K) (x : K) (p : list K) : Prop :=
    match p with
    | [] => True
    | y :: p' => In y (g x) /\ is_path g y p'
    end.

  (** the traversal does not expand sink keys ([Visitor.Visit] continues after recording the flow) *)
  Definition succ_stop (x : K) : list K := if is_sink x then [] else succ x.

  Lemma last_cons : forall (p : list K) x y, last (y :: p) x = last p y.
  Proof.
    induction p as [|z p IH]; intros x y; [reflexivity|].
    change (last (y :: z :: p) x) with (last (z :: p) x).
    rewrite (IH x z). symmetry. apply IH.
  Qed.

  Lemma path_reach : forall g roots p x, reach K g roots x -> is_path g x p -> reach K g roots (last p x).
  Proof.
    intros g roots p; induction p as [|y p IH]; intros x Hx Hp; [exact Hx|].
    destruct Hp as [Hy Hp]. rewrite last_cons. apply IH; auto. eapply reach_step; eauto.
  Qed.

  (** every path to a sink has a prefix that is a path of the sink-stopped graph ending at the FIRST sink on it *)
  Lemma first_sink_prefix : forall p x, is_path succ x p -> is_sink (last p x) = true ->
    exists p', is_path succ_stop x p' /\ is_sink (last p' x) = true /\ (exists q, p = p' ++ q).
  Proof.
    induction p as [|y p IH]; intros x Hp Hs.
    - exists []; simpl; repeat split; auto. exists []; reflexivity.
    - destruct Hp as [Hy Hp]. destruct (is_sink x) eqn:Ex.
      + exists []; simpl; repeat split; auto. exists (y :: p); reflexivity.
      + rewrite last_cons in Hs.
        destruct (IH y Hp Hs) as (p' & P1 & P2 & q & P3).
        exists (y :: p'); repeat split.
        * unfold succ_stop; rewrite Ex; auto.
        * auto.
        * rewrite last_cons; auto.
        * exists q; rewrite P3; reflexivity.
  Qed.

  Variable St : Type.
  Variable nexts : St -> K -> list K * St.
  Variable sched : St -> list K -> list K * St.
  Variable Inv : St -> Prop.

  (** every path from a root is found, whatever the successor/queue oracles do *)
  Lemma every_path_found_lemma : forall g roots fuel s0 seen,
    oracle_ok K g St nexts sched Inv roots -> Inv s0 ->
    run K K_eq_dec St nexts sched fuel s0 roots = Done seen ->
    forall src p, In src roots -> is_path g src p -> In (last p src) seen.
  Proof.
    intros g roots fuel s0 seen OK Hi Hr src p Hsrc Hp.
    apply (wl_closure_spec K K_eq_dec g St nexts sched Inv roots OK fuel s0 seen Hi Hr).
    apply path_reach; auto. apply reach_root; auto.
  Qed.

  (** the taint form: for every path of the (unrestricted) key graph from a source key to a sink key, the first sink key
      on that path is among the recorded sink hits of the sink-stopped traversal *)
  Lemma every_source_sink_path_reported_lemma : forall roots fuel s0 seen,
    oracle_ok K succ_stop St nexts sched Inv roots -> Inv s0 ->
    run K K_eq_dec St nexts sched fuel s0 roots = Done seen ->
    forall src p, In src roots -> is_path succ src p -> is_sink (last p src) = true ->
    exists p', (exists q, p = p' ++ q) /\ is_sink (last p' src) = true /\
               In (last p' src) (filter is_sink seen).
  Proof.
    intros roots fuel s0 seen OK Hi Hr src p Hsrc Hp Hs.
    destruct (first_sink_prefix p src Hp Hs) as (p' & P1 & P2 & P3).
    exists p'; repeat split; auto.
    apply filter_In; split; auto.
    eapply every_path_found_lemma; eauto.
  Qed.
End Paths.
