(** * The BFS of the traversal model computes a closure ([visit_closure]) and when it is order independent ([order_indep]).

    [succs_at ord s v] is what one expansion produces for the visitor node [v] dequeued at iteration [s]: nothing if [v] is
    pruned ([stop_of]), otherwise the visitor nodes built by [expand] + [make_next] (all filters of [addNext] except [seen]).
    It reads fields of [v] that are not part of the key ([v_prev], [v_depth], [v_tinfo]) and the order oracle.

    [visit_closure]: when the run is [Done], the chronological list V of dequeued visitor nodes
      (C1) starts with the root,
      (C2) is closed: every successor (at its own iteration) of every element has its KEY among the keys of V,
      (C3) is generated: every other element is a successor of an EARLIER element,
      (C4) has pairwise distinct keys (except that the root, which is not put in [seen], may re-appear once).
    So V is the least set containing the root and closed under the run's one-step successor function, up to key equality.

    [order_indep]: if successors are determined by keys across two oracles ([key_determines_succ]), the two runs visit the
    same keys and report the same sinks.  The hypothesis does NOT hold for the code in general: see
    [order_dep_refuted_lemma] in VisitExamples.v. *)
From Coq Require Import List PArith NArith ZArith Bool FMapPositive Lia Permutation.
From Argot Require Import Model.Visit Proofs.VisitBase.
Import ListNotations.

Set Default Proof Using "Type".

Local Opaque lt_mem lt_add.

Lemma NoDup_snoc {A} (l : list A) x : NoDup l -> ~ In x l -> NoDup (l ++ [x]).
Proof.
  induction l as [|y l IH]; simpl; intros Hn Hx.
  - constructor; [intros []|constructor].
  - inversion Hn as [|? ? Hy Hl]; subst. constructor.
    + intros Hin. apply in_app_or in Hin as [Hin|[E|[]]]; [contradiction|]. apply Hx. left. symmetry. exact E.
    + apply IH; [exact Hl|]. intros Hin. apply Hx. right. exact Hin.
Qed.

(** [seen]-filtered enqueueing of already built successors *)
Fixpoint push (l q : list vnode) (seen : ltrie) : list vnode * ltrie :=
  match l with
  | [] => (q, seen)
  | nv :: l' => if lt_mem (vkey nv) seen then push l' q seen
                else push l' (q ++ [nv]) (lt_add (vkey nv) seen)
  end.

Lemma push_spec : forall l q seen K,
  (forall k, lt_mem k seen = true <-> In k K) -> NoDup K ->
  exists new,
    fst (push l q seen) = q ++ new /\
    (forall k, lt_mem k (snd (push l q seen)) = true <-> In k (K ++ map vkey new)) /\
    NoDup (K ++ map vkey new) /\
    (forall w, In w l -> In (vkey w) (K ++ map vkey new)) /\
    (forall w, In w new -> In w l).
Proof.
  induction l as [|nv l IH]; intros q seen K Hr Hn; simpl.
  - exists []. simpl. rewrite !app_nil_r.
    split; [reflexivity|]. split; [exact Hr|]. split; [exact Hn|]. split; intros w [].
  - destruct (lt_mem (vkey nv) seen) eqn:Em.
    + destruct (IH q seen K Hr Hn) as (new & H1 & H2 & H3 & H4 & H5).
      exists new. split; [exact H1|]. split; [exact H2|]. split; [exact H3|]. split.
      * intros w [E|Hw]; [|apply H4; exact Hw]. subst w. apply in_or_app. left. apply Hr. exact Em.
      * intros w Hw. right. apply H5. exact Hw.
    + assert (~ In (vkey nv) K) as Hni by (intro Hin; apply Hr in Hin; congruence).
      destruct (IH (q ++ [nv]) (lt_add (vkey nv) seen) (K ++ [vkey nv])) as (new & H1 & H2 & H3 & H4 & H5).
      * intros k. rewrite lt_mem_add. destruct (key_eq_dec k (vkey nv)) as [E|Hne].
        -- subst k. split; [intros _; apply in_or_app; right; left; reflexivity|reflexivity].
        -- split.
           ++ intros M. apply in_or_app. left. apply Hr. exact M.
           ++ intros Hin. apply in_app_or in Hin as [Hin|[E|[]]]; [apply Hr; exact Hin|congruence].
      * apply NoDup_snoc; assumption.
      * exists (nv :: new). simpl. rewrite <- !app_assoc in *. simpl in *.
        split; [exact H1|]. split; [exact H2|]. split; [exact H3|]. split.
        -- intros w [E|Hw]; [subst w; apply in_or_app; right; left; reflexivity|apply H4; exact Hw].
        -- intros w [E|Hw]; [left; exact E|right; apply H5; exact Hw].
Qed.

Lemma in_tl {A} (x : A) l : In x (tl l) -> In x l.
Proof. destruct l; simpl; auto. Qed.

Lemma hd_error_in {A} (l : list A) x : hd_error l = Some x -> In x l.
Proof. destruct l; simpl; [discriminate|]. intros H. injection H as ->. auto. Qed.

Lemma nth0_hd {A} (l : list A) x y : nth_error l 0 = Some x -> hd_error l = Some y -> x = y.
Proof. destruct l; simpl; congruence. Qed.

Section Closure.
  Variable g : graph.
  Variable P : preds.
  Variable cfg : config.
  Variable ord : oracle.
  Variable src : id.

  (** [add_all] = build the successors ([make_all]), then [push] them *)
  Lemma add_all_push : forall cds s j cur q seen r,
    add_all g P cfg ord s j cur cds q seen = Ok r ->
    exists l, make_all g P cfg ord s j cur cds = Ok l /\ r = push l q seen.
  Proof.
    induction cds as [|cd cds IH]; intros s j cur q seen r H; simpl in *.
    - injection H as <-. exists []. auto.
    - apply bind_ok in H as (o & Hm & H). rewrite Hm. simpl. destruct o as [nv|].
      + destruct (lt_mem (vkey nv) seen) eqn:Em.
        * destruct (IH _ _ _ _ _ _ H) as (l & Hl & ->). rewrite Hl. simpl. exists (nv :: l). simpl. rewrite Em. auto.
        * destruct (IH _ _ _ _ _ _ H) as (l & Hl & ->). rewrite Hl. simpl. exists (nv :: l). simpl. rewrite Em. auto.
      + destruct (IH _ _ _ _ _ _ H) as (l & Hl & ->). rewrite Hl. simpl. exists l. auto.
  Qed.

  (** what one expansion produces (before the [seen] filter) *)
  Definition succs_at (s : N) (v : vnode) : list vnode :=
    match step_cands g P cfg ord src s v with
    | Ok (_, l) => l
    | Crash _ => []
    end.

  Definition is_sink_stop (v : vnode) : bool :=
    match stop_of g P cfg v with Ok (Some StSink) => true | _ => false end.

  (** the pruning decision and the sink test depend on the key only *)
  Lemma stop_of_key v v' : vkey v = vkey v' -> stop_of g P cfg v = stop_of g P cfg v'.
  Proof.
    intros H. apply vkey_inj in H as (Hn & _ & _ & Hk & _). unfold stop_of. rewrite Hn, Hk. reflexivity.
  Qed.

  (** ghost view of a state: V = dequeued nodes in chronological order, A = everything ever queued *)
  Definition chron (st : state) : list vnode := rev (st_visited st).
  Definition allq (st : state) : list vnode := chron st ++ st_queue st.

  Record inv (root : vnode) (st : state) : Prop := mkInv {
    i_step : st_step st = N.of_nat (length (chron st));
    i_root : hd_error (allq st) = Some root;
    i_seen : forall k, lt_mem k (st_seen st) = true <-> In k (map vkey (tl (allq st)));
    i_nodup : NoDup (map vkey (tl (allq st)));
    i_closed : forall i v, nth_error (chron st) i = Some v ->
               forall w, In w (succs_at (N.of_nat i) v) -> In (vkey w) (map vkey (tl (allq st)));
    i_gen : forall p w, nth_error (allq st) p = Some w -> p <> 0%nat ->
            exists i v, (i < p)%nat /\ nth_error (chron st) i = Some v /\ In w (succs_at (N.of_nat i) v);
    i_hits : st_hits st = filter is_sink_stop (st_visited st)
  }.

  Lemma tl_app_nonempty {A} (a b : list A) : a <> [] -> tl (a ++ b) = tl a ++ b.
  Proof. destruct a; [congruence|reflexivity]. Qed.

  Lemma hd_error_app {A} (a b : list A) x : hd_error a = Some x -> hd_error (a ++ b) = Some x.
  Proof. destruct a; simpl; [discriminate|auto]. Qed.

  Lemma nth_error_snoc_inv {A} (l : list A) x i y :
    nth_error (l ++ [x]) i = Some y -> (nth_error l i = Some y /\ (i < length l)%nat) \/ (i = length l /\ y = x).
  Proof.
    intros H. destruct (Nat.lt_ge_cases i (length l)) as [Hlt|Hge].
    - left. rewrite nth_error_app1 in H by exact Hlt. auto.
    - right. rewrite nth_error_app2 in H by exact Hge.
      destruct (i - length l)%nat as [|n] eqn:E; simpl in H.
      + injection H as <-. split; [lia|reflexivity].
      + destruct n; discriminate.
  Qed.

  (** one iteration that does not expand: the dequeued node has no successors *)
  Lemma inv_step_stop root st cur q r hits' al' :
    inv root st -> st_queue st = cur :: q -> stop_of g P cfg cur = Ok (Some r) ->
    hits' = (if is_sink_stop cur then cur :: st_hits st else st_hits st) ->
    inv root (mkState q (st_seen st) hits' al' (cur :: st_visited st) (N.succ (st_step st))).
  Proof.
    intros [I1 I2 I3 I4 I5 I6 I7] Eq Es Eh.
    assert (allq (mkState q (st_seen st) hits' al' (cur :: st_visited st) (N.succ (st_step st))) = allq st) as Ea.
    { unfold allq, chron. simpl. rewrite Eq. rewrite <- app_assoc. reflexivity. }
    assert (forall s, succs_at s cur = []) as Esu.
    { intros s. unfold succs_at, step_cands. rewrite Es. reflexivity. }
    constructor; rewrite ?Ea; auto.
    - unfold chron. simpl. rewrite app_length. simpl. rewrite I1. unfold chron. lia.
    - unfold chron. simpl. intros i v Hn w Hw. apply nth_error_snoc_inv in Hn as [[Hn _]|[-> ->]].
      + exact (I5 i v Hn w Hw).
      + rewrite Esu in Hw. destruct Hw.
    - intros p w Hp Hne. destruct (I6 p w Hp Hne) as (i & v & Hi & Hv & Hw).
      exists i, v. split; [exact Hi|]. split; [|exact Hw].
      unfold chron. simpl. rewrite nth_error_app1; [exact Hv|]. apply nth_error_Some. unfold chron in Hv. congruence.
    - simpl. rewrite Eh, I7. destruct (is_sink_stop cur); reflexivity.
  Qed.

  (** one iteration that expands *)
  Lemma inv_step_expand root st cur q cds q' seen' :
    inv root st -> st_queue st = cur :: q -> stop_of g P cfg cur = Ok None ->
    expand g cfg ord src (st_step st) cur = Ok cds ->
    add_all g P cfg ord (st_step st) 16 cur cds q (st_seen st) = Ok (q', seen') ->
    inv root (mkState q' seen' (st_hits st) (st_alarms st) (cur :: st_visited st) (N.succ (st_step st))).
  Proof.
    intros [I1 I2 I3 I4 I5 I6 I7] Eq Es Ee Ea.
    destruct (add_all_push _ _ _ _ _ _ _ Ea) as (l & Hl & Hp).
    assert (succs_at (st_step st) cur = l) as Esu.
    { unfold succs_at, step_cands. rewrite Es. simpl. rewrite Ee. simpl. rewrite Hl. reflexivity. }
    destruct (push_spec l q (st_seen st) _ I3 I4) as (new & H1 & H2 & H3 & H4 & H5).
    rewrite <- Hp in H1, H2. simpl in H1, H2. subst q'.
    assert (allq st <> []) as Hne by (intro E; rewrite E in I2; discriminate).
    assert (allq (mkState (q ++ new) seen' (st_hits st) (st_alarms st) (cur :: st_visited st) (N.succ (st_step st))) = allq st ++ new) as EA.
    { unfold allq, chron. simpl. rewrite Eq. rewrite <- !app_assoc. reflexivity. }
    constructor; rewrite ?EA; rewrite ?(tl_app_nonempty _ _ Hne); rewrite ?map_app; auto.
    - unfold chron. simpl. rewrite app_length. simpl. rewrite I1. unfold chron. lia.
    - apply hd_error_app. exact I2.
    - unfold chron. simpl. intros i v Hn w Hw. apply nth_error_snoc_inv in Hn as [[Hn _]|[-> ->]].
      + apply in_or_app. left. exact (I5 i v Hn w Hw).
      + unfold chron in I1. rewrite <- I1 in Hw. rewrite Esu in Hw. apply H4. exact Hw.
    - intros p w Hp' Hnz. destruct (Nat.lt_ge_cases p (length (allq st))) as [Hlt|Hge].
      + rewrite nth_error_app1 in Hp' by exact Hlt. destruct (I6 p w Hp' Hnz) as (i & v & Hi & Hv & Hw).
        exists i, v. split; [exact Hi|]. split; [|exact Hw].
        unfold chron. simpl. rewrite nth_error_app1; [exact Hv|]. apply nth_error_Some. unfold chron in Hv. congruence.
      + rewrite nth_error_app2 in Hp' by exact Hge. apply nth_error_In in Hp'. apply H5 in Hp'.
        exists (length (chron st)), cur. split.
        * unfold allq in Hge. rewrite app_length, Eq in Hge. simpl in Hge. lia.
        * split.
          -- unfold chron. simpl. rewrite nth_error_app2 by lia. rewrite Nat.sub_diag. reflexivity.
          -- rewrite <- I1. rewrite Esu. exact Hp'.
    - simpl. assert (is_sink_stop cur = false) as -> by (unfold is_sink_stop; rewrite Es; reflexivity). exact I7.
  Qed.

  Lemma is_sink_stop_iff cur : is_sink_stop cur = true <-> stop_of g P cfg cur = Ok (Some StSink).
  Proof.
    unfold is_sink_stop. destruct (stop_of g P cfg cur) as [[[]|]|]; split; intros H; try discriminate; reflexivity.
  Qed.

  (** the invariant holds along the whole run *)
  Lemma loop_inv root : forall fuel st st', inv root st -> loop g P cfg ord src fuel st = Done st' -> inv root st' /\ st_queue st' = [].
  Proof.
    induction fuel as [|fuel IH]; intros st st' Hi H; simpl in H; [discriminate|].
    destruct (st_queue st) as [|cur q] eqn:Eq.
    - injection H as <-. auto.
    - destruct (stop_of g P cfg cur) as [[r|]|c] eqn:Es; [| |discriminate].
      + destruct r.
        * apply IH in H; [exact H|]. eapply inv_step_stop; eauto. unfold is_sink_stop. rewrite Es. reflexivity.
        * destruct (_ && _); [discriminate|]. apply IH in H; [exact H|].
          eapply inv_step_stop; eauto. unfold is_sink_stop. rewrite Es. reflexivity.
        * apply IH in H; [exact H|]. eapply inv_step_stop; eauto. unfold is_sink_stop. rewrite Es. reflexivity.
        * apply IH in H; [exact H|]. eapply inv_step_stop; eauto. unfold is_sink_stop. rewrite Es. reflexivity.
      + destruct (expand g cfg ord src (st_step st) cur) as [cds|] eqn:Ee; [|discriminate].
        destruct (add_all g P cfg ord (st_step st) 16 cur cds q (st_seen st)) as [[q' seen']|] eqn:Ea; [|discriminate].
        apply IH in H; [exact H|]. eapply inv_step_expand; eauto.
  Qed.

  Lemma inv_init t al : inv (root_vnode src t) (init_state src t al).
  Proof.
    constructor; unfold allq, chron, init_state; simpl.
    - reflexivity.
    - reflexivity.
    - intros k. rewrite lt_mem_empty. split; [discriminate|intros []].
    - constructor.
    - intros i v Hn. destruct i; discriminate.
    - intros p w Hp Hnz. destruct p; [congruence|]. destruct p; discriminate.
    - reflexivity.
  Qed.

  (** ** [visit_closure] *)
  Theorem visit_closure_lemma fuel t al st :
    visit g P cfg ord src fuel t al = Done st ->
    let V := rev (st_visited st) in
    hd_error V = Some (root_vnode src t) /\
    (forall i v, nth_error V i = Some v -> forall w, In w (succs_at (N.of_nat i) v) -> exists w', In w' V /\ vkey w' = vkey w) /\
    (forall p w, nth_error V p = Some w -> p <> 0%nat ->
                 exists i v, (i < p)%nat /\ nth_error V i = Some v /\ In w (succs_at (N.of_nat i) v)) /\
    NoDup (map vkey (tl V)) /\
    st_hits st = filter is_sink_stop (st_visited st).
  Proof.
    unfold visit. intros H. destruct (loop_inv _ _ _ _ (inv_init t al) H) as [[I1 I2 I3 I4 I5 I6 I7] Hq].
    unfold allq, chron in *. rewrite Hq, app_nil_r in *. simpl.
    split; [exact I2|]. split.
    - intros i v Hn w Hw. specialize (I5 i v Hn w Hw). apply in_map_iff in I5 as (w' & E & Hin).
      exists w'. split; [apply in_tl; exact Hin|exact E].
    - split; [exact I6|]. split; [exact I4|exact I7].
  Qed.
End Closure.

(** ** [order_indep] *)

(** successors are determined by keys, across the two oracles (and across iteration numbers) *)
Definition key_determines_succ (g : graph) (P : preds) (cfg : config) (src : id) (o1 o2 : oracle) : Prop :=
  forall s1 s2 v1 v2, vkey v1 = vkey v2 ->
  forall w, In w (succs_at g P cfg o1 src s1 v1) -> exists w', In w' (succs_at g P cfg o2 src s2 v2) /\ vkey w' = vkey w.

Lemma keys_included g P cfg src oa ob fuela fuelb t ala alb sta stb :
  key_determines_succ g P cfg src oa ob ->
  visit g P cfg oa src fuela t ala = Done sta -> visit g P cfg ob src fuelb t alb = Done stb ->
  forall v, In v (st_visited sta) -> exists v', In v' (st_visited stb) /\ vkey v' = vkey v.
Proof.
  intros KD Ha Hb.
  destruct (visit_closure_lemma _ _ _ _ _ _ _ _ _ Ha) as (A1 & _ & A3 & _).
  destruct (visit_closure_lemma _ _ _ _ _ _ _ _ _ Hb) as (B1 & B2 & _ & _).
  assert (forall p w, nth_error (rev (st_visited sta)) p = Some w ->
                      exists v', In v' (rev (st_visited stb)) /\ vkey v' = vkey w) as Hall.
  { induction p as [p IHp] using lt_wf_ind. intros w Hp.
    destruct p as [|p].
    - assert (w = root_vnode src t) as -> by (eapply nth0_hd; eauto).
      exists (root_vnode src t). split; [apply hd_error_in; exact B1|reflexivity].
    - destruct (A3 (S p) w Hp (Nat.neq_succ_0 p)) as (i & v & Hi & Hv & Hw).
      destruct (IHp i Hi v Hv) as (v2 & Hin2 & Ek).
      apply In_nth_error in Hin2 as (i2 & Hi2).
      destruct (KD (N.of_nat i) (N.of_nat i2) v v2 (eq_sym Ek) w Hw) as (w' & Hw' & Ew).
      destruct (B2 i2 v2 Hi2 w' Hw') as (w'' & Hin & Ew'').
      exists w''. split; [exact Hin|congruence]. }
  intros v Hv. apply in_rev in Hv. apply In_nth_error in Hv as (p & Hp).
  destruct (Hall p v Hp) as (v' & Hin & E). exists v'. split; [apply in_rev; exact Hin|exact E].
Qed.

(** same visited keys and same reported sinks (sink node + call trace) under both iteration orders *)
Theorem order_indep_lemma g P cfg src o1 o2 fuel1 fuel2 t al1 al2 st1 st2 :
  key_determines_succ g P cfg src o1 o2 -> key_determines_succ g P cfg src o2 o1 ->
  visit g P cfg o1 src fuel1 t al1 = Done st1 -> visit g P cfg o2 src fuel2 t al2 = Done st2 ->
  (forall k, In k (map vkey (st_visited st1)) <-> In k (map vkey (st_visited st2))) /\
  (forall n tr, In (n, tr) (map (fun v => (v_node v, v_trace v)) (st_hits st1)) <->
                In (n, tr) (map (fun v => (v_node v, v_trace v)) (st_hits st2))).
Proof.
  intros KD12 KD21 H1 H2.
  pose proof (keys_included _ _ _ _ _ _ _ _ _ _ _ _ _ KD12 H1 H2) as K12.
  pose proof (keys_included _ _ _ _ _ _ _ _ _ _ _ _ _ KD21 H2 H1) as K21.
  split.
  - intros k. split; intros Hk; apply in_map_iff in Hk as (v & <- & Hv).
    + destruct (K12 v Hv) as (v' & Hin & E). rewrite <- E. apply in_map. exact Hin.
    + destruct (K21 v Hv) as (v' & Hin & E). rewrite <- E. apply in_map. exact Hin.
  - destruct (visit_closure_lemma _ _ _ _ _ _ _ _ _ H1) as (_ & _ & _ & _ & Eh1).
    destruct (visit_closure_lemma _ _ _ _ _ _ _ _ _ H2) as (_ & _ & _ & _ & Eh2).
    assert (forall (sa sb : state), st_hits sa = filter (is_sink_stop g P cfg) (st_visited sa) ->
              st_hits sb = filter (is_sink_stop g P cfg) (st_visited sb) ->
              (forall v, In v (st_visited sa) -> exists v', In v' (st_visited sb) /\ vkey v' = vkey v) ->
              forall n tr, In (n, tr) (map (fun v => (v_node v, v_trace v)) (st_hits sa)) ->
                           In (n, tr) (map (fun v => (v_node v, v_trace v)) (st_hits sb))) as Hdir.
    { intros sa sb Ea Eb Kab n tr Hin. rewrite Ea in Hin. apply in_map_iff in Hin as (v & Ev & Hv).
      apply filter_In in Hv as [Hv Hs]. destruct (Kab v Hv) as (v' & Hin' & Ek).
      rewrite Eb. apply in_map_iff. exists v'. split.
      - apply vkey_inj in Ek as (En & Et & _). rewrite En, Et. exact Ev.
      - apply filter_In. split; [exact Hin'|]. unfold is_sink_stop in *. rewrite (stop_of_key g P cfg _ _ Ek). exact Hs. }
    intros n tr. split; [apply (Hdir st1 st2 Eh1 Eh2 K12)|apply (Hdir st2 st1 Eh2 Eh1 K21)].
Qed.
