(** * Top-level statements about the MapParallel model (C20), closed over all element types, functions,
      inputs, worker counts and schedules. *)
From Coq Require Import List Arith Bool ZArith Lia.
From Argot Require Import Model.MapPar Proofs.MapPar.
Import ListNotations.

(** every state reached from the initial state by enabled decisions *)
Definition reachable {A B} (f : A -> B) (zero : B) (xs : list A) (nr : Z) (s : state A B) : Prop :=
  exists tr, exec A B f zero tr (init A B xs nr) = Some s.

Definition stuck {A B} (f : A -> B) (zero : B) (s : state A B) : Prop := forall c, step A B f zero c s = None.

Lemma reachable_inv {A B} (f : A -> B) zero xs nr s :
  reachable f zero xs nr s -> Inv A B f zero xs s.
Proof. intros [tr H]. eapply exec_inv; eauto. apply inv_init. Qed.

(** under EVERY scheduler the run from the initial state executes exactly [bound] steps, then nothing is enabled,
    the result is the sequential map in input order and every thread has terminated *)
Lemma mappar_correct_sched A B (f : A -> B) (zero : B) (xs : list A) (nr : Z) (sched : nat -> nat) :
  let n := nworkers nr in
  let r := run A B f zero (bound (length xs) n) sched (init A B xs nr) in
  snd r = bound (length xs) n /\
  st_result (fst r) = Some (Some (map f xs)) /\
  all_terminated A B (fst r) = true /\
  enabled A B f zero (fst r) = [].
Proof.
  intros n r.
  destruct (run_correct A B f zero xs (bound (length xs) n) (init A B xs nr) sched (inv_init A B f zero xs nr))
    as (F & K & I).
  { rewrite measure_init. apply Nat.le_refl. }
  fold r in F, K, I. rewrite measure_init in K.
  destruct (final_correct A B f zero xs (fst r) I F) as (R & T & Z).
  repeat split; auto.
  destruct (enabled A B f zero (fst r)) as [|c l] eqn:E; auto. exfalso.
  assert (Hc : In c (enabled A B f zero (fst r))) by (rewrite E; now left).
  apply enabled_step in Hc. destruct Hc as (s' & Hs).
  apply (step_measure A B f zero xs) in Hs; auto. lia.
Qed.

(** every run (any sequence of enabled decisions) has at most [bound] steps; a maximal one has exactly [bound]
    steps and ends with the right result and no live thread *)
Lemma mappar_every_run A B (f : A -> B) (zero : B) (xs : list A) (nr : Z) tr s :
  exec A B f zero tr (init A B xs nr) = Some s ->
  length tr <= bound (length xs) (nworkers nr) /\
  (stuck f zero s ->
   length tr = bound (length xs) (nworkers nr) /\ st_result s = Some (Some (map f xs)) /\
   all_terminated A B s = true).
Proof.
  intros H. destruct (exec_inv A B f zero xs tr _ _ (inv_init A B f zero xs nr) H) as [I M].
  rewrite measure_init in M. split; [lia|]. intros S.
  assert (F : final A B s = true).
  { destruct (final A B s) eqn:F; auto. destruct (deadlock_free A B f zero xs s I F) as (c & s' & Hc).
    rewrite S in Hc. discriminate. }
  destruct (final_correct A B f zero xs s I F) as (R & T & Z). repeat split; auto. lia.
Qed.

(** no result is visible before the end, and an index panic never happens *)
Lemma mappar_result_sound A B (f : A -> B) (zero : B) (xs : list A) (nr : Z) s :
  reachable f zero xs nr s ->
  st_result s = None \/ st_result s = Some (Some (map f xs)).
Proof.
  intros R. pose proof (reachable_inv f zero xs nr s R) as I.
  destruct (final A B s) eqn:F.
  - right. now destruct (final_correct A B f zero xs s I F).
  - left. apply (i_notdone A B f zero xs s I). unfold final in F. destruct (st_main s); congruence.
Qed.

Lemma mappar_deadlock_free A B (f : A -> B) (zero : B) (xs : list A) (nr : Z) s :
  reachable f zero xs nr s -> final A B s = false -> exists c, step A B f zero c s <> None.
Proof.
  intros R F. destruct (deadlock_free A B f zero xs s (reachable_inv f zero xs nr s R) F) as (c & s' & H).
  exists c. congruence.
Qed.

(** the data invariant itself, for every reachable state: every index 0..len-1 is exactly once unsent, in flight
    at a worker, or collected, and carries x_i resp. f x_i *)
Lemma mappar_conservation A B (f : A -> B) (zero : B) (xs : list A) (nr : Z) s :
  reachable f zero xs nr s ->
  Permutation.Permutation
    (map (fi A B f) (indexed A xs))
    (map (fi A B f) (st_unsent s) ++ flat_map (pending A B f) (st_workers s) ++ st_collected s).
Proof. intros R. apply (i_perm A B f zero xs s (reachable_inv f zero xs nr s R)). Qed.
