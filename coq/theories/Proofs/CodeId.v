(** * Lemmas about the code-identifier model (C04)

    All statements are for an arbitrary regex engine [rmatch] unless they are [_refuted] lemmas, whose witnesses use
    the literal matcher [lit_match] (plain pattern = substring search, "^...$" = equality), a restriction of RE2 to
    patterns without metacharacters. *)
From Coq Require Import String List Bool Ascii.
From Argot Require Import Model.CodeId.
Import ListNotations.
Open Scope string_scope.

Lemma is_empty_spec : forall s, is_empty s = true <-> s = "".
Proof. intros [|a s]; simpl; split; intro H; try reflexivity; discriminate. Qed.

Lemma all_flds_complete : forall f, In f all_flds.
Proof. intros []; simpl; tauto. Qed.

Lemma forallb_all_flds : forall p, forallb p all_flds = true <-> forall f, p f = true.
Proof.
  intro p. rewrite forallb_forall. split; intros H f; [apply H, all_flds_complete | intros _; apply H].
Qed.

Section Matcher.
  Variable rmatch : string -> string -> bool.

  (** ** The matcher is the conjunction the code computes *)

  Lemma fld_ok_compiled : forall sp c f, sp_compiled sp = true ->
    (fld_ok rmatch sp c f = true <-> get (sp_cid sp) f = "" \/ rmatch (spec_regex (sp_cid sp) f) (get c f) = true).
  Proof.
    intros sp c f Hc. unfold fld_ok. rewrite Hc, orb_true_iff, is_empty_spec. tauto.
  Qed.

  Lemma fld_ok_uncompiled : forall sp c f, sp_compiled sp = false ->
    (fld_ok rmatch sp c f = true <-> get (sp_cid sp) f = "" \/ uncompiled_cand c f = get (sp_cid sp) f).
  Proof.
    intros sp c f Hc. unfold fld_ok. rewrite Hc, orb_true_iff, is_empty_spec, String.eqb_eq. tauto.
  Qed.

  Lemma match_spec : forall sp c, sp_compiled sp = true ->
    (match1 rmatch sp c = true <->
     (forall f, get (sp_cid sp) f = "" \/ rmatch (spec_regex (sp_cid sp) f) (get c f) = true)
     /\ c_kind (sp_cid sp) = c_kind c).
  Proof.
    intros sp c Hc. unfold match1. rewrite andb_true_iff, forallb_all_flds, String.eqb_eq.
    split; intros [H1 H2]; split; auto; intro f; apply (fld_ok_compiled sp c f Hc); auto.
  Qed.

  Lemma match_spec_uncompiled : forall sp c, sp_compiled sp = false ->
    (match1 rmatch sp c = true <->
     (forall f, get (sp_cid sp) f = "" \/ uncompiled_cand c f = get (sp_cid sp) f)
     /\ c_kind (sp_cid sp) = c_kind c).
  Proof.
    intros sp c Hc. unfold match1. rewrite andb_true_iff, forallb_all_flds, String.eqb_eq.
    split; intros [H1 H2]; split; auto; intro f; apply (fld_ok_uncompiled sp c f Hc); auto.
  Qed.

  Lemma match_ideal_spec : forall sp c,
    match_ideal rmatch sp c = true <->
    (forall f, get sp f = "" \/ rmatch (get sp f) (get c f) = true) /\ c_kind sp = c_kind c.
  Proof.
    intros sp c. unfold match_ideal. rewrite andb_true_iff, forallb_all_flds, String.eqb_eq.
    unfold fld_ok_ideal.
    split; intros [H1 H2]; split; auto; intro f; specialize (H1 f);
      rewrite orb_true_iff, is_empty_spec in *; tauto.
  Qed.

  (** where the code and the property coincide: identifiers without an [interface] field *)
  Lemma spec_regex_no_iface : forall s f, c_interface s = "" -> get s f = "" \/ spec_regex s f = get s f.
  Proof. intros s [] H; simpl; auto. Qed.

  Lemma match1_ideal_no_iface : forall sp c, sp_compiled sp = true -> c_interface (sp_cid sp) = "" ->
    match1 rmatch sp c = match_ideal rmatch (sp_cid sp) c.
  Proof.
    intros sp c Hc Hi.
    apply eq_true_iff_eq. rewrite (match_spec sp c Hc), match_ideal_spec.
    split; intros [H1 H2]; split; auto; intro f; specialize (H1 f);
      destruct (spec_regex_no_iface (sp_cid sp) f Hi) as [E|E]; auto; rewrite E in *; auto.
  Qed.

  (** ** Classification = some candidate is accepted by some specification *)

  Lemma exists_cid_spec : forall specs c,
    exists_cid rmatch specs c = true <-> exists sp, In sp specs /\ match1 rmatch sp c = true.
  Proof. intros. unfold exists_cid. apply existsb_exists. Qed.

  Lemma classify_spec : forall specs cands,
    classify rmatch specs cands = true <->
    exists c sp, In c cands /\ In sp specs /\ match1 rmatch sp c = true.
  Proof.
    intros. unfold classify. rewrite existsb_exists. split.
    - intros [c [Hc H]]. apply exists_cid_spec in H. destruct H as [sp [Hs Hm]]. eauto.
    - intros [c [sp [Hc [Hs Hm]]]]. exists c. split; auto. apply exists_cid_spec. eauto.
  Qed.

  Lemma classify_ideal_spec : forall specs ids,
    classify_ideal rmatch specs ids = true <->
    exists c sp, In c ids /\ In sp specs /\ match_ideal rmatch sp c = true.
  Proof.
    intros. unfold classify_ideal. rewrite existsb_exists. split.
    - intros [c [Hc H]]. apply existsb_exists in H. destruct H as [sp [Hs Hm]]. eauto.
    - intros [c [sp [Hc [Hs Hm]]]]. exists c. split; auto. apply existsb_exists. eauto.
  Qed.

  (** the config-wide oracles answer for EVERY problem of the configuration, whatever its position *)
  Lemma is_some_spec : forall sel cfg c,
    is_some rmatch sel cfg c = true <-> exists p, In p cfg /\ exists_cid rmatch (sel p) c = true.
  Proof. intros. unfold is_some. apply existsb_exists. Qed.

  Lemma is_some_app : forall sel cfg1 cfg2 c,
    is_some rmatch sel (cfg1 ++ cfg2) c = is_some rmatch sel cfg1 c || is_some rmatch sel cfg2 c.
  Proof. intros. unfold is_some. apply existsb_app. Qed.

  (** position independence: an accepting problem anywhere in the list suffices (first, middle or last) *)
  Lemma is_some_position : forall sel pre p post c,
    exists_cid rmatch (sel p) c = true -> is_some rmatch sel (pre ++ p :: post) c = true.
  Proof.
    intros. apply is_some_spec. exists p. split; auto. apply in_or_app. right. left. reflexivity.
  Qed.

  Lemma node_of_interest_spec : forall cfg cands,
    node_of_interest rmatch cfg cands = true <->
    exists p, In p cfg /\ (classify rmatch (p_sources p) cands = true \/ classify rmatch (p_sinks p) cands = true).
  Proof.
    intros. unfold node_of_interest, classify. rewrite orb_true_iff, !existsb_exists. split.
    - intros [[c [Hc H]] | [c [Hc H]]]; apply is_some_spec in H; destruct H as [p [Hp H]]; exists p; split; auto;
        [left | right]; apply existsb_exists; eauto.
    - intros [p [Hp [H | H]]]; apply existsb_exists in H; destruct H as [c [Hc H]]; [left | right];
        exists c; split; auto; apply is_some_spec; eauto.
  Qed.

  Definition plain (sp : spec) : Prop := sp_compiled sp = true /\ c_interface (sp_cid sp) = "".

  (** a single candidate that IS the identity: the verdict is the property's verdict *)
  Lemma classify_single_identity : forall specs c, Forall plain specs ->
    classify rmatch specs [c] = classify_ideal rmatch (map sp_cid specs) [c].
  Proof.
    intros specs c Hp. unfold classify, classify_ideal. simpl. rewrite !orb_false_r.
    unfold exists_cid. induction specs as [|sp r IH]; simpl; auto.
    inversion Hp as [|? ? [Hc Hi] Hr]; subst.
    rewrite (match1_ideal_no_iface sp c Hc Hi), (IH Hr). reflexivity.
  Qed.

  Lemma classify_nil : forall specs, classify rmatch specs [] = false.
  Proof. reflexivity. Qed.

  (** ** Call forms *)

  (** the receiver the tool derives from the printed receiver type is the callee's receiver type name *)
  Definition wf_callee (k : callee) : Prop :=
    if is_empty (k_recv k) then True else receiver_str (k_recv_type k) = k_recv k.

  Definition sink_of (specs : list spec) (f : form) (k : callee) (e : env) : bool :=
    classify rmatch specs (call_cands (site_of f k e) (Some (node_callee f k))).

  Definition entry_of (fvpkg : string -> string) (specs : list spec) (f : form) (k : callee) (e : env) : bool :=
    classify rmatch specs (entry_cands fvpkg (site_of f k e)).

  Definition ideal_of (specs : list spec) (k : callee) (e : env) : bool :=
    classify_ideal rmatch (map sp_cid specs) [identity k e].

  Definition direct_form (f : form) : Prop :=
    f = Static \/ f = Method \/ f = Deferred \/ f = GoCall \/ f = InClosure.

  Lemma call_cands_direct : forall i k e, wf_callee k ->
    call_cands (direct_site i k e) (Some (mkFn (k_pkg k) (k_name k) (k_str k))) = [identity k e].
  Proof.
    intros i k e Hw. unfold call_cands, direct_site, identity, wf_callee in *. simpl.
    destruct (is_empty (k_recv k)) eqn:E.
    - apply is_empty_spec in E. rewrite E. reflexivity.
    - rewrite Hw. reflexivity.
  Qed.

  (** sinks and sanitizers: the five direct forms classify exactly as the property demands *)
  Lemma form_indep_sink_direct : forall specs f k e, Forall plain specs -> wf_callee k -> direct_form f ->
    sink_of specs f k e = ideal_of specs k e.
  Proof.
    intros specs f k e Hp Hw Hf. unfold sink_of, ideal_of.
    assert (H : call_cands (site_of f k e) (Some (node_callee f k)) = [identity k e]).
    { destruct Hf as [-> | [-> | [-> | [-> | ->]]]]; simpl; apply call_cands_direct; auto. }
    rewrite H. apply classify_single_identity; auto.
  Qed.

  Lemma match_ideal_ext : forall sp c c',
    (forall f, get sp f = "" \/ get c f = get c' f) -> c_kind c = c_kind c' ->
    match_ideal rmatch sp c = match_ideal rmatch sp c'.
  Proof.
    intros sp c c' H Hk. unfold match_ideal. rewrite Hk. f_equal.
    unfold all_flds. simpl.
    repeat match goal with
           | |- context [fld_ok_ideal rmatch sp c ?f] =>
               replace (fld_ok_ideal rmatch sp c f) with (fld_ok_ideal rmatch sp c' f)
                 by (unfold fld_ok_ideal; destruct (H f) as [E|E]; rewrite E; [rewrite !orb_true_r|]; reflexivity)
           end.
    reflexivity.
  Qed.

  Lemma classify_ideal_ext : forall specs c c',
    (forall sp f, In sp specs -> get sp f = "" \/ get c f = get c' f) -> c_kind c = c_kind c' ->
    classify_ideal rmatch specs [c] = classify_ideal rmatch specs [c'].
  Proof.
    intros specs c c' H Hk. unfold classify_ideal. simpl. rewrite !orb_false_r.
    induction specs as [|sp r IH]; simpl; auto.
    rewrite (match_ideal_ext sp c c'); [rewrite IH; auto|intro f; apply H; left; auto|auto].
    intros sp' f Hin. apply H. right. auto.
  Qed.

  (** specifications an entry candidate can be faithful to: no [value-match] (entry candidates carry none) *)
  Definition entry_plain (sp : spec) : Prop := plain sp /\ c_valuematch (sp_cid sp) = "".

  Lemma entry_plain_plain : forall specs, Forall entry_plain specs -> Forall plain specs.
  Proof. intros specs H. eapply Forall_impl; [|exact H]. intros a [Hp _]. exact Hp. Qed.

  (** sources and backtrace points: direct CALLS of plain functions that are not address-taken *)
  Lemma form_indep_entry_direct : forall fvpkg specs f k e, Forall entry_plain specs ->
    k_recv k = "" -> e_addr_taken e = false -> (f = Static \/ f = Method \/ f = InClosure) ->
    entry_of fvpkg specs f k e = ideal_of specs k e.
  Proof.
    intros fvpkg specs f k e Hp Hr Ha Hf. unfold entry_of, ideal_of.
    assert (H : entry_cands fvpkg (site_of f k e) =
                [mkCid (e_parent e) (k_pkg k) "" (k_name k) "" "" "" "" ""]).
    { destruct Hf as [-> | [-> | ->]]; unfold entry_cands, alias_cands; simpl; rewrite Ha; reflexivity. }
    rewrite H. rewrite (classify_single_identity specs _ (entry_plain_plain _ Hp)).
    apply classify_ideal_ext; [|reflexivity].
    intros sp f0 Hin. apply in_map_iff in Hin. destruct Hin as [sp0 [<- Hin0]].
    rewrite Forall_forall in Hp. destruct (Hp sp0 Hin0) as [_ Hv].
    unfold identity. rewrite Hr. destruct f0; simpl; auto.
  Qed.

  (** the same for statically called METHODS, when no specification constrains the receiver *)
  Lemma form_indep_entry_method : forall fvpkg specs f k e, Forall entry_plain specs ->
    Forall (fun sp => c_receiver (sp_cid sp) = "") specs -> e_addr_taken e = false ->
    (f = Static \/ f = Method \/ f = InClosure) ->
    entry_of fvpkg specs f k e = ideal_of specs k e.
  Proof.
    intros fvpkg specs f k e Hp Hrc Ha Hf. unfold entry_of, ideal_of.
    assert (H : entry_cands fvpkg (site_of f k e) =
                [mkCid (e_parent e) (k_pkg k) "" (k_name k) "" "" "" "" ""]).
    { destruct Hf as [-> | [-> | ->]]; unfold entry_cands, alias_cands; simpl; rewrite Ha; reflexivity. }
    rewrite H. rewrite (classify_single_identity specs _ (entry_plain_plain _ Hp)).
    apply classify_ideal_ext; [|reflexivity].
    intros sp f0 Hin. apply in_map_iff in Hin. destruct Hin as [sp0 [<- Hin0]].
    rewrite Forall_forall in Hp, Hrc. destruct (Hp sp0 Hin0) as [_ Hv]. specialize (Hrc sp0 Hin0).
    unfold identity. destruct f0; simpl; auto.
  Qed.

  (** with the proposed fix ([fvpkg] = the package path) a function-value source with a single possible callee is
      identified exactly, for specifications without context / value-match *)
  Lemma funcvalue_entry_pkgpath : forall specs k e, Forall entry_plain specs ->
    Forall (fun sp => c_context (sp_cid sp) = "") specs -> k_recv k = "" -> e_other_aliases e = [] ->
    entry_of pkg_path specs FuncValue k e = ideal_of specs k e.
  Proof.
    intros specs k e Hp Hctx Hr Ho. unfold entry_of, ideal_of.
    assert (H : entry_cands pkg_path (site_of FuncValue k e) = [mkCid "" (k_pkg k) "" (k_name k) "" "" "" "" ""]).
    { unfold entry_cands, alias_cands, pkg_path. simpl. rewrite Ho. reflexivity. }
    rewrite H. rewrite (classify_single_identity specs _ (entry_plain_plain _ Hp)).
    apply classify_ideal_ext; [|reflexivity].
    intros sp f0 Hin. apply in_map_iff in Hin. destruct Hin as [sp0 [<- Hin0]].
    rewrite Forall_forall in Hp, Hctx. destruct (Hp sp0 Hin0) as [_ Hv]. specialize (Hctx sp0 Hin0).
    unfold identity. rewrite Hr. destruct f0; simpl; auto.
  Qed.

  (** ** Type kinds *)

  Definition op_entry (specs : list spec) (o : op) : bool := classify rmatch specs (op_cands o).
  Definition op_sink (specs : list spec) (o : op) : bool := classify rmatch specs (op_sink_cands o).
  Definition op_ideal (specs : list spec) (o : op) : bool := classify_ideal rmatch (map sp_cid specs) (op_ids o).

  Lemma type_kinds_exact : forall specs o,
    op_entry specs o = true <->
    exists pt sp, elt (o_ty o) "" = Some pt /\ In sp specs /\ match1 rmatch sp (op_cid o pt) = true.
  Proof.
    intros specs o. unfold op_entry, op_cands. destruct (elt (o_ty o) "") as [pt|].
    - rewrite classify_spec. split.
      + intros [c [sp [[<-|[]] [Hs Hm]]]]. exists pt, sp. auto.
      + intros [pt' [sp [E [Hs Hm]]]]. inversion E; subst. exists (op_cid o pt'), sp. simpl. auto.
    - split; [discriminate|]. intros [pt [sp [E _]]]. discriminate.
  Qed.

  (** an identifier selects only instructions of its own kind: "store" stores, "channel receive" receives,
      "" field reads / field addresses / allocations *)
  Lemma type_kind_selects : forall sp o pt, match1 rmatch sp (op_cid o pt) = true ->
    c_kind (sp_cid sp) = op_kind_str (o_kind o).
  Proof.
    intros sp o pt H. unfold match1 in H. apply andb_true_iff in H. destruct H as [_ H].
    apply String.eqb_eq in H. exact H.
  Qed.

  Lemma op_sink_only_stores : forall specs o, op_sink specs o = true -> o_kind o = OStore.
  Proof.
    intros specs o. unfold op_sink, op_sink_cands. destruct (o_kind o); simpl; try discriminate. reflexivity.
  Qed.

  (** where package name and package path of the element's named type coincide, the selection is the property's *)
  Fixpoint name_is_path (t : ty) : Prop :=
    match t with
    | TPtr e | TArray _ e | TMap _ e | TSlice e | TChan e => name_is_path e
    | TNamed pn pp _ => pn = pp
    | _ => True
    end.

  Lemma elt_path_eq : forall t pre, name_is_path t -> elt_path t pre = elt t pre.
  Proof.
    induction t; intros pre H; simpl in *; auto.
    subst. destruct pkgpath; reflexivity.
  Qed.

  Lemma type_kinds_path_partial : forall specs o, Forall plain specs -> name_is_path (o_ty o) ->
    op_entry specs o = op_ideal specs o.
  Proof.
    intros specs o Hp Hn. unfold op_entry, op_ideal, op_cands, op_ids. rewrite (elt_path_eq _ _ Hn).
    destruct (elt (o_ty o) "") as [pt|].
    - apply classify_single_identity; auto.
    - unfold classify, classify_ideal. reflexivity.
  Qed.

  (** ** Interface expansion *)
  Lemma expand_sinks_spec : forall tbl sinks sp,
    In sp (expand_sinks tbl sinks) <-> In sp sinks \/ exists ci, In ci sinks /\ In sp (expand_one tbl ci).
  Proof.
    intros. unfold expand_sinks. rewrite in_app_iff, in_flat_map. tauto.
  Qed.

  Lemma expand_one_no_interface : forall tbl ci, c_interface (sp_cid ci) = "" -> expand_one tbl ci = [].
  Proof. intros tbl ci H. unfold expand_one. rewrite H. reflexivity. Qed.
End Matcher.

(** ** Where the faithful model violates the property: concrete witnesses

    [lit_match]: RE2 restricted to literal patterns: "^body$" = equality, "^body" = prefix, "body" = substring. *)
Definition caret : ascii := "^"%char.
Definition dollar : ascii := "$"%char.

Fixpoint strip_dollar (s : string) : option string :=
  match s with
  | EmptyString => None
  | String c EmptyString => if Ascii.eqb c dollar then Some EmptyString else None
  | String c r => match strip_dollar r with Some r' => Some (String c r') | None => None end
  end.

Definition lit_match (p s : string) : bool :=
  match p with
  | EmptyString => true
  | String c r =>
      if Ascii.eqb c caret then
        match strip_dollar r with Some body => String.eqb body s | None => prefixb r s end
      else containsb p s
  end.

Definition sp_pm (pkg meth : string) : spec := mkSpec (mkCid "" pkg "" meth "" "" "" "" "") true.
Definition sp_pmr (pkg meth recv : string) : spec := mkSpec (mkCid "" pkg "" meth recv "" "" "" "") true.

Definition k_source : callee := mkCallee "q3" "source" "" "" "q3.source".
Definition k_method : callee := mkCallee "q3/impl" "Read" "T" "*q3/impl.T" "(*q3/impl.T).Read".
Definition e_apply : env := mkEnv "q3.apply" "f" "f()" true "" "" [].
Definition e_main : env := mkEnv "q3.main" "t1" "q3.source()" false "io" "io.Reader" [].
Definition e_main_taken : env := mkEnv "q3.main" "t1" "q3.source()" true "io" "io.Reader" [].

(** F9: `func apply(f func() string) { sink(f()) }` called with `source`: identified under "q3", not under "^q3$" *)
Lemma funcvalue_package_string_refuted :
  entry_of lit_match pkg_string [sp_pm "^q3$" "source"] FuncValue k_source e_apply = false /\
  ideal_of lit_match [sp_pm "^q3$" "source"] k_source e_apply = true /\
  entry_of lit_match pkg_string [sp_pm "q3" "source"] FuncValue k_source e_apply = true /\
  entry_of lit_match pkg_string [sp_pm "^q3$" "source"] Static k_source e_main = true.
Proof. vm_compute. auto. Qed.

(** ... and the proposed fix repairs exactly this *)
Lemma funcvalue_package_string_fixed :
  entry_of lit_match pkg_path [sp_pm "^q3$" "source"] FuncValue k_source e_apply = true.
Proof. vm_compute. auto. Qed.

(** the points-to candidate also exists for static calls of address-taken functions: "age q3" identifies q3.source *)
Lemma static_alias_refuted :
  entry_of lit_match pkg_string [sp_pm "age q3" "source"] Static k_source e_main_taken = true /\
  ideal_of lit_match [sp_pm "age q3" "source"] k_source e_main_taken = false.
Proof. vm_compute. auto. Qed.

(** the [Interface] conjunct uses the package regex *)
Lemma iface_field_refuted :
  let sp := mkSpec (mkCid "" "" "Logger" "" "" "" "" "" "") true in
  let c := mkCid "q3.main" "q3" "" "anything" "" "" "" "" "" in
  match1 lit_match sp c = true /\ match_ideal lit_match (sp_cid sp) c = false.
Proof. vm_compute. auto. Qed.

(** invoked source: the Receiver candidate is the SSA register *)
Lemma receiver_entry_refuted_invoke :
  entry_of lit_match pkg_string [sp_pmr "io" "Read" "Reader"] IfaceInvoke k_method e_main = false /\
  entry_of lit_match pkg_string [sp_pmr "io" "Read" "^t1$"] IfaceInvoke k_method e_main = true /\
  entry_of lit_match pkg_string [sp_pmr "" "Read" "^T$"] IfaceInvoke k_method e_main = false /\
  ideal_of lit_match [sp_pmr "" "Read" "^T$"] k_method e_main = true.
Proof. vm_compute. auto. Qed.

(** invoked callee: only the package declaring the interface is matched *)
Lemma invoke_interface_package_refuted :
  entry_of lit_match pkg_string [sp_pm "^q3/impl$" "Read"] IfaceInvoke k_method e_main = false /\
  sink_of lit_match [sp_pm "^q3/impl$" "Read"] IfaceInvoke k_method e_main = false /\
  ideal_of lit_match [sp_pm "^q3/impl$" "Read"] k_method e_main = true.
Proof. vm_compute. auto. Qed.

(** statically called method as source: the candidate has no receiver *)
Lemma entry_receiver_empty_refuted :
  entry_of lit_match pkg_string [sp_pmr "q3/impl" "Read" "T"] Method k_method e_main = false /\
  ideal_of lit_match [sp_pmr "q3/impl" "Read" "T"] k_method e_main = true /\
  sink_of lit_match [sp_pmr "q3/impl" "Read" "T"] Method k_method e_main = true.
Proof. vm_compute. auto. Qed.

(** entry candidates carry no value-match *)
Lemma entry_valuematch_refuted :
  let sp := mkSpec (mkCid "" "q3" "" "source" "" "" "" "" "source\(") true in
  entry_of lit_match pkg_string [sp_pm "q3" "source"] Static k_source e_main = true /\
  entry_of lit_match pkg_string [mkSpec (mkCid "" "q3" "" "source" "" "" "" "" "q3.source") true] Static k_source e_main = false /\
  ideal_of lit_match [mkSpec (mkCid "" "q3" "" "source" "" "" "" "" "q3.source") true] k_source e_main = true.
Proof. vm_compute. auto. Qed.

(** deferred and go calls, method values and method expressions are never entry points *)
Lemma entry_defer_go_never : forall rmatch fvpkg specs k e,
  entry_of rmatch fvpkg specs Deferred k e = false /\ entry_of rmatch fvpkg specs GoCall k e = false.
Proof. intros. split; reflexivity. Qed.

Lemma entry_method_wrapper_never : forall rmatch fvpkg specs k e,
  entry_of rmatch fvpkg specs MethodValue k e = false /\ entry_of rmatch fvpkg specs MethodExpr k e = false.
Proof.
  intros. split; unfold entry_of, entry_cands, alias_cands; simpl; [reflexivity|].
  destruct (e_addr_taken e); reflexivity.
Qed.

Lemma entry_defer_refuted :
  entry_of lit_match pkg_string [sp_pm "q3" "source"] Deferred k_source e_main = false /\
  ideal_of lit_match [sp_pm "q3" "source"] k_source e_main = true.
Proof. vm_compute. auto. Qed.

(** method value / expression as sink: matched under the wrapper's name (method expression: at the call node;
    method value: only through the callee-parameter candidate of an argument), never under "^Read$" *)
Definition arg_sink_of (specs : list spec) (f : form) (k : callee) (e : env) : bool :=
  classify lit_match specs (arg_cands (site_of f k e) (Some (node_callee f k)) (Some (node_callee f k))).

Lemma method_wrapper_refuted :
  sink_of lit_match [sp_pm "q3/impl" "^Read$"] MethodValue k_method e_main = false /\
  sink_of lit_match [sp_pm "q3/impl" "^Read$"] MethodExpr k_method e_main = false /\
  arg_sink_of [sp_pm "q3/impl" "^Read$"] MethodValue k_method e_main = false /\
  arg_sink_of [sp_pm "q3/impl" "^Read$"] MethodExpr k_method e_main = false /\
  arg_sink_of [sp_pm "q3/impl" "Read"] MethodValue k_method e_main = true /\
  sink_of lit_match [sp_pm "q3/impl" "Read"] MethodExpr k_method e_main = true /\
  ideal_of lit_match [sp_pm "q3/impl" "^Read$"] k_method e_main = true /\
  entry_of lit_match pkg_string [sp_pm "q3/impl" "Read"] MethodValue k_method e_main = false.
Proof. vm_compute. auto 10. Qed.

(** a call through a function value is matched under the variable's name *)
Lemma funcvalue_sink_variable_name_refuted :
  sink_of lit_match [sp_pm "q3" "^f$"] FuncValue k_source e_apply = true /\
  ideal_of lit_match [sp_pm "q3" "^f$"] k_source e_apply = false /\
  sink_of lit_match [sp_pm "q3" "^source$"] FuncValue k_source e_apply = false /\
  classify lit_match [sp_pm "q3" "^source$"]
    (arg_cands (site_of FuncValue k_source e_apply) (Some (node_callee FuncValue k_source))
               (Some (node_callee FuncValue k_source))) = true.
Proof. vm_compute. auto. Qed.

(** type kinds: two types that differ only in their package PATH cannot be told apart by any specification *)
Definition op_a : op := mkOp OAlloc "q3.main" (TPtr (TNamed (Some "util") (Some "a/util") "Secret")) "".
Definition op_b : op := mkOp OAlloc "q3.main" (TPtr (TNamed (Some "util") (Some "b/util") "Secret")) "".

Lemma type_pkg_name_refuted :
  (forall rmatch specs, op_entry rmatch specs op_a = op_entry rmatch specs op_b) /\
  (let specs := [mkSpec (mkCid "" "^a/util$" "" "" "" "" "Secret" "" "") true] in
   op_ideal lit_match specs op_a = true /\ op_ideal lit_match specs op_b = false /\
   op_entry lit_match specs op_a = false).
Proof. split; [intros; reflexivity|vm_compute; auto]. Qed.

(** non-vacuity of the positive statements *)
Example direct_forms_identified :
  sink_of lit_match [sp_pmr "^q3/impl$" "^Read$" "^T$"] Deferred k_method e_main = true /\
  sink_of lit_match [sp_pmr "^q3/impl$" "^Read$" "^T$"] GoCall k_method e_main = true /\
  entry_of lit_match pkg_string [sp_pm "^q3$" "^source$"] InClosure k_source e_main = true /\
  wf_callee k_method /\ wf_callee k_source.
Proof. vm_compute. auto. Qed.

Example type_kinds_examples :
  elt (TPtr (TNamed (Some "sub") (Some "q3/sub") "T")) "" = Some ("sub", "*T") /\
  elt (TChan (TPtr (TNamed (Some "sub") (Some "q3/sub") "T"))) "" = Some ("sub", "chan *T") /\
  elt (TPtr (TArray "3" (TNamed (Some "sub") (Some "q3/sub") "T"))) "" = Some ("sub", "*[3]T") /\
  elt (TPtr (TSlice (TNamed None None "error"))) "" = Some ("", "error") /\
  elt (TPtr TStruct) "" = None /\
  receiver_str "*q3/sub.T" = "T".
Proof. vm_compute. auto 10. Qed.

(** ** The full statement of the property for the model, and its refutation *)

(** every call form classifies exactly as the property demands (sink side and entry side) *)
Definition form_independent (fvpkg : string -> string) : Prop :=
  forall rmatch specs f k e, Forall (entry_plain) specs -> wf_callee k ->
    sink_of rmatch specs f k e = ideal_of rmatch specs k e /\
    entry_of rmatch fvpkg specs f k e = ideal_of rmatch specs k e.

Lemma form_independent_refuted : forall fvpkg, ~ form_independent fvpkg.
Proof.
  intros fvpkg H.
  destruct (H lit_match [sp_pm "q3" "source"] Deferred k_source e_main) as [_ H2].
  - repeat constructor.
  - exact I.
  - destruct (entry_defer_go_never lit_match fvpkg [sp_pm "q3" "source"] k_source e_main) as [Hd _].
    rewrite Hd in H2. vm_compute in H2. discriminate.
Qed.
