(** * Invariants of the traversal model: what [expand] and [make_next] can produce.

    Every call of [addNext] made by one expansion ([cand]) has
      - a call trace that is a suffix of the current one, or the current one extended by one node of the graph,
      - likewise for the closure trace,
      - an edge that is [EdgeInfo{}] or an edge of the graph.
    Every visitor node that passes [make_next] has lasso-free traces ([wf_trace]: the String() classes of the labels are
    pairwise different and the labels are nodes of the graph).  *)
From Coq Require Import List PArith NArith ZArith Bool FMapPositive Lia Permutation.
From Argot Require Import Model.Visit Proofs.VisitBase.
Import ListNotations.

Set Default Proof Using "Type".

Definition suffix {A} (a b : list A) : Prop := exists p, b = p ++ a.

Lemma suffix_refl {A} (a : list A) : suffix a a.
Proof. exists []. reflexivity. Qed.
Lemma suffix_nil {A} (a : list A) : suffix [] a.
Proof. exists a. rewrite app_nil_r. reflexivity. Qed.
Lemma suffix_tl {A} (a : list A) : suffix (tl a) a.
Proof. destruct a; [apply suffix_refl|]. exists [a]. reflexivity. Qed.
Lemma suffix_cons {A} (x : A) a b : suffix a b -> suffix a (x :: b).
Proof. intros [p ->]. exists (x :: p). reflexivity. Qed.
Lemma suffix_trans {A} (a b c : list A) : suffix a b -> suffix b c -> suffix a c.
Proof. intros [p ->] [q ->]. exists (q ++ p). rewrite app_assoc. reflexivity. Qed.

Lemma Forall_suffix {A} (Q : A -> Prop) a b : suffix a b -> Forall Q b -> Forall Q a.
Proof. intros [p ->] H. apply Forall_app in H. tauto. Qed.

Lemma NoDup_suffix {A} (a b : list A) : suffix a b -> NoDup b -> NoDup a.
Proof. intros [p ->] H. induction p as [|x p IH]; simpl in *; [exact H|]. inversion H; auto. Qed.

Lemma suffix_map {A B} (f : A -> B) a b : suffix a b -> suffix (map f a) (map f b).
Proof. intros [p ->]. exists (map f p). apply map_app. Qed.

Section Inv.
  Variable g : graph.
  Variable P : preds.
  Variable cfg : config.
  Variable ord : oracle.
  Variable src : id.
  Hypothesis Hord : ord_perm ord.

  Definition in_dom (n : id) : Prop := node_of g n <> None.

  Lemma in_dom_some n nd : node_of g n = Some nd -> in_dom n.
  Proof. unfold in_dom. intros ->. discriminate. Qed.

  Definition trace_step (t t' : list id) : Prop := suffix t' t \/ exists x, in_dom x /\ t' = x :: t.

  Definition edge_ok (e : edgeinfo) : Prop :=
    e = empty_edge \/ exists n nd dst eis, node_of g n = Some nd /\ In (dst, eis) (n_out nd) /\ In e eis.

  Definition cand_inv (cur : vnode) (cd : cand) : Prop :=
    trace_step (v_trace cur) (c_trace cd) /\ trace_step (v_ctrace cur) (c_ctrace cd) /\ edge_ok (c_edge cd).

  Lemma ts_refl t : trace_step t t.
  Proof. left. apply suffix_refl. Qed.
  Lemma ts_tl t : trace_step t (tl t).
  Proof. left. apply suffix_tl. Qed.
  Lemma ts_nil t : trace_step t [].
  Proof. left. apply suffix_nil. Qed.
  Lemma ts_cons t x nd : node_of g x = Some nd -> trace_step t (x :: t).
  Proof. right. exists x. split; [eapply in_dom_some; eauto|reflexivity]. Qed.
  Lemma ts_suffix t t' : suffix t' t -> trace_step t t'.
  Proof. left. assumption. Qed.

  Lemma unwind_to_func_suffix f : forall t, suffix (unwind_to_func g t f) t.
  Proof.
    induction t as [|c t IH]; simpl.
    - apply suffix_refl.
    - destruct (call_fields g c) as [[[callee ?] ?]|].
      + destruct (opt_eqb callee f); [apply suffix_refl|apply suffix_cons, IH].
      + apply suffix_cons, IH.
  Qed.

  Lemma ts_unwind t f : trace_step t (unwind_to_func g t f).
  Proof. left. apply unwind_to_func_suffix. Qed.

  Lemma eo_empty : edge_ok empty_edge.
  Proof. left. reflexivity. Qed.
  Lemma eo_graph n nd dst eis e : node_of g n = Some nd -> In (dst, eis) (n_out nd) -> In e eis -> edge_ok e.
  Proof. intros. right. exists n, nd, dst, eis. auto. Qed.

  Hint Resolve ts_refl ts_tl ts_nil ts_cons ts_unwind eo_empty eo_graph suffix_refl : trav.

  Lemma concat_res_map_inv {A B} (F : A -> res (list B)) l r :
    concat_res (map F l) = Ok r -> forall x, In x r -> exists a li, In a l /\ F a = Ok li /\ In x li.
  Proof.
    intros H x Hx. destruct (concat_res_ok _ _ H _ Hx) as (li & Hl & Hi).
    apply in_map_iff in Hl as (a & Ha & Hin). exists a, li. auto.
  Qed.

  Lemma in_indexed {A} (l : list A) i x : In (i, x) (indexed l) -> In x l.
  Proof. unfold indexed. intros H. apply in_combine_r in H. exact H. Qed.

  (** destructing everything that must have been [Ok] *)
  Ltac grind_ok := repeat match goal with
    | H : Crash _ = Ok _ |- _ => discriminate H
    | H : bind _ _ = Ok _ |- _ => apply bind_ok in H; destruct H as (? & ? & ?)
    | H : Ok _ = Ok _ |- _ => injection H as H; try subst
    | H : prev_node _ _ = Ok _ |- _ => unfold prev_node in H
    | H : call_args _ _ = Ok _ |- _ => unfold call_args in H
    | H : closure_bvs _ _ = Ok _ |- _ => unfold closure_bvs in H
    | H : (match ?x with _ => _ end) = Ok _ |- _ => destruct x eqn:?; try discriminate H
    | H : (let (_, _) := ?x in _) = Ok _ |- _ => destruct x eqn:?
    end.

  Ltac grind_in := repeat match goal with
    | H : In _ [] |- _ => destruct H
    | H : In _ (_ ++ _) |- _ => apply in_app_or in H; destruct H as [H|H]
    | H : In _ (_ :: _) |- _ => destruct H as [H|H]; [subst|]
    | H : In _ (map _ _) |- _ => apply in_map_iff in H; destruct H as (? & ? & H); subst
    | H : In _ (out_cands _ _ _ _ _ _ _ _ _ _) |- _ =>
        apply (in_out_cands ord Hord) in H; destruct H as (? & ? & ? & ? & ? & ? & H); subst
    | H : In _ (if ?b then _ else _) |- _ => destruct b
    end.

  Ltac finish := unfold cand_inv; simpl; repeat split; eauto with trav.

  Lemma param_inside_inv s cur n fr cds :
    node_of g (v_node cur) = Some n -> param_inside g ord s cur n fr = Ok cds -> forall cd, In cd cds -> cand_inv cur cd.
  Proof using Hord. unfold param_inside. intros Hn H cd Hin. grind_ok; grind_in; finish. Qed.

  Lemma param_nocontext_at_inv s cur idx ics cds :
    param_nocontext_at g ord s cur idx ics = Ok cds -> forall cd, In cd cds -> cand_inv cur cd.
  Proof using Hord. unfold param_nocontext_at. intros H cd Hin. grind_ok; grind_in; finish. Qed.

  Lemma param_back_inv s cur idx fr cds :
    param_back g ord s cur idx fr = Ok cds -> forall cd, In cd cds -> cand_inv cur cd.
  Proof using Hord.
    unfold param_back. intros H cd Hin. apply bind_ok in H as (uw & _ & H).
    destruct uw as [cs|].
    - grind_ok; grind_in; finish.
    - destruct (concat_res_map_inv _ _ _ H _ Hin) as (a & li & _ & Ha & Hi).
      eapply param_nocontext_at_inv; eauto.
  Qed.

  Lemma expand_param_inv s cur n fr idx cds :
    node_of g (v_node cur) = Some n -> expand_param g ord s cur n fr idx = Ok cds -> forall cd, In cd cds -> cand_inv cur cd.
  Proof using Hord.
    unfold expand_param. intros Hn H cd Hin.
    apply bind_ok in H as (p1 & H1 & H). apply bind_ok in H as (p2 & H2 & H). injection H as <-.
    apply in_app_or in Hin as [Hin|Hin].
    - eapply param_inside_inv; eauto.
    - eapply param_back_inv; eauto.
  Qed.

  Lemma callarg_inside_inv s cur n cfn cds :
    node_of g (v_node cur) = Some n -> callarg_inside g ord s cur n cfn = Ok cds -> forall cd, In cd cds -> cand_inv cur cd.
  Proof using Hord. unfold callarg_inside. intros Hn H cd Hin. grind_ok; grind_in; finish. Qed.

  Lemma expand_callarg_inv s cur n call idx cds :
    node_of g (v_node cur) = Some n -> expand_callarg g cfg ord s cur n call idx = Ok cds -> forall cd, In cd cds -> cand_inv cur cd.
  Proof using Hord.
    unfold expand_callarg. intros Hn H cd Hin.
    destruct (node_of g call) as [cn|] eqn:Hc; [|discriminate].
    destruct cn as [ck cfn cout]. destruct ck; try discriminate.
    destruct csum as [cs|].
    - destruct (fn_of g cs) as [csr|]; [|discriminate].
      destruct (negb (f_constructed csr) && c_ignore_ns cfg).
      + injection H as <-. destruct Hin.
      + destruct (nthN (f_params csr) idx) as [pnode|]; [|discriminate].
        apply bind_ok in H as (l & Hl & H). injection H as <-.
        destruct Hin as [<-|Hin].
        * finish.
        * eapply callarg_inside_inv; eauto.
    - grind_ok; grind_in.
  Qed.

  Lemma return_nocontext_at_inv s cur ics cds :
    return_nocontext_at g ord s cur ics = Ok cds -> forall cd, In cd cds -> cand_inv cur cd.
  Proof using Hord. unfold return_nocontext_at. intros H cd Hin. grind_ok; grind_in; finish. Qed.

  Lemma closure_return_inv cur n cl cln crest :
    closure_return g cur n = Some (cl, cln, crest) -> node_of g cl = Some cln /\ v_ctrace cur = cl :: crest.
  Proof.
    unfold closure_return. intros H.
    destruct (v_ctrace cur) as [|cl0 crest0]; [discriminate|].
    destruct (node_of g cl0) as [cln0|] eqn:E; [|discriminate].
    destruct (n_kind cln0); try discriminate.
    destruct csum; [|discriminate]. destruct (Pos.eqb _ _); [|discriminate].
    injection H as <- <- <-. auto.
  Qed.

  Lemma expand_return_inv s cur n fr ridx cds :
    expand_return g ord s cur n fr ridx = Ok cds -> forall cd, In cd cds -> cand_inv cur cd.
  Proof using Hord.
    unfold expand_return. intros H cd Hin. apply bind_ok in H as (uw & _ & H).
    destruct uw as [cs|].
    - grind_ok; grind_in; finish.
    - destruct (closure_return g cur n) as [[[cl cln] crest]|] eqn:E.
      + apply closure_return_inv in E as [E1 E2]. injection H as <-. grind_in.
        unfold cand_inv; simpl. repeat split; eauto with trav.
        left. rewrite E2. exists [cl]. reflexivity.
      + destruct (concat_res_map_inv _ _ _ H _ Hin) as (a & li & _ & Ha & Hi).
        eapply return_nocontext_at_inv; eauto.
  Qed.

  Lemma call_closure_tracing_inv cur n csum cds :
    node_of g (v_node cur) = Some n ->
    call_closure_tracing g cur csum = Ok cds -> forall cd, In cd cds -> cand_inv cur cd.
  Proof. unfold call_closure_tracing. intros Hn H cd Hin. grind_ok; grind_in; finish. Qed.

  Lemma expand_call_inv s cur n csum args cds :
    node_of g (v_node cur) = Some n ->
    expand_call g ord src s cur n csum args = Ok cds -> forall cd, In cd cds -> cand_inv cur cd.
  Proof using Hord.
    unfold expand_call. intros Hn H cd Hin. apply bind_ok in H as (p1 & H1 & H). injection H as <-.
    apply in_app_or in Hin as [Hin|Hin].
    - eapply call_closure_tracing_inv; eauto.
    - grind_in; finish.
  Qed.

  Lemma expand_boundvar_inv s cur n clo idx cds :
    node_of g (v_node cur) = Some n ->
    expand_boundvar g cfg ord s cur n clo idx = Ok cds -> forall cd, In cd cds -> cand_inv cur cd.
  Proof using Hord. unfold expand_boundvar. intros Hn H cd Hin. grind_ok; grind_in; finish. Qed.

  Lemma freevar_nocontext_at_inv cur idx mc cds :
    freevar_nocontext_at g cur idx mc = Ok cds -> forall cd, In cd cds -> cand_inv cur cd.
  Proof. unfold freevar_nocontext_at. intros H cd Hin. grind_ok; grind_in; finish. Qed.

  Lemma freevar_context_inv cur n cl crest : freevar_context g cur n = Some (cl, crest) -> v_ctrace cur = cl :: crest.
  Proof.
    unfold freevar_context. intros H.
    destruct (v_trace cur); [discriminate|]. destruct (v_ctrace cur) as [|cl0 crest0]; [discriminate|].
    destruct (node_of g cl0) as [cln|]; [|discriminate]. destruct (n_kind cln); try discriminate.
    destruct csum; [|discriminate]. destruct (Pos.eqb _ _); [|discriminate]. injection H as <- <-. reflexivity.
  Qed.

  Lemma freevar_nocontext_inv s cur fr idx cds :
    freevar_nocontext g ord s cur fr idx = Ok cds -> forall cd, In cd cds -> cand_inv cur cd.
  Proof.
    unfold freevar_nocontext. intros H cd Hin.
    destruct (f_referring fr) eqn:Er; [discriminate|]. rewrite <- Er in H.
    destruct (concat_res_map_inv _ _ _ H _ Hin) as (a & li & _ & Ha & Hi).
    exact (freevar_nocontext_at_inv _ _ _ _ Ha _ Hi).
  Qed.

  Lemma expand_freevar_inv s cur n fr idx cds :
    node_of g (v_node cur) = Some n ->
    expand_freevar g ord s cur n fr idx = Ok cds -> forall cd, In cd cds -> cand_inv cur cd.
  Proof using Hord.
    unfold expand_freevar. intros Hn H cd Hin. apply bind_ok in H as (op & _ & H).
    destruct (match op with Some pn => negb (Pos.eqb (n_fn pn) (n_fn n)) | None => true end).
    - injection H as <-. grind_in; finish.
    - destruct (freevar_context g cur n) as [[cl crest]|] eqn:Ec.
      + apply freevar_context_inv in Ec. grind_ok; grind_in.
        all: unfold cand_inv; simpl; repeat split; eauto with trav.
        all: left; rewrite Ec; exists [cl]; reflexivity.
      + eapply freevar_nocontext_inv; eauto.
  Qed.

  Lemma expand_global_inv s cur n iswrite glob cds :
    node_of g (v_node cur) = Some n ->
    expand_global g ord s cur n iswrite glob = Ok cds -> forall cd, In cd cds -> cand_inv cur cd.
  Proof using Hord. unfold expand_global. intros Hn H cd Hin. grind_ok; grind_in; finish. Qed.

  Lemma expand_boundlabel_inv cur dest clo idx cds :
    expand_boundlabel g cfg cur dest clo idx = Ok cds -> forall cd, In cd cds -> cand_inv cur cd.
  Proof. unfold expand_boundlabel. intros H cd Hin. grind_ok; grind_in; finish. Qed.

  (** every call of [addNext] of an expansion satisfies [cand_inv] *)
  Theorem expand_inv s cur cds : expand g cfg ord src s cur = Ok cds -> forall cd, In cd cds -> cand_inv cur cd.
  Proof using Hord.
    unfold expand. intros H cd Hin.
    destruct (node_of g (v_node cur)) as [n|] eqn:Hn; [|discriminate].
    destruct (fn_of g (n_fn n)) as [fr|] eqn:Hf; [|discriminate].
    destruct (n_kind n) eqn:Hk.
    - eapply expand_param_inv; eauto.
    - eapply expand_freevar_inv; eauto.
    - eapply expand_callarg_inv; eauto.
    - eapply expand_call_inv; eauto.
    - eapply expand_return_inv; eauto.
    - injection H as <-. grind_in; finish.
    - eapply expand_boundvar_inv; eauto.
    - eapply expand_boundlabel_inv; eauto.
    - eapply expand_global_inv; eauto.
    - injection H as <-. grind_in; finish.
    - injection H as <-. destruct Hin.
    - injection H as <-. destruct Hin.
  Qed.

  (** ** Lasso-free traces *)

  Definition wf_trace (t : list id) : Prop := NoDup (map (strcl_of g) t) /\ Forall in_dom t.

  Definition wf_v (v : vnode) : Prop := wf_trace (v_trace v) /\ wf_trace (v_ctrace v).

  Lemma wf_trace_nil : wf_trace [].
  Proof. split; constructor. Qed.

  Lemma lasso_false_notin x t : lasso g (x :: t) = false -> ~ In (strcl_of g x) (map (strcl_of g) t).
  Proof.
    simpl. intros H Hin. apply in_map_iff in Hin as (c & Hc & Hin).
    assert (existsb (fun c => Pos.eqb (strcl_of g c) (strcl_of g x)) t = true) as E.
    { apply existsb_exists. exists c. split; [exact Hin|]. rewrite Hc. apply Pos.eqb_refl. }
    congruence.
  Qed.

  Lemma trace_step_wf t t' : wf_trace t -> trace_step t t' -> lasso g t' = false -> wf_trace t'.
  Proof.
    intros [Hnd Hall] [Hs|(x & Hx & ->)] Hl.
    - split.
      + eapply NoDup_suffix; [apply suffix_map; exact Hs|exact Hnd].
      + eapply Forall_suffix; eauto.
    - split.
      + simpl. constructor; [apply lasso_false_notin; exact Hl|exact Hnd].
      + constructor; assumption.
  Qed.

  (** ** [make_next] *)

  Definition edge_trivial (e : edgeinfo) : Prop := e_nin e = 0%N \/ (e_nin e = 1%N /\ e_ee e = true).

  (** path-insensitive graphs: every edge leaves the access paths unchanged (what the intra-procedural pass produces with
      field-sensitive: false) *)
  Definition path_insensitive : Prop :=
    forall n nd dst eis e, node_of g n = Some nd -> In (dst, eis) (n_out nd) -> In e eis -> edge_trivial e.

  Lemma edge_ok_trivial e : path_insensitive -> edge_ok e -> edge_trivial e.
  Proof.
    intros Hpi [->|(n & nd & dst & eis & H1 & H2 & H3)].
    - left. reflexivity.
    - eapply Hpi; eauto.
  Qed.

  Lemma next_aps_trivial s j aps e ps lb :
    edge_trivial e -> aps <> [] -> next_aps g cfg ord s j aps e ps lb = Some (if ps then [1%positive] else aps).
  Proof.
    intros Ht Hne. unfold next_aps.
    assert (N.eqb (e_nin e) 0 || (N.eqb (e_nin e) 1 && e_ee e) = true) as ->.
    { destruct Ht as [->|[-> ->]]; reflexivity. }
    destruct ps; [reflexivity|]. destruct aps; congruence.
  Qed.

  Lemma make_next_inv s j cur cd nv :
    make_next g P cfg ord s j cur cd = Ok (Some nv) ->
    cand_inv cur cd -> wf_v cur ->
    wf_v nv /\ in_dom (v_node nv) /\ c_node cd = Some (v_node nv) /\ v_trace nv = c_trace cd /\ v_ctrace nv = c_ctrace cd
    /\ v_kind nv = c_kind cd /\ v_tinfo nv = c_tinfo cd
    /\ cand_aps g cfg ord s j cur cd = Some (v_aps nv)
    /\ v_depth nv = N.succ (v_depth cur)
    /\ v_prev nv = Some (match c_inter cd with Some i => i | None => v_node cur end).
  Proof.
    unfold make_next. intros H (Ht & Hc & He) [Hwt Hwc].
    destruct (existsb (p_validcond P) (e_conds (c_edge cd))); [discriminate|].
    destruct (v_aps cur) eqn:Ea; [discriminate|]. clear Ea.
    destruct (cand_aps g cfg ord s j cur cd) as [naps|] eqn:En; [|discriminate].
    destruct (c_node cd) as [nn|] eqn:Ecn; [|discriminate].
    destruct (node_of g nn) eqn:Enn; [|discriminate].
    destruct (exceeds_depth cfg (v_depth cur)); [discriminate|].
    destruct (lasso g (c_trace cd) || lasso g (c_ctrace cd)) eqn:El; [discriminate|].
    apply orb_false_elim in El as [El1 El2].
    injection H as <-. simpl.
    split; [split; simpl; [apply (trace_step_wf (v_trace cur))|apply (trace_step_wf (v_ctrace cur))]; assumption|].
    split; [eapply in_dom_some; eauto|].
    repeat split; try reflexivity; try exact En.
  Qed.

  (** path-insensitive graphs: the access paths stay the initial [""] *)
  Lemma make_next_aps_const s j cur cd nv :
    path_insensitive -> make_next g P cfg ord s j cur cd = Ok (Some nv) -> cand_inv cur cd -> wf_v cur ->
    v_aps cur = [1%positive] -> v_aps nv = [1%positive].
  Proof.
    intros Hpi H Hc Hw Ha. pose proof (make_next_inv _ _ _ _ _ H Hc Hw) as (_ & _ & _ & _ & _ & _ & _ & Hn & _).
    destruct Hc as (_ & _ & He).
    unfold cand_aps in Hn. rewrite Ha in Hn.
    rewrite (next_aps_trivial _ _ _ _ _ _ (edge_ok_trivial _ Hpi He)) in Hn by discriminate.
    destruct (same_presum g cur cd); congruence.
  Qed.

End Inv.
