(* The executable side of Model/Andersen.v: the boolean validator [check_closed] is sound for the declarative constraint
   system, the naive solver only returns validated solutions, and everything it derives is forced (least solution).
   Also: closure facts of call-graph reachability and correctness of the worklist model of CallGraphReachable. *)
From Coq Require Import List NArith PArith Bool Lia Arith FMapPositive.
From Argot Require Import Lang.MuSSA Model.Andersen.
Import ListNotations.

Module PMF := PositiveMap.

Lemma succ_pos_inj a b : N.succ_pos a = N.succ_pos b -> a = b.
Proof. intros H. rewrite <- (N.pos_pred_succ a), <- (N.pos_pred_succ b), H. reflexivity. Qed.

Lemma succ_pos_pred p : N.succ_pos (Pos.pred_N p) = p.
Proof.
  destruct p; simpl; auto. rewrite Pos.succ_pred_double. reflexivity.
Qed.

Lemma mem1_spec m a : mem1 m a = true <-> exists u, PMF.find a m = Some u.
Proof. unfold mem1. destruct (PMF.find a m); split; eauto; try discriminate. intros [u H]; discriminate. Qed.

Lemma keys2_spec m a b : In (a, b) (keys2 m) <-> mem2 m a b = true.
Proof.
  unfold keys2, mem2, mem1. rewrite in_flat_map. split.
  - intros ((a', m') & Hin & Hb). apply PMF.elements_complete in Hin. simpl in Hb.
    apply in_map_iff in Hb. destruct Hb as ((b', u) & E & Hb). simpl in E. inversion E; subst.
    apply PMF.elements_complete in Hb. rewrite Hin, Hb. reflexivity.
  - destruct (PMF.find a m) as [m'|] eqn:E1; [|discriminate].
    destruct (PMF.find b m') as [u|] eqn:E2; [|discriminate]. intros _.
    exists (a, m'). split; [apply PMF.elements_correct; auto|]. simpl.
    apply in_map_iff. exists (b, u). split; auto. apply PMF.elements_correct; auto.
Qed.

Lemma ls_mem_spec l s : ls_mem l s = true <-> In l (ls_elements s).
Proof.
  unfold ls_elements. rewrite !in_app_iff, !in_map_iff. destruct l as [a o|a t|f]; simpl.
  - split.
    + intros H. left. exists (a, N.succ_pos o). simpl. rewrite N.pos_pred_succ. split; auto. apply keys2_spec; auto.
    + intros [((a', b') & E & H)|[((a', b') & E & H)|((a', b') & E & H)]]; simpl in E; try discriminate.
      inversion E; subst. rewrite succ_pos_pred. apply keys2_spec; auto.
  - split.
    + intros H. right; left. exists (a, t). split; auto. apply keys2_spec; auto.
    + intros [((a', b') & E & H)|[((a', b') & E & H)|((a', b') & E & H)]]; simpl in E; try discriminate.
      inversion E; subst. apply keys2_spec; auto.
  - split.
    + intros H. right; right. apply mem1_spec in H. destruct H as [u H]. exists (f, u). split; auto.
      apply PMF.elements_correct; auto.
    + intros [((a', b') & E & H)|[((a', b') & E & H)|((a', b') & E & H)]]; simpl in E; try discriminate.
      inversion E; subst. apply mem1_spec. exists b'. apply PMF.elements_complete; auto.
Qed.

Lemma mem1_add m a a' : mem1 (PMF.add a tt m) a' = true <-> a' = a \/ mem1 m a' = true.
Proof.
  unfold mem1. destruct (Pos.eq_dec a' a) as [->|N].
  - rewrite PMF.gss. split; auto.
  - rewrite PMF.gso by auto. split; [auto|intros [H|H]; [congruence|auto]].
Qed.

Lemma mem2_add2 m a b a' b' : mem2 (add2 m a b) a' b' = true <-> (a' = a /\ b' = b) \/ mem2 m a' b' = true.
Proof.
  unfold mem2, add2. destruct (Pos.eq_dec a' a) as [->|N].
  - rewrite PMF.gss. rewrite mem1_add. destruct (PMF.find a m) as [m'|].
    + split; [intros [->|H]; auto|intros [[_ ->]|H]; auto].
    + assert (He : forall x, mem1 (PMF.empty unit) x = false) by (intros x; unfold mem1; rewrite PMF.gempty; reflexivity).
      rewrite He. split; [intros [->|H]; [auto|discriminate]|intros [[_ ->]|H]; [auto|discriminate]].
  - rewrite PMF.gso by auto. split; [auto|intros [[H _]|H]; [congruence|auto]].
Qed.

Lemma ls_add_spec l s l' : ls_mem l' (ls_add l s) = true <-> l' = l \/ ls_mem l' s = true.
Proof.
  destruct l as [a o|a t|f]; destruct l' as [a' o'|a' t'|f']; simpl;
    try (split; [intros H; right; exact H|intros [H|H]; [discriminate|exact H]]).
  - rewrite mem2_add2. split.
    + intros [[-> H]|H]; auto. apply succ_pos_inj in H. subst; auto.
    + intros [H|H]; auto. inversion H; subst. auto.
  - rewrite mem2_add2. split.
    + intros [[-> ->]|H]; auto.
    + intros [H|H]; auto. inversion H; subst. auto.
  - rewrite mem1_add. split.
    + intros [->|H]; auto.
    + intros [H|H]; auto. inversion H; subst. auto.
Qed.

Lemma pmem_spec x xs : pmem x xs = true <-> In x xs.
Proof.
  induction xs as [|y r IH]; simpl; [split; [discriminate|contradiction]|].
  rewrite orb_true_iff, IH, Pos.eqb_eq. reflexivity.
Qed.

Lemma holdsb_spec F x : holdsb F x = true <-> holds (interp F) x.
Proof.
  destruct x; simpl.
  - apply ls_mem_spec.
  - reflexivity.
  - apply pmem_spec.
Qed.

Lemma op_labels_spec F f o l : In l (op_labels F f o) <-> op_pts (interp F) f o l.
Proof.
  destruct o; simpl.
  - reflexivity.
  - split; [intros [H|[]]; auto|intros ->; auto].
  - split; [intros [H|[]]; auto|intros ->; auto].
  - reflexivity.
Qed.

Definition below (F : fsol) (S : sol) : Prop := forall x, holds (interp F) x -> holds S x.

Lemma op_pts_mono F S f o l : below F S -> op_pts (interp F) f o l -> op_pts S f o l.
Proof. intros H. destruct o; simpl; auto. intros Hp. apply (H (FPts _ _)). exact Hp. Qed.

Section Facts.
  Variable P : prog.
  Variable F : fsol.
  Let SF := interp F.

  Definition all_hold (S : sol) (xs : list fact) : Prop := forall x, In x xs -> holds S x.

  Lemma all_hold_nil S : all_hold S [].
  Proof. intros x []. Qed.

  Lemma all_hold_app S xs ys : all_hold S (xs ++ ys) <-> all_hold S xs /\ all_hold S ys.
  Proof.
    unfold all_hold; split.
    - intros H; split; intros x Hx; apply H; apply in_or_app; auto.
    - intros [H1 H2] x Hx. apply in_app_or in Hx. destruct Hx; auto.
  Qed.

  Lemma all_hold_cons S x xs : all_hold S (x :: xs) <-> holds S x /\ all_hold S xs.
  Proof.
    unfold all_hold; split.
    - intros H; split; [apply H; left; auto|intros y Hy; apply H; right; auto].
    - intros [H1 H2] y [<-|Hy]; auto.
  Qed.

  Lemma all_hold_flat_map {A} S (g : A -> list fact) (xs : list A) :
    all_hold S (flat_map g xs) <-> forall a, In a xs -> all_hold S (g a).
  Proof.
    unfold all_hold; split.
    - intros H a Ha x Hx. apply H. apply in_flat_map. eauto.
    - intros H x Hx. apply in_flat_map in Hx. destruct Hx as (a & Ha & Hx). eauto.
  Qed.

  (* ---- validator direction: all consequences hold in F itself => closed *)
  Lemma flow_ok f o n : all_hold SF (flow F f o n) -> flows SF f o n.
  Proof. intros H l Hl. apply (H (FPts n l)). apply in_map. apply op_labels_spec. exact Hl. Qed.

  Lemma subn_ok n1 n2 : all_hold SF (subn F n1 n2) -> sub SF n1 n2.
  Proof. intros H l Hl. apply (H (FPts n2 l)). apply in_map. exact Hl. Qed.

  Lemma bind_facts_ok f g : forall args ps, all_hold SF (bind_facts F f args ps g) -> bind_ok SF f args ps g.
  Proof.
    induction args as [|a args IH]; intros ps H; simpl; auto.
    destruct ps as [|p ps]; auto. simpl in H. apply all_hold_app in H. destruct H as [H1 H2].
    split; [apply flow_ok; auto|apply IH; auto].
  Qed.

  Lemma call_facts_ok f d cs g args : all_hold SF (call_facts P F f d cs g args) -> call_ok SF P f d cs g args.
  Proof.
    unfold call_facts. intros H. apply all_hold_cons in H. destruct H as [H1 H]. apply all_hold_cons in H. destruct H as [H2 H].
    apply all_hold_app in H. destruct H as [H3 H4].
    split; [exact H1|]. split; [exact H2|]. split; [|apply subn_ok; auto].
    intros gfn Hg. rewrite Hg in H3. apply bind_facts_ok; auto.
  Qed.

  Lemma invoke_facts_ok f d cs s g args : all_hold SF (invoke_facts P F f d cs s g args) -> invoke_ok SF P f d cs s g args.
  Proof.
    unfold invoke_facts. intros H. apply all_hold_cons in H. destruct H as [H1 H]. apply all_hold_cons in H. destruct H as [H2 H].
    apply all_hold_app in H. destruct H as [H3 H4].
    split; [exact H1|]. split; [exact H2|]. split; [|apply subn_ok; auto].
    intros gfn Hg. rewrite Hg in H3. destruct (fparams gfn) as [|p0 ps]; auto.
    apply all_hold_app in H3. destruct H3 as [Ha Hb]. split; [apply subn_ok; auto|apply bind_facts_ok; auto].
  Qed.

  Lemma instr_facts_ok f i : all_hold SF (instr_facts P F f i) -> instr_ok SF P f i.
  Proof.
    destruct i; cbn [instr_facts instr_ok]; intros H.
    - apply (H (FPts (NReg f dst) (LObj s 0))). left; auto.
    - apply flow_ok; auto.
    - intros b o Hin. apply flow_ok. rewrite all_hold_flat_map in H. apply (H (b, o)). exact Hin.
    - exact I.
    - intros s off Hop. apply subn_ok. rewrite all_hold_flat_map in H.
      apply (H (LObj s off)). apply op_labels_spec. exact Hop.
    - intros s off Hop. apply flow_ok. rewrite all_hold_flat_map in H.
      apply (H (LObj s off)). apply op_labels_spec. exact Hop.
    - intros s off0 Hop. rewrite all_hold_flat_map in H.
      apply (H (LObj s off0) (proj2 (op_labels_spec _ _ _ _) Hop) (FPts _ _)). left; auto.
    - intros s off0 Hop. rewrite all_hold_flat_map in H.
      apply (H (LObj s off0) (proj2 (op_labels_spec _ _ _ _) Hop) (FPts _ _)). left; auto.
    - apply all_hold_cons in H. destruct H as [H1 H2]. split; [exact H1|].
      intros gfn Hg. rewrite Hg in H2. apply bind_facts_ok; auto.
    - apply all_hold_cons in H. destruct H as [H1 H2]. split; [exact H1|apply flow_ok; auto].
    - intros s Hop. apply subn_ok. rewrite all_hold_flat_map in H.
      specialize (H (LBox s t) (proj2 (op_labels_spec _ _ _ _) Hop)). simpl in H. rewrite Pos.eqb_refl in H. exact H.
    - destruct c as [g|x|x m].
      + apply call_facts_ok; auto.
      + intros g Hop. apply call_facts_ok. rewrite all_hold_flat_map in H.
        apply (H (LFun g)). apply op_labels_spec. exact Hop.
      + intros s t g Hop Hm. apply invoke_facts_ok. rewrite all_hold_flat_map in H.
        specialize (H (LBox s t) (proj2 (op_labels_spec _ _ _ _) Hop)). simpl in H. rewrite Hm in H. exact H.
  Qed.

  Lemma term_facts_ok f t : all_hold SF (term_facts F f t) -> term_ok SF f t.
  Proof. destruct t; simpl; auto. apply flow_ok. Qed.

  Theorem conseq_closed : all_hold SF (conseq P F) -> closed P SF.
  Proof.
    unfold conseq. intros H. apply all_hold_app in H. destruct H as [Hr Hf]. split.
    - intros r Hin. apply (Hr (FReach r)). apply in_map. exact Hin.
    - intros f fn Hin Hreach blk Hblk.
      rewrite all_hold_flat_map in Hf. specialize (Hf _ Hin). unfold func_facts in Hf. simpl in Hf, Hreach.
      simpl in Hf. unfold SF in Hreach. simpl in Hreach. rewrite Hreach in Hf.
      rewrite all_hold_flat_map in Hf. specialize (Hf _ Hblk). unfold block_facts in Hf.
      apply all_hold_app in Hf. destruct Hf as [Hi Ht]. split.
      + intros i Hi'. apply instr_facts_ok. rewrite all_hold_flat_map in Hi. auto.
      + apply term_facts_ok; auto.
  Qed.

  Theorem check_closed_sound : check_closed P F = true -> closed P (interp F).
  Proof.
    unfold check_closed. intros H. apply conseq_closed. intros x Hx.
    rewrite forallb_forall in H. apply holdsb_spec. auto.
  Qed.

  (* ---- leastness direction: every consequence of F is forced in any closed S above F *)
  Variable S : sol.
  Hypothesis HS : closed P S.
  Hypothesis HB : below F S.

  Lemma flow_forced f o n : flows S f o n -> all_hold S (flow F f o n).
  Proof.
    intros H x Hx. apply in_map_iff in Hx. destruct Hx as (l & <- & Hl). simpl.
    apply H. eapply op_pts_mono; eauto. apply op_labels_spec. exact Hl.
  Qed.

  Lemma subn_forced n1 n2 : sub S n1 n2 -> all_hold S (subn F n1 n2).
  Proof.
    intros H x Hx. apply in_map_iff in Hx. destruct Hx as (l & <- & Hl). simpl.
    apply H. apply (HB (FPts n1 l)). exact Hl.
  Qed.

  Lemma bind_facts_forced f g : forall args ps, bind_ok S f args ps g -> all_hold S (bind_facts F f args ps g).
  Proof.
    induction args as [|a args IH]; intros ps H; simpl; [apply all_hold_nil|].
    destruct ps as [|p ps]; [apply all_hold_nil|]. simpl in H. destruct H as [H1 H2].
    apply all_hold_app. split; [apply flow_forced; auto|apply IH; auto].
  Qed.

  Lemma call_facts_forced f d cs g args : call_ok S P f d cs g args -> all_hold S (call_facts P F f d cs g args).
  Proof.
    intros (H1 & H2 & H3 & H4). unfold call_facts.
    apply all_hold_cons; split; [exact H1|]. apply all_hold_cons; split; [exact H2|].
    apply all_hold_app; split; [|apply subn_forced; auto].
    destruct (find_func P g) as [gfn|] eqn:E; [|apply all_hold_nil]. apply bind_facts_forced; auto.
  Qed.

  Lemma invoke_facts_forced f d cs s g args : invoke_ok S P f d cs s g args -> all_hold S (invoke_facts P F f d cs s g args).
  Proof.
    intros (H1 & H2 & H3 & H4). unfold invoke_facts.
    apply all_hold_cons; split; [exact H1|]. apply all_hold_cons; split; [exact H2|].
    apply all_hold_app; split; [|apply subn_forced; auto].
    destruct (find_func P g) as [gfn|] eqn:E; [|apply all_hold_nil]. specialize (H3 _ eq_refl).
    destruct (fparams gfn) as [|p0 ps]; [apply all_hold_nil|]. destruct H3 as [Ha Hb].
    apply all_hold_app; split; [apply subn_forced; auto|apply bind_facts_forced; auto].
  Qed.

  Lemma instr_facts_forced f i : instr_ok S P f i -> all_hold S (instr_facts P F f i).
  Proof.
    destruct i; cbn [instr_facts instr_ok]; intros H.
    - intros z [<-|[]]. exact H.
    - apply flow_forced; auto.
    - apply all_hold_flat_map. intros [b o] Hin. simpl. apply flow_forced. eapply H; eauto.
    - apply all_hold_nil.
    - apply all_hold_flat_map. intros l Hl. apply op_labels_spec in Hl.
      destruct l; try apply all_hold_nil. apply subn_forced. apply H. eapply op_pts_mono; eauto.
    - apply all_hold_flat_map. intros l Hl. apply op_labels_spec in Hl.
      destruct l; try apply all_hold_nil. apply flow_forced. apply H. eapply op_pts_mono; eauto.
    - apply all_hold_flat_map. intros l Hl. apply op_labels_spec in Hl.
      destruct l; try apply all_hold_nil. intros z [<-|[]]. simpl. apply H. eapply op_pts_mono; eauto.
    - apply all_hold_flat_map. intros l Hl. apply op_labels_spec in Hl.
      destruct l; try apply all_hold_nil. intros z [<-|[]]. simpl. eapply H. eapply op_pts_mono; eauto.
    - destruct H as [H1 H2]. apply all_hold_cons; split; [exact H1|].
      destruct (find_func P f0) as [gfn|] eqn:E; [|apply all_hold_nil]. apply bind_facts_forced; auto.
    - destruct H as [H1 H2]. apply all_hold_cons; split; [exact H1|apply flow_forced; auto].
    - apply all_hold_flat_map. intros l Hl. apply op_labels_spec in Hl.
      destruct l; try apply all_hold_nil. destruct (Pos.eqb_spec t0 t); [|apply all_hold_nil]. subst.
      apply subn_forced. apply H. eapply op_pts_mono; eauto.
    - destruct c as [g|x|x m].
      + apply call_facts_forced; auto.
      + apply all_hold_flat_map. intros l Hl. apply op_labels_spec in Hl.
        destruct l; try apply all_hold_nil. apply call_facts_forced. apply H. eapply op_pts_mono; eauto.
      + apply all_hold_flat_map. intros l Hl. apply op_labels_spec in Hl.
        destruct l; try apply all_hold_nil. destruct (lookup_m P t m) as [g|] eqn:E; [|apply all_hold_nil].
        apply invoke_facts_forced. eapply H; eauto. eapply op_pts_mono; eauto.
  Qed.

  Theorem conseq_forced : all_hold S (conseq P F).
  Proof.
    destruct HS as [Hr Hf]. unfold conseq. apply all_hold_app; split.
    - intros x Hx. apply in_map_iff in Hx. destruct Hx as (r & <- & Hin). simpl. auto.
    - apply all_hold_flat_map. intros [f fn] Hin. unfold func_facts; simpl.
      destruct (freach F f) eqn:E; [|apply all_hold_nil].
      assert (Hreach : reach S f) by (apply (HB (FReach f)); exact E).
      apply all_hold_flat_map. intros blk Hblk. destruct (Hf _ _ Hin Hreach _ Hblk) as [Hi Ht].
      unfold block_facts. apply all_hold_app; split.
      + apply all_hold_flat_map. intros i Hi'. apply instr_facts_forced; auto.
      + destruct (bterm blk); simpl; try apply all_hold_nil. apply flow_forced. exact Ht.
  Qed.
End Facts.

(* ------------------------------------------------------------------------------------ add_fact and the solver *)
Lemma get2_set2_same m a b ls : get2 (set2 m a b ls) a b = ls.
Proof. unfold get2, set2. rewrite PMF.gss. rewrite PMF.gss. reflexivity. Qed.

Lemma get2_set2_other m a b ls a' b' : (a', b') <> (a, b) -> get2 (set2 m a b ls) a' b' = get2 m a' b'.
Proof.
  intros N. unfold get2, set2. destruct (Pos.eq_dec a' a) as [->|Na].
  - rewrite PMF.gss. destruct (Pos.eq_dec b' b) as [->|Nb]; [congruence|].
    rewrite PMF.gso by auto. destruct (PMF.find a m); auto. rewrite PMF.gempty. reflexivity.
  - rewrite PMF.gso by auto. reflexivity.
Qed.

Lemma gets_add_same (m : PMF.t lset) a ls : gets (PMF.add a ls m) a = ls.
Proof. unfold gets. rewrite PMF.gss. reflexivity. Qed.

Lemma gets_add_other (m : PMF.t lset) a ls a' : a' <> a -> gets (PMF.add a ls m) a' = gets m a'.
Proof. intros N. unfold gets. rewrite PMF.gso by auto. reflexivity. Qed.

Lemma get1_add_same {A} (m : PMF.t (list A)) a ls : get1 (PMF.add a ls m) a = ls.
Proof. unfold get1. rewrite PMF.gss. reflexivity. Qed.

Lemma get1_add_other {A} (m : PMF.t (list A)) a ls a' : a' <> a -> get1 (PMF.add a ls m) a' = get1 m a'.
Proof. intros N. unfold get1. rewrite PMF.gso by auto. reflexivity. Qed.

Lemma in_elements_add l s l' : In l' (ls_elements (ls_add l s)) <-> l' = l \/ In l' (ls_elements s).
Proof. rewrite <- !ls_mem_spec. apply ls_add_spec. Qed.

Lemma add_fact_holds x F y : holds (interp (add_fact x F)) y <-> y = x \/ holds (interp F) y.
Proof.
  unfold add_fact. destruct (holdsb F x) eqn:E.
  - apply holdsb_spec in E. split; [auto|]. intros [->|H]; auto.
  - destruct x as [[f r|s off|f] l|f|cs g]; destruct y as [[f' r'|s' off'|f'] l'|f'|cs' g']; simpl;
      try (split; [intros H; right; exact H|intros [H|H]; [discriminate|exact H]]); unfold fpts; simpl.
    + destruct (Pos.eq_dec f' f) as [->|N1]; [destruct (Pos.eq_dec r' r) as [->|N2]|].
      * rewrite get2_set2_same. rewrite in_elements_add. split; [intros [->|H]; auto|intros [H|H]; [inversion H; auto|auto]].
      * rewrite get2_set2_other by congruence. split; [auto|intros [H|H]; [inversion H; congruence|auto]].
      * rewrite get2_set2_other by congruence. split; [auto|intros [H|H]; [inversion H; congruence|auto]].
    + destruct (Pos.eq_dec s' s) as [->|N1]; [destruct (N.eq_dec off' off) as [->|N2]|].
      * rewrite get2_set2_same. rewrite in_elements_add. split; [intros [->|H]; auto|intros [H|H]; [inversion H; auto|auto]].
      * rewrite get2_set2_other.
        -- split; [auto|intros [H|H]; [inversion H; congruence|auto]].
        -- intros H. inversion H. apply N2. apply succ_pos_inj in H1. exact H1.
      * rewrite get2_set2_other by congruence. split; [auto|intros [H|H]; [inversion H; congruence|auto]].
    + destruct (Pos.eq_dec f' f) as [->|N1].
      * rewrite gets_add_same. rewrite in_elements_add. split; [intros [->|H]; auto|intros [H|H]; [inversion H; auto|auto]].
      * rewrite gets_add_other by auto. split; [auto|intros [H|H]; [inversion H; congruence|auto]].
    + unfold freach; simpl. destruct (Pos.eq_dec f' f) as [->|N1].
      * rewrite PMF.gss. split; auto.
      * rewrite PMF.gso by auto. split; [auto|intros [H|H]; [inversion H; congruence|auto]].
    + unfold fedges; simpl. destruct (Pos.eq_dec cs' cs) as [->|N1].
      * rewrite get1_add_same. simpl. split; [intros [<-|H]; auto|intros [H|H]; [inversion H; auto|auto]].
      * rewrite get1_add_other by auto. split; [auto|intros [H|H]; [inversion H; congruence|auto]].
Qed.

Lemma add_all_cons x xs Fc :
  add_all (x :: xs) Fc = if holdsb (fst (add_all xs Fc)) x then add_all xs Fc else (add_fact x (fst (add_all xs Fc)), true).
Proof. reflexivity. Qed.

Lemma add_all_holds xs Fc : forall y, holds (interp (fst (add_all xs Fc))) y <-> In y xs \/ holds (interp (fst Fc)) y.
Proof.
  induction xs as [|x xs IH]; intros y.
  - simpl. split; [auto|intros [[]|H]; auto].
  - rewrite add_all_cons. destruct (holdsb (fst (add_all xs Fc)) x) eqn:E.
    + rewrite IH. apply holdsb_spec in E.
      assert (E' : In x xs \/ holds (interp (fst Fc)) x) by (apply IH; exact E).
      simpl. split; [intros [H|H]; auto|intros [[<-|H]|H]; auto].
    + cbn [fst]. rewrite add_fact_holds, IH. simpl. split; [intros [->|[H|H]]; auto|intros [[<-|H]|H]; auto].
Qed.

Definition result_sol (r : result) : fsol := match r with Done F => F | OutOfFuel F => F end.

Theorem solve_closed fuel P : forall F0 F, solve fuel P F0 = Done F -> closed P (interp F).
Proof.
  induction fuel as [|k IH]; intros F0 F H; simpl in H; [discriminate|].
  destruct (snd (round P F0)).
  - eapply IH; eauto.
  - destruct (check_closed P (fst (round P F0))) eqn:E; [|discriminate].
    inversion H; subst. apply check_closed_sound. exact E.
Qed.

(* every fact the solver adds is forced in every closed solution above the current one *)
Section Least.
  Variable P : prog.
  Variable S : sol.
  Hypothesis HS : closed P S.

  Lemma add_all_below xs Fc : below (fst Fc) S -> all_hold S xs -> below (fst (add_all xs Fc)) S.
  Proof. intros HB Hx y Hy. apply add_all_holds in Hy. destruct Hy as [Hy|Hy]; auto. Qed.

  Lemma step_instr_below f fn blk i Fc :
    In (f, fn) (funcs P) -> reach S f -> In blk (fblocks fn) -> In i (binstrs blk) ->
    below (fst Fc) S -> below (fst (step_instr P f Fc i)) S.
  Proof.
    intros Hf Hr Hb Hi HB. unfold step_instr. apply add_all_below; auto.
    eapply instr_facts_forced; eauto. destruct HS as [_ H]. destruct (H _ _ Hf Hr _ Hb) as [Hok _]. auto.
  Qed.

  Lemma fold_instrs_below f fn blk : In (f, fn) (funcs P) -> reach S f -> In blk (fblocks fn) ->
    forall is Fc, (forall i, In i is -> In i (binstrs blk)) -> below (fst Fc) S ->
    below (fst (fold_left (step_instr P f) is Fc)) S.
  Proof.
    intros Hf Hr Hb. induction is as [|i is IH]; intros Fc Hsub HB; simpl; auto.
    apply IH; [intros j Hj; apply Hsub; right; auto|].
    eapply step_instr_below; eauto. apply Hsub; left; auto.
  Qed.

  Lemma step_block_below f fn blk Fc :
    In (f, fn) (funcs P) -> reach S f -> In blk (fblocks fn) -> below (fst Fc) S -> below (fst (step_block P f Fc blk)) S.
  Proof.
    intros Hf Hr Hb HB. unfold step_block.
    assert (H1 : below (fst (fold_left (step_instr P f) (binstrs blk) Fc)) S) by (eapply fold_instrs_below; eauto).
    apply add_all_below; auto.
    destruct HS as [_ H]. destruct (H _ _ Hf Hr _ Hb) as [_ Ht].
    destruct (bterm blk); simpl; try apply all_hold_nil. eapply flow_forced; eauto.
  Qed.

  Lemma fold_blocks_below f fn : In (f, fn) (funcs P) -> reach S f ->
    forall bs Fc, (forall b, In b bs -> In b (fblocks fn)) -> below (fst Fc) S ->
    below (fst (fold_left (step_block P f) bs Fc)) S.
  Proof.
    intros Hf Hr. induction bs as [|b bs IH]; intros Fc Hsub HB; simpl; auto.
    apply IH; [intros j Hj; apply Hsub; right; auto|].
    eapply step_block_below; eauto. apply Hsub; left; auto.
  Qed.

  Lemma step_func_below Fc ffn : In ffn (funcs P) -> below (fst Fc) S -> below (fst (step_func P Fc ffn)) S.
  Proof.
    destruct ffn as [f fn]. intros Hf HB. unfold step_func; simpl.
    destruct (freach (fst Fc) f) eqn:E; auto.
    eapply fold_blocks_below; eauto. apply (HB (FReach f)). exact E.
  Qed.

  Lemma fold_funcs_below : forall fs Fc, (forall x, In x fs -> In x (funcs P)) -> below (fst Fc) S ->
    below (fst (fold_left (step_func P) fs Fc)) S.
  Proof.
    induction fs as [|x fs IH]; intros Fc Hsub HB; simpl; auto.
    apply IH; [intros j Hj; apply Hsub; right; auto|].
    apply step_func_below; auto. apply Hsub; left; auto.
  Qed.

  Lemma round_below F : below F S -> below (fst (round P F)) S.
  Proof.
    intros HB. unfold round. apply fold_funcs_below; auto.
    apply add_all_below; auto. intros x Hx. apply in_map_iff in Hx. destruct Hx as (r & <- & Hr).
    destruct HS as [H _]. simpl. auto.
  Qed.

  Theorem solve_least fuel : forall F0, below F0 S -> below (result_sol (solve fuel P F0)) S.
  Proof.
    induction fuel as [|k IH]; intros F0 HB; simpl; [exact HB|].
    pose proof (round_below F0 HB) as HR.
    destruct (snd (round P F0)); [apply IH; auto|].
    destruct (check_closed P (fst (round P F0))); exact HR.
  Qed.
End Least.

Lemma below_empty S : below empty_fsol S.
Proof.
  intros [[f r|s off|f] l|f|cs g]; simpl; unfold fpts, fset, get2, gets, freach, fedges, get1; simpl;
    rewrite ?PMF.gempty; simpl; try contradiction; try discriminate.
Qed.

Theorem analyze_least fuel P S : closed P S -> below (result_sol (analyze fuel P)) S.
Proof. intros H. apply solve_least; auto. apply below_empty. Qed.

(* the previous, purely naive formulation remains available as a lemma: all immediate consequences are forced *)
Lemma conseq_forced_all P F S : closed P S -> below F S -> all_hold S (conseq P F).
Proof. intros. eapply conseq_forced; eauto. Qed.

Theorem analyze_closed fuel P F : analyze fuel P = Done F -> closed P (interp F).
Proof. apply solve_closed. Qed.

(* --------------------------------------------------------------------------- closure facts of reachability *)
Section Reach.
  Variable P : prog.

  Lemma cg_reach_roots S r : In r (roots P) -> cg_reach P S r.
  Proof. apply cr_root. Qed.

  Lemma cg_reach_closed S f g : cg_reach P S f -> cg_edge P S f g -> cg_reach P S g.
  Proof. apply cr_step. Qed.

  Lemma cg_reach_least S (X : fname -> Prop) :
    (forall r, In r (roots P) -> X r) -> (forall f g, X f -> cg_edge P S f g -> X g) -> forall f, cg_reach P S f -> X f.
  Proof. intros Hr Hs f H. induction H; eauto. Qed.

  Lemma cg_reach_mono S S' :
    (forall cs g, edge S cs g -> edge S' cs g) -> forall f, cg_reach P S f -> cg_reach P S' f.
  Proof.
    intros He f H. induction H; [apply cr_root; auto|].
    eapply cr_step; eauto. destruct H0 as (fn & cs & A & B & C). exists fn, cs; auto.
  Qed.
End Reach.

(* worklist model of dataflow.CallGraphReachable: result = least set containing the entries and closed under succs *)
Section Worklist.
  Variable succs : fname -> list fname.

  Inductive wreach (entries : list fname) : fname -> Prop :=
  | wr_entry e : In e entries -> wreach entries e
  | wr_step f g : wreach entries f -> In g (succs f) -> wreach entries g.

  Definition inset (s : PMF.t unit) (f : fname) : Prop := PMF.find f s = Some tt.

  Lemma inset_add g s f : inset (PMF.add g tt s) f <-> f = g \/ inset s f.
  Proof.
    unfold inset. destruct (Pos.eq_dec f g) as [->|N].
    - rewrite PMF.gss. split; auto.
    - rewrite PMF.gso by auto. split; [auto|intros [H|H]; [congruence|auto]].
  Qed.

  Lemma inset_fold xs s f : inset (fold_right (fun g s => PMF.add g tt s) s xs) f <-> In f xs \/ inset s f.
  Proof.
    induction xs as [|x xs IH]; simpl.
    - split; [auto|intros [[]|H]; auto].
    - rewrite inset_add, IH. split; [intros [->|[H|H]]; auto|intros [[<-|H]|H]; auto].
  Qed.

  Lemma find_unit (s : PMF.t unit) g : (match PMF.find g s with Some _ => false | None => true end) = false <-> inset s g.
  Proof. unfold inset. destruct (PMF.find g s) as [[]|]; split; auto; discriminate. Qed.

  (* invariant: seen is sound; every seen node is either still on the frontier or has all its successors seen *)
  Theorem cg_reachable_spec entries : forall fuel frontier seen res,
    (forall f, inset seen f -> wreach entries f) ->
    (forall f, In f frontier -> inset seen f) ->
    (forall e, In e entries -> inset seen e) ->
    (forall f, inset seen f -> In f frontier \/ forall g, In g (succs f) -> inset seen g) ->
    cg_reachable fuel succs frontier seen = Some res ->
    forall f, inset res f <-> wreach entries f.
  Proof.
    induction fuel as [|k IH]; intros frontier seen res Hsound Hfr Hent Hclosed H.
    - destruct frontier; simpl in H; [|discriminate]. inversion H; subst. intros f; split; [auto|].
      intros Hw. induction Hw; auto.
      destruct (Hclosed _ IHHw) as [[]|Hc]. auto.
    - destruct frontier as [|f0 rest]; simpl in H.
      + inversion H; subst. intros f; split; [auto|].
        intros Hw. induction Hw; auto. destruct (Hclosed _ IHHw) as [[]|Hc]. auto.
      + set (new := filter (fun g => match PMF.find g seen with Some _ => false | None => true end) (succs f0)) in *.
        eapply IH; [| | | |exact H].
        * intros f Hf. apply inset_fold in Hf. destruct Hf as [Hf|Hf]; auto.
          unfold new in Hf. apply filter_In in Hf. destruct Hf as [Hf _].
          eapply wr_step; [|exact Hf]. apply Hsound. apply Hfr. left; auto.
        * intros f Hf. apply inset_fold. apply in_app_or in Hf. destruct Hf as [Hf|Hf]; auto.
          right. apply Hfr. right; auto.
        * intros e He. apply inset_fold. right. auto.
        * intros f Hf. apply inset_fold in Hf. destruct Hf as [Hf|Hf].
          -- left. apply in_or_app. auto.
          -- destruct (Hclosed _ Hf) as [[<-|Hin]|Hc].
             ++ right. intros g Hg. apply inset_fold.
                destruct (PMF.find g seen) as [[]|] eqn:E.
                ** right. exact E.
                ** left. unfold new. apply filter_In. split; auto. rewrite E. reflexivity.
             ++ left. apply in_or_app. auto.
             ++ right. intros g Hg. apply inset_fold. right. auto.
  Qed.

  Theorem cg_reachable_from_spec fuel entries res :
    cg_reachable_from fuel succs entries = Some res -> forall f, inset res f <-> wreach entries f.
  Proof.
    unfold cg_reachable_from. intros H. eapply cg_reachable_spec; [| | | |exact H].
    - intros f Hf. apply inset_fold in Hf. destruct Hf as [Hf|Hf]; [apply wr_entry; auto|].
      unfold inset in Hf. rewrite PMF.gempty in Hf. discriminate.
    - intros f Hf. apply inset_fold. auto.
    - intros f Hf. apply inset_fold. auto.
    - intros f Hf. apply inset_fold in Hf. destruct Hf as [Hf|Hf]; auto.
      unfold inset in Hf. rewrite PMF.gempty in Hf. discriminate.
  Qed.
End Worklist.
