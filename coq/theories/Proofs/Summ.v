(** Proofs about Model/Summ.v: the loader creates exactly the creatable written edges. *)
From Coq Require Import List ZArith Bool Arith Lia String.
Import ListNotations.
From Argot Require Import Model.Summ.

(** * The two edge-adding functions as guarded [add_edge] *)

Lemma ret_loop_spec : forall tuples g src pos,
  ret_loop tuples g src pos =
  if existsb (fun len => Z.to_nat pos <? len) tuples then (add_edge g (ER src pos), true) else (g, false).
Proof.
  induction tuples as [|len rest IH]; intros; simpl; [reflexivity|].
  destruct (Z.to_nat pos <? len); simpl; [reflexivity|apply IH].
Qed.

Lemma add_param_spec : forall sg g src d,
  add_param_edge_by_pos sg g src d = if creatable sg (EP src d) then (add_edge g (EP src d), true) else (g, false).
Proof. reflexivity. Qed.

Lemma add_return_spec : forall sg g src pos,
  add_return_edge_by_pos sg g src pos = if creatable sg (ER src pos) then (add_edge g (ER src pos), true) else (g, false).
Proof.
  intros. unfold add_return_edge_by_pos, creatable, ret_in_range. rewrite ret_loop_spec.
  destruct (src <? nparams sg); simpl; [|reflexivity].
  replace (0 <=? pos)%Z with (negb (pos <? 0)%Z) by (destruct (Z.ltb_spec pos 0), (Z.leb_spec 0 pos); simpl; try reflexivity; lia).
  destruct (pos <? 0)%Z; simpl; reflexivity.
Qed.

(** * Generic fold lemmas *)
Section Fold.
  Variable sg : sig.
  Variable mk : nat -> Z -> edge.
  Variable f : graph -> nat -> Z -> graph * bool.
  Hypothesis f_spec : forall g src d, f g src d = if creatable sg (mk src d) then (add_edge g (mk src d), true) else (g, false).

  Lemma add_row_out : forall row g src,
    g_out (add_row f g src row) = g_out g ++ filter (creatable sg) (map (mk src) row).
  Proof.
    induction row as [|d rest IH]; intros; simpl; [now rewrite app_nil_r|].
    rewrite IH, f_spec. destruct (creatable sg (mk src d)); simpl; [|reflexivity].
    now rewrite <- app_assoc.
  Qed.

  Lemma add_row_in : forall row g src,
    g_in (add_row f g src row) = g_in g ++ filter (creatable sg) (map (mk src) row).
  Proof.
    induction row as [|d rest IH]; intros; simpl; [now rewrite app_nil_r|].
    rewrite IH, f_spec. destruct (creatable sg (mk src d)); simpl; [|reflexivity].
    now rewrite <- app_assoc.
  Qed.

  Lemma add_rows_out : forall rows g src,
    g_out (add_rows f g src rows) = g_out g ++ filter (creatable sg) (row_edges mk src rows).
  Proof.
    induction rows as [|row rest IH]; intros; simpl; [now rewrite app_nil_r|].
    rewrite IH, add_row_out, filter_app, app_assoc. reflexivity.
  Qed.

  Lemma add_rows_in : forall rows g src,
    g_in (add_rows f g src rows) = g_in g ++ filter (creatable sg) (row_edges mk src rows).
  Proof.
    induction rows as [|row rest IH]; intros; simpl; [now rewrite app_nil_r|].
    rewrite IH, add_row_in, filter_app, app_assoc. reflexivity.
  Qed.
End Fold.

(** * The loader is the filter of the written edges by [creatable] *)

Theorem apply_filter : forall s sg, edges (apply s sg) = filter (creatable sg) (written s).
Proof.
  intros. unfold edges, apply, populate, written.
  rewrite (add_rows_out sg ER (add_return_edge_by_pos sg) (add_return_spec sg)).
  rewrite (add_rows_out sg EP (add_param_edge_by_pos sg) (add_param_spec sg)).
  simpl. now rewrite filter_app.
Qed.

Theorem apply_in_out : forall s sg, g_in (apply s sg) = g_out (apply s sg).
Proof.
  intros. unfold apply, populate.
  rewrite (add_rows_out sg ER (add_return_edge_by_pos sg) (add_return_spec sg)).
  rewrite (add_rows_in sg ER (add_return_edge_by_pos sg) (add_return_spec sg)).
  rewrite (add_rows_out sg EP (add_param_edge_by_pos sg) (add_param_spec sg)).
  rewrite (add_rows_in sg EP (add_param_edge_by_pos sg) (add_param_spec sg)).
  reflexivity.
Qed.

(** * [conforms] is "every written edge is creatable" *)

Lemma forallb_guard : forall (b : bool) (p : Z -> bool) row,
  forallb (fun d => b && p d) row = match row with [] => true | _ => b && forallb p row end.
Proof.
  intros b p row. induction row as [|d rest IH]; [reflexivity|].
  change (forallb (fun d0 => b && p d0) (d :: rest)) with ((b && p d) && forallb (fun d0 => b && p d0) rest).
  rewrite IH. destruct rest as [|d' rest'].
  - simpl. now rewrite !andb_true_r.
  - change (forallb p (d :: d' :: rest')) with (p d && forallb p (d' :: rest')).
    destruct b; simpl; [reflexivity|reflexivity].
Qed.

Lemma forallb_map_row : forall (np : nat) (p : Z -> bool) (mk : nat -> Z -> edge) (c : edge -> bool) src row,
  (forall d, c (mk src d) = (src <? np) && p d) ->
  forallb c (map (mk src) row) = match row with [] => true | _ => (src <? np) && forallb p row end.
Proof.
  intros np p mk c src row H. rewrite <- forallb_guard.
  induction row as [|d rest IH]; simpl; [reflexivity|]. now rewrite H, IH.
Qed.

Lemma rows_ok_spec : forall (np : nat) (p : Z -> bool) (mk : nat -> Z -> edge) (c : edge -> bool) rows src,
  (forall src d, c (mk src d) = (src <? np) && p d) ->
  rows_ok np p src rows = forallb c (row_edges mk src rows).
Proof.
  intros np p mk c rows. induction rows as [|row rest IH]; intros src H; simpl; [reflexivity|].
  rewrite forallb_app, (IH (S src) H), (forallb_map_row np p mk c src row (H src)). reflexivity.
Qed.

Theorem conforms_spec : forall s sg, conforms s sg = forallb (creatable sg) (written s).
Proof.
  intros. unfold conforms, written. rewrite forallb_app.
  f_equal.
  - apply rows_ok_spec. intros. simpl. unfold param_in_range. now rewrite andb_assoc.
  - apply rows_ok_spec. intros. simpl. unfold ret_in_range. now rewrite andb_assoc.
Qed.

Lemma filter_all : forall (A : Type) (p : A -> bool) (l : list A), forallb p l = true -> filter p l = l.
Proof.
  induction l as [|a l IH]; simpl; intros H; [reflexivity|].
  apply andb_true_iff in H as [Ha Hl]. now rewrite Ha, IH.
Qed.

(** ** The property theorems *)

Theorem apply_exact_eq : forall s sg, conforms s sg = true -> edges (apply s sg) = written s.
Proof. intros s sg H. rewrite apply_filter. apply filter_all. now rewrite <- conforms_spec. Qed.

Theorem apply_exact : forall s sg, conforms s sg = true -> forall e, In e (edges (apply s sg)) <-> In e (written s).
Proof. intros s sg H e. now rewrite (apply_exact_eq s sg H). Qed.

Theorem apply_sound : forall s sg e, In e (edges (apply s sg)) -> In e (written s) /\ creatable sg e = true.
Proof. intros s sg e H. rewrite apply_filter in H. now apply filter_In in H. Qed.

Theorem apply_complete : forall s sg e, In e (written s) -> creatable sg e = true -> In e (edges (apply s sg)).
Proof. intros. rewrite apply_filter. apply filter_In. now split. Qed.

Theorem nonconforming_drops : forall s sg, conforms s sg = false ->
  exists e, In e (written s) /\ ~ In e (edges (apply s sg)).
Proof.
  intros s sg H. rewrite conforms_spec in H.
  assert (Hex : exists e, In e (written s) /\ creatable sg e = false).
  { induction (written s) as [|a l IH]; simpl in H; [discriminate|].
    destruct (creatable sg a) eqn:Ha.
    - simpl in H. destruct (IH H) as [e [He1 He2]]. exists e. split; [now right|assumption].
    - exists a. split; [now left|assumption]. }
  destruct Hex as [e [He1 He2]]. exists e. split; [assumption|].
  intros Hin. apply apply_sound in Hin as [_ Hc]. congruence.
Qed.

Theorem conforms_iff_nothing_dropped : forall s sg,
  conforms s sg = true <-> (forall e, In e (written s) -> In e (edges (apply s sg))).
Proof.
  intros s sg. split.
  - intros H e He. now apply (apply_exact s sg H).
  - intros H. destruct (conforms s sg) eqn:Hc; [reflexivity|].
    destruct (nonconforming_drops s sg Hc) as [e [He1 He2]]. exfalso. apply He2, H, He1.
Qed.

Theorem conforms_strict_conforms : forall s sg, conforms_strict s sg = true -> conforms s sg = true.
Proof. intros s sg H. unfold conforms_strict in H. apply andb_true_iff in H as [H _]. now apply andb_true_iff in H as [H _]. Qed.

(** ** Table-level lifting: a [forallb] verdict computed by [vm_compute] speaks about every entry *)

Theorem table_ok_forall : forall known t, forallb (entry_ok known) t = true ->
  forall e, In e t -> mem_string (e_name e) known = false ->
  edges (apply (e_summary e) (e_sig e)) = written (e_summary e).
Proof.
  intros known t H e He Hk. rewrite forallb_forall in H. specialize (H e He).
  unfold entry_ok in H. rewrite Hk, orb_false_r in H. now apply apply_exact_eq.
Qed.

(** ** Flow reading (used by Resolve) *)

Lemma existsb_edge_eqb : forall e l, existsb (edge_eqb e) l = true <-> In e l.
Proof.
  intros e l. rewrite existsb_exists. split.
  - intros [x [Hx Heq]]. destruct e, x; simpl in Heq; try discriminate;
      apply andb_true_iff in Heq as [H1 H2]; apply Nat.eqb_eq in H1; apply Z.eqb_eq in H2; now subst.
  - intros H. exists e. split; [assumption|]. destruct e; simpl; now rewrite Nat.eqb_refl, Z.eqb_refl.
Qed.

Lemma In_row_edges : forall (mk : nat -> Z -> edge) rows src i d,
  (forall a b a' b', mk a b = mk a' b' -> a = a' /\ b = b') ->
  In (mk i d) (row_edges mk src rows) <-> (src <= i /\ In d (nth (i - src) rows [])).
Proof.
  intros mk rows. induction rows as [|row rest IH]; intros src i d Hinj; simpl.
  - split; [contradiction|]. intros [_ H]. destruct (i - src); contradiction.
  - rewrite in_app_iff, in_map_iff, (IH (S src) i d Hinj). split.
    + intros [[x [Hx Hin]]|[Hle Hin]].
      * apply Hinj in Hx as [-> ->]. split; [lia|]. now rewrite Nat.sub_diag.
      * split; [lia|]. replace (i - src) with (S (i - S src)) by lia. assumption.
    + intros [Hle Hin]. destruct (Nat.eq_dec i src) as [->|Hne].
      * left. rewrite Nat.sub_diag in Hin. now exists d.
      * right. split; [lia|]. replace (i - src) with (S (i - S src)) in Hin by lia. assumption.
Qed.

Lemma In_written_EP : forall s i k, In (EP i k) (written s) <-> In k (nth i (s_args s) []).
Proof.
  intros. unfold written. rewrite in_app_iff. split.
  - intros [H|H].
    + apply In_row_edges in H; [|intros ? ? ? ? E; now inversion E]. rewrite Nat.sub_0_r in H. tauto.
    + exfalso. clear -H. generalize dependent 0. induction (s_rets s) as [|r rest IH]; simpl; intros n H; [assumption|].
      apply in_app_iff in H as [H|H]; [|now apply IH in H]. apply in_map_iff in H as [x [Hx _]]. discriminate.
  - intros H. left. apply In_row_edges; [intros ? ? ? ? E; now inversion E|]. rewrite Nat.sub_0_r. split; [lia|assumption].
Qed.

Lemma In_written_ER : forall s i j, In (ER i j) (written s) <-> In j (nth i (s_rets s) []).
Proof.
  intros. unfold written. rewrite in_app_iff. split.
  - intros [H|H].
    + exfalso. clear -H. generalize dependent 0. induction (s_args s) as [|r rest IH]; simpl; intros n H; [assumption|].
      apply in_app_iff in H as [H|H]; [|now apply IH in H]. apply in_map_iff in H as [x [Hx _]]. discriminate.
    + apply In_row_edges in H; [|intros ? ? ? ? E; now inversion E]. rewrite Nat.sub_0_r in H. tauto.
  - intros H. right. apply In_row_edges; [intros ? ? ? ? E; now inversion E|]. rewrite Nat.sub_0_r. split; [lia|assumption].
Qed.

(** The summary loaded for a function makes parameter i flow to result j iff the table lists j for i and both exist
    (and a return node exists); to parameter k iff the table lists k for i and both exist. *)
Theorem flows_to_ret_iff : forall s sg i j,
  flows_to_ret (apply s sg) i j = true <->
  (In (Z.of_nat j) (nth i (s_rets s) []) /\ i < nparams sg /\ exists len, In len (ret_lens sg) /\ j < len).
Proof.
  intros. unfold flows_to_ret. rewrite existsb_edge_eqb, apply_filter, filter_In, In_written_ER.
  simpl. unfold ret_in_range. rewrite !andb_true_iff, existsb_exists, Nat.ltb_lt, Z.leb_le, Nat2Z.id.
  split.
  - intros [H1 [[H2 _] [len [H3 H4]]]]. apply Nat.ltb_lt in H4. repeat split; try assumption. now exists len.
  - intros [H1 [H2 [len [H3 H4]]]]. repeat split; try assumption; [lia|]. exists len. split; [assumption|now apply Nat.ltb_lt].
Qed.

Theorem flows_to_param_iff : forall s sg i k,
  flows_to_param (apply s sg) i k = true <->
  (In (Z.of_nat k) (nth i (s_args s) []) /\ i < nparams sg /\ k < nparams sg).
Proof.
  intros. unfold flows_to_param. rewrite existsb_edge_eqb, apply_filter, filter_In, In_written_EP.
  simpl. unfold param_in_range. rewrite !andb_true_iff, !Nat.ltb_lt, Z.leb_le, Nat2Z.id.
  split; [intros [H1 [[H2 _] H3]]; tauto | intros [H1 [H2 H3]]; repeat split; try assumption; lia].
Qed.

(** ** T-dump inside Coq: the graph read back from the real loader equals the model's, as sets *)

Lemma subset_edges_spec : forall a b, subset_edges a b = true <-> (forall e, In e a -> In e b).
Proof.
  intros a b. unfold subset_edges. rewrite forallb_forall. split; intros H e He; specialize (H e He); now apply existsb_edge_eqb.
Qed.

Lemma seteq_edges_spec : forall a b, seteq_edges a b = true <-> (forall e, In e a <-> In e b).
Proof.
  intros a b. unfold seteq_edges. rewrite andb_true_iff, !subset_edges_spec. split.
  - intros [H1 H2] e. split; [apply H1|apply H2].
  - intros H. split; intros e; apply H.
Qed.

Theorem table_impl_forall : forall t, forallb entry_matches_impl t = true ->
  forall e, In e t -> forall x, In x (e_impl_out e) <-> In x (edges (apply (e_summary e) (e_sig e))).
Proof.
  intros t H e He x. rewrite forallb_forall in H. specialize (H e He). unfold entry_matches_impl in H.
  apply andb_true_iff in H as [H _]. rewrite seteq_edges_spec in H. symmetry. apply H.
Qed.

Theorem table_impl_written : forall known t, forallb (entry_ok known) t = true -> forallb entry_matches_impl t = true ->
  forall e, In e t -> mem_string (e_name e) known = false ->
  forall x, In x (e_impl_out e) <-> In x (written (e_summary e)).
Proof.
  intros known t H1 H2 e He Hk x. rewrite (table_impl_forall t H2 e He x).
  now rewrite (table_ok_forall known t H1 e He Hk).
Qed.
