(* Proofs/Intra.v -- lemmas about the rule system R of Model/Intra.v: the validator decides closedness, closed sets are
   forward-closed along the CFG, contain the least model, and cover every def-use chain of a well-formed SSA function. *)
From Coq Require Import List Bool PArith NArith FMapPositive FSetPositive Setoid Lia.
From Argot Require Import Model.Intra.
Import ListNotations.

(* ------------------------------------------------------------------------------------------ sets and maps of sets *)

Lemma pset_mem_add x y s : PositiveSet.mem x (PositiveSet.add y s) = true <-> y = x \/ PositiveSet.mem x s = true.
Proof.
  split.
  - intros H. apply PositiveSet.mem_2 in H. apply PositiveSet.add_spec in H.
    destruct H as [H|H]; [left; exact H | right; apply PositiveSet.mem_1; exact H].
  - intros H. apply PositiveSet.mem_1. apply PositiveSet.add_spec.
    destruct H as [H|H]; [left; exact H | right; apply PositiveSet.mem_2; exact H].
Qed.

Lemma pset_mem_empty x : PositiveSet.mem x PositiveSet.empty = false.
Proof. reflexivity. Qed.

Lemma ms_mem_empty k x : ms_mem k x (PositiveMap.empty _) = false.
Proof. unfold ms_mem, ms_get. rewrite PositiveMap.gempty. apply pset_mem_empty. Qed.

Lemma ms_mem_add k x m k' x' :
  ms_mem k' x' (ms_add k x m) = true <-> (k = k' /\ x = x') \/ ms_mem k' x' m = true.
Proof.
  unfold ms_mem, ms_add, ms_get.
  destruct (Pos.eq_dec k k') as [->|Hk].
  - rewrite PositiveMap.gss, pset_mem_add. intuition congruence.
  - rewrite PositiveMap.gso by congruence. intuition congruence.
Qed.

Lemma mm_mem_empty p v x : mm_mem p v x (PositiveMap.empty _) = false.
Proof. unfold mm_mem, mm_get. rewrite PositiveMap.gempty. apply ms_mem_empty. Qed.

Lemma mm_mem_add p v x m p' v' x' :
  mm_mem p' v' x' (mm_add p v x m) = true <-> (p = p' /\ v = v' /\ x = x') \/ mm_mem p' v' x' m = true.
Proof.
  unfold mm_mem, mm_add, mm_get.
  destruct (Pos.eq_dec p p') as [->|Hp].
  - rewrite PositiveMap.gss, ms_mem_add. intuition congruence.
  - rewrite PositiveMap.gso by congruence. intuition congruence.
Qed.

Lemma fs_mem_empty f : fs_mem fs_empty f = false.
Proof.
  destruct f; simpl; unfold mem_mark, mem_edge; simpl.
  - apply mm_mem_empty.
  - apply ms_mem_empty.
Qed.

Lemma fs_mem_add f s g : fs_mem (fs_add f s) g = true <-> f = g \/ fs_mem s g = true.
Proof.
  destruct f as [p v m|m u], g as [p' v' m'|m' u']; simpl; unfold mem_mark, mem_edge; simpl.
  - rewrite mm_mem_add. split.
    + intros [(-> & -> & ->)|H]; [left; reflexivity | right; exact H].
    + intros [H|H]; [left; inversion H; auto | right; exact H].
  - split; [intros H; right; exact H | intros [H|H]; [discriminate | exact H]].
  - split; [intros H; right; exact H | intros [H|H]; [discriminate | exact H]].
  - rewrite ms_mem_add. split.
    + intros [(-> & ->)|H]; [left; reflexivity | right; exact H].
    + intros [H|H]; [left; inversion H; auto | right; exact H].
Qed.

Lemma fs_mem_fold l : forall s f,
  fs_mem (fold_left (fun s f => fs_add f s) l s) f = true <-> In f l \/ fs_mem s f = true.
Proof.
  induction l as [|g l IH]; intros s f; simpl.
  - tauto.
  - rewrite IH, fs_mem_add. tauto.
Qed.

Lemma fs_mem_build l f : fs_mem (fs_build l) f = true <-> In f l.
Proof.
  unfold fs_build. rewrite fs_mem_fold, fs_mem_empty. intuition discriminate.
Qed.

Lemma mem_mark_build l p v m : mem_mark (fs_build l) p v m = true <-> In (Mark p v m) l.
Proof. apply (fs_mem_build l (Mark p v m)). Qed.

Lemma mem_edge_build l m u : mem_edge (fs_build l) m u = true <-> In (Edge m u) l.
Proof. apply (fs_mem_build l (Edge m u)). Qed.

Lemma origin_marks_fold l : forall s m,
  PositiveSet.mem m (fold_left (fun s (o : mark * point * value) => PositiveSet.add (fst (fst o)) s) l s) = true
  <-> (exists p v, In (m, p, v) l) \/ PositiveSet.mem m s = true.
Proof.
  induction l as [|[[m0 p0] v0] l IH]; intros s m; simpl.
  - split; [auto | intros [(p & v & [])|H]; auto].
  - rewrite IH, pset_mem_add. split.
    + intros [(p & v & H)|[H|H]].
      * left; exists p, v; auto.
      * left; exists p0, v0; left; simpl in H; rewrite H; reflexivity.
      * right; auto.
    + intros [(p & v & [H|H])|H].
      * right; left; simpl; injection H; auto.
      * left; exists p, v; auto.
      * right; right; auto.
Qed.

Lemma origin_marks_spec F m : PositiveSet.mem m (origin_marks F) = true <-> origin_mark F m.
Proof.
  unfold origin_marks, origin_mark, is_origin. rewrite origin_marks_fold, pset_mem_empty. intuition discriminate.
Qed.

Lemma flat_map_nil {A B} (f : A -> list B) l : flat_map f l = [] <-> forall x, In x l -> f x = [].
Proof.
  induction l as [|a l IH]; simpl.
  - split; [intros _ x [] | auto].
  - split.
    + intros H. apply app_eq_nil in H. destruct H as [H1 H2]. intros x [<-|Hx]; auto. apply IH; auto.
    + intros H. rewrite (H a) by auto. simpl. apply IH. intros; apply H; auto.
Qed.

Lemma fold_app_nil {A B} (g : A -> list B) l : forall acc,
  fold_left (fun acc x => g x ++ acc) l acc = [] <-> acc = [] /\ forall x, In x l -> g x = [].
Proof.
  induction l as [|a l IH]; intros acc; simpl.
  - split; [intros H; split; [exact H | intros x []] | intros [H _]; exact H].
  - rewrite IH. split.
    + intros [H1 H2]. apply app_eq_nil in H1. destruct H1 as [H1a H1b]. split; auto.
      intros x [<-|Hx]; auto.
    + intros [H1 H2]. split.
      * rewrite (H2 a) by auto. exact H1.
      * intros x Hx. apply H2; auto.
Qed.

(* ------------------------------------------------------------------------------------------ the validator *)

Section Check.
  Variable F : func.
  Variable l : list fact.

  Lemma viol_origins_nil :
    viol_origins F (fs_build l) = [] <-> forall m p v, is_origin F m p v -> In (Mark p v m) l.
  Proof.
    unfold viol_origins, is_origin. rewrite flat_map_nil. split.
    - intros H m p v Hin. specialize (H _ Hin). simpl in H.
      destruct (mem_mark (fs_build l) p v m) eqn:E; [apply mem_mark_build; auto | discriminate].
    - intros H [[m p] v] Hin. apply H in Hin. apply mem_mark_build in Hin. rewrite Hin. reflexivity.
  Qed.

  Lemma viol_forward_nil p v m qs :
    viol_forward (fs_build l) p v m qs = [] <-> forall q, In q qs -> In (Mark q v m) l.
  Proof.
    unfold viol_forward. rewrite flat_map_nil. split.
    - intros H q Hq. specialize (H q Hq). simpl in H.
      destruct (mem_mark (fs_build l) q v m) eqn:E; [apply mem_mark_build; auto | discriminate].
    - intros H q Hq. apply H in Hq. apply mem_mark_build in Hq. rewrite Hq. reflexivity.
  Qed.

  Lemma viol_transfer_nil p v m :
    viol_transfer F (fs_build l) p v m = [] <-> forall r, transfers F p v r m -> In (Mark p r m) l.
  Proof.
    unfold viol_transfer, transfers.
    destruct (PositiveMap.find p (f_instr F)) as [i|] eqn:Ei.
    - destruct (i_def i) as [r|] eqn:Er.
      + destruct (existsb (Pos.eqb v) (data_ops i)) eqn:Eex.
        * destruct (idx_ok F i v m) eqn:Eidx.
          -- simpl. destruct (mem_mark (fs_build l) p r m) eqn:Em; simpl.
             ++ split; [|reflexivity]. intros _ r' (i' & Hi' & Hd & _).
                injection Hi' as <-. rewrite Er in Hd. injection Hd as <-. apply mem_mark_build; auto.
             ++ split; [discriminate|]. intros H. exfalso.
                assert (Hin : In (Mark p r m) l).
                { apply H. exists i. repeat split; auto.
                  apply existsb_exists in Eex. destruct Eex as (a & Ha & Heq). apply Pos.eqb_eq in Heq. subst; auto. }
                apply mem_mark_build in Hin. congruence.
          -- simpl. split; [|reflexivity]. intros _ r' (i' & Hi' & _ & _ & Hidx).
             injection Hi' as <-. congruence.
        * simpl. split; [|reflexivity]. intros _ r' (i' & Hi' & _ & Hin & _).
          injection Hi' as <-.
          assert (existsb (Pos.eqb v) (data_ops i) = true).
          { apply existsb_exists. exists v. split; auto. apply Pos.eqb_refl. }
          congruence.
      + split; [|reflexivity]. intros _ r' (i' & Hi' & Hd & _). injection Hi' as <-. congruence.
    - split; [|reflexivity]. intros _ r' (i' & Hi' & _). discriminate.
  Qed.

  Lemma viol_edge_nil p v m :
    viol_edge F (fs_build l) (origin_marks F) p v m = []
    <-> (origin_mark F m -> forall u, consumes F p v u -> In (Edge m u) l).
  Proof.
    unfold viol_edge, consumes.
    destruct (PositiveSet.mem m (origin_marks F)) eqn:Eom.
    - rewrite flat_map_nil. split.
      + intros H _ u Hu. specialize (H (v, u) Hu). simpl in H. rewrite Pos.eqb_refl in H. simpl in H.
        destruct (mem_edge (fs_build l) m u) eqn:E; [apply mem_edge_build; auto | discriminate].
      + intros H [v' u] Hin. simpl.
        destruct (Pos.eqb v' v) eqn:Ev; simpl; auto.
        apply Pos.eqb_eq in Ev. subst.
        assert (Hin' : In (Edge m u) l) by (apply H; [apply origin_marks_spec; auto | exact Hin]).
        apply mem_edge_build in Hin'. rewrite Hin'. reflexivity.
    - split; [|reflexivity]. intros _ Hom. apply origin_marks_spec in Hom. congruence.
  Qed.

  Lemma violations_nil : violations F l = [] <-> closed F (fun f => In f l).
  Proof.
    unfold violations. split.
    - intros H. apply app_eq_nil in H. destruct H as [Ho Hf]. apply fold_app_nil in Hf. destruct Hf as [_ Hf].
      constructor.
      + apply viol_origins_nil; auto.
      + intros p q v m HM Hs. specialize (Hf _ HM). simpl in Hf.
        apply app_eq_nil in Hf. destruct Hf as [H1 _].
        eapply viol_forward_nil; eauto.
      + intros p a r m HM Ht. specialize (Hf _ HM). simpl in Hf.
        apply app_eq_nil in Hf. destruct Hf as [_ H2]. apply app_eq_nil in H2. destruct H2 as [H2 _].
        eapply viol_transfer_nil; eauto.
      + intros p v m u HM Hom Hc. specialize (Hf _ HM). simpl in Hf.
        apply app_eq_nil in Hf. destruct Hf as [_ H2]. apply app_eq_nil in H2. destruct H2 as [_ H3].
        eapply viol_edge_nil; eauto.
    - intros [Ho Hfw Ht He].
      assert (E : viol_origins F (fs_build l) = []) by (apply viol_origins_nil; auto).
      rewrite E. simpl. apply fold_app_nil. split; [reflexivity|]. intros [p v m|m u] Hin; simpl; auto.
      assert (E1 : viol_forward (fs_build l) p v m (succs F p) = []).
      { apply viol_forward_nil. intros q Hq. eapply Hfw; eauto. }
      assert (E2 : viol_transfer F (fs_build l) p v m = []).
      { apply viol_transfer_nil. intros r Hr. eapply Ht; eauto. }
      assert (E3 : viol_edge F (fs_build l) (origin_marks F) p v m = []).
      { apply viol_edge_nil. intros Hom u Hu. eapply He; eauto. }
      rewrite E1, E2, E3. reflexivity.
  Qed.

  Lemma check_closed_ok : check_closed F l = true <-> closed F (fun f => In f l).
  Proof.
    unfold check_closed. destruct (violations F l) eqn:E.
    - split; auto. intros _. apply violations_nil; auto.
    - split; [discriminate|]. intros H. apply violations_nil in H. congruence.
  Qed.
End Check.

(* ------------------------------------------------------------------------------------------ consequences of closedness *)

Section Closed.
  Variable F : func.
  Variable S : fact -> Prop.
  Hypothesis HC : closed F S.

  Lemma closed_forward p q v m : S (Mark p v m) -> cfg_succ F p q -> S (Mark q v m).
  Proof. apply (cl_forward F S HC). Qed.

  Lemma closed_forward_star p q v m : S (Mark p v m) -> reach F p q -> S (Mark q v m).
  Proof.
    intros HM Hr. induction Hr as [p|p q r Hr IH Hs].
    - exact HM.
    - eapply closed_forward; [apply IH; exact HM | exact Hs].
  Qed.

  Lemma closed_least f : derivable F f -> S f.
  Proof.
    induction 1.
    - eapply cl_origin; eauto.
    - eapply cl_forward; eauto.
    - eapply cl_transfer; eauto.
    - eapply cl_edge; eauto.
  Qed.

  Hypothesis HW : wf_ssa F.

  (* every value on a chain carries the origin's mark at its definition point *)
  Lemma chain_marks m a z vs :
    chain F m a z vs -> forall d, defpt F a = Some d -> S (Mark d a m) ->
    exists d', defpt F z = Some d' /\ S (Mark d' z m).
  Proof.
    induction 1 as [v|a r z vs p Ht Hch IH]; intros d Hd HM.
    - exists d; auto.
    - destruct Ht as (i & Hi & Hdef & Hin & Hidx).
      assert (Hr : reach F d p) by (eapply (wf_ops F HW); eauto).
      assert (HMp : S (Mark p a m)) by (eapply closed_forward_star; eauto).
      assert (HMr : S (Mark p r m)).
      { eapply (cl_transfer F S HC); eauto. exists i; auto. }
      apply (IH p); auto. eapply (wf_def F HW); eauto.
  Qed.

  Lemma closed_covers_chains : covers_chains F S.
  Proof.
    intros m p0 v0 vn vs p u Ho Hch Hu.
    assert (Hd0 : defpt F v0 = Some p0) by (eapply (wf_orig F HW); eauto).
    assert (HM0 : S (Mark p0 v0 m)) by (eapply (cl_origin F S HC); eauto).
    destruct (chain_marks m v0 vn vs Hch p0 Hd0 HM0) as (d' & Hd' & HM').
    assert (Hr : reach F d' p) by (eapply (wf_use F HW); eauto).
    eapply (cl_edge F S HC).
    - eapply closed_forward_star; eauto.
    - exists p0, v0; auto.
    - exact Hu.
  Qed.
End Closed.

Lemma derivable_closed F : closed F (derivable F).
Proof.
  constructor; intros.
  - eapply d_origin; eauto.
  - eapply d_forward; eauto.
  - eapply d_transfer; eauto.
  - eapply d_edge; eauto.
Qed.

(* ------------------------------------------------------------------------------------------ wf_ssa, boolean *)

Lemma bfs_sound F d : forall fuel work seen,
  (forall x, In x work -> reach F d x) ->
  (forall x, PositiveSet.mem x seen = true -> reach F d x) ->
  forall x, PositiveSet.mem x (bfs (succs F) fuel work seen) = true -> reach F d x.
Proof.
  induction fuel as [|fuel IH]; intros work seen Hw Hs x; simpl; auto.
  destruct work as [|y w]; auto.
  destruct (PositiveSet.mem y seen) eqn:E.
  - apply IH; auto. intros; apply Hw; right; auto.
  - apply IH.
    + intros z Hz. apply in_app_or in Hz. destruct Hz as [Hz|Hz].
      * eapply reach_step; [apply Hw; left; reflexivity | exact Hz].
      * apply Hw; right; auto.
    + intros z Hz. apply pset_mem_add in Hz. destruct Hz as [<-|Hz]; auto. apply Hw; left; auto.
Qed.

Lemma reach_set_sound F d p : PositiveSet.mem p (reach_set F d) = true -> reach F d p.
Proof.
  unfold reach_set. apply bfs_sound.
  - intros x [<-|[]]. apply reach_refl.
  - intros x H. rewrite pset_mem_empty in H. discriminate.
Qed.

Lemma group_pairs_fold l : forall g d p,
  (In (d, p) l \/ exists ps, PositiveMap.find d g = Some ps /\ In p ps) ->
  exists ps, PositiveMap.find d
    (fold_left (fun g (dp : point * point) =>
                  let ps := match PositiveMap.find (fst dp) g with Some ps => ps | None => [] end in
                  PositiveMap.add (fst dp) (snd dp :: ps) g) l g) = Some ps /\ In p ps.
Proof.
  induction l as [|[d0 p0] l IH]; intros g d p H; simpl.
  - destruct H as [[]|H]; auto.
  - apply IH. destruct H as [[H|H]|(ps & Hf & Hin)].
    + injection H as -> ->. right. eexists; split; [apply PositiveMap.gss | left; reflexivity].
    + left; auto.
    + right. destruct (Pos.eq_dec d d0) as [->|Hd].
      * rewrite Hf. eexists; split; [apply PositiveMap.gss | right; exact Hin].
      * exists ps. rewrite PositiveMap.gso by auto. auto.
Qed.

Lemma group_pairs_spec l d p : In (d, p) l -> exists ps, PositiveMap.find d (group_pairs l) = Some ps /\ In p ps.
Proof. intros H. unfold group_pairs. apply group_pairs_fold. left; exact H. Qed.

Lemma check_reaches_sound F d p : check_reaches F = true -> In (d, p) (need_pairs F) -> reach F d p.
Proof.
  unfold check_reaches. intros H Hin.
  destruct (group_pairs_spec _ _ _ Hin) as (ps & Hf & Hp).
  apply PositiveMap.elements_correct in Hf.
  rewrite forallb_forall in H. specialize (H _ Hf). simpl in H.
  rewrite forallb_forall in H. apply reach_set_sound. apply H; auto.
Qed.

Theorem check_wf_ssa_sound F : check_wf_ssa F = true -> wf_ssa F.
Proof.
  unfold check_wf_ssa, check_defs. intros H.
  apply andb_true_iff in H. destruct H as [H Hr].
  apply andb_true_iff in H. destruct H as [Hd Ho].
  rewrite forallb_forall in Hd, Ho.
  constructor.
  - intros p i r Hi Hdef. apply PositiveMap.elements_correct in Hi. specialize (Hd _ Hi). cbn [fst snd] in Hd.
    rewrite Hdef in Hd. destruct (defpt F r) as [d|] eqn:E; [|discriminate]. apply Pos.eqb_eq in Hd. subst. reflexivity.
  - intros m p v Hin. specialize (Ho _ Hin). cbn [fst snd] in Ho.
    destruct (defpt F v) as [d|] eqn:E; [|discriminate]. apply Pos.eqb_eq in Ho. subst. reflexivity.
  - intros p i a d Hi Ha Hda. apply check_reaches_sound; auto.
    unfold need_pairs. apply in_or_app. left.
    apply PositiveMap.elements_correct in Hi.
    apply in_flat_map. exists (p, i). split; auto. simpl.
    apply in_flat_map. exists a. split; auto. rewrite Hda. left; reflexivity.
  - intros p v u d Hc Hdv. apply check_reaches_sound; auto.
    unfold need_pairs. apply in_or_app. right.
    unfold consumes, uses_at in Hc.
    destruct (PositiveMap.find p (f_uses F)) as [ul|] eqn:Eu; [|destruct Hc].
    apply PositiveMap.elements_correct in Eu.
    apply in_flat_map. exists (p, ul). split; auto. simpl.
    apply in_flat_map. exists (v, u). split; auto. simpl. rewrite Hdv. left; reflexivity.
Qed.

(* ------------------------------------------------------------------------------------------ T-cert, end to end *)

(* what a successful run of the two extracted validators on a function's dump establishes *)
Theorem tcert_sound F l :
  check_wf_ssa F = true -> check_closed F l = true -> covers_chains F (fun f => In f l).
Proof.
  intros Hw Hc. apply closed_covers_chains.
  - apply check_closed_ok; exact Hc.
  - apply check_wf_ssa_sound; exact Hw.
Qed.

(* used for the whole-state forward check: for an F with the CFG only (no instructions, origins, uses) the other rules
   are vacuous, so check_closed decides exactly forward closure *)
Lemma check_closed_forward F l :
  check_closed F l = true -> forall p q v m, In (Mark p v m) l -> cfg_succ F p q -> In (Mark q v m) l.
Proof.
  intros Hc p q v m HM Hs. apply check_closed_ok in Hc. eapply (cl_forward F _ Hc); eauto.
Qed.
