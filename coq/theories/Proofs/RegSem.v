(* Proofs/RegSem.v -- the semantic link, layer L1 (registers, one function): every mark in the provenance of a value
   during ANY execution of Lang/RegSem.v is justified by an explicit def-use chain of Model/Intra.v from the origin of
   that mark, all of whose instructions were executed; hence any fact set closed under the rule system R (in
   particular the real analysis output accepted by the extracted validators) contains the summary edge for every
   (origin, use) pair that an execution exhibits.  For all functions, oracles, entry points and fuels. *)
From Coq Require Import List Bool PArith NArith Arith FMapPositive FSetPositive Lia.
From Argot Require Import Model.Intra Proofs.Intra Lang.RegSem.
Import ListNotations.

(* ------------------------------------------------------------------------------------------ sets *)

Lemma compat_any (f : positive -> bool) : SetoidList.compat_bool PositiveSet.E.eq f.
Proof. intros x y E. unfold PositiveSet.E.eq in E. subst. reflexivity. Qed.

Lemma pmem_union x s s' :
  PositiveSet.mem x (PositiveSet.union s s') = true <-> PositiveSet.mem x s = true \/ PositiveSet.mem x s' = true.
Proof.
  split.
  - intros H. apply PositiveSet.mem_2, PositiveSet.union_spec in H.
    destruct H as [H|H]; [left|right]; apply PositiveSet.mem_1; exact H.
  - intros H. apply PositiveSet.mem_1, PositiveSet.union_spec.
    destruct H as [H|H]; [left|right]; apply PositiveSet.mem_2; exact H.
Qed.

Lemma pmem_filter x f s :
  PositiveSet.mem x (PositiveSet.filter f s) = true <-> PositiveSet.mem x s = true /\ f x = true.
Proof.
  split.
  - intros H. apply PositiveSet.mem_2 in H. split.
    + apply PositiveSet.mem_1. eapply PositiveSet.filter_1; [apply compat_any | exact H].
    + eapply PositiveSet.filter_2; [apply compat_any | exact H].
  - intros [H1 H2]. apply PositiveSet.mem_1. apply PositiveSet.filter_3; [apply compat_any | | exact H2].
    apply PositiveSet.mem_2; exact H1.
Qed.

(* ------------------------------------------------------------------------------------------ environments *)

Lemma has_empty v m : has (PositiveMap.empty _) v m = false.
Proof. unfold has, prov. rewrite PositiveMap.gempty. reflexivity. Qed.

Lemma has_add_mark v m e v' m' :
  has (add_mark v m e) v' m' = true <-> (v = v' /\ m = m') \/ has e v' m' = true.
Proof.
  unfold has, add_mark, prov at 1.
  destruct (Pos.eq_dec v v') as [->|Hv].
  - rewrite PositiveMap.gss, pset_mem_add. intuition congruence.
  - rewrite PositiveMap.gso by congruence. unfold prov. intuition congruence.
Qed.

Lemma has_set r s e v m :
  has (PositiveMap.add r s e) v m = true <-> (r = v /\ PositiveSet.mem m s = true) \/ (r <> v /\ has e v m = true).
Proof.
  unfold has, prov at 1.
  destruct (Pos.eq_dec r v) as [->|Hv].
  - rewrite PositiveMap.gss. intuition congruence.
  - rewrite PositiveMap.gso by congruence. unfold prov. intuition congruence.
Qed.

Lemma has_add_origins_fold p l : forall e v m,
  has (fold_left (fun e (o : mark * point * value) =>
                    match o with (m, q, v) => if Pos.eqb q p then add_mark v m e else e end) l e) v m = true
  <-> In (m, p, v) l \/ has e v m = true.
Proof.
  induction l as [|[[m0 q0] v0] l IH]; intros e v m; simpl.
  - intuition.
  - rewrite IH. destruct (Pos.eqb q0 p) eqn:E.
    + apply Pos.eqb_eq in E. subst q0. rewrite has_add_mark. split.
      * intros [H|[[-> ->]|H]]; auto.
      * intros [[H|H]|H]; auto. injection H as -> ->. auto.
    + apply Pos.eqb_neq in E. split.
      * intros [H|H]; auto.
      * intros [[H|H]|H]; auto. injection H as _ Hq _. congruence.
Qed.

Lemma has_add_origins F p e v m :
  has (add_origins F p e) v m = true <-> is_origin F m p v \/ has e v m = true.
Proof. unfold add_origins, is_origin. apply has_add_origins_fold. Qed.

Lemma has_init_env F entry v m : has (init_env F entry) v m = true <-> is_origin F m entry v.
Proof. unfold init_env. rewrite has_add_origins, has_empty. intuition discriminate. Qed.

Lemma mem_ops_prov F k e m : forall ops,
  PositiveSet.mem m (ops_prov F k ops e) = true <-> exists a, In a ops /\ has e a m = true /\ passes F k a m = true.
Proof.
  induction ops as [|a ops IH]; simpl.
  - split; [intros H; discriminate H | intros (a & [] & _)].
  - rewrite pmem_union, pmem_filter, IH. unfold has. split.
    + intros [[H1 H2]|(b & Hb & H1 & H2)]; [exists a | exists b]; auto.
    + intros (b & [<-|Hb] & H1 & H2); [left; auto | right; exists b; auto].
Qed.

(* ------------------------------------------------------------------------------------------ the two tables agree *)

(* the semantics' operand table is included in the rule system's *)
Lemma sem_ops_data_ops i c a : In a (sem_ops (i_kind i) (i_ops i) c) -> In a (data_ops i).
Proof.
  unfold sem_ops, data_ops. destruct (i_kind i); auto.
  - (* Phi *) destruct (nth_error (i_ops i) c) eqn:E; [|intros []]. intros [<-|[]]. eapply nth_error_In; eauto.
  (* Slice ([firstn 1]) and Builtin (the two builtin tables) are convertible and closed by [auto] *)
Qed.

Lemma passes_idx_ok F i a m : passes F (i_kind i) a m = idx_ok F i a m.
Proof. reflexivity. Qed.

Lemma pick_In c l q : pick c l = Some q -> In q l.
Proof. unfold pick. destruct l; [discriminate|]. apply nth_error_In. Qed.

(* ------------------------------------------------------------------------------------------ one step *)

Lemma has_exec_instr F orc hist p e v m :
  has (exec_instr F orc hist p e) v m = true ->
  has e v m = true \/ exists a, transfers F p a v m /\ has e a m = true.
Proof.
  unfold exec_instr. destruct (PositiveMap.find p (f_instr F)) as [i|] eqn:Ei; auto.
  destruct (i_def i) as [r|] eqn:Er; auto.
  rewrite has_set. intros [[-> H]|[_ H]]; auto.
  apply mem_ops_prov in H. destruct H as (a & Ha & Hm & Hp). right. exists a. split; auto.
  exists i. split; [exact Ei|]. split; [exact Er|]. split.
  - eapply sem_ops_data_ops; eauto.
  - rewrite <- passes_idx_ok. exact Hp.
Qed.

Lemma has_step_env F orc hist p e v m :
  has (step_env F orc hist p e) v m = true ->
  is_origin F m p v \/ has e v m = true \/ exists a, transfers F p a v m /\ has e a m = true.
Proof.
  unfold step_env. rewrite has_add_origins. intros [H|H]; auto. right. eapply has_exec_instr; eauto.
Qed.

(* ------------------------------------------------------------------------------------------ induction over executions *)

(* [P h p e]: invariant of the environment on arrival at p with history h (p is the head of h); [Q] after p *)
Section RunInv.
  Variable F : func.
  Variable orc : oracle.
  Variables P Q : list point -> point -> env -> Prop.
  Hypothesis Hstep : forall hist p e, P (p :: hist) p e -> Q (p :: hist) p (step_env F orc (p :: hist) p e).
  Hypothesis Hnext : forall hist p e q, Q (p :: hist) p e -> In q (succs F p) -> P (q :: p :: hist) q e.

  Lemma run_inv : forall fuel hist p e, P (p :: hist) p e ->
    forall c, In c (fst (run F orc fuel hist p e)) ->
    exists h, P h (c_pt c) (c_pre c) /\ Q h (c_pt c) (c_post c) /\
              forall x, In x h -> In x hist \/ In x (map c_pt (fst (run F orc fuel hist p e))).
  Proof.
    induction fuel as [|k IH]; intros hist p e HP c Hc; [destruct Hc|].
    simpl in *.
    destruct (pick (o_branch orc (p :: hist)) (succs F p)) as [q|] eqn:Epick.
    - destruct (run F orc k (p :: hist) q (step_env F orc (p :: hist) p e)) as [t o] eqn:Erun.
      simpl in *. destruct Hc as [<-|Hc].
      + exists (p :: hist). simpl. repeat split; auto. intros x [<-|Hx]; auto.
      + assert (HP' : P (q :: p :: hist) q (step_env F orc (p :: hist) p e)).
        { apply Hnext; [apply Hstep; exact HP | eapply pick_In; eauto]. }
        specialize (IH (p :: hist) q _ HP' c). rewrite Erun in IH. simpl in IH.
        destruct (IH Hc) as (h & H1 & H2 & H3). exists h. repeat split; auto.
        intros x Hx. destruct (H3 x Hx) as [[<-|Hh]|Hh]; auto.
    - simpl in *. destruct Hc as [<-|[]].
      exists (p :: hist). simpl. repeat split; auto. intros x [<-|Hx]; auto.
  Qed.
End RunInv.

(* ------------------------------------------------------------------------------------------ chains *)

Lemma chain_in_chain F T m a z l : chain_in F T m a z l -> chain F m a z l.
Proof. induction 1; [apply ch_nil | eapply ch_cons; eauto]. Qed.

Lemma chain_in_mono F (T T' : point -> Prop) m a z l :
  (forall p, T p -> T' p) -> chain_in F T m a z l -> chain_in F T' m a z l.
Proof. intros HT. induction 1; [apply chi_nil | eapply chi_cons; eauto]. Qed.

Lemma chain_in_snoc F T m a z l p r :
  chain_in F T m a z l -> T p -> transfers F p z r m -> chain_in F T m a r (l ++ [r]).
Proof.
  intros Hc HT. induction Hc as [v|a r' z l p' HT' Ht' Hc IH]; intros Ht; simpl.
  - apply chi_cons with (p := p); [exact HT | exact Ht | apply chi_nil].
  - apply chi_cons with (p := p'); [exact HT' | exact Ht' | apply IH; exact Ht].
Qed.

(* every mark of every register is justified by an origin and a chain through executed instructions *)
Definition justified (F : func) (h : list point) (e : env) : Prop :=
  forall v m, has e v m = true ->
  exists p0 v0 l, is_origin F m p0 v0 /\ In p0 h /\ chain_in F (fun p => In p h) m v0 v l.

Lemma justified_mono F h h' e : (forall x, In x h -> In x h') -> justified F h e -> justified F h' e.
Proof.
  intros Hh HJ v m Hm. destruct (HJ v m Hm) as (p0 & v0 & l & Ho & Hp & Hc).
  exists p0, v0, l. repeat split; auto. eapply chain_in_mono; [|exact Hc]. auto.
Qed.

Lemma justified_step F orc hist p e :
  justified F (p :: hist) e -> justified F (p :: hist) (step_env F orc (p :: hist) p e).
Proof.
  intros HJ v m Hm. apply has_step_env in Hm. destruct Hm as [Ho|[Hm|(a & Ht & Hm)]].
  - exists p, v, []. split; [exact Ho|]. split; [left; reflexivity | apply chi_nil].
  - apply HJ; exact Hm.
  - destruct (HJ a m Hm) as (p0 & v0 & l & Ho & Hp & Hc).
    exists p0, v0, (l ++ [v]). split; [exact Ho|]. split; [exact Hp|].
    apply chain_in_snoc with (p := p) (z := a); [exact Hc | left; reflexivity | exact Ht].
Qed.

Lemma justified_init F entry : justified F [entry] (init_env F entry).
Proof.
  intros v m Hm. apply has_init_env in Hm. exists entry, v, [].
  split; [exact Hm|]. split; [left; reflexivity | apply chi_nil].
Qed.

(* (1) the semantic link: provenance implies a def-use chain through executed instructions *)
Theorem prov_implies_chain_in F orc fuel entry c v m :
  In c (trace F orc fuel entry) -> carries c v m ->
  let T := fun p => In p (map c_pt (trace F orc fuel entry)) in
  exists p0 v0 l, is_origin F m p0 v0 /\ T p0 /\ chain_in F T m v0 v l.
Proof.
  intros Hc Hcar T. unfold trace, exec in *.
  destruct (run_inv F orc (fun h _ e => justified F h e) (fun h _ e => justified F h e)) with
    (fuel := fuel) (hist := @nil point) (p := entry) (e := init_env F entry) (c := c) as (h & H1 & H2 & H3); auto.
  - intros hist p e. apply justified_step.
  - intros hist p e q HJ _. eapply justified_mono; [|exact HJ]. intros x Hx; right; exact Hx.
  - apply justified_init.
  - assert (Hh : forall x, In x h -> T x).
    { intros x Hx. destruct (H3 x Hx) as [[]|Hx']. exact Hx'. }
    assert (HJ : exists p0 v0 l, is_origin F m p0 v0 /\ In p0 h /\ chain_in F (fun p => In p h) m v0 v l).
    { destruct Hcar as [Hm|Hm]; [apply H1 | apply H2]; exact Hm. }
    destruct HJ as (p0 & v0 & l & Ho & Hp & Hch). exists p0, v0, l. repeat split; auto.
    eapply chain_in_mono; [|exact Hch]. exact Hh.
Qed.

Theorem prov_implies_chain F orc fuel entry c v m :
  In c (trace F orc fuel entry) -> carries c v m ->
  exists p0 v0 l, is_origin F m p0 v0 /\ chain F m v0 v l.
Proof.
  intros Hc Hcar. destruct (prov_implies_chain_in F orc fuel entry c v m Hc Hcar) as (p0 & v0 & l & Ho & _ & Hch).
  exists p0, v0, l. split; auto. eapply chain_in_chain; eauto.
Qed.

(* (2) any closed fact set has the summary edge of every (origin, use) pair exhibited by an execution *)
Theorem intra_sound_L1 F (S : fact -> Prop) orc fuel entry c v m u :
  closed F S -> wf_ssa F ->
  In c (trace F orc fuel entry) -> consumes F (c_pt c) v u -> carries c v m ->
  S (Edge m u).
Proof.
  intros HC HW Hc Hu Hcar.
  destruct (prov_implies_chain F orc fuel entry c v m Hc Hcar) as (p0 & v0 & l & Ho & Hch).
  eapply (closed_covers_chains F S HC HW); eauto.
Qed.

(* (3) the same about the REAL analysis output accepted by the two extracted validators *)
Theorem intra_sound_L1_tcert F (l : list fact) orc fuel entry c v m u :
  check_closed F l = true -> check_wf_ssa F = true ->
  In c (trace F orc fuel entry) -> consumes F (c_pt c) v u -> carries c v m ->
  In (Edge m u) l.
Proof.
  intros HC HW Hc Hu Hcar.
  destruct (prov_implies_chain F orc fuel entry c v m Hc Hcar) as (p0 & v0 & l0 & Ho & Hch).
  eapply (tcert_sound F l HW HC); eauto.
Qed.

(* ------------------------------------------------------------------------------------------ the direct simulation *)

(* Because executions follow the CFG, a closed set simulates the machine point by point; this needs no [wf_ssa] and
   gives the flow-sensitive statement about marks as well. *)
Section Direct.
  Variable F : func.
  Variable S : fact -> Prop.
  Hypothesis HC : closed F S.

  Definition within (p : point) (e : env) : Prop := forall v m, has e v m = true -> S (Mark p v m).

  Lemma within_step orc hist p e : within p e -> within p (step_env F orc hist p e).
  Proof.
    intros HI v m Hm. apply has_step_env in Hm. destruct Hm as [Ho|[Hm|(a & Ht & Hm)]].
    - eapply (cl_origin F S HC); eauto.
    - apply HI; exact Hm.
    - eapply (cl_transfer F S HC); eauto.
  Qed.

  Lemma within_next p q e : within p e -> In q (succs F p) -> within q e.
  Proof. intros HI Hq v m Hm. eapply (cl_forward F S HC); [apply HI; exact Hm | exact Hq]. Qed.

  Lemma within_init entry : within entry (init_env F entry).
  Proof. intros v m Hm. apply has_init_env in Hm. eapply (cl_origin F S HC); eauto. Qed.

  Theorem exec_marks_sound orc fuel entry c v m :
    In c (trace F orc fuel entry) -> carries c v m -> S (Mark (c_pt c) v m).
  Proof.
    intros Hc Hcar. unfold trace, exec in Hc.
    destruct (run_inv F orc (fun _ p e => within p e) (fun _ p e => within p e)) with
      (fuel := fuel) (hist := @nil point) (p := entry) (e := init_env F entry) (c := c) as (h & H1 & H2 & _); auto.
    - intros hist p e. apply within_step.
    - intros hist p e q HI Hq. eapply within_next; eauto.
    - apply within_init.
    - destruct Hcar as [Hm|Hm]; [apply H1 | apply H2]; exact Hm.
  Qed.

  Theorem intra_sound_L1_direct orc fuel entry c v m u :
    In c (trace F orc fuel entry) -> consumes F (c_pt c) v u -> carries c v m -> S (Edge m u).
  Proof.
    intros Hc Hu Hcar.
    destruct (prov_implies_chain F orc fuel entry c v m Hc Hcar) as (p0 & v0 & l & Ho & _).
    eapply (cl_edge F S HC).
    - eapply exec_marks_sound; eauto.
    - exists p0, v0; exact Ho.
    - exact Hu.
  Qed.
End Direct.

Theorem intra_sound_L1_direct_tcert F (l : list fact) orc fuel entry c v m u :
  check_closed F l = true ->
  In c (trace F orc fuel entry) -> consumes F (c_pt c) v u -> carries c v m -> In (Edge m u) l.
Proof.
  intros HC. apply check_closed_ok in HC. apply (intra_sound_L1_direct F (fun f => In f l) HC).
Qed.

(* the executable observation used by the examples is exactly the set of exhibited (mark, use node) pairs *)
Lemma observed_edges_spec F t m u :
  In (m, u) (observed_edges F t) <-> exists c v, In c t /\ consumes F (c_pt c) v u /\ carries c v m.
Proof.
  unfold observed_edges, consumes, carries, has. split.
  - intros H. apply in_flat_map in H. destruct H as (c & Hc & H).
    apply in_flat_map in H. destruct H as ([v u'] & Hvu & H). apply in_map_iff in H. destruct H as (m' & E & Hm).
    simpl in *. injection E as -> ->. exists c, v. repeat split; auto.
    apply (SetoidList.In_InA (eqA := @eq positive)) in Hm; [|auto with typeclass_instances].
    apply PositiveSet.elements_2, PositiveSet.union_spec in Hm.
    destruct Hm as [Hm|Hm]; [left|right]; apply PositiveSet.mem_1; exact Hm.
  - intros (c & v & Hc & Hu & Hm). apply in_flat_map. exists c. split; auto.
    apply in_flat_map. exists (v, u). split; auto. apply in_map_iff. exists m. split; auto. simpl.
    assert (Hin : PositiveSet.In m (PositiveSet.union (prov (c_pre c) v) (prov (c_post c) v))).
    { apply PositiveSet.union_spec. destruct Hm as [Hm|Hm]; [left|right]; apply PositiveSet.mem_2; exact Hm. }
    apply PositiveSet.elements_1 in Hin. apply SetoidList.InA_alt in Hin. destruct Hin as (y & <- & Hy). exact Hy.
Qed.

(* ================================================================================================================== *)
(* L2, restricted (whole cells allocated in the function, dereferenced through the Alloc's register): direct simulation *)

Lemma defines_spec F p r :
  defines F p = Some r <-> exists i, PositiveMap.find p (f_instr F) = Some i /\ i_def i = Some r.
Proof.
  unfold defines. destruct (PositiveMap.find p (f_instr F)) as [i|].
  - split; [intros Hd; exists i; auto | intros (i' & E & Hd); injection E as <-; exact Hd].
  - split; [discriminate | intros (i' & E & _); discriminate].
Qed.

Lemma has_cell s a m :
  PositiveSet.mem m (cell s a) = true -> exists l, PositiveMap.find a (s_ptr s) = Some l /\ has (s_heap s) l m = true.
Proof.
  unfold cell. destruct (PositiveMap.find a (s_ptr s)) as [l|]; [|intros Hm; discriminate Hm].
  intros Hm. exists l. auto.
Qed.

Lemma has_hregs H orc hist p s v m :
  has (hregs H orc hist p s) v m = true ->
  is_origin (h_func H) m p v \/ has (s_reg s) v m = true \/
  (exists a, transfers (h_func H) p a v m /\ has (s_reg s) a m = true) \/
  (exists a l, PositiveMap.find p (h_load H) = Some a /\ defines (h_func H) p = Some v /\
               PositiveMap.find a (s_ptr s) = Some l /\ has (s_heap s) l m = true).
Proof.
  unfold hregs. rewrite has_add_origins. intros [Ho|Hm]; auto. right.
  assert (Hbase : has (exec_instr (h_func H) orc hist p (s_reg s)) v m = true ->
                  has (s_reg s) v m = true \/
                  (exists a, transfers (h_func H) p a v m /\ has (s_reg s) a m = true) \/
                  (exists a l, PositiveMap.find p (h_load H) = Some a /\ defines (h_func H) p = Some v /\
                               PositiveMap.find a (s_ptr s) = Some l /\ has (s_heap s) l m = true)).
  { intros Hx. apply has_exec_instr in Hx. destruct Hx as [Hx|Hx]; auto. }
  destruct (PositiveMap.find p (h_load H)) as [a|] eqn:El; [|auto].
  destruct (defines (h_func H) p) as [r|] eqn:Ed; [|auto].
  apply has_set in Hm. destruct Hm as [[-> Hm]|[_ Hm]]; [|auto].
  apply pmem_union in Hm. destruct Hm as [Hm|Hm].
  - apply Hbase. exact Hm.
  - right. right. apply has_cell in Hm. destruct Hm as (l & Hl & Hm). exists a, l. auto.
Qed.

Lemma find_hptr H orc hist p s v l :
  PositiveMap.find v (hptr H orc hist p s) = Some l ->
  (defines (h_func H) p = Some v /\ allocating H p = true /\ l = s_next s) \/
  (defines (h_func H) p = Some v /\ allocating H p = false /\ exists a0, PositiveMap.find a0 (s_ptr s) = Some l) \/
  (defines (h_func H) p <> Some v /\ PositiveMap.find v (s_ptr s) = Some l).
Proof.
  unfold hptr. destruct (defines (h_func H) p) as [r|] eqn:Ed.
  - destruct (Pos.eq_dec r v) as [->|Hrv].
    + destruct (allocating H p) eqn:Ea.
      * rewrite PositiveMap.gss. intros E. injection E as <-. left. auto.
      * destruct (ptr_src H orc hist p s) as [l'|] eqn:Es.
        -- rewrite PositiveMap.gss. intros E. injection E as <-. right. left. repeat split; auto.
           unfold ptr_src in Es. destruct (PositiveMap.find p (f_instr (h_func H))) as [i|]; [|discriminate].
           destruct (copies_pointer (i_kind i)); [|discriminate].
           destruct (sem_ops (i_kind i) (i_ops i) (o_phi orc hist)) as [|a0 [|? ?]]; try discriminate.
           exists a0. exact Es.
        -- rewrite PositiveMap.grs. discriminate.
    + assert (Hne : Some r <> Some v) by congruence.
      destruct (allocating H p).
      * rewrite PositiveMap.gso by congruence. intros E. right. right. auto.
      * destruct (ptr_src H orc hist p s).
        -- rewrite PositiveMap.gso by congruence. intros E. right. right. auto.
        -- rewrite PositiveMap.gro by congruence. intros E. right. right. auto.
  - intros E. right. right. split; [discriminate | exact E].
Qed.

Lemma has_heap_stored H p s l m :
  has (heap_stored H p s) l m = true ->
  (exists a x, PositiveMap.find p (h_store H) = Some (a, x) /\ PositiveMap.find a (s_ptr s) = Some l /\
               has (s_reg s) x m = true) \/ has (s_heap s) l m = true.
Proof.
  unfold heap_stored. destruct (PositiveMap.find p (h_store H)) as [[a x]|] eqn:Es; auto.
  destruct (PositiveMap.find a (s_ptr s)) as [l'|] eqn:Ep; auto.
  intros Hm. apply has_set in Hm. destruct Hm as [[-> Hm]|[_ Hm]]; auto.
  left. exists a, x. auto.
Qed.

Lemma has_hheap H p s l m :
  has (hheap H p s) l m = true ->
  has (heap_stored H p s) l m = true /\ (allocating H p = true -> l <> s_next s).
Proof.
  unfold hheap. destruct (allocating H p).
  - intros Hm. apply has_set in Hm. destruct Hm as [[_ Hm]|[Hne Hm]]; [discriminate Hm|].
    split; auto.
  - intros Hm. split; auto. discriminate.
Qed.

Section DirectL2.
  Variable H : hfunc.
  Variable S : fact -> Prop.
  Hypothesis HC : closed (h_func H) S.
  Hypothesis HS : store_closed H S.
  Hypothesis HL : loads_ok H.
  Hypothesis HA : addr_alloc H.

  Record hwithin (p : point) (s : hstate) : Prop := {
    hw_reg   : forall v m, has (s_reg s) v m = true -> S (Mark p v m) /\ origin_mark (h_func H) m;
    hw_cell  : forall a l m, addr H a -> PositiveMap.find a (s_ptr s) = Some l -> has (s_heap s) l m = true ->
               S (Mark p a m) /\ origin_mark (h_func H) m;
    hw_inj   : forall a a' l, addr H a -> addr H a' ->
               PositiveMap.find a (s_ptr s) = Some l -> PositiveMap.find a' (s_ptr s) = Some l -> a = a';
    hw_fresh : forall v l, PositiveMap.find v (s_ptr s) = Some l -> Pos.lt l (s_next s)
  }.

  (* a dereferenced register defined at p is defined by an Alloc *)
  Lemma addr_defined_allocating p a : addr H a -> defines (h_func H) p = Some a -> allocating H p = true.
  Proof.
    intros Ha Hd. unfold allocating. rewrite Hd. apply defines_spec in Hd. destruct Hd as (i & Ei & Hd).
    destruct (HA a Ha) as [_ Hall]. eapply Hall; eauto.
  Qed.

  Lemma hwithin_step orc hist p s : hwithin p s -> hwithin p (hexec_instr H orc hist p s).
  Proof.
    intros [HR HCell HInj HFr]. constructor; cbn [hexec_instr s_reg s_ptr s_heap s_next].
    - (* registers *)
      intros v m Hm. apply has_hregs in Hm.
      destruct Hm as [Ho|[Hm|[(a & Ht & Hm)|(a & l & El & Ed & Hp & Hm)]]].
      + split; [eapply (cl_origin _ S HC); eauto | exists p, v; exact Ho].
      + apply HR; exact Hm.
      + destruct (HR a m Hm) as [HM Hom]. split; auto. eapply (cl_transfer _ S HC); eauto.
      + assert (Haddr : addr H a) by (right; exists p; exact El).
        destruct (HCell a l m Haddr Hp Hm) as [HM Hom]. split; auto.
        destruct (HL p a El) as (i & Ei & Ek & Eo).
        apply defines_spec in Ed. destruct Ed as (i' & Ei' & Er). rewrite Ei in Ei'. injection Ei' as <-.
        eapply (cl_transfer _ S HC); [exact HM|].
        exists i. split; [exact Ei|]. split; [exact Er|]. split.
        * unfold data_ops. rewrite Ek, Eo. left; reflexivity.
        * unfold idx_ok. rewrite Ek. reflexivity.
    - (* cells *)
      intros a l m Ha Hp Hm. apply has_hheap in Hm. destruct Hm as [Hm Hnew].
      apply find_hptr in Hp. destruct Hp as [(Hd & Hal & ->)|[(Hd & Hal & _)|(Hd & Hp)]].
      + exfalso. apply (Hnew Hal). reflexivity.
      + rewrite (addr_defined_allocating p a Ha Hd) in Hal. discriminate.
      + apply has_heap_stored in Hm. destruct Hm as [(a1 & x & Es & Hp1 & Hx)|Hm].
        * assert (Ha1 : addr H a1) by (left; exists p, x; exact Es).
          assert (a1 = a) by (eapply HInj; eauto). subst a1.
          destruct (HR x m Hx) as [HM Hom]. split; auto. eapply HS; eauto.
        * eapply HCell; eauto.
    - (* dereferenced registers point to distinct cells *)
      intros a a' l Ha Ha' Hp Hp'. apply find_hptr in Hp. apply find_hptr in Hp'.
      destruct Hp as [(Hd & Hal & ->)|[(Hd & Hal & _)|(Hd & Hp)]].
      + destruct Hp' as [(Hd' & _ & _)|[(Hd' & Hal' & _)|(Hd' & Hp')]].
        * congruence.
        * congruence.
        * apply HFr in Hp'. exfalso. apply (Pos.lt_irrefl _ Hp').
      + rewrite (addr_defined_allocating p a Ha Hd) in Hal. discriminate.
      + destruct Hp' as [(Hd' & Hal' & ->)|[(Hd' & Hal' & _)|(Hd' & Hp')]].
        * apply HFr in Hp. exfalso. apply (Pos.lt_irrefl _ Hp).
        * rewrite (addr_defined_allocating p a' Ha' Hd') in Hal'. discriminate.
        * eapply HInj; eauto.
    - (* freshness *)
      intros v l Hp. apply find_hptr in Hp. unfold hnext.
      destruct Hp as [(Hd & Hal & ->)|[(Hd & Hal & (a0 & Hp))|(Hd & Hp)]].
      + rewrite Hal. apply Pos.lt_succ_diag_r.
      + rewrite Hal. eapply HFr; eauto.
      + apply HFr in Hp. destruct (allocating H p); [|exact Hp].
        eapply Pos.lt_trans; [exact Hp | apply Pos.lt_succ_diag_r].
  Qed.

  Lemma hwithin_next p q s : hwithin p s -> In q (succs (h_func H) p) -> hwithin q s.
  Proof.
    intros [HR HCell HInj HFr] Hq. constructor; auto.
    - intros v m Hm. destruct (HR v m Hm) as [HM Hom]. split; auto. eapply (cl_forward _ S HC); eauto.
    - intros a l m Ha Hp Hm. destruct (HCell a l m Ha Hp Hm) as [HM Hom]. split; auto. eapply (cl_forward _ S HC); eauto.
  Qed.

  Lemma hwithin_init entry : hwithin entry (hinit H entry).
  Proof.
    constructor; cbn [hinit s_reg s_ptr s_heap s_next].
    - intros v m Hm. apply has_init_env in Hm. split; [eapply (cl_origin _ S HC); eauto | exists entry, v; exact Hm].
    - intros a l m _ Hp. rewrite PositiveMap.gempty in Hp. discriminate.
    - intros a a' l _ _ Hp. rewrite PositiveMap.gempty in Hp. discriminate.
    - intros v l Hp. rewrite PositiveMap.gempty in Hp. discriminate.
  Qed.

  Lemma hrun_inv orc : forall fuel hist p s, hwithin p s ->
    forall c, In c (fst (hrun H orc fuel hist p s)) -> hwithin (hc_pt c) (hc_pre c) /\ hwithin (hc_pt c) (hc_post c).
  Proof.
    induction fuel as [|k IH]; intros hist p s HI c Hc; [destruct Hc|].
    simpl in Hc.
    destruct (pick (o_branch orc (p :: hist)) (succs (h_func H) p)) as [q|] eqn:Epick.
    - destruct (hrun H orc k (p :: hist) q (hexec_instr H orc (p :: hist) p s)) as [t o] eqn:Erun.
      simpl in Hc. destruct Hc as [<-|Hc].
      + simpl. split; [exact HI | apply hwithin_step; exact HI].
      + apply (IH (p :: hist) q (hexec_instr H orc (p :: hist) p s)).
        * eapply hwithin_next; [apply hwithin_step; exact HI | eapply pick_In; eauto].
        * rewrite Erun. exact Hc.
    - simpl in Hc. destruct Hc as [<-|[]]. simpl. split; [exact HI | apply hwithin_step; exact HI].
  Qed.

  Theorem intra_sound_L2_noalias_partial orc fuel entry c v m u :
    In c (htrace H orc fuel entry) -> consumes (h_func H) (hc_pt c) v u -> hcarries c v m -> S (Edge m u).
  Proof.
    intros Hc Hu Hcar. unfold htrace in Hc.
    apply hrun_inv in Hc; [|apply hwithin_init].
    destruct Hc as [H1 H2].
    assert (HM : S (Mark (hc_pt c) v m) /\ origin_mark (h_func H) m).
    { destruct Hcar as [Hm|Hm]; [apply (hw_reg _ _ H1) | apply (hw_reg _ _ H2)]; exact Hm. }
    destruct HM as [HM Hom]. eapply (cl_edge _ S HC); eauto.
  Qed.
End DirectL2.

Lemma check_store_closed_ok H l : check_store_closed H l = true -> store_closed H (fun f => In f l).
Proof.
  unfold check_store_closed, store_closed. intros Hc p a x m Es HM.
  rewrite forallb_forall in Hc. specialize (Hc _ HM). simpl in Hc. rewrite Es, Pos.eqb_refl in Hc.
  apply mem_mark_build. exact Hc.
Qed.

Lemma check_loads_ok_sound H : check_loads_ok H = true -> loads_ok H.
Proof.
  unfold check_loads_ok, loads_ok. intros Hc p a El.
  rewrite forallb_forall in Hc. apply PositiveMap.elements_correct in El. specialize (Hc _ El). cbn [fst snd] in Hc.
  destruct (PositiveMap.find p (f_instr (h_func H))) as [i|]; [|discriminate].
  exists i. split; [reflexivity|].
  destruct (i_kind i); try discriminate. destruct (i_ops i) as [|a' [|? ?]]; try discriminate.
  apply Pos.eqb_eq in Hc. subst. auto.
Qed.

Lemma addr_regs_spec H a : addr H a -> In a (addr_regs H).
Proof.
  unfold addr_regs. intros [(p & x & Es)|(p & El)]; apply in_or_app; [left|right].
  - apply PositiveMap.elements_correct in Es. apply in_map_iff. exists (p, (a, x)). auto.
  - apply PositiveMap.elements_correct in El. apply in_map_iff. exists (p, a). auto.
Qed.

Lemma addr_regs_complete H a : In a (addr_regs H) -> addr H a.
Proof.
  unfold addr_regs. intros Hin. apply in_app_or in Hin. destruct Hin as [Hin|Hin]; apply in_map_iff in Hin.
  - destruct Hin as ([p [a' x]] & E & Hin). simpl in E. subst a'. apply PositiveMap.elements_complete in Hin.
    left. exists p, x. exact Hin.
  - destruct Hin as ([p a'] & E & Hin). simpl in E. subst a'. apply PositiveMap.elements_complete in Hin.
    right. exists p. exact Hin.
Qed.

Lemma defines_reg_spec a pi : defines_reg a pi = true <-> i_def (snd pi) = Some a.
Proof.
  unfold defines_reg. destruct (i_def (snd pi)) as [r|].
  - rewrite Pos.eqb_eq. split; congruence.
  - split; discriminate.
Qed.

(* the boolean decides the fragment condition *)
Lemma check_addr_alloc_ok H : check_addr_alloc H = true <-> addr_alloc H.
Proof.
  unfold check_addr_alloc, addr_alloc. rewrite forallb_forall. split.
  - intros Hc a Ha. specialize (Hc a (addr_regs_spec H a Ha)). apply andb_true_iff in Hc. destruct Hc as [Hex Hall].
    split.
    + apply existsb_exists in Hex. destruct Hex as ([p i] & Hin & Hd). apply defines_reg_spec in Hd.
      apply PositiveMap.elements_complete in Hin. exists p, i. auto.
    + intros p i Ei Hd. rewrite forallb_forall in Hall. apply PositiveMap.elements_correct in Ei.
      specialize (Hall _ Ei). assert (E : defines_reg a (p, i) = true) by (apply defines_reg_spec; exact Hd).
      rewrite E in Hall. exact Hall.
  - intros HA a Hin. destruct (HA a (addr_regs_complete H a Hin)) as [(p & i & Ei & Hd) Hall].
    apply andb_true_iff. split.
    + apply existsb_exists. exists (p, i). split; [apply PositiveMap.elements_correct; exact Ei|].
      apply defines_reg_spec. exact Hd.
    + apply forallb_forall. intros [q j] Hq. destruct (defines_reg a (q, j)) eqn:E; [|reflexivity].
      apply defines_reg_spec in E. apply PositiveMap.elements_complete in Hq. eapply Hall; eauto.
Qed.

Lemma check_addr_alloc_sound H : check_addr_alloc H = true -> addr_alloc H.
Proof. apply check_addr_alloc_ok. Qed.

Theorem intra_sound_L2_noalias_partial_tcert H (l : list fact) orc fuel entry c v m u :
  check_closed (h_func H) l = true -> check_store_closed H l = true -> check_loads_ok H = true ->
  check_addr_alloc H = true ->
  In c (htrace H orc fuel entry) -> consumes (h_func H) (hc_pt c) v u -> hcarries c v m -> In (Edge m u) l.
Proof.
  intros HC HS HL HA. apply check_closed_ok in HC.
  apply (intra_sound_L2_noalias_partial H (fun f => In f l) HC (check_store_closed_ok H l HS)
           (check_loads_ok_sound H HL) (check_addr_alloc_sound H HA)).
Qed.

Lemma hobserved_edges_spec H t m u :
  In (m, u) (hobserved_edges H t) <-> exists c v, In c t /\ consumes (h_func H) (hc_pt c) v u /\ hcarries c v m.
Proof.
  unfold hobserved_edges, consumes, hcarries, has. split.
  - intros Hin. apply in_flat_map in Hin. destruct Hin as (c & Hc & Hin).
    apply in_flat_map in Hin. destruct Hin as ([v u'] & Hvu & Hin). apply in_map_iff in Hin. destruct Hin as (m' & E & Hm).
    simpl in *. injection E as -> ->. exists c, v. repeat split; auto.
    apply (SetoidList.In_InA (eqA := @eq positive)) in Hm; [|auto with typeclass_instances].
    apply PositiveSet.elements_2, PositiveSet.union_spec in Hm.
    destruct Hm as [Hm|Hm]; [left|right]; apply PositiveSet.mem_1; exact Hm.
  - intros (c & v & Hc & Hu & Hm). apply in_flat_map. exists c. split; auto.
    apply in_flat_map. exists (v, u). split; auto. apply in_map_iff. exists m. split; auto. simpl.
    assert (Hin : PositiveSet.In m (PositiveSet.union (prov (s_reg (hc_pre c)) v) (prov (s_reg (hc_post c)) v))).
    { apply PositiveSet.union_spec. destruct Hm as [Hm|Hm]; [left|right]; apply PositiveSet.mem_2; exact Hm. }
    apply PositiveSet.elements_1 in Hin. apply SetoidList.InA_alt in Hin. destruct Hin as (y & <- & Hy). exact Hy.
Qed.
