(** * C15 — [Merge] computes the least upper bound; the semilattice laws; monotonicity of the primitives *)
From stdpp Require Import gmap.
From Coq Require Import Lia.
From Argot Require Import Model.EscGraph Proofs.EscGraphClosure Proofs.EscGraphOrder Proofs.EscGraphOps.

(** ** Operations that compute the least extension satisfying a constraint *)
Section Realise.
  Context {X : Type} (le : X -> X -> Prop) (P : X -> Prop).
  Hypothesis le_refl : forall x, le x x.
  Hypothesis le_trans : forall x y z, le x y -> le y z -> le x z.

  Definition realises (f : X -> X) (C : X -> Prop) : Prop :=
    forall g, P g -> P (f g) /\ le g (f g) /\ C (f g) /\ forall k, P k -> le g k -> C k -> le (f g) k.
  Definition upclosed (C : X -> Prop) : Prop := forall x y, P x -> P y -> le x y -> C x -> C y.

  Lemma realises_mono f C g g' : realises f C -> P g -> P g' -> le g g' -> le (f g) (f g').
  Proof.
    intros R Pg Pg' L. destruct (R g Pg) as (_ & _ & _ & Least). destruct (R g' Pg') as (Pf & Lf & Cf & _).
    apply Least; [assumption|eapply le_trans; eassumption|assumption].
  Qed.

  Lemma realises_comp f C f' C' :
    realises f C -> realises f' C' -> upclosed C -> realises (fun g => f' (f g)) (fun k => C k /\ C' k).
  Proof.
    intros R R' U g Pg. destruct (R g Pg) as (P1 & L1 & C1 & Least1). destruct (R' _ P1) as (P2 & L2 & C2 & Least2).
    refine (conj P2 (conj _ (conj _ _))).
    - eapply le_trans; eassumption.
    - split; [|assumption]. eapply U; [exact P1|exact P2|exact L2|exact C1].
    - intros k Pk Lk [Ck Ck']. apply Least2; [assumption| |assumption]. now apply Least1.
  Qed.

  Lemma upclosed_all {A} (C : A -> X -> Prop) (cs : list A) :
    (forall c, In c cs -> upclosed (C c)) -> upclosed (fun k => forall c, In c cs -> C c k).
  Proof. intros U x y Px Py L H c Hc. apply (U c Hc x y Px Py L). apply H. exact Hc. Qed.

  Lemma realises_fold {A} (op : A -> X -> X) (C : A -> X -> Prop) (cs : list A) :
    (forall c, In c cs -> realises (op c) (C c)) ->
    (forall c, In c cs -> upclosed (C c)) ->
    realises (fun g => fold_left (fun acc c => op c acc) cs g) (fun k => forall c, In c cs -> C c k).
  Proof.
    induction cs as [|c cs IH]; intros HR HU g Pg; simpl.
    - refine (conj Pg (conj (le_refl g) (conj _ _))); [intros c []|auto].
    - destruct (HR c (or_introl eq_refl) g Pg) as (P1 & L1 & C1 & Least1).
      destruct (IH (fun c' H => HR c' (or_intror H)) (fun c' H => HU c' (or_intror H)) _ P1) as (P2 & L2 & C2 & Least2).
      refine (conj P2 (conj _ (conj _ _))).
      + eapply le_trans; eassumption.
      + intros c' [<-|Hc']; [|now apply C2]. eapply (HU c (or_introl eq_refl)); [exact P1|exact P2|exact L2|exact C1].
      + intros k Pk Lk Ck. apply Least2; [assumption| |intros c' Hc'; apply Ck; now right].
        apply Least1; [assumption|assumption|]. apply Ck. now left.
  Qed.
End Realise.

Section Merge.
  Context (intr : node -> estatus) (ord : list node -> list node) (ord_perm : forall l, ord l ≡ₚ l).
  Notation Inv := (Inv intr).
  Notation wf := (wf intr).

  Definition Ce (e : node * node * bit) (k : graph) : Prop := hasb k (fst (fst e)) (snd (fst e)) (snd e).
  Definition Cs (ns : node * estatus) (k : graph) : Prop :=
    exists s', status k !! fst ns = Some s' /\ sle (snd ns) s'.

  Lemma Ce_up e : upclosed le_g Inv (Ce e).
  Proof. intros x y _ _ [HE _] H. now apply HE. Qed.

  Lemma Cs_up ns : upclosed le_g Inv (Cs ns).
  Proof.
    intros x y _ _ [_ HS] (s' & Hs' & L). destruct (HS _ _ Hs') as (s'' & Hs'' & L').
    exists s''. split; [assumption|]. eapply sle_trans; eassumption.
  Qed.

  Lemma add_edge_bit_spec a b x g :
    Inv g ->
    Inv (add_edge intr ord a b (f_bit x) g) /\ le_g g (add_edge intr ord a b (f_bit x) g) /\
    hasb (add_edge intr ord a b (f_bit x) g) a b x /\
    (forall k, Inv k -> le_g g k -> hasb k a b x -> le_g (add_edge intr ord a b (f_bit x) g) k).
  Proof.
    intros Ig. destruct (add_edge_spec intr ord ord_perm a b (f_bit x) g Ig (f_bit_not_none x)) as (I & L & Hh & Least).
    refine (conj I (conj L (conj _ _))).
    - apply Hh. now apply f_has_bit.
    - intros k Ik Lk Ck. apply Least; [assumption|assumption|]. intros y Hy. apply f_has_bit in Hy. now subst y.
  Qed.

  Lemma add_edge_realises e :
    realises le_g Inv (fun g => add_edge intr ord (fst (fst e)) (snd (fst e)) (f_bit (snd e)) g) (Ce e).
  Proof. intros g Ig. apply add_edge_bit_spec. assumption. Qed.

  Lemma add_status_realises ns :
    realises le_g Inv (fun g => merge_node_status ord (fst ns) (snd ns) (add_node intr (fst ns) g)) (Cs ns).
  Proof. intros g Ig. apply (add_status_spec intr ord ord_perm (fst ns) (snd ns) g Ig). Qed.

  (** [merge_lists] computes the least invariant graph above [g] that contains every listed edge and status *)
  Theorem merge_lists_spec es ss :
    realises le_g Inv (merge_lists intr ord es ss)
             (fun k => (forall e, In e es -> Ce e k) /\ (forall ns, In ns ss -> Cs ns k)).
  Proof.
    pose proof (realises_fold le_g Inv le_g_refl le_g_trans
                  (fun e g => add_edge intr ord (fst (fst e)) (snd (fst e)) (f_bit (snd e)) g) Ce es
                  (fun e _ => add_edge_realises e) (fun e _ => Ce_up e)) as R1.
    pose proof (realises_fold le_g Inv le_g_refl le_g_trans
                  (fun ns g => merge_node_status ord (fst ns) (snd ns) (add_node intr (fst ns) g)) Cs ss
                  (fun ns _ => add_status_realises ns) (fun ns _ => Cs_up ns)) as R2.
    pose proof (realises_comp le_g Inv le_g_trans _ _ _ _ R1 R2
                  (upclosed_all le_g Inv Ce es (fun e _ => Ce_up e))) as R.
    exact R.
  Qed.

  (** the lists enumerate exactly the atomic edges and the status entries of [h] (in any order, repetitions allowed) *)
  Definition covers (es : list (node * node * bit)) (ss : list (node * estatus)) (h : graph) : Prop :=
    (forall a b x, In (a, b, x) es <-> hasb h a b x) /\
    (forall n s, In (n, s) ss <-> status h !! n = Some s).

  Lemma covers_le es ss h k :
    covers es ss h -> ((forall e, In e es -> Ce e k) /\ (forall ns, In ns ss -> Cs ns k)) <-> le_g h k.
  Proof.
    intros [HE HS]. unfold le_g, Ce, Cs. split.
    - intros [H1 H2]. split.
      + intros a b x Hh. apply HE in Hh. apply (H1 (a, b, x) Hh).
      + intros n s Hs. apply HS in Hs. apply (H2 (n, s) Hs).
    - intros [H1 H2]. split.
      + intros [[a b] x] Hin. simpl. apply H1. now apply HE.
      + intros [n s] Hin. simpl. apply H2. now apply HS.
  Qed.

  Definition is_lub (g h m : graph) : Prop :=
    Inv m /\ le_g g m /\ le_g h m /\ forall k, Inv k -> le_g g k -> le_g h k -> le_g m k.

  Theorem merge_lists_lub es ss g h : covers es ss h -> Inv g -> is_lub g h (merge_lists intr ord es ss g).
  Proof.
    intros Hc Ig. destruct (merge_lists_spec es ss g Ig) as (I & L & C & Least).
    refine (conj I (conj L (conj _ _))).
    - now apply (covers_le _ _ _ _ Hc).
    - intros k Ik Lg Lh. apply Least; [assumption|assumption|]. now apply (covers_le _ _ _ _ Hc).
  Qed.

  Lemma merge_covers h :
    covers (atomic_edges ord h)
           (map (fun n => (n, sigma (status h) n)) (ord (map fst (map_to_list (status h))))) h.
  Proof.
    split.
    - intros a b x. apply (in_atomic_edges ord ord_perm).
    - intros n s. rewrite in_map_iff. split.
      + intros (n' & Heq & Hin). injection Heq as -> <-.
        apply elem_of_list_In in Hin. rewrite ord_perm, map_fmap, elem_of_list_fmap in Hin.
        destruct Hin as ([k v] & -> & Hkv). apply elem_of_map_to_list in Hkv. simpl.
        unfold sigma. now rewrite Hkv.
      + intros Hs. exists n. split.
        * unfold sigma. now rewrite Hs.
        * apply elem_of_list_In. rewrite ord_perm, map_fmap, elem_of_list_fmap.
          exists (n, s). split; [reflexivity|]. now apply elem_of_map_to_list.
  Qed.

  Theorem merge_is_lub g h : Inv g -> is_lub g h (merge intr ord g h).
  Proof. intros Ig. unfold merge. apply merge_lists_lub; [apply merge_covers|assumption]. Qed.

  (** ** Monotonicity of the primitives (on invariant-satisfying graphs) *)
  Lemma add_node_Inv n g : Inv g -> Inv (add_node intr n g).
  Proof. intros [W Hc]. destruct (add_node_spec intr n g W) as (W1 & _ & _ & Hc1). split; auto. Qed.

  Theorem add_node_mono n g g' : Inv g -> Inv g' -> le_g g g' -> le_g (add_node intr n g) (add_node intr n g').
  Proof.
    intros [W _] [W' Hc'] L. apply (add_node_least intr ord ord_perm); [assumption| | |].
    - apply (add_node_Inv n g' (conj W' Hc')).
    - eapply le_g_trans; [exact L|now apply (add_node_le intr ord ord_perm)].
    - rewrite add_node_dom by assumption. set_solver.
  Qed.

  Theorem add_edge_mono a b f g g' :
    f_is_none f = false -> Inv g -> Inv g' -> le_g g g' ->
    le_g (add_edge intr ord a b f g) (add_edge intr ord a b f g').
  Proof.
    intros Hf Ig Ig' L.
    destruct (add_edge_spec intr ord ord_perm a b f g Ig Hf) as (_ & _ & _ & Least).
    destruct (add_edge_spec intr ord ord_perm a b f g' Ig' Hf) as (I' & L' & H' & _).
    apply Least; [assumption|exact (le_g_trans _ _ _ L L')|assumption].
  Qed.

  Theorem merge_node_status_mono n s g g' :
    n ∈ dom (status g) -> Inv g -> Inv g' -> le_g g g' ->
    le_g (merge_node_status ord n s g) (merge_node_status ord n s g').
  Proof.
    intros Hn Ig Ig' L.
    assert (Hn' : n ∈ dom (status g')) by (pose proof (le_g_dom _ _ L); set_solver).
    destruct (merge_node_status_spec intr ord ord_perm n s g Ig Hn) as (_ & _ & _ & Least).
    destruct (merge_node_status_spec intr ord ord_perm n s g' Ig' Hn') as (I' & L' & S' & _).
    apply Least; [assumption|exact (le_g_trans _ _ _ L L')|assumption].
  Qed.

  Theorem add_status_mono n s g g' :
    Inv g -> Inv g' -> le_g g g' ->
    le_g (merge_node_status ord n s (add_node intr n g)) (merge_node_status ord n s (add_node intr n g')).
  Proof. intros Ig Ig' L. apply (realises_mono le_g Inv le_g_trans _ _ g g' (add_status_realises (n, s))); assumption. Qed.

  Theorem merge_lists_mono_left es ss g g' :
    Inv g -> Inv g' -> le_g g g' -> le_g (merge_lists intr ord es ss g) (merge_lists intr ord es ss g').
  Proof. intros Ig Ig' L. apply (realises_mono le_g Inv le_g_trans _ _ g g' (merge_lists_spec es ss)); assumption. Qed.

  (** WeakAssign without subnode recursion *)
  Lemma weak_assign_flat_spec dest src g :
    Inv g ->
    Inv (weak_assign_flat intr ord dest src g) /\
    le_g (add_node intr dest g) (weak_assign_flat intr ord dest src g) /\
    (forall d x, hasb (add_node intr dest g) src d x -> hasb (weak_assign_flat intr ord dest src g) dest d BInt) /\
    (forall k, Inv k -> le_g (add_node intr dest g) k ->
               (forall d x, hasb (add_node intr dest g) src d x -> hasb k dest d BInt) ->
               le_g (weak_assign_flat intr ord dest src g) k).
  Proof.
    intros Ig. pose proof (add_node_Inv dest g Ig) as I0.
    pose proof (realises_fold le_g Inv le_g_refl le_g_trans
                  (fun (e : node * bit) h => add_edge intr ord dest (fst e) (f_bit BInt) h)
                  (fun e k => hasb k dest (fst e) BInt)
                  (atomic_out ord (add_node intr dest g) src)
                  (fun e _ g0 Ig0 => add_edge_bit_spec dest (fst e) BInt g0 Ig0)
                  (fun e _ x y _ _ L H => proj1 L _ _ _ H)
                  (add_node intr dest g) I0) as (I & L & C & Least).
    unfold weak_assign_flat. cbv zeta.
    refine (conj I (conj L (conj _ _))).
    - intros d x H. apply (C (d, x)). now apply (in_atomic_out ord ord_perm).
    - intros k Ik Lk Ck. apply Least; [assumption|assumption|].
      intros [d x] Hin. simpl. apply (Ck d x). now apply (in_atomic_out ord ord_perm) in Hin.
  Qed.

  Theorem weak_assign_flat_mono dest src g g' :
    Inv g -> Inv g' -> le_g g g' ->
    le_g (weak_assign_flat intr ord dest src g) (weak_assign_flat intr ord dest src g').
  Proof.
    intros Ig Ig' L.
    destruct (weak_assign_flat_spec dest src g Ig) as (_ & _ & _ & Least).
    destruct (weak_assign_flat_spec dest src g' Ig') as (I' & L' & C' & _).
    pose proof (add_node_mono dest g g' Ig Ig' L) as L0.
    apply Least; [assumption|exact (le_g_trans _ _ _ L0 L')|].
    intros d x H. apply (C' d x). now apply (proj1 L0).
  Qed.
End Merge.

(** ** The laws, for arbitrary (and different) iteration orders on each side *)
Section Laws.
  Context (intr : node -> estatus).
  Notation Inv := (Inv intr).
  Notation is_lub := (is_lub intr).

  Lemma lub_unique g h m1 m2 : is_lub g h m1 -> is_lub g h m2 -> m1 = m2.
  Proof.
    intros (I1 & G1 & H1 & L1) (I2 & G2 & H2 & L2).
    apply (le_g_antisym intr); [apply I1|apply I2|now apply L1|now apply L2].
  Qed.

  Lemma is_lub_sym g h m : is_lub g h m -> is_lub h g m.
  Proof. intros (I & G & H & L). refine (conj I (conj H (conj G _))). intros k Ik Lh Lg. now apply L. Qed.

  Lemma is_lub_idem g : Inv g -> is_lub g g g.
  Proof. intros Ig. refine (conj Ig (conj (le_g_refl g) (conj (le_g_refl g) _))). auto. Qed.

  Lemma is_lub_assoc g h k gh hk m :
    is_lub g h gh -> is_lub h k hk -> is_lub gh k m -> is_lub g hk m.
  Proof.
    intros (Igh & Ggh & Hgh & Lgh) (Ihk & Hhk & Khk & Lhk) (Im & GHm & Km & Lm).
    refine (conj Im (conj _ (conj _ _))).
    - exact (le_g_trans _ _ _ Ggh GHm).
    - apply Lhk; [assumption| |assumption]. exact (le_g_trans _ _ _ Hgh GHm).
    - intros u Iu Gu HKu. apply Lm; [assumption| |].
      + apply Lgh; [assumption|assumption|]. exact (le_g_trans _ _ _ Hhk HKu).
      + exact (le_g_trans _ _ _ Khk HKu).
  Qed.

  Context (o1 o2 o3 o4 : list node -> list node).
  Context (p1 : forall l, o1 l ≡ₚ l) (p2 : forall l, o2 l ≡ₚ l) (p3 : forall l, o3 l ≡ₚ l) (p4 : forall l, o4 l ≡ₚ l).

  (** the result of Merge does not depend on the order in which the edges and statuses of [h] are visited, nor on
      the iteration order inside computeEdgeClosure *)
  Theorem merge_lists_order_free es1 ss1 es2 ss2 g h :
    covers es1 ss1 h -> covers es2 ss2 h -> Inv g ->
    merge_lists intr o1 es1 ss1 g = merge_lists intr o2 es2 ss2 g.
  Proof.
    intros C1 C2 Ig. eapply lub_unique; [eapply (merge_lists_lub intr o1 p1)|eapply (merge_lists_lub intr o2 p2)]; eassumption.
  Qed.

  Theorem merge_order_free g h : Inv g -> merge intr o1 g h = merge intr o2 g h.
  Proof. intros Ig. eapply lub_unique; [apply (merge_is_lub intr o1 p1)|apply (merge_is_lub intr o2 p2)]; assumption. Qed.

  Theorem merge_idem g : Inv g -> merge intr o1 g g = g.
  Proof. intros Ig. eapply lub_unique; [apply (merge_is_lub intr o1 p1); assumption|now apply is_lub_idem]. Qed.

  Theorem merge_comm g h : Inv g -> Inv h -> merge intr o1 g h = merge intr o2 h g.
  Proof.
    intros Ig Ih. eapply lub_unique; [apply (merge_is_lub intr o1 p1); assumption|].
    apply is_lub_sym. now apply (merge_is_lub intr o2 p2).
  Qed.

  Theorem merge_assoc g h k :
    Inv g -> Inv h ->
    merge intr o1 (merge intr o2 g h) k = merge intr o3 g (merge intr o4 h k).
  Proof.
    intros Ig Ih.
    pose proof (merge_is_lub intr o2 p2 g h Ig) as Lgh.
    pose proof (merge_is_lub intr o4 p4 h k Ih) as Lhk.
    pose proof (merge_is_lub intr o1 p1 _ k (proj1 Lgh)) as Lm.
    exact (lub_unique g (merge intr o4 h k) _ _ (is_lub_assoc _ _ _ _ _ _ Lgh Lhk Lm)
                      (merge_is_lub intr o3 p3 g (merge intr o4 h k) Ig)).
  Qed.

  Theorem merge_ub g h : Inv g -> le_g g (merge intr o1 g h) /\ le_g h (merge intr o1 g h).
  Proof. intros Ig. destruct (merge_is_lub intr o1 p1 g h Ig) as (_ & G & H & _). auto. Qed.

  Theorem merge_least g h k : Inv g -> Inv k -> le_g g k -> le_g h k -> le_g (merge intr o1 g h) k.
  Proof. intros Ig Ik Lg Lh. destruct (merge_is_lub intr o1 p1 g h Ig) as (_ & _ & _ & L). now apply L. Qed.

  Theorem merge_inv g h : Inv g -> Inv (merge intr o1 g h).
  Proof. intros Ig. apply (merge_is_lub intr o1 p1 g h Ig). Qed.

  Theorem merge_mono_left g g' h : Inv g -> Inv g' -> le_g g g' -> le_g (merge intr o1 g h) (merge intr o2 g' h).
  Proof.
    intros Ig Ig' L. destruct (merge_is_lub intr o2 p2 g' h Ig') as (I' & G' & H' & _).
    apply merge_least; [assumption|assumption|exact (le_g_trans _ _ _ L G')|assumption].
  Qed.

  Theorem merge_mono_right g h h' : Inv g -> le_g h h' -> le_g (merge intr o1 g h) (merge intr o2 g h').
  Proof.
    intros Ig L. destruct (merge_is_lub intr o2 p2 g h' Ig) as (I' & G' & H' & _).
    apply merge_least; [assumption|assumption|assumption|exact (le_g_trans _ _ _ L H')].
  Qed.

  (** [g ⊑ h] iff merging [g] into [h] changes nothing *)
  Theorem le_iff_merge g h : Inv g -> Inv h -> le_g g h <-> merge intr o1 h g = h.
  Proof.
    intros Ig Ih. split.
    - intros L. eapply lub_unique; [apply (merge_is_lub intr o1 p1); assumption|].
      refine (conj Ih (conj (le_g_refl h) (conj L _))). auto.
    - intros E. destruct (merge_ub h g Ih) as [_ H]. now rewrite E in H.
  Qed.
End Laws.
