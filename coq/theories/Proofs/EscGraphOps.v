(** * C15 — the primitives [AddNode], [computeEdgeClosure], [AddEdge], [MergeNodeStatus] on invariant-satisfying
      graphs: each computes the LEAST invariant-satisfying graph above its input that satisfies a constraint *)
From stdpp Require Import gmap.
From Coq Require Import Lia.
From Argot Require Import Model.EscGraph Proofs.EscGraphClosure Proofs.EscGraphOrder.

Section Ops.
  Context (intr : node -> estatus) (ord : list node -> list node) (ord_perm : forall l, ord l ≡ₚ l).
  Notation wf := (wf intr).
  Notation Inv := (Inv intr).
  Notation sg g := (sigma (status g)).

  Lemma succ_out g c d : succ (edges g) c d <-> is_Some (out_edges g c !! d).
  Proof. reflexivity. Qed.

  Lemma succ_hasb g c d : wf g -> succ (edges g) c d -> exists x, hasb g c d x.
  Proof.
    intros W [f Hf]. destruct (wf_ends _ _ W _ _ _ Hf) as [_ Hne].
    destruct (f_nonempty_has _ Hne) as [x Hx]. exists x. apply hasb_entry. eauto.
  Qed.

  Lemma wf_target g c d : wf g -> succ (edges g) c d -> d ∈ dom (status g).
  Proof. intros W [f Hf]. apply elem_of_dom. now destruct (wf_ends _ _ W _ _ _ Hf). Qed.

  Lemma wf_source g c d : wf g -> succ (edges g) c d -> c ∈ dom (status g).
  Proof. intros W [f Hf]. apply elem_of_dom. eapply wf_src; eassumption. Qed.

  Lemma sigma_dom (st : gmap node estatus) n : n ∈ dom st -> st !! n = Some (sigma st n).
  Proof. intros [s Hs]%elem_of_dom. unfold sigma. now rewrite Hs. Qed.

  (** pointwise characterisation of the order *)
  Lemma le_g_intro g h :
    (forall a b x, hasb g a b x -> hasb h a b x) ->
    dom (status g) ⊆ dom (status h) ->
    (forall n, sle (sg g n) (sg h n)) ->
    le_g g h.
  Proof.
    intros HE HD HS. split; [assumption|]. intros n s Hs.
    assert (Hn : n ∈ dom (status h)).
    { assert (n ∈ dom (status g)) by (apply elem_of_dom; eauto). set_solver. }
    exists (sg h n). split; [now apply sigma_dom|].
    rewrite <- (sigma_lookup _ _ _ Hs). apply HS.
  Qed.

  Lemma le_g_sigma g h n : le_g g h -> sle (sg g n) (sg h n).
  Proof.
    intros [_ HS]. unfold sigma at 1. destruct (status g !! n) as [s|] eqn:E; simpl; [|apply sle_local].
    destruct (HS _ _ E) as (s' & Hs' & L). now rewrite (sigma_lookup _ _ _ Hs').
  Qed.

  Lemma le_g_dom g h : le_g g h -> dom (status g) ⊆ dom (status h).
  Proof.
    intros [_ HS] n [s Hs]%elem_of_dom. destruct (HS _ _ Hs) as (s' & Hs' & _). apply elem_of_dom. eauto.
  Qed.

  Lemma closedf_below p k : wf p -> le_g p k -> closed k -> closedf (edges p) (sg k).
  Proof.
    intros W [HE _] Hc c d Hcd. destruct (succ_hasb _ _ _ W Hcd) as [x Hx].
    apply Hc. eapply hasb_succ. apply HE. eassumption.
  Qed.

  (** ** AddNode *)
  Lemma add_node_spec n g : wf g ->
    wf (add_node intr n g) /\
    (forall a, out_edges (add_node intr n g) a = out_edges g a) /\
    (forall m, status (add_node intr n g) !! m =
               if decide (m = n) then Some (default (intr n) (status g !! n)) else status g !! m) /\
    (closed g -> closed (add_node intr n g)).
  Proof.
    intros W. unfold add_node. destruct (status g !! n) as [s|] eqn:E.
    - refine (conj W (conj _ (conj _ _))); [reflexivity| |auto].
      intros m. destruct (decide (m = n)) as [->|]; [now rewrite E|reflexivity].
    - assert (Hne : edges g !! n = None).
      { apply (not_elem_of_dom (D := gset node)). rewrite (wf_dom _ _ W). now apply not_elem_of_dom. }
      set (g' := mkGraph _ _).
      assert (Hout : forall a, out_edges g' a = out_edges g a).
      { intros a. unfold g', out_edges. simpl. destruct (decide (a = n)) as [->|Han].
        - now rewrite lookup_insert, Hne.
        - now rewrite lookup_insert_ne by congruence. }
      assert (Hst : forall m, status g' !! m =
                    if decide (m = n) then Some (default (intr n) (@None estatus)) else status g !! m).
      { intros m. unfold g'. simpl. destruct (decide (m = n)) as [->|Hmn].
        - now rewrite lookup_insert.
        - now rewrite lookup_insert_ne by congruence. }
      assert (Hsig : forall m, sg g' m = if decide (m = n) then intr n else sg g m).
      { intros m. unfold sigma. rewrite Hst. destruct (decide (m = n)); reflexivity. }
      refine (conj _ (conj Hout (conj Hst _))).
      + constructor.
        * unfold g'. simpl. rewrite !dom_insert_L. now rewrite (wf_dom _ _ W).
        * intros a b f Hf. rewrite Hout in Hf. destruct (wf_ends _ _ W _ _ _ Hf) as [[s Hs] Hn].
          split; [|assumption]. rewrite Hst. destruct (decide (b = n)); eauto.
        * intros m s. rewrite Hst. destruct (decide (m = n)) as [->|].
          -- simpl. intros [= <-]. apply sle_refl.
          -- apply (wf_intr _ _ W).
      + intros Hc c d Hcd.
        assert (Hcd' : succ (edges g) c d).
        { apply succ_out. apply (proj1 (succ_out g' c d)) in Hcd. now rewrite Hout in Hcd. }
        assert (c <> n).
        { intros ->. apply (wf_source _ _ _ W), elem_of_dom in Hcd' as [s Hs]. congruence. }
        assert (d <> n).
        { intros ->. apply (wf_target _ _ _ W), elem_of_dom in Hcd' as [s Hs]. congruence. }
        rewrite !Hsig. destruct (decide (c = n)); [congruence|]. destruct (decide (d = n)); [congruence|].
        now apply Hc.
  Qed.

  Lemma add_node_sigma n g m : wf g ->
    sg (add_node intr n g) m = if decide (m = n) then default (intr n) (status g !! n) else sg g m.
  Proof.
    intros W. destruct (add_node_spec n g W) as (_ & _ & Hst & _). unfold sigma at 1. rewrite Hst.
    destruct (decide (m = n)); reflexivity.
  Qed.

  Lemma add_node_dom n g : wf g -> dom (status (add_node intr n g)) = {[n]} ∪ dom (status g).
  Proof.
    intros W. destruct (add_node_spec n g W) as (_ & _ & Hst & _). apply set_eq. intros m.
    rewrite elem_of_union, elem_of_singleton, !elem_of_dom, Hst.
    destruct (decide (m = n)) as [->|]; [split; eauto|]. split; [auto|]. intros [?|?]; [congruence|assumption].
  Qed.

  Lemma add_node_hasb n g a b x : wf g -> hasb (add_node intr n g) a b x <-> hasb g a b x.
  Proof.
    intros W. destruct (add_node_spec n g W) as (_ & Hout & _). unfold hasb, has_bit. now rewrite Hout.
  Qed.

  Lemma add_node_le n g : wf g -> le_g g (add_node intr n g).
  Proof.
    intros W. apply le_g_intro.
    - intros a b x. now apply add_node_hasb.
    - rewrite add_node_dom by assumption. set_solver.
    - intros m. rewrite add_node_sigma by assumption. destruct (decide (m = n)) as [->|]; [|apply sle_refl].
      unfold sigma. destruct (status g !! n); simpl; [apply sle_refl|apply sle_local].
  Qed.

  Lemma add_node_least n g k : wf g -> wf k -> le_g g k -> n ∈ dom (status k) -> le_g (add_node intr n g) k.
  Proof.
    intros W Wk Hle Hn. apply le_g_intro.
    - intros a b x H. apply add_node_hasb in H; [|assumption]. now apply Hle.
    - rewrite add_node_dom by assumption. apply le_g_dom in Hle. set_solver.
    - intros m. rewrite add_node_sigma by assumption. destruct (decide (m = n)) as [->|]; [|now apply le_g_sigma].
      destruct (status g !! n) as [s|] eqn:E; simpl.
      + rewrite <- (sigma_lookup _ _ _ E). now apply le_g_sigma.
      + apply sigma_dom in Hn. eapply (wf_intr _ _ Wk). exact Hn.
  Qed.

  (** ** computeEdgeClosure on a graph *)
  Lemma closure_spec a b g :
    edges (closure ord a b g) = edges g /\
    (forall m, sle (sg g m) (sg (closure ord a b g) m)) /\
    (succ (edges g) a b -> sle (sg (closure ord a b g) a) (sg (closure ord a b g) b)) /\
    (forall c d, succ (edges g) c d -> sle (sg g c) (sg g d) -> sle (sg (closure ord a b g) c) (sg (closure ord a b g) d)) /\
    (forall t, closedf (edges g) t -> sle (t a) (t b) -> (forall m, sle (sg g m) (t m)) ->
               forall m, sle (sg (closure ord a b g) m) (t m)) /\
    (b ∈ dom (status g) -> (forall c d, succ (edges g) c d -> d ∈ dom (status g)) ->
     dom (status (closure ord a b g)) = dom (status g)).
  Proof.
    unfold closure, closure_fuel.
    destruct (closure_st_done ord ord_perm (edges g) a b (status g)) as [st' Hst']. rewrite Hst'. simpl.
    destruct (closure_st_spec ord ord_perm _ _ _ _ _ _ Hst') as (C1 & C2 & C3 & C4 & C5).
    repeat split; assumption.
  Qed.

  (** ** AddEdge *)
  Definition pre_edge (a b : node) (f : flags) (g : graph) : graph :=
    let g2 := add_node intr b (add_node intr a g) in
    mkGraph (<[a := <[b := f_or (default f_none (out_edges g a !! b)) f]> (out_edges g a)]> (edges g2)) (status g2).

  Lemma add_edge_unfold a b f g : wf g -> add_edge intr ord a b f g = closure ord a b (pre_edge a b f g).
  Proof.
    intros W. unfold add_edge, pre_edge. cbv zeta.
    assert (H1 : match edges g !! a with
                 | Some _ => g
                 | None => mkGraph (<[a:=∅]> (edges (add_node intr a g))) (status (add_node intr a g))
                 end = add_node intr a g).
    { destruct (edges g !! a) as [m|] eqn:Ea.
      - assert (Hs : is_Some (status g !! a)).
        { apply elem_of_dom. rewrite <- (wf_dom _ _ W). apply elem_of_dom. eauto. }
        destruct Hs as [s Hs]. unfold add_node. now rewrite Hs.
      - assert (Hs : status g !! a = None).
        { apply (not_elem_of_dom (D := gset node)). rewrite <- (wf_dom _ _ W). now apply not_elem_of_dom. }
        unfold add_node. rewrite Hs. simpl. now rewrite insert_insert. }
    rewrite H1. clear H1.
    destruct (add_node_spec a g W) as (W1 & Hout1 & Hst1 & _).
    rewrite Hout1.
    assert (Hlost : bool_decide (a = b) && negb (bool_decide (is_Some (status (add_node intr a g) !! b))) = false).
    { destruct (decide (a = b)) as [<-|Hab].
      - rewrite Hst1. destruct (decide (a = a)); [|congruence].
        rewrite (bool_decide_eq_true_2 (is_Some _)) by eauto. simpl. apply andb_false_r.
      - now rewrite (bool_decide_eq_false_2 (a = b)) by assumption. }
    rewrite Hlost. reflexivity.
  Qed.

  Lemma pre_edge_out a b f g c d : wf g ->
    out_edges (pre_edge a b f g) c !! d =
    if decide (c = a /\ d = b) then Some (f_or (default f_none (out_edges g a !! b)) f) else out_edges g c !! d.
  Proof.
    intros W.
    destruct (add_node_spec a g W) as (W1 & Hout1 & _).
    destruct (add_node_spec b _ W1) as (W2 & Hout2 & _).
    unfold pre_edge, out_edges at 1. simpl.
    destruct (decide (c = a)) as [->|Hca].
    - rewrite lookup_insert. simpl. destruct (decide (d = b)) as [->|Hdb].
      + rewrite lookup_insert. destruct (decide (a = a /\ b = b)); [reflexivity|tauto].
      + rewrite lookup_insert_ne by congruence. destruct (decide (a = a /\ d = b)); [tauto|reflexivity].
    - rewrite lookup_insert_ne by congruence. destruct (decide (c = a /\ d = b)); [tauto|].
      change (out_edges (add_node intr b (add_node intr a g)) c !! d = out_edges g c !! d).
      now rewrite Hout2, Hout1.
  Qed.

  Lemma pre_edge_status a b f g m : wf g ->
    status (pre_edge a b f g) !! m = match status g !! m with
                                     | Some s => Some s
                                     | None => if decide (m = a \/ m = b) then Some (intr m) else None
                                     end.
  Proof.
    intros W.
    destruct (add_node_spec a g W) as (W1 & _ & Hst1 & _).
    destruct (add_node_spec b _ W1) as (_ & _ & Hst2 & _).
    unfold pre_edge. simpl. rewrite Hst2, !Hst1.
    destruct (decide (m = b)) as [->|Hmb].
    - destruct (decide (b = a)) as [->|Hba].
      + destruct (status g !! a); simpl; [reflexivity|]. destruct (decide (a = a \/ a = a)); [reflexivity|tauto].
      + destruct (status g !! b); simpl; [reflexivity|]. destruct (decide (b = a \/ b = b)); [reflexivity|tauto].
    - destruct (decide (m = a)) as [->|Hma].
      + destruct (status g !! a); simpl; [reflexivity|]. destruct (decide (a = a \/ a = b)); [reflexivity|tauto].
      + destruct (status g !! m); [reflexivity|]. destruct (decide (m = a \/ m = b)); [tauto|reflexivity].
  Qed.

  Lemma pre_edge_dom a b f g : wf g -> dom (status (pre_edge a b f g)) = {[a; b]} ∪ dom (status g).
  Proof.
    intros W. apply set_eq. intros m. rewrite elem_of_union, !elem_of_dom, pre_edge_status by assumption.
    destruct (status g !! m) as [s|]; [split; eauto|].
    destruct (decide (m = a \/ m = b)) as [H|H].
    - split; [intros _; left; set_solver|eauto].
    - split; [intros [? [=]]|]. intros [Hm|[? [=]]]. set_solver.
  Qed.

  Lemma pre_edge_sigma_old a b f g m : wf g -> m ∈ dom (status g) -> sg (pre_edge a b f g) m = sg g m.
  Proof. intros W [s Hs]%elem_of_dom. unfold sigma. now rewrite pre_edge_status, Hs. Qed.

  Lemma pre_edge_edges_dom a b f g : wf g -> dom (edges (pre_edge a b f g)) = dom (status (pre_edge a b f g)).
  Proof.
    intros W.
    destruct (add_node_spec a g W) as (W1 & _).
    destruct (add_node_spec b _ W1) as (W2 & _).
    unfold pre_edge. simpl. rewrite dom_insert_L, (wf_dom _ _ W2).
    rewrite (add_node_dom b _ W1), (add_node_dom a _ W). set_solver.
  Qed.

  Lemma pre_edge_hasb a b f g c d x : wf g ->
    hasb (pre_edge a b f g) c d x <-> hasb g c d x \/ (c = a /\ d = b /\ f_has f x = true).
  Proof.
    intros W. rewrite !hasb_entry. setoid_rewrite (pre_edge_out a b f g c d W).
    destruct (decide (c = a /\ d = b)) as [[-> ->]|Hn].
    - split.
      + intros (f' & [= <-] & Hx). rewrite f_has_or in Hx. apply orb_true_iff in Hx as [Hx|Hx]; [|tauto].
        left. destruct (out_edges g a !! b) as [f0|]; simpl in Hx; [eauto|]. now rewrite f_none_has in Hx.
      + intros [(f0 & Hf0 & Hx)|(_ & _ & Hx)].
        * eexists. split; [reflexivity|]. rewrite f_has_or, Hf0. simpl. now rewrite Hx.
        * eexists. split; [reflexivity|]. rewrite f_has_or, Hx. apply orb_true_r.
    - split; [auto|]. intros [H|(-> & -> & _)]; [assumption|tauto].
  Qed.

  Lemma pre_edge_wf a b f g : wf g -> f_is_none f = false -> wf (pre_edge a b f g).
  Proof.
    intros W Hf. constructor.
    - now apply pre_edge_edges_dom.
    - intros c d f0. rewrite pre_edge_out by assumption. destruct (decide (c = a /\ d = b)) as [[-> ->]|Hn].
      + intros [= <-]. split.
        * apply elem_of_dom. rewrite pre_edge_dom by assumption. set_solver.
        * now apply f_or_not_none.
      + intros H. destruct (wf_ends _ _ W _ _ _ H) as [Hs Hn0]. split; [|assumption].
        apply elem_of_dom. rewrite pre_edge_dom by assumption. apply elem_of_union. right. now apply elem_of_dom.
    - intros m s. rewrite pre_edge_status by assumption. destruct (status g !! m) as [s0|] eqn:E.
      + intros [= <-]. eapply (wf_intr _ _ W). eassumption.
      + destruct (decide (m = a \/ m = b)); [|discriminate]. intros [= <-]. apply sle_refl.
  Qed.

  Lemma pre_edge_succ_ab a b f g : wf g -> succ (edges (pre_edge a b f g)) a b.
  Proof.
    intros W. change (is_Some (out_edges (pre_edge a b f g) a !! b)). rewrite pre_edge_out by assumption.
    destruct (decide (a = a /\ b = b)); [eauto|tauto].
  Qed.

  Lemma pre_edge_succ a b f g c d : wf g ->
    succ (edges (pre_edge a b f g)) c d -> succ (edges g) c d \/ (c = a /\ d = b).
  Proof.
    intros W H. change (is_Some (out_edges (pre_edge a b f g) c !! d)) in H. rewrite pre_edge_out in H by assumption.
    destruct (decide (c = a /\ d = b)); [now right|left; exact H].
  Qed.

  Lemma pre_edge_le a b f g : wf g -> le_g g (pre_edge a b f g).
  Proof.
    intros W. apply le_g_intro.
    - intros c d x H. apply pre_edge_hasb; [assumption|]. now left.
    - rewrite pre_edge_dom by assumption. set_solver.
    - intros m. unfold sigma. rewrite pre_edge_status by assumption.
      destruct (status g !! m); simpl; [apply sle_refl|apply sle_local].
  Qed.

  (** all edges other than the new one stay satisfied *)
  Lemma pre_edge_sat a b f g c d : wf g -> closed g -> succ (edges g) c d ->
    sle (sg (pre_edge a b f g) c) (sg (pre_edge a b f g) d).
  Proof.
    intros W Hc H. rewrite !pre_edge_sigma_old; [now apply Hc|assumption| |assumption|].
    - eapply wf_target; eassumption.
    - eapply wf_source; eassumption.
  Qed.

  Lemma pre_edge_least a b f g k : wf g -> f_is_none f = false ->
    wf k -> le_g g k -> (forall x, f_has f x = true -> hasb k a b x) -> le_g (pre_edge a b f g) k.
  Proof.
    intros W Hf Wk Hle Hk.
    destruct (f_nonempty_has _ Hf) as [x0 Hx0].
    assert (Hab : succ (edges k) a b) by (eapply hasb_succ; apply Hk; eassumption).
    assert (Ha : a ∈ dom (status k)) by (eapply wf_source; eassumption).
    assert (Hb : b ∈ dom (status k)) by (eapply wf_target; eassumption).
    apply le_g_intro.
    - intros c d x H. apply pre_edge_hasb in H as [H|(-> & -> & H)]; [now apply Hle|now apply Hk|assumption].
    - rewrite pre_edge_dom by assumption. apply le_g_dom in Hle. set_solver.
    - intros m. unfold sigma at 1. rewrite pre_edge_status by assumption.
      destruct (status g !! m) as [s|] eqn:E; simpl.
      + rewrite <- (sigma_lookup _ _ _ E). now apply le_g_sigma.
      + destruct (decide (m = a \/ m = b)) as [Hm|]; simpl; [|apply sle_local].
        assert (Hmk : m ∈ dom (status k)) by (destruct Hm as [->| ->]; assumption).
        apply sigma_dom in Hmk. eapply (wf_intr _ _ Wk). eassumption.
  Qed.

  Theorem add_edge_spec a b f g :
    Inv g -> f_is_none f = false ->
    Inv (add_edge intr ord a b f g) /\
    le_g g (add_edge intr ord a b f g) /\
    (forall x, f_has f x = true -> hasb (add_edge intr ord a b f g) a b x) /\
    (forall k, Inv k -> le_g g k -> (forall x, f_has f x = true -> hasb k a b x) -> le_g (add_edge intr ord a b f g) k).
  Proof.
    intros [W Hc] Hf. rewrite add_edge_unfold by assumption.
    set (p := pre_edge a b f g).
    pose proof (pre_edge_wf a b f g W Hf) as Wp. fold p in Wp.
    destruct (closure_spec a b p) as (CE & C1 & C2 & C3 & C4 & C5).
    set (g' := closure ord a b p) in *.
    assert (Hdom : dom (status g') = dom (status p)).
    { apply C5.
      - unfold p. rewrite pre_edge_dom by assumption. set_solver.
      - intros c d H. eapply wf_target; eassumption. }
    assert (Hhas : forall c d x, hasb g' c d x <-> hasb p c d x).
    { intros. unfold hasb, has_bit, out_edges. now rewrite CE. }
    assert (Hpg' : le_g p g').
    { apply le_g_intro; [intros c d x; apply Hhas|now rewrite Hdom|assumption]. }
    assert (Wg' : wf g').
    { constructor.
      - rewrite CE, Hdom. apply (wf_dom _ _ Wp).
      - intros c d f0 H. unfold out_edges in H. rewrite CE in H.
        destruct (wf_ends _ _ Wp _ _ _ H) as [Hs Hn]. split; [|assumption].
        apply elem_of_dom. rewrite Hdom. now apply elem_of_dom.
      - intros m s Hs. assert (Hm : m ∈ dom (status p)) by (rewrite <- Hdom; apply elem_of_dom; eauto).
        apply sigma_dom in Hm. rewrite <- (sigma_lookup _ _ _ Hs).
        eapply sle_trans; [eapply (wf_intr _ _ Wp); eassumption|apply C1]. }
    assert (Hcl : closed g').
    { intros c d H. unfold closed in *. rewrite CE in H.
      destruct (pre_edge_succ a b f g c d W H) as [Hg|[-> ->]].
      - apply C3; [assumption|]. now apply pre_edge_sat.
      - apply C2. assumption. }
    refine (conj (conj Wg' Hcl) (conj _ (conj _ _))).
    - eapply le_g_trans; [apply pre_edge_le; assumption|exact Hpg'].
    - intros x Hx. apply Hhas. apply pre_edge_hasb; [assumption|]. right. auto.
    - intros k [Wk Hck] Hle Hk.
      assert (Hpk : le_g p k) by (apply pre_edge_least; assumption).
      apply le_g_intro.
      + intros c d x H. apply Hhas in H. now apply Hpk.
      + rewrite Hdom. now apply le_g_dom.
      + apply C4.
        * now apply closedf_below.
        * apply Hck. destruct (f_nonempty_has _ Hf) as [x0 Hx0]. eapply hasb_succ. apply Hk. eassumption.
        * intros m. now apply le_g_sigma.
  Qed.

  (** ** MergeNodeStatus (on a node of the graph) *)
  Lemma fold_closure_spec n g0 : forall ps g,
    edges g = edges g0 ->
    (forall q, q ∈ ps -> succ (edges g0) n q) ->
    edges (fold_left (fun acc q => closure ord n q acc) ps g) = edges g0 /\
    (forall m, sle (sg g m) (sg (fold_left (fun acc q => closure ord n q acc) ps g) m)) /\
    (forall q, q ∈ ps -> sle (sg (fold_left (fun acc q => closure ord n q acc) ps g) n)
                              (sg (fold_left (fun acc q => closure ord n q acc) ps g) q)) /\
    (forall c d, succ (edges g0) c d -> sle (sg g c) (sg g d) ->
                 sle (sg (fold_left (fun acc q => closure ord n q acc) ps g) c)
                     (sg (fold_left (fun acc q => closure ord n q acc) ps g) d)) /\
    (forall t, closedf (edges g0) t -> (forall m, sle (sg g m) (t m)) ->
               forall m, sle (sg (fold_left (fun acc q => closure ord n q acc) ps g) m) (t m)) /\
    ((forall c d, succ (edges g0) c d -> d ∈ dom (status g)) ->
     dom (status (fold_left (fun acc q => closure ord n q acc) ps g)) = dom (status g)).
  Proof.
    induction ps as [|q ps IH]; intros g HE Hps; simpl.
    - refine (conj HE (conj _ (conj _ (conj _ (conj _ _))))).
      + intros; apply sle_refl.
      + intros q Hq. now apply elem_of_nil in Hq.
      + auto.
      + auto.
      + auto.
    - destruct (closure_spec n q g) as (CE & C1 & C2 & C3 & C4 & C5). rewrite HE in *.
      assert (Hq : succ (edges g0) n q) by (apply Hps; set_solver).
      assert (HE' : edges (closure ord n q g) = edges g0) by exact CE.
      assert (Hps' : forall q0, q0 ∈ ps -> succ (edges g0) n q0) by (intros; apply Hps; set_solver).
      destruct (IH _ HE' Hps') as (I0 & I1 & I2 & I3 & I4 & I5).
      refine (conj I0 (conj _ (conj _ (conj _ (conj _ _))))).
      + intros m. eapply sle_trans; [apply C1|apply I1].
      + intros q' Hq'. apply elem_of_cons in Hq' as [->|Hq']; [|now apply I2].
        apply I3; [assumption|]. now apply C2.
      + intros c d Hcd Hsat. apply I3; [assumption|]. now apply C3.
      + intros t Ht Hle. apply I4; [assumption|]. apply C4; [assumption| |assumption]. now apply Ht.
      + intros Hd. assert (Hdq : dom (status (closure ord n q g)) = dom (status g)).
        { apply C5; [|assumption]. eapply Hd; eassumption. }
        rewrite I5; [assumption|]. intros c d Hcd. rewrite Hdq. eapply Hd; eassumption.
  Qed.

  Lemma mns_raise n s g s0 : status g !! n = Some s0 -> st_lt s0 s = true ->
    merge_node_status ord n s g =
    fold_left (fun acc q => closure ord n q acc) (succs_of ord (edges g) n) (mkGraph (edges g) (<[n:=s]> (status g))).
  Proof. unfold merge_node_status. intros -> H. cbv beta iota zeta. rewrite H. reflexivity. Qed.

  Lemma mns_keep n s g s0 : status g !! n = Some s0 -> st_lt s0 s = false -> merge_node_status ord n s g = g.
  Proof. unfold merge_node_status. intros -> H. cbv beta iota zeta. rewrite H. reflexivity. Qed.

  Theorem merge_node_status_spec n s g :
    Inv g -> n ∈ dom (status g) ->
    Inv (merge_node_status ord n s g) /\
    le_g g (merge_node_status ord n s g) /\
    sle s (sg (merge_node_status ord n s g) n) /\
    (forall k, Inv k -> le_g g k -> sle s (sg k n) -> le_g (merge_node_status ord n s g) k).
  Proof.
    intros [W Hc] Hn.
    apply elem_of_dom in Hn as [s0 Hs0].
    destruct (st_lt s0 s) eqn:Hlt.
    - rewrite (mns_raise _ _ _ _ Hs0 Hlt).
      set (g1 := mkGraph (edges g) (<[n:=s]> (status g))).
      assert (Hsig1 : forall m, sg g1 m = if decide (m = n) then s else sg g m) by (intros; apply sigma_insert).
      assert (Hdom1 : dom (status g1) = dom (status g)).
      { unfold g1. simpl. rewrite dom_insert_L. assert (n ∈ dom (status g)) by (apply elem_of_dom; eauto). set_solver. }
      assert (Hle1 : forall m, sle (sg g m) (sg g1 m)).
      { intros m. rewrite Hsig1. destruct (decide (m = n)) as [->|]; [|apply sle_refl].
        rewrite (sigma_lookup _ _ _ Hs0). now apply st_lt_sle. }
      assert (Hps : forall q, q ∈ succs_of ord (edges g) n -> succ (edges g1) n q).
      { intros q Hq. now apply elem_of_succs_of in Hq. }
      destruct (fold_closure_spec n g1 (succs_of ord (edges g) n) g1 eq_refl Hps) as (F0 & F1 & F2 & F3 & F4 & F5).
      set (g' := fold_left (fun acc q => closure ord n q acc) (succs_of ord (edges g) n) g1) in *.
      change (edges g1) with (edges g) in *.
      assert (Hdom : dom (status g') = dom (status g)).
      { rewrite F5; [assumption|]. intros c d H. rewrite Hdom1. eapply wf_target; eassumption. }
      assert (Hhas : forall c d x, hasb g' c d x <-> hasb g c d x).
      { intros. unfold hasb, has_bit, out_edges. now rewrite F0. }
      assert (Wg' : wf g').
      { constructor.
        - rewrite F0, Hdom. apply (wf_dom _ _ W).
        - intros c d f0 H. unfold out_edges in H. rewrite F0 in H.
          destruct (wf_ends _ _ W _ _ _ H) as [Hs Hn0]. split; [|assumption].
          apply elem_of_dom. rewrite Hdom. now apply elem_of_dom.
        - intros m sm Hsm. assert (Hm : m ∈ dom (status g)) by (rewrite <- Hdom; apply elem_of_dom; eauto).
          apply sigma_dom in Hm. rewrite <- (sigma_lookup _ _ _ Hsm).
          eapply sle_trans; [eapply (wf_intr _ _ W); eassumption|].
          eapply sle_trans; [apply Hle1|apply F1]. }
      assert (Hcl : closed g').
      { intros c d H. unfold closed in *. rewrite F0 in H.
        destruct (decide (c = n)) as [->|Hcn].
        - apply F2. now apply elem_of_succs_of.
        - apply F3; [assumption|]. rewrite !Hsig1. destruct (decide (c = n)); [congruence|].
          eapply sle_trans; [apply (Hc c d H)|]. rewrite <- Hsig1. apply Hle1. }
      refine (conj (conj Wg' Hcl) (conj _ (conj _ _))).
      + apply le_g_intro; [intros c d x; apply Hhas|now rewrite Hdom|].
        intros m. eapply sle_trans; [apply Hle1|apply F1].
      + eapply sle_trans; [|apply F1]. rewrite Hsig1. destruct (decide (n = n)); [apply sle_refl|congruence].
      + intros k [Wk Hck] Hle Hk. apply le_g_intro.
        * intros c d x H. apply Hhas in H. now apply Hle.
        * rewrite Hdom. now apply le_g_dom.
        * apply F4; [now apply closedf_below|].
          intros m. rewrite Hsig1. destruct (decide (m = n)) as [->|]; [assumption|now apply le_g_sigma].
    - rewrite (mns_keep _ _ _ _ Hs0 Hlt). apply st_lt_false in Hlt.
      refine (conj (conj W Hc) (conj (le_g_refl _) (conj _ _))).
      + now rewrite (sigma_lookup _ _ _ Hs0).
      + auto.
  Qed.

  (** the pair [AddNode; MergeNodeStatus] used by [Merge] *)
  Theorem add_status_spec n s g :
    Inv g ->
    let g' := merge_node_status ord n s (add_node intr n g) in
    Inv g' /\ le_g g g' /\
    (exists s', status g' !! n = Some s' /\ sle s s') /\
    (forall k, Inv k -> le_g g k -> (exists s', status k !! n = Some s' /\ sle s s') -> le_g g' k).
  Proof.
    intros [W Hc]. cbv zeta.
    destruct (add_node_spec n g W) as (W1 & _ & _ & Hc1). specialize (Hc1 Hc).
    assert (Hn1 : n ∈ dom (status (add_node intr n g))) by (rewrite add_node_dom by assumption; set_solver).
    destruct (merge_node_status_spec n s _ (conj W1 Hc1) Hn1) as (I & L & Sn & Least).
    refine (conj I (conj _ (conj _ _))).
    - eapply le_g_trans; [now apply add_node_le|exact L].
    - assert (Hn' : n ∈ dom (status (merge_node_status ord n s (add_node intr n g)))).
      { pose proof (le_g_dom _ _ L). set_solver. }
      apply sigma_dom in Hn'. eauto.
    - intros k Ik Hle (s' & Hs' & Ls'). apply Least; [assumption| |].
      + apply add_node_least; [assumption|apply Ik|assumption|]. apply elem_of_dom. eauto.
      + now rewrite (sigma_lookup _ _ _ Hs').
  Qed.
End Ops.
