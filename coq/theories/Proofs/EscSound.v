(* alpha is an invariant of every execution (all programs, all valid annotations, all schedules); soundness of the
   locality verdicts; the sharing-event theorem behind C13. *)
From Coq Require Import List Arith Bool Lia.
From Argot Require Import Lang.Conc Model.Esc Proofs.EscGraph0 Proofs.Esc Proofs.EscStep.
Import ListNotations.

Definition held (t : thread) (l : loc) : Prop := exists r, t_regs t r = Some l.

Definition extra (ox : option thread) : list thread := match ox with Some x => [x] | None => [] end.

Lemma nth_thr' : forall (thr0 : list thread) tid x ox k tk,
  tid < length thr0 ->
  nth_error (set_nth thr0 tid x ++ extra ox) k = Some tk ->
  (k = tid /\ tk = x) \/ (k <> tid /\ k < length thr0 /\ nth_error thr0 k = Some tk) \/
  (k = length thr0 /\ ox = Some tk).
Proof.
  intros thr0 tid x ox k tk Hlt H. destruct (lt_dec k (length thr0)) as [Hk | Hk].
  - rewrite nth_error_app1 in H by (rewrite length_set_nth; auto).
    destruct (Nat.eq_dec k tid) as [-> | Hne].
    + rewrite nth_set_nth_eq in H by auto. inversion H; auto.
    + rewrite nth_set_nth_neq in H by auto. right; left; auto.
  - rewrite nth_error_app2 in H by (rewrite length_set_nth; lia). rewrite length_set_nth in H.
    destruct ox as [x0|]; simpl in H.
    + destruct (k - length thr0) as [|d] eqn:E; simpl in H.
      * inversion H; subst. right; right; split; auto; lia.
      * destruct d; discriminate.
    + destruct (k - length thr0); discriminate.
Qed.

Lemma nth_thr'_other : forall (thr0 : list thread) tid x k,
  k <> tid -> nth_error (set_nth thr0 tid x ++ extra None) k = nth_error thr0 k.
Proof.
  intros; simpl; rewrite app_nil_r. apply nth_set_nth_neq; auto.
Qed.

Lemma advance_regs : forall t regs succs br, t_regs (advance t regs succs br) = regs.
Proof. intros; unfold advance; destruct (nth_error succs br); reflexivity. Qed.

Lemma advance_fn : forall t regs succs br, t_fn (advance t regs succs br) = t_fn t.
Proof. intros; unfold advance; destruct (nth_error succs br); reflexivity. Qed.

Lemma advance_live : forall t regs succs br, t_live (advance t regs succs br) = true ->
  exists pc', nth_error succs br = Some pc' /\ t_pc (advance t regs succs br) = pc'.
Proof. intros t regs succs br; unfold advance; destruct (nth_error succs br); simpl; intro H; [eauto | discriminate]. Qed.

Section Assemble.
Variables (P : prog) (A : annot) (s : state) (tid : nat) (t : thread).
Variable R : nat -> loc -> node -> Prop.
Hypothesis Ht : nth_error (thr s) tid = Some t.
Hypothesis Hall : forall k tk, nth_error (thr s) k = Some tk -> t_live tk = true ->
  tinv s k (getA A (t_fn tk) (t_pc tk)) (R k) (t_regs tk).

Lemma assemble : forall succs br g1 R' h' n' gl' regs' ox Rx,
  (forall pc', In pc' succs -> gle g1 (getA A (t_fn t) pc') /\ closed (getA A (t_fn t) pc')) ->
  wf (mk h' n' gl' (set_nth (thr s) tid (advance t regs' succs br) ++ extra ox)) ->
  tinv (mk h' n' gl' (set_nth (thr s) tid (advance t regs' succs br) ++ extra ox)) tid g1 R' regs' ->
  nxt s <= n' ->
  (forall l f l', h' l f = Some l' -> heap s l f = Some l' \/ (held t l /\ held t l')) ->
  (forall gv l, gl' gv = Some l -> glob s gv = Some l \/ held t l) ->
  (forall r l, regs' r = Some l ->
      held t l \/ (exists l0 f, held t l0 /\ heap s l0 f = Some l) \/ (exists gv, glob s gv = Some l) \/ nxt s <= l) ->
  (forall x, ox = Some x -> (forall r l, t_regs x r = Some l -> held t l) /\
      (t_live x = true -> tinv (mk h' n' gl' (set_nth (thr s) tid (advance t regs' succs br) ++ extra ox))
                            (length (thr s)) (getA A (t_fn x) (t_pc x)) Rx (t_regs x))) ->
  alpha P A (mk h' n' gl' (set_nth (thr s) tid (advance t regs' succs br) ++ extra ox)).
Proof.
  intros succs br g1 R' h' n' gl' regs' ox Rx Hsucc WF' Itid Hn Hh Hg Hr Hx.
  assert (Hlt : tid < length (thr s)) by (eapply nth_error_lt; eauto).
  split; auto.
  exists (fun k => if Nat.eqb k tid then R' else if Nat.eqb k (length (thr s)) then Rx else R k).
  intros k tk Hk Hlive. simpl in Hk. apply nth_thr' in Hk; auto.
  destruct Hk as [[-> ->] | [(Hne & Hklt & Hold) | [-> Hox]]].
  - rewrite Nat.eqb_refl. rewrite advance_regs, advance_fn.
    destruct (advance_live _ _ _ _ Hlive) as (pc' & Hbr & ->).
    destruct (Hsucc pc' (nth_error_In _ _ Hbr)) as [L C]. eapply tinv_mono; eauto.
  - assert (E1 : Nat.eqb k tid = false) by (apply Nat.eqb_neq; auto).
    assert (E2 : Nat.eqb k (length (thr s)) = false) by (apply Nat.eqb_neq; lia).
    rewrite E1, E2. pose proof (Hall k tk Hold Hlive) as Ik.
    eapply (frame_other s _ k _ _ _ (held t)); eauto.
    + intros l (r & Hreg) Hl. exact (i4t _ _ _ _ _ Ik l tid t r Hl (not_eq_sym Hne) Ht Hreg).
    + intros k' t' r l Hk' Hn' Hreg. simpl in Hn'. apply nth_thr' in Hn'; auto.
      destruct Hn' as [[-> ->] | [(Hne' & Hklt' & Hold') | [-> Hox]]].
      * rewrite advance_regs in Hreg. right. apply Hr in Hreg. tauto.
      * left; eauto.
      * right; left. destruct (Hx _ Hox) as [Hheld _]. eapply Hheld; eauto.
  - assert (E1 : Nat.eqb (length (thr s)) tid = false) by (apply Nat.eqb_neq; lia).
    rewrite E1, Nat.eqb_refl. destruct (Hx _ Hox) as [_ Hi]. auto.
Qed.
End Assemble.

Lemma wf_mk : forall h' n' gl' th',
  (forall l f l', h' l f = Some l' -> l < n' /\ l' < n') ->
  (forall g l, gl' g = Some l -> l < n') ->
  (forall k t r l, nth_error th' k = Some t -> t_regs t r = Some l -> l < n') ->
  wf (mk h' n' gl' th').
Proof. intros; constructor; simpl; auto. Qed.

(* values held by the threads after a step *)
Lemma wf_threads : forall s tid t x ox n',
  wf s -> nth_error (thr s) tid = Some t -> nxt s <= n' ->
  (forall r l, t_regs x r = Some l -> l < n') ->
  (forall y, ox = Some y -> forall r l, t_regs y r = Some l -> l < n') ->
  forall k tk r l, nth_error (set_nth (thr s) tid x ++ extra ox) k = Some tk -> t_regs tk r = Some l -> l < n'.
Proof.
  intros s tid t x ox n' WF Ht Hn Hx Hy k tk r l Hk Hreg.
  apply nth_thr' in Hk; [|eapply nth_error_lt; eauto].
  destruct Hk as [[-> ->] | [(Hne & Hklt & Hold) | [-> Hox]]].
  - eauto.
  - pose proof (wf_regs _ WF _ _ _ _ Hold Hreg). lia.
  - eauto.
Qed.

Lemma alpha_nil : forall P A h n g th, alpha P A (mk h n g (th ++ extra None)) -> alpha P A (mk h n g th).
Proof. intros P A h n g th H. simpl in H. rewrite app_nil_r in H. exact H. Qed.

Theorem alpha_step : forall P A, check_annot P A = true -> forall s c, alpha P A s -> alpha P A (step P s c).
Proof.
  intros P A CA s [tid br] [WF [R Hall]]. unfold step.
  destruct (nth_error (thr s) tid) as [t|] eqn:Ht; [|split; eauto].
  destruct (t_live t) eqn:Hlive; simpl; [|split; eauto].
  assert (Hlt : tid < length (thr s)) by (eapply nth_error_lt; eauto).
  pose proof (Hall tid t Ht Hlive) as I.
  destruct (fetch P (t_fn t) (t_pc t)) as [[i succs]|] eqn:F.
  2:{ (* no instruction: the thread ends *)
    split.
    - constructor; simpl; try apply WF. intros k tk r l Hk Hreg.
      destruct (Nat.eq_dec k tid) as [-> | Hne].
      + rewrite nth_set_nth_eq in Hk by auto. inversion Hk; subst; simpl in Hreg. eapply (wf_regs _ WF); eauto.
      + rewrite nth_set_nth_neq in Hk by auto. eapply (wf_regs _ WF); eauto.
    - exists R. intros k tk Hk Hl. simpl in Hk. destruct (Nat.eq_dec k tid) as [-> | Hne].
      + rewrite nth_set_nth_eq in Hk by auto. inversion Hk; subst; discriminate.
      + rewrite nth_set_nth_neq in Hk by auto. pose proof (Hall k tk Hk Hl) as Ik.
        eapply (frame_other s _ k _ _ _ (fun _ => False)); eauto; simpl; try tauto.
        intros k' t' r l Hk' Hn' Hreg. left. destruct (Nat.eq_dec k' tid) as [-> | Hne'].
        * rewrite nth_set_nth_eq in Hn' by auto. inversion Hn'; subst; simpl in Hreg. eauto.
        * rewrite nth_set_nth_neq in Hn' by auto. eauto. }
  destruct (check_annot_fetch _ _ _ _ _ _ CA F) as (GO & Cg & g1 & T & Hsucc).
  assert (HeldLt : forall l, held t l -> l < nxt s) by (intros l (r & Hr); eapply (wf_regs _ WF); eauto).
  destruct i as [r | r q | r q f | r f q | r gv | gv q | callee args | ].
  - (* alloc *)
    assert (WF' : wf (mk (heap s) (S (nxt s)) (glob s) (set_nth (thr s) tid (advance t (upd (t_regs t) r (Some (nxt s))) succs br) ++ extra None))).
    { apply wf_mk.
      - intros l f l' H; apply (wf_heap _ WF) in H; lia.
      - intros g0 l H; apply (wf_glob _ WF) in H; lia.
      - eapply wf_threads; eauto; [|discriminate]. rewrite advance_regs. intros r' l H.
        destruct (upd_cases _ (t_regs t) r (Some (nxt s)) r') as [[-> E] | [Hne E]]; rewrite E in H.
        + inversion H; lia.
        + pose proof (wf_regs _ WF _ _ _ _ Ht H); lia. }
    destruct (exec_alloc s tid t _ g1 (R tid) (t_fn t) (t_pc t) WF I _ (nth_thr'_other (thr s) tid (advance t (upd (t_regs t) r (Some (nxt s))) succs br)) r T) as (R' & I').
    apply alpha_nil.
    eapply (assemble P A s tid t R Ht Hall succs br g1 R' _ _ _ _ None (fun _ _ => False)); eauto.
    + intros r' l H. destruct (upd_cases _ (t_regs t) r (Some (nxt s)) r') as [[-> E] | [Hne E]]; rewrite E in H.
      * inversion H. right; right; right; lia.
      * left; exists r'; auto.
    + discriminate.
  - (* copy *)
    assert (WF' : wf (mk (heap s) (nxt s) (glob s) (set_nth (thr s) tid (advance t (upd (t_regs t) r (t_regs t q)) succs br) ++ extra None))).
    { apply wf_mk; try apply WF. eapply wf_threads; eauto; [|discriminate]. rewrite advance_regs. intros r' l H.
      destruct (upd_cases _ (t_regs t) r (t_regs t q) r') as [[-> E] | [Hne E]]; rewrite E in H;
        eapply (wf_regs _ WF); eauto. }
    pose proof (exec_copy s tid t _ g1 (R tid) (t_fn t) (t_pc t) I _ (nth_thr'_other (thr s) tid (advance t (upd (t_regs t) r (t_regs t q)) succs br)) r q T) as I'.
    apply alpha_nil.
    eapply (assemble P A s tid t R Ht Hall succs br g1 (R tid) _ _ _ _ None (fun _ _ => False)); eauto.
    + intros r' l H. left. destruct (upd_cases _ (t_regs t) r (t_regs t q) r') as [[-> E] | [Hne E]]; rewrite E in H; eexists; eauto.
    + discriminate.
  - (* load *)
    destruct (t_regs t q) as [l0|] eqn:Hq; [|split; eauto].
    assert (WF' : wf (mk (heap s) (nxt s) (glob s) (set_nth (thr s) tid (advance t (upd (t_regs t) r (heap s l0 f)) succs br) ++ extra None))).
    { apply wf_mk; try apply WF. eapply wf_threads; eauto; [|discriminate]. rewrite advance_regs. intros r' l H.
      destruct (upd_cases _ (t_regs t) r (heap s l0 f) r') as [[-> E] | [Hne E]]; rewrite E in H.
      - apply (wf_heap _ WF) in H; tauto.
      - eapply (wf_regs _ WF); eauto. }
    destruct (exec_load s tid t _ g1 (R tid) (t_fn t) (t_pc t) WF I _ (nth_thr'_other (thr s) tid (advance t (upd (t_regs t) r (heap s l0 f)) succs br)) r q f l0 T Hq) as (R' & I').
    apply alpha_nil.
    eapply (assemble P A s tid t R Ht Hall succs br g1 R' _ _ _ _ None (fun _ _ => False)); eauto.
    + intros r' l H. destruct (upd_cases _ (t_regs t) r (heap s l0 f) r') as [[-> E] | [Hne E]]; rewrite E in H.
      * right; left. exists l0, f; split; auto. exists q; auto.
      * left; exists r'; auto.
    + discriminate.
  - (* store *)
    destruct (t_regs t r) as [l0|] eqn:Hr; [|split; eauto].
    assert (WF' : wf (mk (upd2 (heap s) l0 f (t_regs t q)) (nxt s) (glob s) (set_nth (thr s) tid (advance t (t_regs t) succs br) ++ extra None))).
    { apply wf_mk; try apply WF.
      - intros l f1 l' H. destruct (upd2_cases (heap s) l0 f (t_regs t q) l f1) as [(-> & -> & E) | (_ & E)]; rewrite E in H.
        + split; eapply (wf_regs _ WF); eauto.
        + apply (wf_heap _ WF) in H; auto.
      - eapply wf_threads; eauto; [|discriminate]. rewrite advance_regs. intros; eapply (wf_regs _ WF); eauto. }
    pose proof (exec_store s tid t _ g1 (R tid) (t_fn t) (t_pc t) I _ (nth_thr'_other (thr s) tid (advance t (t_regs t) succs br)) r f q l0 T Hr) as I'.
    apply alpha_nil.
    eapply (assemble P A s tid t R Ht Hall succs br g1 (R tid) _ _ _ _ None (fun _ _ => False)); eauto.
    + intros l f1 l' H. destruct (upd2_cases (heap s) l0 f (t_regs t q) l f1) as [(-> & -> & E) | (_ & E)]; rewrite E in H.
      * right; split; eexists; eauto.
      * left; auto.
    + intros r' l H; left; exists r'; auto.
    + discriminate.
  - (* global load *)
    assert (WF' : wf (mk (heap s) (nxt s) (glob s) (set_nth (thr s) tid (advance t (upd (t_regs t) r (glob s gv)) succs br) ++ extra None))).
    { apply wf_mk; try apply WF. eapply wf_threads; eauto; [|discriminate]. rewrite advance_regs. intros r' l H.
      destruct (upd_cases _ (t_regs t) r (glob s gv) r') as [[-> E] | [Hne E]]; rewrite E in H.
      - eapply (wf_glob _ WF); eauto.
      - eapply (wf_regs _ WF); eauto. }
    destruct (exec_gload s tid t _ g1 (R tid) (t_fn t) (t_pc t) WF I _ (nth_thr'_other (thr s) tid (advance t (upd (t_regs t) r (glob s gv)) succs br)) r gv T) as (R' & I').
    apply alpha_nil.
    eapply (assemble P A s tid t R Ht Hall succs br g1 R' _ _ _ _ None (fun _ _ => False)); eauto.
    + intros r' l H. destruct (upd_cases _ (t_regs t) r (glob s gv) r') as [[-> E] | [Hne E]]; rewrite E in H.
      * right; right; left; eauto.
      * left; exists r'; auto.
    + discriminate.
  - (* global store *)
    assert (WF' : wf (mk (heap s) (nxt s) (upd (glob s) gv (t_regs t q)) (set_nth (thr s) tid (advance t (t_regs t) succs br) ++ extra None))).
    { apply wf_mk; try apply WF.
      - intros g0 l H. destruct (upd_cases _ (glob s) gv (t_regs t q) g0) as [[-> E] | [Hne E]]; rewrite E in H.
        + eapply (wf_regs _ WF); eauto.
        + eapply (wf_glob _ WF); eauto.
      - eapply wf_threads; eauto; [|discriminate]. rewrite advance_regs. intros; eapply (wf_regs _ WF); eauto. }
    pose proof (exec_gstore s tid t _ g1 (R tid) (t_fn t) (t_pc t) I _ (nth_thr'_other (thr s) tid (advance t (t_regs t) succs br)) gv q T) as I'.
    apply alpha_nil.
    eapply (assemble P A s tid t R Ht Hall succs br g1 (R tid) _ _ _ _ None (fun _ _ => False)); eauto.
    + intros g0 l H. destruct (upd_cases _ (glob s) gv (t_regs t q) g0) as [[-> E] | [Hne E]]; rewrite E in H.
      * right; eexists; eauto.
      * left; auto.
    + intros r' l H; left; exists r'; auto.
    + discriminate.
  - (* go *)
    set (tn := {| t_fn := callee; t_pc := 0; t_regs := spawn_regs (t_regs t) args; t_live := true |}).
    assert (Hsp : forall r l, spawn_regs (t_regs t) args r = Some l -> held t l /\ r < length args).
    { intros r l H. unfold spawn_regs in H. destruct (nth_error args r) eqn:E; [|discriminate].
      split; [eexists; eauto | eapply nth_error_lt; eauto]. }
    assert (WF' : wf (mk (heap s) (nxt s) (glob s) (set_nth (thr s) tid (advance t (t_regs t) succs br) ++ extra (Some tn)))).
    { apply wf_mk; try apply WF. eapply wf_threads; eauto.
      - rewrite advance_regs. intros; eapply (wf_regs _ WF); eauto.
      - intros y Hy r l H. inversion Hy; subst y. simpl in H. apply Hsp in H. apply HeldLt; tauto. }
    simpl in GO. destruct (nth_error P callee) as [fc|] eqn:Efc; [|discriminate]. apply Nat.leb_le in GO.
    destruct (check_annot_entry _ _ _ _ CA Efc) as [Le Ce].
    assert (I' : tinv (mk (heap s) (nxt s) (glob s) (set_nth (thr s) tid (advance t (t_regs t) succs br) ++ extra (Some tn))) tid g1 (R tid) (t_regs t)).
    { eapply (exec_go s tid t _ g1 (R tid) (t_fn t) (t_pc t) callee args _ tn Ht I T); auto.
      intros k t' Hk Hn. apply nth_thr' in Hn; auto. destruct Hn as [[-> _] | [(_ & _ & Hold) | [_ Hox]]].
      - contradiction.
      - left; auto.
      - right; inversion Hox; auto. }
    change (alpha P A (mk (heap s) (nxt s) (glob s) (set_nth (thr s) tid (advance t (t_regs t) succs br) ++ extra (Some tn)))).
    eapply (assemble P A s tid t R Ht Hall succs br g1 (R tid) _ _ _ _ (Some tn) (Rparam (t_regs tn))); eauto.
    + intros r' l H; left; exists r'; auto.
    + intros x Hx. inversion Hx; subst x. split.
      * intros r l H. simpl in H. apply Hsp in H; tauto.
      * intros _. simpl. eapply tinv_mono; [|exact Le|exact Ce].
        eapply (tinv_spawn _ _ (f_arity fc) _ (length args)); auto.
        intros r l H. simpl in H. apply Hsp in H. destruct H as [Hh Hlt']. split; auto.
  - (* nop *)
    assert (WF' : wf (mk (heap s) (nxt s) (glob s) (set_nth (thr s) tid (advance t (t_regs t) succs br) ++ extra None))).
    { apply wf_mk; try apply WF. eapply wf_threads; eauto; [|discriminate]. rewrite advance_regs. intros; eapply (wf_regs _ WF); eauto. }
    pose proof (exec_nop s tid t _ g1 (R tid) (t_fn t) (t_pc t) I _ (nth_thr'_other (thr s) tid (advance t (t_regs t) succs br)) INop eq_refl T) as I'.
    apply alpha_nil.
    eapply (assemble P A s tid t R Ht Hall succs br g1 (R tid) _ _ _ _ None (fun _ _ => False)); eauto.
    + intros r' l H; left; exists r'; auto.
    + discriminate.
Qed.
