(** * C15 — the block-level fixpoint of the escape analysis does not depend on the worklist order
      (instance of [Base/Fix.v] for escape graphs, merges at joins, arbitrary monotone transfer functions) *)
From stdpp Require Import gmap.
From Coq Require Import List Lia.
From Argot Require Import Base.Fix Model.EscGraph Proofs.EscGraphClosure Proofs.EscGraphOrder Proofs.EscGraphOps
  Proofs.EscGraphMerge.

Section BlockFix.
  Context (intr : node -> estatus) (ord : list node -> list node) (ord_perm : forall l, ord l ≡ₚ l).
  Notation Inv := (Inv intr).

  (** the CFG: [n] blocks, predecessor and successor lists *)
  Context (n : nat) (preds succs : nat -> list nat).
  Hypothesis preds_lt : forall j i, In i (preds j) -> i < n.
  Hypothesis succs_lt : forall i j, i < n -> In j (succs i) -> j < n.
  Hypothesis succs_preds : forall i j, In i (preds j) -> In j (succs i).

  (** per-block constant contribution (the function's initial graph for the entry block, the empty graph elsewhere)
      and the effect of the block's instructions: ANY monotone, invariant-preserving function *)
  Context (init : nat -> graph).
  Hypothesis init_inv : forall i, Inv (init i).
  Context (tf : nat -> graph -> graph).
  Hypothesis tf_inv : forall i g, Inv g -> Inv (tf i g).
  Hypothesis tf_mono : forall i g g', Inv g -> Inv g' -> le_g g g' -> le_g (tf i g) (tf i g').

  (** [ProcessBlock]: merge the block-end graphs of the predecessors, then apply the instructions *)
  Definition merge_all (gs : list graph) (g0 : graph) : graph := fold_left (merge intr ord) gs g0.
  Definition blockF (i : nat) (x : nat -> graph) : graph := tf i (merge_all (map x (preds i)) (init i)).

  Lemma merge_all_inv gs : forall g0, Inv g0 -> Inv (merge_all gs g0).
  Proof.
    induction gs as [|h gs IH]; intros g0 I0; simpl; [assumption|].
    apply IH. now apply (merge_inv intr ord ord_perm).
  Qed.

  Lemma merge_all_mono gs gs' : Forall2 le_g gs gs' ->
    forall g0 g0', Inv g0 -> Inv g0' -> le_g g0 g0' -> le_g (merge_all gs g0) (merge_all gs' g0').
  Proof.
    induction 1 as [|h h' gs gs' Hh _ IH]; intros g0 g0' I0 I0' L; simpl; [assumption|].
    apply IH; [now apply (merge_inv intr ord ord_perm)|now apply (merge_inv intr ord ord_perm)|].
    eapply le_g_trans.
    - apply (merge_mono_left intr ord ord ord_perm ord_perm g0 g0' h); assumption.
    - apply (merge_mono_right intr ord ord ord_perm ord_perm g0' h h'); assumption.
  Qed.

  Lemma blockF_good i x : Inv (blockF i x).
  Proof. unfold blockF. apply tf_inv, merge_all_inv, init_inv. Qed.

  Lemma map_Forall2 (x y : nat -> graph) l :
    (forall p, In p l -> le_g (x p) (y p)) -> Forall2 le_g (map x l) (map y l).
  Proof.
    induction l as [|p l IH]; intros H; simpl; constructor.
    - apply H. now left.
    - apply IH. intros q Hq. apply H. now right.
  Qed.

  Lemma blockF_mono i x y : Fix.sle graph le_g n x y -> le_g (blockF i x) (blockF i y).
  Proof.
    intros Hle. unfold blockF. apply tf_mono; [apply merge_all_inv, init_inv|apply merge_all_inv, init_inv|].
    apply merge_all_mono; [|apply init_inv|apply init_inv|apply le_g_refl].
    apply map_Forall2. intros p Hp. apply Hle. eapply preds_lt; eassumption.
  Qed.

  Lemma blockF_dep i j x v : ~ In j (succs i) -> blockF j (upd graph x i v) = blockF j x.
  Proof.
    intros Hn. unfold blockF. f_equal. f_equal. apply map_ext_in. intros p Hp. unfold upd.
    destruct (Nat.eqb p i) eqn:E; [|reflexivity].
    apply Nat.eqb_eq in E. subst p. exfalso. apply Hn. now apply succs_preds.
  Qed.

  (** any two worklist runs (arbitrary choice of the next block, arbitrary queue discipline that keeps unprocessed
      blocks queued and queues the successors of a changed block) that empty the worklist end with the SAME
      block-end graphs ([Matches]), and these form the least solution above the start *)
  Theorem block_fixpoint_order_free x0 wl0 a b :
    sgood graph Inv n x0 ->
    inflationary graph le_g n blockF x0 ->
    unqueued_stable graph le_g n blockF (wl0, x0) ->
    wsteps graph le_g n blockF succs (wl0, x0) ([], a) ->
    wsteps graph le_g n blockF succs (wl0, x0) ([], b) ->
    forall i, i < n -> a i = b i.
  Proof.
    intros Hg Hi Hu Ha Hb i Hlt.
    assert (FG : forall (i : nat) (x : state graph), i < n -> sgood graph Inv n x -> Inv (blockF i x))
      by (intros; apply blockF_good).
    assert (FM : forall (i : nat) (x y : state graph), i < n -> sgood graph Inv n x -> sgood graph Inv n y ->
                 Fix.sle graph le_g n x y -> le_g (blockF i x) (blockF i y)) by (intros; now apply blockF_mono).
    pose proof (wl_order_irrelevant graph le_g le_g_refl le_g_trans Inv n blockF FG FM succs blockF_dep
                  x0 wl0 a b Hg Hi Hu Ha Hb i Hlt) as [L1 L2].
    pose proof (wsteps_inv graph le_g le_g_refl le_g_trans Inv n blockF FG FM succs blockF_dep x0 _ _
                  (winv_init graph le_g le_g_refl Inv n blockF x0 wl0 Hg Hi Hu) Ha) as Wa.
    pose proof (wsteps_inv graph le_g le_g_refl le_g_trans Inv n blockF FG FM succs blockF_dep x0 _ _
                  (winv_init graph le_g le_g_refl Inv n blockF x0 wl0 Hg Hi Hu) Hb) as Wb.
    apply (le_g_antisym intr); [apply (wi_good _ _ _ _ _ _ _ Wa i Hlt)|apply (wi_good _ _ _ _ _ _ _ Wb i Hlt)|assumption|assumption].
  Qed.

  (** the concrete fuelled worklist algorithm with [Matches] as the change test: two oracles, same result *)
  Theorem block_worklist_order_free pick1 pick2 fuel1 fuel2 wl0 x0 a b :
    all_lt n wl0 ->
    sgood graph Inv n x0 ->
    inflationary graph le_g n blockF x0 ->
    unqueued_stable graph le_g n blockF (wl0, x0) ->
    wl_iter graph blockF succs matches pick1 fuel1 wl0 x0 = Some a ->
    wl_iter graph blockF succs matches pick2 fuel2 wl0 x0 = Some b ->
    forall i, i < n -> matches (a i) (b i) = true.
  Proof.
    intros Hlt Hg Hi Hu Ha Hb i Hi'.
    assert (FG : forall (i : nat) (x : state graph), i < n -> sgood graph Inv n x -> Inv (blockF i x))
      by (intros; apply blockF_good).
    assert (FM : forall (i : nat) (x y : state graph), i < n -> sgood graph Inv n x -> sgood graph Inv n y ->
                 Fix.sle graph le_g n x y -> le_g (blockF i x) (blockF i y)) by (intros; now apply blockF_mono).
    assert (ES : forall g h : graph, matches g h = true -> eqv graph le_g g h).
    { intros g h E. apply matches_spec in E. subst h. split; apply le_g_refl. }
    apply matches_spec.
    apply (block_fixpoint_order_free x0 wl0 a b Hg Hi Hu); [| |assumption].
    - eapply (wl_iter_steps graph le_g n blockF succs succs_lt matches ES); eassumption.
    - eapply (wl_iter_steps graph le_g n blockF succs succs_lt matches ES); eassumption.
  Qed.

  (** starting with every block queued and every block-end graph empty satisfies the start conditions *)
  Lemma empty_graph_inv : Inv empty_graph.
  Proof.
    split.
    - constructor; simpl.
      + now rewrite !dom_empty_L.
      + intros a b f H. unfold out_edges in H. simpl in H. rewrite lookup_empty in H. simpl in H. now rewrite lookup_empty in H.
      + intros m s H. now rewrite lookup_empty in H.
    - intros c d [f H]. simpl in H. rewrite lookup_empty in H. simpl in H. now rewrite lookup_empty in H.
  Qed.

  Lemma empty_graph_least g : le_g empty_graph g.
  Proof.
    split.
    - intros a b x H. apply hasb_succ in H as [f H]. simpl in H. rewrite lookup_empty in H. simpl in H. now rewrite lookup_empty in H.
    - intros m s H. simpl in H. now rewrite lookup_empty in H.
  Qed.

  Theorem start_conditions :
    sgood graph Inv n (fun _ => empty_graph) /\
    inflationary graph le_g n blockF (fun _ => empty_graph) /\
    unqueued_stable graph le_g n blockF (seq 0 n, fun _ => empty_graph).
  Proof.
    refine (conj _ (conj _ _)).
    - intros i _. apply empty_graph_inv.
    - intros i _. apply empty_graph_least.
    - intros j Hj Hnin. exfalso. apply Hnin. simpl. apply in_seq. lia.
  Qed.
End BlockFix.
