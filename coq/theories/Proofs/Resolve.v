(** Proofs about Model/Resolve.v: a call resolved to a contracted function or interface method carries exactly the
    flows the specification lists; the body is not consulted; an interface contract shadows everything else. *)
From Coq Require Import List ZArith Bool Arith Lia.
Import ListNotations.
From Argot Require Import Model.Summ Proofs.Summ Model.Resolve.

Lemma existsb_Zeqb_In : forall z l, existsb (Z.eqb z) l = true <-> In z l.
Proof.
  intros. rewrite existsb_exists. split.
  - intros [x [H1 H2]]. apply Z.eqb_eq in H2. now subst.
  - intros H. exists z. split; [assumption|apply Z.eqb_refl].
Qed.

Lemma bool_eq_iff : forall a b : bool, (a = true <-> b = true) -> a = b.
Proof. intros [] [] H; try reflexivity; destruct H as [H1 H2]; [symmetry; now apply H1|now apply H2]. Qed.

(** The loaded graph reads exactly as the specification. *)
Lemma flows_to_ret_spec : forall s sg i j, flows_to_ret (apply s sg) i j = spec_ret s sg i j.
Proof.
  intros. apply bool_eq_iff. rewrite flows_to_ret_iff. unfold spec_ret.
  rewrite !andb_true_iff, existsb_Zeqb_In, Nat.ltb_lt, existsb_exists. split.
  - intros [H1 [H2 [len [H3 H4]]]]. repeat split; try assumption. exists len. split; [assumption|now apply Nat.ltb_lt].
  - intros [[H1 H2] [len [H3 H4]]]. repeat split; try assumption. exists len. split; [assumption|now apply Nat.ltb_lt].
Qed.

Lemma flows_to_param_spec : forall s sg i k, flows_to_param (apply s sg) i k = spec_arg s sg i k.
Proof.
  intros. apply bool_eq_iff. rewrite flows_to_param_iff. unfold spec_arg.
  rewrite !andb_true_iff, existsb_Zeqb_In, !Nat.ltb_lt. tauto.
Qed.

(** The specification reading, spelled out (this is the statement of the property). *)
Theorem spec_ret_iff : forall s sg i j, spec_ret s sg i j = true <->
  (In (Z.of_nat j) (nth i (s_rets s) []) /\ i < nparams sg /\ exists len, In len (ret_lens sg) /\ j < len).
Proof. intros. rewrite <- flows_to_ret_spec. apply flows_to_ret_iff. Qed.

Theorem spec_arg_iff : forall s sg i k, spec_arg s sg i k = true <->
  (In (Z.of_nat k) (nth i (s_args s) []) /\ i < nparams sg /\ k < nparams sg).
Proof. intros. rewrite <- flows_to_param_spec. apply flows_to_param_iff. Qed.

(** * Function contracts *)

Lemma load_external_fun : forall w cs f t s,
  cs_mkey cs = None -> w_fun_contract w (f_id f) = Some s -> load_external w cs f t = Some (contract_graph s f).
Proof. intros w cs f t s Hk Hc. unfold load_external. now rewrite Hk, Hc. Qed.

Theorem contract_exact_static : forall w prog f s i x,
  w_fun_contract w (f_id f) = Some s ->
  flow_ret w prog (static_call f) i x = spec_ret s (f_sig f) i x /\
  flow_arg w prog (static_call f) i x = spec_arg s (f_sig f) i x.
Proof.
  intros w prog f s i x Hc. unfold flow_ret, flow_arg, resolve_callee, static_call. simpl.
  unfold load_external. simpl. rewrite Hc. unfold contract_graph.
  now rewrite flows_to_ret_spec, flows_to_param_spec, !orb_false_r.
Qed.

(** Calls whose callees come from the call graph (function values, bound methods, interface invokes without an
    interface contract): the union over the callees of what each function contract lists. *)
Lemma existsb_map_ext : forall (A B : Type) (g : A -> B) (p : B -> bool) (q : A -> bool) l,
  (forall a, In a l -> p (g a) = q a) -> existsb p (map g l) = existsb q l.
Proof.
  induction l as [|a l IH]; intros H; simpl; [reflexivity|].
  rewrite H by now left. rewrite IH; [reflexivity|]. intros a' Ha'. apply H. now right.
Qed.

Theorem contract_exact_callgraph : forall w prog mk cg impls (c : fn -> summary) i x,
  cg <> [] ->
  (match mk with Some k => w_iface_contract w k = None | None => True end) ->
  (forall f, In f cg -> w_fun_contract w (f_id f) = Some (c f)) ->
  flow_ret w prog (mk_callsite None mk cg impls) i x = existsb (fun f => spec_ret (c f) (f_sig f) i x) cg /\
  flow_arg w prog (mk_callsite None mk cg impls) i x = existsb (fun f => spec_arg (c f) (f_sig f) i x) cg.
Proof.
  intros w prog mk cg impls c i x Hne Hic Hc.
  assert (Hres : resolve_callee w true (mk_callsite None mk cg impls) = map (fun f => (f, CallGraph)) cg).
  { unfold resolve_callee. simpl. destruct mk as [k|]; [rewrite Hic|]; destruct cg; try contradiction; reflexivity. }
  unfold flow_ret, flow_arg. rewrite Hres. split; apply existsb_map_ext; intros f Hf; unfold callee_graph, load_external; simpl.
  - destruct mk; simpl; rewrite (Hc f Hf); unfold contract_graph; apply flows_to_ret_spec.
  - destruct mk; simpl; rewrite (Hc f Hf); unfold contract_graph; apply flows_to_param_spec.
Qed.

(** * Interface contracts *)

Theorem iface_precedence : forall w prog k s rep cg impls i x,
  w_iface_contract w k = Some (s, rep) ->
  flow_ret w prog (invoke_call k cg impls) i x = spec_ret s (f_sig rep) i x /\
  flow_arg w prog (invoke_call k cg impls) i x = spec_arg s (f_sig rep) i x.
Proof.
  intros w prog k s rep cg impls i x Hc. unfold flow_ret, flow_arg, resolve_callee, invoke_call. simpl. rewrite Hc. simpl.
  unfold load_external. simpl. rewrite Hc. unfold contract_graph.
  now rewrite flows_to_ret_spec, flows_to_param_spec, !orb_false_r.
Qed.

(** In particular neither the function contracts of the implementations, nor the call-graph callees, nor the
    implementations by type, nor any body matter. *)
Corollary iface_shadows : forall fc fc' ic body body' pd prog prog' k s rep cg cg' impls impls' i x,
  ic k = Some (s, rep) ->
  flow_ret (mk_world fc ic body pd) prog (invoke_call k cg impls) i x =
  flow_ret (mk_world fc' ic body' pd) prog' (invoke_call k cg' impls') i x /\
  flow_arg (mk_world fc ic body pd) prog (invoke_call k cg impls) i x =
  flow_arg (mk_world fc' ic body' pd) prog' (invoke_call k cg' impls') i x.
Proof.
  intros. split.
  - rewrite (proj1 (iface_precedence (mk_world fc ic body pd) prog k s rep cg impls i x H)).
    now rewrite (proj1 (iface_precedence (mk_world fc' ic body' pd) prog' k s rep cg' impls' i x H)).
  - rewrite (proj2 (iface_precedence (mk_world fc ic body pd) prog k s rep cg impls i x H)).
    now rewrite (proj2 (iface_precedence (mk_world fc' ic body' pd) prog' k s rep cg' impls' i x H)).
Qed.

(** * The body is not consulted *)

Definition contracted (w : world) (cs : callsite) : bool :=
  forallb (fun ft => match load_external w cs (fst ft) (snd ft) with Some _ => true | None => false end)
          (resolve_callee w true cs).

Definition with_body (w : world) (body : nat -> list edge) : world :=
  mk_world (w_fun_contract w) (w_iface_contract w) body (w_predef w).

Lemma existsb_ext_in : forall (A : Type) (p q : A -> bool) l, (forall a, In a l -> p a = q a) -> existsb p l = existsb q l.
Proof.
  induction l as [|a l IH]; intros H; simpl; [reflexivity|].
  rewrite H by now left. rewrite IH; [reflexivity|]. intros; apply H; now right.
Qed.

Theorem body_ignored : forall w prog cs body' i x,
  contracted w cs = true ->
  flow_ret w prog cs i x = flow_ret (with_body w body') prog cs i x /\
  flow_arg w prog cs i x = flow_arg (with_body w body') prog cs i x.
Proof.
  intros w prog cs body' i x H. unfold contracted in H. rewrite forallb_forall in H.
  assert (Hres : resolve_callee (with_body w body') true cs = resolve_callee w true cs) by reflexivity.
  unfold flow_ret, flow_arg. rewrite Hres.
  split; apply existsb_ext_in; intros [f t] Hft; specialize (H (f, t) Hft); simpl in H;
    unfold callee_graph;
    change (load_external (with_body w body') cs f t) with (load_external w cs f t);
    destruct (load_external w cs f t); try discriminate; reflexivity.
Qed.

(** Calls to which [contract_exact_static] / [iface_precedence] apply are [contracted]. *)
Lemma contracted_static : forall w f s, w_fun_contract w (f_id f) = Some s -> contracted w (static_call f) = true.
Proof. intros w f s H. unfold contracted, static_call, resolve_callee, load_external. simpl. now rewrite H. Qed.

Lemma contracted_invoke : forall w k s rep cg impls,
  w_iface_contract w k = Some (s, rep) -> contracted w (invoke_call k cg impls) = true.
Proof.
  intros w k s rep cg impls H. unfold contracted, invoke_call, resolve_callee, load_external. simpl. rewrite H. simpl.
  try rewrite H. reflexivity.
Qed.

(** * A finding: a STATIC call to a method that implements a contracted interface method

    The method has no function contract.  Its summary is the interface contract's graph when the method happens to be
    the representative the contract graph was built on (an arbitrary implementation, chosen by map iteration order),
    and the summary of its body otherwise: the verdict depends on the choice. *)
Definition fA := mk_fn 1 (mk_sig 2 [1]) (Some 0).
Definition fB := mk_fn 2 (mk_sig 2 [1]) (Some 0).
Definition silent : summary := mk_summary [[]; []] [[]; []].
Definition bodies (id : nat) : list edge := [ER 1 0%Z].
Definition world_rep (rep : fn) : world :=
  mk_world (fun _ => None) (fun k => if Nat.eqb k 0 then Some (silent, rep) else None) bodies (fun _ => None).
Definition prog_ab : list callsite := [invoke_call 0 [fA; fB] [fA; fB]; static_call fA].

Theorem static_impl_call_depends_on_representative :
  flow_ret (world_rep fA) prog_ab (static_call fA) 1 0 = false /\
  flow_ret (world_rep fB) prog_ab (static_call fA) 1 0 = true.
Proof. split; reflexivity. Qed.

(** * A second finding: the representative of an interface contract may have no return node

    The contract graph of an interface method is built on an arbitrary implementation.  When that implementation never
    returns (a stub whose body is [panic("unimplemented")]), NewSummaryGraph creates no return node for it and every
    result position of the contract is dropped - for ALL invokes of the interface method, whatever they call. *)
Definition fImpl := mk_fn 1 (mk_sig 2 [1]) (Some 0).     (* one Return instruction *)
Definition fStub := mk_fn 2 (mk_sig 2 []) (Some 0).      (* body panics: no Return instruction *)
Definition arg_to_result : summary := mk_summary [[]; []] [[]; [0%Z]].
Definition world_stub (rep : fn) : world :=
  mk_world (fun _ => None) (fun k => if Nat.eqb k 0 then Some (arg_to_result, rep) else None) (fun _ => []) (fun _ => None).

Theorem iface_contract_noreturn_representative :
  flow_ret (world_stub fImpl) [] (invoke_call 0 [fImpl; fStub] [fImpl; fStub]) 1 0 = true /\
  flow_ret (world_stub fStub) [] (invoke_call 0 [fImpl; fStub] [fImpl; fStub]) 1 0 = false.
Proof. split; reflexivity. Qed.
