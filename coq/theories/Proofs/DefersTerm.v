(** * C16, part 4: the sweep / iterate loop preserves the invariants, and it terminates for every CFG, every
      block order (well-formed or not) — in the bounded and in the unbounded case. *)
From Coq Require Import List Arith Bool Lia.
From Argot Require Import Model.Defers Model.DefersSpec Proofs.DefersOrder Proofs.DefersSem Proofs.DefersInv.
Import ListNotations.

Section Loop.
  Variable c : cfg.

  (** ** invariants along [sweep] and [iterate] *)
  Lemma sweep_inv1 order st any st' any' :
    inv1 c st -> sweep c order st any = (st', any') -> inv1 c st'.
  Proof.
    revert st any; induction order as [|i order IH]; intros st any I; simpl.
    - intros H; inversion H; subst; auto.
    - destruct (nth i (chg st) false) eqn:E; eauto using process_inv1.
  Qed.

  Lemma sweep_inv2 order st any st' any' :
    wf_cfg c = true -> inv1 c st -> inv2 c st -> sweep c order st any = (st', any') -> inv2 c st'.
  Proof.
    intros W; revert st any; induction order as [|i order IH]; intros st any I I2; simpl.
    - intros H; inversion H; subst; auto.
    - destruct (nth i (chg st) false) eqn:E; eauto using process_inv1, process_inv2.
  Qed.

  Lemma sweep_true order st st' any' : sweep c order st true = (st', any') -> any' = true.
  Proof.
    revert st; induction order as [|i order IH]; intros st; simpl.
    - intros H; inversion H; auto.
    - destruct (nth i (chg st) false); eauto.
  Qed.

  Lemma sweep_false order st any st' :
    sweep c order st any = (st', false) ->
    any = false /\ st' = st /\ forall i, In i order -> nth i (chg st) false = false.
  Proof.
    revert st any; induction order as [|i order IH]; intros st any; simpl.
    - intros H; inversion H; subst; repeat split; auto. intros i [].
    - destruct (nth i (chg st) false) eqn:E.
      + intros H; apply sweep_true in H; discriminate.
      + intros H; apply IH in H as (A & B & C); repeat split; auto.
        intros i' [<-|Hi]; auto.
  Qed.

  Lemma iterate_inv1 fuel order st st' : inv1 c st -> iterate fuel c order st = Done st' -> inv1 c st'.
  Proof.
    revert st; induction fuel as [|f IH]; intros st I; simpl; [discriminate|].
    destruct (sweep c order st false) as [st1 any] eqn:E.
    pose proof (sweep_inv1 _ _ _ _ _ I E) as I1.
    destruct any; eauto. intros H; inversion H; subst; auto.
  Qed.

  Lemma iterate_inv2 fuel order st st' :
    wf_cfg c = true -> inv1 c st -> inv2 c st -> iterate fuel c order st = Done st' -> inv2 c st'.
  Proof.
    intros W; revert st; induction fuel as [|f IH]; intros st I I2; simpl; [discriminate|].
    destruct (sweep c order st false) as [st1 any] eqn:E.
    pose proof (sweep_inv1 _ _ _ _ _ I E) as I1'.
    pose proof (sweep_inv2 _ _ _ _ _ W I I2 E) as I2'.
    destruct any; eauto. intros H; inversion H; subst; auto.
  Qed.

  Lemma iterate_flags fuel order st st' :
    iterate fuel c order st = Done st' -> forall i, In i order -> nth i (chg st') false = false.
  Proof.
    revert st; induction fuel as [|f IH]; intros st; simpl; [discriminate|].
    destruct (sweep c order st false) as [st1 any] eqn:E.
    destruct any; eauto. intros H; inversion H; subst.
    apply sweep_false in E as (_ & -> & F); auto.
  Qed.

  Lemma iterate_mono fuel order st st' k :
    iterate fuel c order st = Done st' -> iterate (fuel + k) c order st = Done st'.
  Proof.
    revert st; induction fuel as [|f IH]; intros st; simpl; [discriminate|].
    destruct (sweep c order st false) as [st1 any]. destruct any; auto.
  Qed.

  (** ** the finite universe of abstract stacks *)
  Definition positions : list iid :=
    flat_map (fun b => map (pair b) (seq 0 (length (instrs (blk c b))))) (seq 0 (length c)).

  Fixpoint lists_upto (D : list iid) (n : nat) : list stack :=
    match n with
    | 0 => [[]]
    | S n' => [] :: flat_map (fun d => map (cons d) (lists_upto D n')) D
    end.

  Definition universe : list stack := lists_upto positions (length positions).

  Lemma is_defer_positions d : is_defer c d -> In d positions.
  Proof.
    intros H. pose proof (instr_at_lt _ _ _ H) as Hb. destruct d as [b j]; simpl in *.
    unfold positions. apply in_flat_map. exists b; split; [apply in_seq; lia|].
    apply in_map. apply in_seq. split; [lia|]. simpl.
    apply nth_error_Some. unfold is_defer, instr_at in H; simpl in H. congruence.
  Qed.

  Lemma lists_upto_In D n s : incl s D -> length s <= n -> In s (lists_upto D n).
  Proof.
    revert s; induction n as [|n IH]; intros [|d s] Hi Hl; simpl in *; auto; try lia.
    right. apply in_flat_map. exists d; split; [apply Hi; left; auto|].
    apply in_map. apply IH; [|lia]. intros x Hx; apply Hi; right; auto.
  Qed.

  Lemma apath_universe p : In (apath c p) universe.
  Proof.
    assert (incl (apath c p) positions).
    { intros d Hd. apply apath_elems in Hd as [_ Hd]. apply is_defer_positions; auto. }
    apply lists_upto_In; auto. apply NoDup_incl_length; auto. apply apath_NoDup.
  Qed.

  Lemma inv1_total st : inv1 c st -> total (inits st) <= length c * length universe.
  Proof.
    intros I. rewrite <- (i1_len_i _ _ I). apply total_bound. intros b.
    apply NoDup_incl_length; [apply sorted_NoDup, I|].
    intros s Hs. destruct (i1_sound _ _ I _ _ Hs) as (p & _ & ->). apply apath_universe.
  Qed.

  (** ** the measure *)
  Fixpoint count (l : list bool) : nat :=
    match l with [] => 0 | x :: l' => (if x then 1 else 0) + count l' end.

  Lemma count_le l : count l <= length l.
  Proof. induction l as [|[] l IH]; simpl; lia. Qed.

  Lemma count_upd_false l i : nth i l false = true -> S (count (upd l i false)) = count l.
  Proof.
    revert i; induction l as [|x l IH]; intros [|i]; simpl; try discriminate.
    - intros ->; auto.
    - intros H; apply IH in H. destruct x; lia.
  Qed.

  Definition measure (st : astate) : nat :=
    (length c * length universe - total (inits st)) * S (length c) + count (chg st).

  Lemma process_measure i st :
    inv1 c st -> nth i (chg st) false = true -> measure (process_block c i st) < measure st.
  Proof.
    intros I Hi. pose proof (process_inv1 c i st I Hi) as I'.
    pose proof (inv1_total _ I') as T'. pose proof (inv1_total _ I) as T.
    pose proof (count_le (chg (process_block c i st))) as C'. rewrite (i1_len_c _ _ I') in C'.
    revert I' T' C'. rewrite process_block_eq. cbv zeta.
    destruct (push_succs _ _ _ _) as [ini ch] eqn:P. simpl. intros _ T' C'.
    assert (L : length (inits st) = length (upd (chg st) i false)).
    { rewrite upd_length, (i1_len_i _ _ I), (i1_len_c _ _ I); auto. }
    destruct (push_total _ _ _ _ _ _ L P) as [M1 M2].
    unfold measure; simpl.
    set (B := length c * length universe) in *. set (n := length c) in *.
    destruct (Nat.eq_dec (total ini) (total (inits st))) as [E|E].
    - destruct (M2 E) as [-> ->]. pose proof (count_upd_false _ _ Hi). lia.
    - assert (X : B - total ini + 1 <= B - total (inits st)) by lia.
      assert ((B - total ini + 1) * S n <= (B - total (inits st)) * S n) by (apply Nat.mul_le_mono_r; auto).
      rewrite Nat.mul_add_distr_r in H. lia.
  Qed.

  Lemma sweep_measure order st any st' any' :
    inv1 c st -> sweep c order st any = (st', any') ->
    measure st' <= measure st /\ (any' = true -> any = true \/ measure st' < measure st).
  Proof.
    revert st any; induction order as [|i order IH]; intros st any I; simpl.
    - intros H; inversion H; subst; auto.
    - destruct (nth i (chg st) false) eqn:E.
      + intros H. pose proof (process_measure i st I E) as PM.
        apply IH in H as [H1 H2]; [|apply process_inv1; auto]. split; [lia|]. intros _; right; lia.
      + intros H. apply IH in H; auto.
  Qed.

  Lemma iterate_terminates fuel order st :
    inv1 c st -> measure st < fuel -> exists st', iterate fuel c order st = Done st'.
  Proof.
    revert st; induction fuel as [|f IH]; intros st I Hm; [lia|]. simpl.
    destruct (sweep c order st false) as [st1 any] eqn:E.
    destruct (sweep_measure _ _ _ _ _ I E) as [M1 M2].
    destruct any; [|eauto].
    destruct (M2 eq_refl) as [?|M]; [discriminate|].
    apply IH; [eapply sweep_inv1; eauto | lia].
  Qed.
End Loop.

Theorem defers_terminates c order :
  exists n, forall m, n <= m -> analyze m c order <> OutOfFuel /\ analyze m c order = analyze n c order.
Proof.
  destruct c as [|b0 c'] eqn:Ec.
  - exists 0; intros m _; simpl; split; [discriminate | auto].
  - rewrite <- Ec. assert (Hc : c <> []) by (subst; discriminate).
    exists (S (measure c (init_state c))). intros m Hm.
    destruct (iterate_terminates c (S (measure c (init_state c))) order (init_state c)) as [st' D];
      [apply init_inv1; auto | lia |].
    assert (A : forall k, analyze k c order = iterate k c order (init_state c)).
    { intros k; subst c; reflexivity. }
    rewrite !A. replace m with (S (measure c (init_state c)) + (m - S (measure c (init_state c)))) by lia.
    rewrite (iterate_mono c _ order _ _ _ D), D. split; [discriminate | auto].
Qed.
