(** * C16, part 3: the block loop — functional decomposition of [run_instrs], specification of [push_succs],
      the soundness invariant [inv1] and the post-fixpoint invariant [inv2] of the analysis state. *)
From Coq Require Import List Arith Bool Lia.
From Argot Require Import Model.Defers Model.DefersSpec Proofs.DefersOrder Proofs.DefersSem.
Import ListNotations.

(** ** [run_instrs] = three independent folds *)
Fixpoint run_val (b j : nat) (ks : list ikind) (v : list stack) : list stack :=
  match ks with
  | [] => v
  | k :: ks' => run_val b (S j) ks' (fst (transfer (b, j) k v))
  end.

Fixpoint run_rd (b j : nat) (ks : list ikind) (v : list stack) : list (iid * list stack) :=
  match ks with
  | [] => []
  | k :: ks' => run_rd b (S j) ks' (fst (transfer (b, j) k v))
                ++ match k with KRunDefers => [((b, j), v)] | _ => [] end
  end.

Fixpoint run_rp (b j : nat) (ks : list ikind) (v : list stack) : bool :=
  match ks with
  | [] => false
  | k :: ks' => snd (transfer (b, j) k v) || run_rp b (S j) ks' (fst (transfer (b, j) k v))
  end.

Lemma run_instrs_eq b j ks v rd rp :
  run_instrs b j ks v rd rp = (run_val b j ks v, run_rd b j ks v ++ rd, rp || run_rp b j ks v).
Proof.
  revert j v rd rp; induction ks as [|k ks IH]; intros j v rd rp; simpl.
  - rewrite orb_false_r; auto.
  - destruct (transfer (b, j) k v) as [v' r] eqn:E; simpl. rewrite IH. f_equal; [f_equal|].
    + rewrite <- app_assoc. destruct k; auto.
    + rewrite orb_assoc; auto.
Qed.

(** [v'] is the image of the set [v] under [f] *)
Definition img (f : stack -> stack) (v v' : list stack) : Prop :=
  forall s', In s' v' <-> exists s, In s v /\ s' = f s.

Lemma nonempty_ex {A} (l : list A) : l <> [] -> exists x, In x l.
Proof. destruct l as [|x l]; [congruence | exists x; left; auto]. Qed.

Lemma ex_nonempty {A} (l : list A) x : In x l -> l <> [].
Proof. destruct l; [intros [] | discriminate]. Qed.

Lemma transfer_img p k v :
  sorted v -> v <> [] ->
  sorted (fst (transfer p k v)) /\ fst (transfer p k v) <> [] /\ img (step_abs p k) v (fst (transfer p k v)).
Proof.
  intros Sv Nv. destruct k.
  - destruct (transfer p KDefer v) as [r rp] eqn:E. apply transfer_defer_spec in E as (S & M & _). simpl.
    split; [|split]; auto.
    destruct (nonempty_ex _ Nv) as [s Hs]. apply (ex_nonempty _ (push_defer p s)). apply M; eauto.
  - simpl. split; [apply sorted_single | split; [discriminate|]].
    intros s'; simpl; split.
    + intros [<-|[]]. destruct (nonempty_ex _ Nv) as [s Hs]; eauto.
    + intros (s & _ & ->); auto.
  - simpl. split; [|split]; auto. intros s'; split; [eauto | intros (s & H & ->); auto].
Qed.

Lemma run_val_spec b j ks v :
  sorted v -> v <> [] ->
  sorted (run_val b j ks v) /\ run_val b j ks v <> [] /\ img (exec step_abs b j ks) v (run_val b j ks v).
Proof.
  revert j v; induction ks as [|k ks IH]; intros j v Sv Nv; simpl.
  - split; [|split]; auto. intros s'; split; [eauto | intros (s & H & ->); auto].
  - destruct (transfer_img (b, j) k v Sv Nv) as (S1 & N1 & I1).
    destruct (IH (S j) _ S1 N1) as (S2 & N2 & I2). split; [|split]; auto.
    intros s'. unfold img in I2. rewrite (I2 s'); split.
    + intros (s1 & H1 & ->). apply I1 in H1 as (s & H & ->). eauto.
    + intros (s & H & ->). exists (step_abs (b, j) k s); split; auto. apply I1; eauto.
Qed.

Lemma lookup_skip q l rd :
  (forall q' set, In (q', set) l -> q' <> q) -> lookup_rd q (l ++ rd) = lookup_rd q rd.
Proof.
  induction l as [|[q' set] l IH]; intros H; simpl; auto.
  destruct (iid_eqb q q') eqn:E.
  - apply iid_eqb_eq in E; subst. exfalso; eapply H; [left|]; eauto.
  - apply IH. intros q'' set' Hin; eapply H; right; eauto.
Qed.

Lemma lookup_in q rd set : lookup_rd q rd = Some set -> In (q, set) rd.
Proof.
  induction rd as [|[q' set'] rd IH]; simpl; [discriminate|].
  destruct (iid_eqb q q') eqn:E.
  - apply iid_eqb_eq in E; subst. intros H; inversion H; auto.
  - auto.
Qed.

Lemma run_rd_in b j ks v q set :
  In (q, set) (run_rd b j ks v) ->
  exists k, q = (b, j + k) /\ nth_error ks k = Some KRunDefers /\ set = run_val b j (firstn k ks) v.
Proof.
  revert j v; induction ks as [|k0 ks IH]; intros j v H; simpl in H; [destruct H|].
  apply in_app_or in H as [H|H].
  - apply IH in H as (k & -> & Hk & ->). exists (S k); split; [f_equal; lia | split; auto].
  - destruct k0; simpl in H; try (destruct H; fail). destruct H as [H|[]]. inversion H; subst.
    exists 0; split; [f_equal; lia | split; auto].
Qed.

Lemma run_rd_lookup b j ks v rd k :
  nth_error ks k = Some KRunDefers ->
  lookup_rd (b, j + k) (run_rd b j ks v ++ rd) = Some (run_val b j (firstn k ks) v).
Proof.
  revert j v rd k; induction ks as [|k0 ks IH]; intros j v rd [|k] H; simpl in H; try discriminate.
  - inversion H; subst. simpl run_rd. rewrite <- app_assoc. rewrite lookup_skip.
    + simpl. replace (iid_eqb (b, j + 0) (b, j)) with true; auto.
      symmetry; apply iid_eqb_eq; f_equal; lia.
    + intros q' set Hin Hq. apply run_rd_in in Hin as (k' & -> & _). inversion Hq; lia.
  - simpl run_rd. rewrite <- app_assoc. replace (j + S k) with (S j + k) by lia.
    rewrite IH; auto.
Qed.

Lemma run_rd_other b j ks v rd q :
  fst q <> b -> lookup_rd q (run_rd b j ks v ++ rd) = lookup_rd q rd.
Proof.
  intros H. apply lookup_skip. intros q' set Hin Hq. apply run_rd_in in Hin as (k & -> & _).
  subst q; simpl in H; congruence.
Qed.

Lemma transfer_snd p k v :
  snd (transfer p k v) = true <-> k = KDefer /\ exists s, In s v /\ In p s.
Proof.
  destruct k; simpl.
  - rewrite existsb_exists. split.
    + intros (s & A & B); split; auto. exists s; split; auto. apply stack_mem_In; auto.
    + intros (_ & s & A & B); exists s; split; auto. apply stack_mem_In; auto.
  - split; [discriminate | intros [? _]; discriminate].
  - split; [discriminate | intros [? _]; discriminate].
Qed.

Lemma run_rp_spec b j ks v :
  run_rp b j ks v = true <->
  exists k, nth_error ks k = Some KDefer /\ exists s, In s (run_val b j (firstn k ks) v) /\ In (b, j + k) s.
Proof.
  revert j v; induction ks as [|k0 ks IH]; intros j v; simpl.
  - split; [discriminate | intros ([|k] & H & _); discriminate].
  - rewrite orb_true_iff, transfer_snd, IH. split.
    + intros [(-> & s & A & B)|(k & Hk & s & A & B)].
      * exists 0; split; auto. exists s; split; auto. replace (j + 0) with j by lia; auto.
      * exists (S k); split; auto. exists s; split; auto. replace (j + S k) with (S j + k) by lia; auto.
    + intros ([|k] & Hk & s & A & B); simpl in Hk.
      * inversion Hk; subst. left; split; auto. exists s; split; auto. replace (j + 0) with j in B by lia; auto.
      * right. exists k; split; auto. exists s; split; auto. replace (S j + k) with (j + S k) by lia; auto.
Qed.

(** ** [stack_set_union]: structural length facts (no sortedness needed) *)
Lemma union_len_le a b r s : stack_set_union a b = (r, s) -> length a <= length r.
Proof.
  revert b r s; induction a as [|x a IHa]; intros b; [simpl; intros; lia|].
  induction b as [|y b IHb]; intros r s.
  - rewrite union_nil_r; intros H; inversion H; auto.
  - rewrite union_cons. destruct (stack_compare x y).
    + destruct (stack_set_union a b) as [r' s'] eqn:E. intros H; inversion H; subst.
      apply IHa in E; simpl; lia.
    + destruct (stack_set_union a (y :: b)) as [r' s'] eqn:E. intros H; inversion H; subst.
      apply IHa in E; simpl; lia.
    + destruct (stack_set_union (x :: a) b) as [r' s'] eqn:E. intros H; inversion H; subst.
      specialize (IHb _ _ eq_refl); simpl in *; lia.
Qed.

Lemma union_len_lt a b r : stack_set_union a b = (r, false) -> length a < length r.
Proof.
  revert b r; induction a as [|x a IHa]; intros b.
  - intros r; rewrite union_nil_l; destruct b; intros H; inversion H; simpl; lia.
  - induction b as [|y b IHb]; intros r.
    + rewrite union_nil_r; intros H; inversion H.
    + rewrite union_cons. destruct (stack_compare x y).
      * destruct (stack_set_union a b) as [r' s'] eqn:E. intros H; inversion H; subst.
        apply IHa in E; simpl; lia.
      * destruct (stack_set_union a (y :: b)) as [r' s'] eqn:E. intros H; inversion H; subst.
        apply IHa in E; simpl; lia.
      * destruct (stack_set_union (x :: a) b) as [r' s'] eqn:E. intros H; inversion H; subst.
        apply union_len_le in E; simpl in *; lia.
Qed.

(** ** [push_succs] *)
Definition total (l : list (list stack)) : nat := fold_right (fun x n => length x + n) 0 l.

Lemma total_upd l s u : s < length l -> total (upd l s u) + length (nth s l []) = total l + length u.
Proof.
  revert s; induction l as [|x l IH]; intros [|s]; simpl; intros H; try lia.
  specialize (IH s ltac:(lia)). lia.
Qed.

Lemma total_bound l K : (forall b, length (nth b l []) <= K) -> total l <= length l * K.
Proof.
  induction l as [|x l IH]; intros H; simpl; auto.
  pose proof (H 0) as H0; simpl in H0.
  assert (total l <= length l * K) by (apply IH; intros b; apply (H (S b))). lia.
Qed.

Lemma push_succs_cons s ss value ini ch :
  push_succs (s :: ss) value ini ch =
  push_succs ss value (upd ini s (fst (stack_set_union (nth s ini []) value)))
             (upd ch s (nth s ch false || negb (snd (stack_set_union (nth s ini []) value)))).
Proof. simpl. destruct (stack_set_union (nth s ini []) value); auto. Qed.

Lemma push_len ss value ini ch ini' ch' :
  push_succs ss value ini ch = (ini', ch') -> length ini' = length ini /\ length ch' = length ch.
Proof.
  revert ini ch; induction ss as [|s ss IH]; intros ini ch.
  - simpl; intros H; inversion H; auto.
  - rewrite push_succs_cons. intros H; apply IH in H. rewrite !upd_length in H; auto.
Qed.

Lemma push_mem ss value ini ch ini' ch' :
  (forall b, sorted (nth b ini [])) -> sorted value ->
  push_succs ss value ini ch = (ini', ch') ->
  (forall b, sorted (nth b ini' [])) /\
  (forall b x, In x (nth b ini' []) <-> In x (nth b ini []) \/ (In b ss /\ b < length ini /\ In x value)).
Proof.
  revert ini ch; induction ss as [|s ss IH]; intros ini ch Si Sv.
  - simpl; intros H; inversion H; subst. split; auto. intros b x; tauto.
  - rewrite push_succs_cons.
    destruct (stack_set_union (nth s ini []) value) as [u same] eqn:U. simpl fst; simpl snd.
    destruct (union_spec _ _ _ _ (Si s) Sv U) as (Su & Mu & _).
    intros H. apply IH in H as [S' M']; auto.
    2:{ intros b. rewrite nth_upd. destruct (Nat.eqb s b); auto. destruct (Nat.ltb s (length ini)); auto. }
    split; auto. intros b x. rewrite M', upd_length, nth_upd. simpl In.
    destruct (Nat.eqb_spec s b) as [->|Hne].
    + destruct (Nat.ltb_spec b (length ini)).
      * rewrite Mu. tauto.
      * split; [intros [A|A]; [auto | lia] | intros [A|A]; [auto | lia]].
    + tauto.
Qed.

Lemma push_mono_len ss value ini ch ini' ch' :
  push_succs ss value ini ch = (ini', ch') -> forall b, length (nth b ini []) <= length (nth b ini' []).
Proof.
  revert ini ch; induction ss as [|s ss IH]; intros ini ch.
  - simpl; intros H; inversion H; auto.
  - rewrite push_succs_cons.
    destruct (stack_set_union (nth s ini []) value) as [u same] eqn:U. simpl fst; simpl snd.
    intros H b. eapply IH with (b := b) in H. rewrite nth_upd in H.
    destruct (Nat.eqb_spec s b) as [->|Hne]; auto.
    destruct (Nat.ltb_spec b (length ini)); auto.
    apply union_len_le in U; lia.
Qed.

(** a flag that is still clear means: the block's set was not touched *)
Lemma push_flag_false ss value ini ch ini' ch' :
  length ini = length ch ->
  push_succs ss value ini ch = (ini', ch') ->
  forall b, nth b ch' false = false -> nth b ch false = false /\ nth b ini' [] = nth b ini [].
Proof.
  revert ini ch; induction ss as [|s ss IH]; intros ini ch L.
  - simpl; intros H; inversion H; auto.
  - rewrite push_succs_cons.
    destruct (stack_set_union (nth s ini []) value) as [u same] eqn:U. simpl fst; simpl snd.
    intros H b Hb. eapply IH in H as [H1 H2]; eauto. 2:{ rewrite !upd_length; auto. }
    rewrite nth_upd in H1; rewrite nth_upd in H2. rewrite <- L in H1.
    destruct (Nat.eqb_spec s b) as [->|Hne]; auto.
    destruct (Nat.ltb_spec b (length ini)); auto.
    apply orb_false_iff in H1 as [H1 H3]. split; auto.
    destruct same; [|discriminate]. apply union_same_eq in U. congruence.
Qed.

(** a flag that is set was set before, or the block's set is non-empty *)
Lemma push_flag_true ss value ini ch ini' ch' :
  length ini = length ch ->
  push_succs ss value ini ch = (ini', ch') ->
  forall b, nth b ch' false = true -> nth b ch false = true \/ nth b ini' [] <> [].
Proof.
  revert ini ch; induction ss as [|s ss IH]; intros ini ch L.
  - simpl; intros H; inversion H; auto.
  - rewrite push_succs_cons.
    destruct (stack_set_union (nth s ini []) value) as [u same] eqn:U. simpl fst; simpl snd.
    intros H b Hb. pose proof (push_mono_len _ _ _ _ _ _ H b) as ML.
    eapply IH in H as [H|H]; eauto. 2:{ rewrite !upd_length; auto. }
    rewrite nth_upd in H; rewrite nth_upd in ML. rewrite <- L in H.
    destruct (Nat.eqb_spec s b) as [->|Hne]; auto.
    destruct (Nat.ltb_spec b (length ini)); auto.
    apply orb_true_iff in H as [H|H]; auto.
    destruct same; [discriminate|]. apply union_len_lt in U. right.
    intros E; rewrite E in ML; simpl in ML; lia.
Qed.

(** either nothing changes at all, or the total size of the sets grows *)
Lemma push_total ss value ini ch ini' ch' :
  length ini = length ch ->
  push_succs ss value ini ch = (ini', ch') ->
  total ini <= total ini' /\ (total ini' = total ini -> ini' = ini /\ ch' = ch).
Proof.
  revert ini ch; induction ss as [|s ss IH]; intros ini ch L.
  - simpl; intros H; inversion H; auto.
  - rewrite push_succs_cons.
    destruct (stack_set_union (nth s ini []) value) as [u same] eqn:U. simpl fst; simpl snd.
    intros H. apply IH in H as [H1 H2]. 2:{ rewrite !upd_length; auto. }
    destruct (Nat.ltb_spec s (length ini)) as [Hs|Hs].
    + pose proof (total_upd ini s u Hs) as T.
      destruct same.
      * apply union_same_eq in U; subst u. rewrite orb_false_r in *.
        rewrite !upd_nth_same in *. auto.
      * apply union_len_lt in U. split; [lia|]. intros E; lia.
    + rewrite !upd_oob in * by lia. auto.
Qed.

(** ** the invariants *)
Section Inv.
  Variable c : cfg.

  Notation apath := (apath c).
  Notation aat := (aat c).

  (** soundness: everything recorded comes from an entry path *)
  Record inv1 (st : astate) : Prop := {
    i1_len_i : length (inits st) = length c;
    i1_len_c : length (chg st) = length c;
    i1_sorted : forall b, sorted (nth b (inits st) []);
    i1_sound : forall b s, In s (nth b (inits st) []) -> exists p, epath c p b /\ s = apath p;
    i1_nonempty : forall b, nth b (chg st) false = true -> nth b (inits st) [] <> [];
    i1_rds : forall r set, In (r, set) (rds st) ->
               is_rundefers c r /\ sorted set /\ set <> [] /\
               forall s, In s set -> exists p, epath c p (fst r) /\ s = aat r (apath p);
    i1_rep : rep st = true -> exists d p, is_defer c d /\ epath c p (fst d) /\ In d (aat d (apath p));
    i1_entry : c <> [] -> In [] (nth 0 (inits st) [])
  }.

  (** block [b] has been processed with its current input set *)
  Definition processed (st : astate) (b : nat) : Prop :=
    (forall s b', In s (nth b (inits st) []) -> In b' (succs (blk c b)) ->
                  In (block_exec step_abs c b s) (nth b' (inits st) []))
    /\ (forall j, is_rundefers c (b, j) ->
                  exists set, lookup_rd (b, j) (rds st) = Some set /\
                              forall s', In s' set <-> exists s, In s (nth b (inits st) []) /\ s' = aat (b, j) s)
    /\ (forall j s, is_defer c (b, j) -> In s (nth b (inits st) []) -> In (b, j) (aat (b, j) s) -> rep st = true).

  (** post-fixpoint up to the change flags *)
  Definition inv2 (st : astate) : Prop :=
    forall b, b < length c ->
      nth b (chg st) false = true \/ nth b (inits st) [] = [] \/ processed st b.

  Lemma process_block_eq i st :
    process_block c i st =
    let ks := instrs (blk c i) in
    let v0 := nth i (inits st) [] in
    let (ini, ch) := push_succs (succs (blk c i)) (run_val i 0 ks v0) (inits st) (upd (chg st) i false) in
    mkA ini ch (run_rd i 0 ks v0 ++ rds st) (rep st || run_rp i 0 ks v0).
  Proof. unfold process_block, blk. rewrite run_instrs_eq. reflexivity. Qed.

  Lemma nth_upd_false_true (l : list bool) i b : nth b (upd l i false) false = true -> nth b l false = true /\ b <> i.
  Proof.
    rewrite nth_upd. destruct (Nat.eqb_spec i b) as [->|Hne]; auto.
    destruct (Nat.ltb_spec b (length l)); [discriminate|]. intros E; rewrite nth_overflow in E; [discriminate | auto].
  Qed.

  Lemma aat_unfold b j s : aat (b, j) s = exec step_abs b 0 (firstn j (instrs (blk c b))) s.
  Proof. reflexivity. Qed.

  Lemma process_inv1 i st : inv1 st -> nth i (chg st) false = true -> inv1 (process_block c i st).
  Proof.
    intros I Hi. rewrite process_block_eq. cbv zeta.
    set (ks := instrs (blk c i)). set (v0 := nth i (inits st) []).
    assert (Sv0 : sorted v0) by apply I.
    assert (Nv0 : v0 <> []) by (apply I; auto).
    destruct (run_val_spec i 0 ks v0 Sv0 Nv0) as (Sval & Nval & Ival).
    set (value := run_val i 0 ks v0) in *.
    destruct (push_succs (succs (blk c i)) value (inits st) (upd (chg st) i false)) as [ini ch] eqn:P.
    assert (L : length (inits st) = length (upd (chg st) i false)).
    { rewrite upd_length, (i1_len_i _ I), (i1_len_c _ I); auto. }
    destruct (push_len _ _ _ _ _ _ P) as [L1 L2].
    destruct (push_mem _ _ _ _ _ _ (i1_sorted _ I) Sval P) as [PS PM].
    pose proof (push_flag_true _ _ _ _ _ _ L P) as PT.
    pose proof (push_mono_len _ _ _ _ _ _ P) as PL.
    constructor; simpl.
    - rewrite L1; apply I.
    - rewrite L2, upd_length; apply I.
    - auto.
    - intros b s Hs. apply PM in Hs as [Hs|(Hb & _ & Hs)].
      + eapply i1_sound; eauto.
      + apply Ival in Hs as (s0 & H0 & ->). destruct (i1_sound _ I _ _ H0) as (p & Hp & ->).
        exists (p ++ [i]); split.
        * econstructor; eauto.
        * unfold DefersSem.apath; rewrite path_exec_snoc; auto.
    - intros b Hb. apply PT in Hb as [Hb|Hb]; auto.
      apply nth_upd_false_true in Hb as [Hb _]. apply (i1_nonempty _ I) in Hb.
      intros E. specialize (PL b). rewrite E in PL; simpl in PL.
      destruct (nth b (inits st) []); [congruence | simpl in PL; lia].
    - intros r set Hin. apply in_app_or in Hin as [Hin|Hin]; [|eapply i1_rds; eauto].
      apply run_rd_in in Hin as (k & -> & Hk & ->). simpl.
      destruct (run_val_spec i 0 (firstn k ks) v0 Sv0 Nv0) as (S1 & N1 & I1).
      split; [exact Hk | split; [auto | split; [auto|]]].
      intros s Hs. apply I1 in Hs as (s0 & H0 & ->). destruct (i1_sound _ I _ _ H0) as (p & Hp & ->).
      exists p; split; auto.
    - intros Hr. apply orb_true_iff in Hr as [Hr|Hr]; [eapply i1_rep; eauto|].
      apply run_rp_spec in Hr as (k & Hk & s & Hs & Hin). simpl in Hin.
      destruct (run_val_spec i 0 (firstn k ks) v0 Sv0 Nv0) as (S1 & N1 & I1).
      apply I1 in Hs as (s0 & H0 & ->). destruct (i1_sound _ I _ _ H0) as (p & Hp & ->).
      exists (i, k), p; split; [exact Hk | split; auto].
    - intros Hc. apply PM; left; apply I; auto.
  Qed.

  Lemma process_inv2 i st :
    wf_cfg c = true -> inv1 st -> inv2 st -> nth i (chg st) false = true -> inv2 (process_block c i st).
  Proof.
    intros W I I2 Hi. rewrite process_block_eq. cbv zeta.
    set (ks := instrs (blk c i)). set (v0 := nth i (inits st) []).
    assert (Sv0 : sorted v0) by apply I.
    assert (Nv0 : v0 <> []) by (apply I; auto).
    destruct (run_val_spec i 0 ks v0 Sv0 Nv0) as (Sval & Nval & Ival).
    set (value := run_val i 0 ks v0) in *.
    destruct (push_succs (succs (blk c i)) value (inits st) (upd (chg st) i false)) as [ini ch] eqn:P.
    assert (L : length (inits st) = length (upd (chg st) i false)).
    { rewrite upd_length, (i1_len_i _ I), (i1_len_c _ I); auto. }
    destruct (push_mem _ _ _ _ _ _ (i1_sorted _ I) Sval P) as [PS PM].
    pose proof (push_flag_false _ _ _ _ _ _ L P) as PF.
    intros b Hb; simpl.
    destruct (nth b ch false) eqn:Eb; auto. right.
    destruct (PF b Eb) as [F1 F2]. rewrite F2.
    destruct (Nat.eq_dec b i) as [->|Hne].
    - (* the block just processed *)
      right. unfold processed; simpl. rewrite F2. fold v0. split; [|split].
      + intros s b' Hs Hb'. apply PM. right. split; auto. split.
        * rewrite (i1_len_i _ I). eapply wf_succ_lt; eauto.
        * apply Ival; eauto.
      + intros j Hj. change (0 + j) with j.
        exists (run_val i 0 (firstn j ks) v0); split.
        * apply (run_rd_lookup i 0 ks v0 (rds st) j Hj).
        * destruct (run_val_spec i 0 (firstn j ks) v0 Sv0 Nv0) as (_ & _ & I1). exact I1.
      + intros j s Hj Hs Hin. apply orb_true_iff; right. apply run_rp_spec.
        exists j; split; [exact Hj|]. exists (aat (i, j) s); split; auto.
        destruct (run_val_spec i 0 (firstn j ks) v0 Sv0 Nv0) as (_ & _ & I1). apply I1; eauto.
    - (* another block whose flag is clear *)
      rewrite nth_upd_neq in F1 by auto.
      destruct (I2 b Hb) as [H|[H|H]]; [congruence | auto | right].
      destruct H as (P1 & P2 & P3). unfold processed; simpl. rewrite F2. split; [|split].
      + intros s b' Hs Hb'. apply PM; left; auto.
      + intros j Hj. rewrite run_rd_other by auto. auto.
      + intros j s Hj Hs Hin. rewrite (P3 j s); auto.
  Qed.

  (** ** the initial state *)
  Lemma init_nth_inits b : 0 < length c -> nth b (inits (init_state c)) [] = if Nat.eqb 0 b then [[]] else [].
  Proof.
    intros L0. unfold init_state; cbn [inits]. rewrite nth_upd, map_length, nth_map_const.
    destruct (Nat.ltb_spec 0 (length c)); [reflexivity | lia].
  Qed.

  Lemma init_nth_chg b : 0 < length c -> nth b (chg (init_state c)) false = Nat.eqb 0 b.
  Proof.
    intros L0. unfold init_state; cbn [chg]. rewrite nth_upd, map_length, nth_map_const.
    destruct (Nat.ltb_spec 0 (length c)); [|lia]. destruct (Nat.eqb 0 b); reflexivity.
  Qed.

  Lemma init_inv1 : c <> [] -> inv1 (init_state c).
  Proof.
    intros Hc. assert (L0 : 0 < length c) by (destruct c; simpl; [congruence | lia]).
    constructor.
    - unfold init_state; cbn [inits]. rewrite upd_length, map_length; auto.
    - unfold init_state; cbn [chg]. rewrite upd_length, map_length; auto.
    - intros b; rewrite init_nth_inits by auto. destruct (Nat.eqb 0 b); [apply sorted_single | constructor].
    - intros b s; rewrite init_nth_inits by auto. destruct (Nat.eqb_spec 0 b) as [<-|]; [|intros []].
      intros [<-|[]]. exists []; split; [constructor | reflexivity].
    - intros b; rewrite init_nth_inits, init_nth_chg by auto.
      destruct (Nat.eqb 0 b); [intros _; discriminate | discriminate].
    - intros r set [].
    - simpl; discriminate.
    - intros _. rewrite init_nth_inits by auto. simpl; auto.
  Qed.

  Lemma init_inv2 : c <> [] -> inv2 (init_state c).
  Proof.
    intros Hc. assert (L0 : 0 < length c) by (destruct c; simpl; [congruence | lia]).
    intros b Hb. rewrite init_nth_inits, init_nth_chg by auto.
    destruct (Nat.eqb 0 b); auto.
  Qed.
End Inv.
