(* Soundness of every post-fixpoint of the muSSA constraint system (Model/Andersen.v [closed]) with respect to the
   small-step semantics of Lang/MuSSA.v: preservation invariant over [step]. *)
From Coq Require Import List NArith PArith Bool Lia Arith.
From Argot Require Import Lang.MuSSA Model.Andersen.
Import ListNotations.

(* ------------------------------------------------------------------------------------------- list helpers *)
Lemma nth_error_set_nth_eq {A} (l : list A) i x : i < length l -> nth_error (set_nth l i x) i = Some x.
Proof.
  revert i; induction l as [|a l IH]; intros [|i] H; simpl in *; try lia; auto.
  apply IH; lia.
Qed.

Lemma nth_error_set_nth_neq {A} (l : list A) i j x : i <> j -> nth_error (set_nth l i x) j = nth_error l j.
Proof.
  revert i j; induction l as [|a l IH]; intros [|i] [|j] H; simpl; auto; try congruence.
Qed.

Lemma nth_error_set_nth_inv {A} (l : list A) i j x y :
  nth_error (set_nth l i x) j = Some y -> (i = j /\ y = x) \/ (i <> j /\ nth_error l j = Some y).
Proof.
  intros H. destruct (Nat.eq_dec i j) as [->|N].
  - left. split; auto.
    assert (j < length l).
    { destruct (lt_dec j (length l)); auto.
      assert (length (set_nth l j x) = length l).
      { clear. revert j; induction l; intros [|j]; simpl; auto. }
      assert (nth_error (set_nth l j x) j = None) by (apply nth_error_None; lia). congruence. }
    rewrite nth_error_set_nth_eq in H; congruence.
  - right. rewrite nth_error_set_nth_neq in H; auto.
Qed.

Lemma set_nth_length {A} (l : list A) i x : length (set_nth l i x) = length l.
Proof. revert i; induction l; intros [|i]; simpl; auto. Qed.

Lemma nth_error_repeat_inv {A} (x : A) n i v : nth_error (repeat x n) i = Some v -> v = x.
Proof. intros H. apply nth_error_In in H. eapply repeat_spec; eauto. Qed.

Lemma find_func_in_In fs f fn : find_func_in fs f = Some fn -> In (f, fn) fs.
Proof.
  induction fs as [|[g gfn] r IH]; simpl; intros H; try discriminate.
  destruct (Pos.eqb_spec g f).
  - inversion H; subst; auto.
  - right; auto.
Qed.

Lemma find_func_In P f fn : find_func P f = Some fn -> In (f, fn) (funcs P).
Proof. apply find_func_in_In. Qed.

Lemma find_edge_In es b o : find_edge es b = Some o -> In (b, o) es.
Proof.
  induction es as [|[b' o'] r IH]; simpl; intros H; try discriminate.
  destruct (Nat.eqb_spec b' b).
  - inversion H; subst; auto.
  - right; auto.
Qed.

Lemma acell_0 k : acell k 0 = 0%N.
Proof. destruct k as [|st]; simpl; auto; destruct st; reflexivity. Qed.

Lemma bind_env_prop (Q : value -> reg -> Prop) : forall rs vs e,
  (forall i v r, nth_error vs i = Some v -> nth_error rs i = Some r -> Q v r) ->
  (forall r, Q (e r) r) -> forall r, Q (bind rs vs e r) r.
Proof.
  induction rs as [|r0 rs IH]; intros vs e H He r; simpl; auto.
  destruct vs as [|v0 vs]; auto.
  unfold upd. destruct (Pos.eqb_spec r r0).
  - subst. apply (H 0 v0 r0); reflexivity.
  - apply IH; auto. intros i v r' Hv Hr. apply (H (S i)); auto.
Qed.

(* ------------------------------------------------------------------------------------------- the invariant *)
Section Soundness.
  Variable P : prog.
  Variable S : sol.
  Hypothesis HC : closed P S.

  (* value v is abstracted by the label set Q (captured environments by the callee's free-variable nodes) *)
  Inductive val_in (h : heap) : value -> (label -> Prop) -> Prop :=
  | vi_scalar Q : val_in h VScalar Q
  | vi_ptr l off ob (Q : label -> Prop) :
      nth_error h l = Some ob -> Q (lab_of ob off) -> val_in h (VPtr l off) Q
  | vi_clo g cenv (Q : label -> Prop) :
      Q (LFun g) ->
      (forall gfn i v r, find_func P g = Some gfn -> nth_error cenv i = Some v -> nth_error (ffree gfn) i = Some r ->
                         val_in h v (pts S (NReg g r))) ->
      val_in h (VClo g cenv) Q.

  Definition val_ok (h : heap) (v : value) (n : node) : Prop := val_in h v (pts S n).

  Definition heap_ext (h h' : heap) : Prop :=
    forall l ob, nth_error h l = Some ob ->
      exists ob', nth_error h' l = Some ob' /\ osite ob' = osite ob /\ okd ob' = okd ob /\ otag ob' = otag ob.

  Lemma heap_ext_refl h : heap_ext h h.
  Proof. intros l ob H; exists ob; auto. Qed.

  Lemma heap_ext_trans h1 h2 h3 : heap_ext h1 h2 -> heap_ext h2 h3 -> heap_ext h1 h3.
  Proof.
    intros H1 H2 l ob H. destruct (H1 _ _ H) as (ob2 & Hn & Ha & Hb & Hc).
    destruct (H2 _ _ Hn) as (ob3 & Hn3 & Ha3 & Hb3 & Hc3). exists ob3; repeat split; congruence.
  Qed.

  Lemma heap_ext_app h x : heap_ext h (h ++ [x]).
  Proof.
    intros l ob H. exists ob; repeat split; auto. rewrite nth_error_app1; auto. apply nth_error_Some; congruence.
  Qed.

  Lemma lab_of_meta ob ob' off :
    osite ob' = osite ob -> okd ob' = okd ob -> otag ob' = otag ob -> lab_of ob' off = lab_of ob off.
  Proof. unfold lab_of; intros -> -> ->; reflexivity. Qed.

  Lemma val_in_weaken h v (Q Q' : label -> Prop) : (forall l, Q l -> Q' l) -> val_in h v Q -> val_in h v Q'.
  Proof. intros HQ H; inversion H; subst; econstructor; eauto. Qed.

  Lemma val_in_ext h h' v Q : heap_ext h h' -> val_in h v Q -> val_in h' v Q.
  Proof.
    intros He H; induction H.
    - constructor.
    - destruct (He _ _ H) as (ob' & Hn & Ha & Hb & Hc).
      econstructor; eauto. rewrite (lab_of_meta ob ob'); auto.
    - econstructor; eauto.
  Qed.

  Definition frame_ok (h : heap) (fr : frame) : Prop :=
    reach S (ffn fr) /\ cg_reach P S (ffn fr) /\ forall r, val_ok h (fenv fr r) (NReg (ffn fr) r).

  Definition link_ok (fr : frame) (rest : list frame) : Prop :=
    match rest with [] => True | c :: _ => sub S (NRet (ffn fr)) (NReg (ffn c) (fret fr)) end.

  Fixpoint stack_ok (h : heap) (st : list frame) : Prop :=
    match st with
    | [] => True
    | fr :: rest => frame_ok h fr /\ link_ok fr rest /\ stack_ok h rest
    end.

  Definition heap_ok (h : heap) : Prop :=
    forall l ob i v, nth_error h l = Some ob -> nth_error (ocells ob) i = Some v -> val_ok h v (cell_node ob i).

  Definition globals_ok (h : heap) : Prop :=
    forall g l, global_loc P g = Some l -> exists ob, nth_error h l = Some ob /\ osite ob = g /\ otag ob = None.

  Definition state_ok (st : state) : Prop :=
    heap_ok (sheap st) /\ globals_ok (sheap st) /\ stack_ok (sheap st) (sstack st) /\
    (forall r, In r (spending st) -> In r (roots P)).

  Definition event_ok (ev : option event) : Prop :=
    match ev with
    | Some (ECall cs g) => edge S cs g /\ reach S g /\ cg_reach P S g
    | Some (EStart g) => In g (roots P)
    | None => True
    end.

  Lemma frame_ok_ext h h' fr : heap_ext h h' -> frame_ok h fr -> frame_ok h' fr.
  Proof. intros He (A & B & C); repeat split; auto. intros r; eapply val_in_ext; eauto. apply C. Qed.

  Lemma stack_ok_ext h h' st : heap_ext h h' -> stack_ok h st -> stack_ok h' st.
  Proof.
    intros He; induction st as [|fr rest IH]; simpl; auto.
    intros (A & B & C). split; [eapply frame_ok_ext; eauto|split; auto].
  Qed.

  Lemma globals_ok_ext h h' : heap_ext h h' -> globals_ok h -> globals_ok h'.
  Proof.
    intros He H g l Hg. destruct (H _ _ Hg) as (ob & Hn & Hs & Ht).
    destruct (He _ _ Hn) as (ob' & Hn' & A & B & C). exists ob'; repeat split; congruence.
  Qed.

  (* evaluation of an operand is abstracted by the operand's label set *)
  Lemma eval_in h fr o :
    globals_ok h -> (forall r, val_ok h (fenv fr r) (NReg (ffn fr) r)) ->
    val_in h (eval P (fenv fr) o) (op_pts S (ffn fr) o).
  Proof.
    intros Hg He. destruct o as [r|g|g|]; simpl.
    - apply He.
    - destruct (global_loc P g) as [l|] eqn:E; [|constructor].
      destruct (Hg _ _ E) as (ob & Hn & Hs & Ht).
      econstructor; eauto. unfold lab_of. rewrite Ht, Hs, acell_0. reflexivity.
    - apply vi_clo; [reflexivity|]. intros gfn i v r _ Hn. destruct i; discriminate.
    - constructor.
  Qed.

  Lemma eval_flows h fr o n :
    globals_ok h -> (forall r, val_ok h (fenv fr r) (NReg (ffn fr) r)) ->
    flows S (ffn fr) o n -> val_ok h (eval P (fenv fr) o) n.
  Proof. intros Hg He Hf. eapply val_in_weaken; [|eapply eval_in; eauto]. exact Hf. Qed.

  Lemma upd_ok h (e : env) f d v :
    (forall r, val_ok h (e r) (NReg f r)) -> val_ok h v (NReg f d) -> forall r, val_ok h (upd e d v r) (NReg f r).
  Proof. intros He Hv r. unfold upd. destruct (Pos.eqb_spec r d); subst; auto. Qed.

  Lemma bind_ok_nth f g : forall args ps i a p,
    bind_ok S f args ps g -> nth_error args i = Some a -> nth_error ps i = Some p -> flows S f a (NReg g p).
  Proof.
    induction args as [|a0 args IH]; intros ps i a p H Ha Hp.
    - destruct i; discriminate.
    - destruct ps as [|p0 ps]; [destruct i; discriminate|].
      simpl in H. destruct H as [H0 H1]. destruct i; simpl in *.
      + inversion Ha; inversion Hp; subst; auto.
      + eapply IH; eauto.
  Qed.

  (* the instruction at the program counter of a frame whose function is reachable satisfies its constraint *)
  Lemma instr_at_ok f fn b blk pc i :
    find_func P f = Some fn -> reach S f -> nth_error (fblocks fn) b = Some blk -> nth_error (binstrs blk) pc = Some i ->
    instr_ok S P f i.
  Proof.
    intros Hf Hr Hb Hi. destruct HC as [_ H].
    destruct (H f fn (find_func_In _ _ _ Hf) Hr blk (nth_error_In _ _ Hb)) as [Hi' _].
    apply Hi'. eapply nth_error_In; eauto.
  Qed.

  Lemma term_at_ok f fn b blk :
    find_func P f = Some fn -> reach S f -> nth_error (fblocks fn) b = Some blk -> term_ok S f (bterm blk).
  Proof.
    intros Hf Hr Hb. destruct HC as [_ H].
    destruct (H f fn (find_func_In _ _ _ Hf) Hr blk (nth_error_In _ _ Hb)) as [_ Ht]. exact Ht.
  Qed.

  Lemma new_frame_ok h g gfn args cenv ret :
    reach S g -> cg_reach P S g ->
    (forall i v r, nth_error args i = Some v -> nth_error (fparams gfn) i = Some r -> val_ok h v (NReg g r)) ->
    (forall i v r, nth_error cenv i = Some v -> nth_error (ffree gfn) i = Some r -> val_ok h v (NReg g r)) ->
    frame_ok h (new_frame g gfn args cenv ret).
  Proof.
    intros Hr Hc Ha He. unfold frame_ok, new_frame; simpl. repeat split; auto.
    apply (bind_env_prop (fun v r => val_ok h v (NReg g r))); auto.
    apply (bind_env_prop (fun v r => val_ok h v (NReg g r))); auto.
    intros r. constructor.
  Qed.

  Lemma set_env_frame_ok h fr e :
    frame_ok h fr -> (forall r, val_ok h (e r) (NReg (ffn fr) r)) -> frame_ok h (set_env fr e).
  Proof. intros (A & B & C) H. repeat split; auto. Qed.

  (* common shape of the "continue" steps that do not touch the heap *)
  Lemma continue_ok h fr rest pend e' :
    heap_ok h -> globals_ok h -> stack_ok h (fr :: rest) -> (forall r, In r pend -> In r (roots P)) ->
    (forall r, val_ok h (e' r) (NReg (ffn fr) r)) ->
    state_ok {| sheap := h; sstack := set_env fr e' :: rest; spending := pend |}.
  Proof.
    intros Hh Hg (Hf & Hl & Hs) Hp He. repeat split; simpl; auto.
    - apply Hf.
    - apply Hf.
  Qed.

  (* and of those that extend or update the heap *)
  Lemma continue_ext_ok h h' fr rest pend e' :
    heap_ext h h' -> heap_ok h' -> globals_ok h -> stack_ok h (fr :: rest) -> (forall r, In r pend -> In r (roots P)) ->
    (forall r, val_ok h' (e' r) (NReg (ffn fr) r)) ->
    state_ok {| sheap := h'; sstack := set_env fr e' :: rest; spending := pend |}.
  Proof.
    intros Hx Hh Hg (Hf & Hl & Hs) Hp He. repeat split; simpl; auto.
    - eapply globals_ok_ext; eauto.
    - apply Hf.
    - apply Hf.
    - eapply stack_ok_ext; eauto.
  Qed.

  Lemma heap_ok_app h ob :
    heap_ok h -> (forall i v, nth_error (ocells ob) i = Some v -> val_ok (h ++ [ob]) v (cell_node ob i)) -> heap_ok (h ++ [ob]).
  Proof.
    intros Hh Hn l ob' i v Hl Hc.
    destruct (lt_dec l (length h)).
    - rewrite nth_error_app1 in Hl by auto. eapply val_in_ext; [apply heap_ext_app|]. eapply Hh; eauto.
    - rewrite nth_error_app2 in Hl by lia. destruct (l - length h) as [|k] eqn:E; simpl in Hl.
      + inversion Hl; subst. auto.
      + destruct k; discriminate.
  Qed.

  Lemma nth_error_app_last {A} (h : list A) x : nth_error (h ++ [x]) (length h) = Some x.
  Proof. rewrite nth_error_app2 by lia. rewrite Nat.sub_diag. reflexivity. Qed.

  Lemma call_state_ok h fr rest pend g gfn vargs cenv d :
    heap_ok h -> globals_ok h -> stack_ok h (fr :: rest) -> (forall r, In r pend -> In r (roots P)) ->
    frame_ok h (new_frame g gfn vargs cenv d) -> sub S (NRet g) (NReg (ffn fr) d) ->
    state_ok {| sheap := h; sstack := new_frame g gfn vargs cenv d :: set_env fr (fenv fr) :: rest; spending := pend |}.
  Proof.
    intros Hh Hg (Hf & Hl & Hs) Hp Hn Hr.
    unfold state_ok; simpl. split; [exact Hh|]. split; [exact Hg|]. split; [|exact Hp].
    split; [exact Hn|]. split; [exact Hr|]. split; [|split; [exact Hl|exact Hs]].
    destruct Hf as (A & B & C). split; [exact A|]. split; [exact B|exact C].
  Qed.

  Lemma exec_instr_ok o h fr rest pend fn blk i st' ev :
    heap_ok h -> globals_ok h -> stack_ok h (fr :: rest) -> (forall r, In r pend -> In r (roots P)) ->
    find_func P (ffn fr) = Some fn -> nth_error (fblocks fn) (fblk fr) = Some blk ->
    nth_error (binstrs blk) (fpc fr) = Some i ->
    exec_instr P o h fr rest pend i = Some (st', ev) ->
    state_ok st' /\ event_ok ev /\ heap_ext h (sheap st').
  Proof.
    intros Hh Hg Hs Hp Hf Hb Hi Hx.
    assert (Hfr : frame_ok h fr) by apply Hs.
    destruct Hfr as (Hreach & Hcg & Henv).
    pose proof (instr_at_ok _ _ _ _ _ _ Hf Hreach Hb Hi) as Hok.
    pose proof (fun o => eval_in h fr o Hg Henv) as Hev.
    destruct i; simpl in Hx, Hok.
    - (* IAlloc *)
      inversion Hx; subst; clear Hx. simpl.
      set (ob := {| osite := s; okd := k; otag := None; ocells := repeat VScalar n |}).
      split; [|split; [exact I|apply heap_ext_app]].
      eapply continue_ext_ok; eauto.
      + apply heap_ext_app.
      + apply heap_ok_app; auto. intros i v Hn. simpl in Hn. apply nth_error_repeat_inv in Hn. subst. constructor.
      + apply upd_ok.
        * intros r. eapply val_in_ext; [apply heap_ext_app|]. apply Henv.
        * econstructor; [apply nth_error_app_last|]. unfold lab_of; simpl. rewrite acell_0. exact Hok.
    - (* ICopy *)
      inversion Hx; subst; clear Hx. simpl. split; [|split; [exact I|apply heap_ext_refl]].
      apply continue_ok; auto. apply upd_ok; auto. eapply eval_flows; eauto.
    - (* IPhi *)
      destruct (find_edge edges (fprev fr)) as [src|] eqn:E; [|discriminate].
      inversion Hx; subst; clear Hx. simpl. split; [|split; [exact I|apply heap_ext_refl]].
      apply continue_ok; auto. apply upd_ok; auto. eapply eval_flows; eauto.
      eapply Hok. eapply find_edge_In; eauto.
    - (* IScalar *)
      inversion Hx; subst; clear Hx. simpl. split; [|split; [exact I|apply heap_ext_refl]].
      apply continue_ok; auto. apply upd_ok; auto. constructor.
    - (* ILoad *)
      specialize (Hev addr).
      destruct (eval P (fenv fr) addr) as [|l off|] eqn:Ea; try discriminate.
      destruct (nth_error h l) as [ob|] eqn:El; [|discriminate].
      destruct (otag ob) eqn:Et; [discriminate|].
      destruct (nth_error (ocells ob) (N.to_nat off)) as [v|] eqn:Ec; [|discriminate].
      inversion Hx; subst; clear Hx. simpl. split; [|split; [exact I|apply heap_ext_refl]].
      apply continue_ok; auto. apply upd_ok; auto.
      inversion Hev; subst. rewrite El in H1; inversion H1; subst ob0.
      unfold lab_of in H3. rewrite Et in H3.
      eapply val_in_weaken; [eapply Hok; eauto|].
      pose proof (Hh _ _ _ _ El Ec) as Hc. unfold cell_node in Hc. rewrite N2Nat.id in Hc. exact Hc.
    - (* IStore *)
      pose proof (Hev addr) as Ha. pose proof (Hev val) as Hv.
      destruct (eval P (fenv fr) addr) as [|l off|] eqn:Ea; try discriminate.
      destruct (nth_error h l) as [ob|] eqn:El; [|discriminate].
      destruct (otag ob) eqn:Et; [discriminate|].
      destruct (Nat.ltb (N.to_nat off) (length (ocells ob))) eqn:Elt; [|discriminate].
      apply Nat.ltb_lt in Elt.
      inversion Hx; subst; clear Hx. simpl.
      set (ob' := set_cells ob (set_nth (ocells ob) (N.to_nat off) (eval P (fenv fr) val))).
      set (h' := set_nth h l ob').
      assert (Hl : l < length h) by (apply nth_error_Some; congruence).
      assert (Hext : heap_ext h h').
      { intros l2 ob2 H2. destruct (Nat.eq_dec l l2) as [<-|N].
        - exists ob'. unfold h'. rewrite nth_error_set_nth_eq by auto. rewrite El in H2; inversion H2; subst. auto.
        - exists ob2. unfold h'. rewrite nth_error_set_nth_neq by auto. auto. }
      split; [|split; [exact I|exact Hext]].
      eapply continue_ext_ok; eauto.
      + intros l2 ob2 i2 v2 H2 Hc2. unfold h' in H2.
        apply nth_error_set_nth_inv in H2. destruct H2 as [[<- ->]|[N H2]].
        * simpl in Hc2. apply nth_error_set_nth_inv in Hc2. destruct Hc2 as [[<- ->]|[N Hc2]].
          -- inversion Ha; subst. rewrite El in H1; inversion H1; subst ob0.
             unfold lab_of in H3. rewrite Et in H3.
             unfold cell_node, ob'; simpl. rewrite N2Nat.id.
             eapply val_in_ext; [exact Hext|].
             eapply val_in_weaken; [eapply Hok; eauto|]. exact Hv.
          -- eapply val_in_ext; [exact Hext|]. apply (Hh _ _ _ _ El Hc2).
        * eapply val_in_ext; [exact Hext|]. eapply Hh; eauto.
      + intros r. eapply val_in_ext; [exact Hext|]. apply Henv.
    - (* IFieldAddr *)
      specialize (Hev base).
      destruct (eval P (fenv fr) base) as [|l o0|] eqn:Ea; try discriminate.
      destruct (nth_error h l) as [ob|] eqn:El; [|discriminate].
      destruct (otag ob) eqn:Et; [discriminate|].
      destruct (okd ob) eqn:Ek; [|discriminate].
      inversion Hx; subst; clear Hx. simpl. split; [|split; [exact I|apply heap_ext_refl]].
      apply continue_ok; auto. apply upd_ok; auto.
      inversion Hev; subst. rewrite El in H1; inversion H1; subst ob0.
      unfold lab_of in H3. rewrite Et, Ek in H3. simpl in H3.
      econstructor; eauto. unfold lab_of. rewrite Et, Ek. simpl. eapply Hok; eauto.
    - (* IIndexAddr *)
      specialize (Hev base).
      destruct (eval P (fenv fr) base) as [|l o0|] eqn:Ea; try discriminate.
      destruct (nth_error h l) as [ob|] eqn:El; [|discriminate].
      destruct (otag ob) eqn:Et; [discriminate|].
      destruct (okd ob) as [|st] eqn:Ek; [discriminate|].
      destruct (N.ltb w st) eqn:Ew; [|discriminate]. apply N.ltb_lt in Ew.
      inversion Hx; subst; clear Hx. simpl. split; [|split; [exact I|apply heap_ext_refl]].
      apply continue_ok; auto. apply upd_ok; auto.
      inversion Hev; subst. rewrite El in H1; inversion H1; subst ob0.
      unfold lab_of in H3. rewrite Et, Ek in H3. simpl in H3.
      econstructor; eauto. unfold lab_of. rewrite Et, Ek. simpl.
      replace ((N.of_nat o * st + w) mod st)%N with w.
      + eapply Hok; eauto.
      + rewrite N.add_comm. rewrite N.mod_add by lia. symmetry. apply N.mod_small. exact Ew.
    - (* IMakeClosure *)
      inversion Hx; subst; clear Hx. simpl. split; [|split; [exact I|apply heap_ext_refl]].
      destruct Hok as [Hl Hbind].
      apply continue_ok; auto. apply upd_ok; auto.
      econstructor; eauto.
      intros gfn i v r Hg' Hn Hr.
      rewrite nth_error_map in Hn. destruct (nth_error binds i) as [b|] eqn:Eb; [|discriminate].
      inversion Hn; subst.
      eapply eval_flows; eauto. eapply bind_ok_nth; eauto.
    - (* IMakeIface *)
      inversion Hx; subst; clear Hx. simpl.
      destruct Hok as [Hl Hfl].
      set (ob := {| osite := s; okd := KStruct; otag := Some t; ocells := [eval P (fenv fr) x] |}).
      split; [|split; [exact I|apply heap_ext_app]].
      eapply continue_ext_ok; eauto.
      + apply heap_ext_app.
      + apply heap_ok_app; auto. intros i v Hn. destruct i; simpl in Hn; [|destruct i; discriminate].
        inversion Hn; subst. unfold cell_node; simpl.
        eapply val_in_ext; [apply heap_ext_app|]. eapply eval_flows; eauto.
      + apply upd_ok.
        * intros r. eapply val_in_ext; [apply heap_ext_app|]. apply Henv.
        * econstructor; [apply nth_error_app_last|]. unfold lab_of; simpl. exact Hl.
    - (* ITypeAssert *)
      specialize (Hev x).
      destruct (eval P (fenv fr) x) as [|l o0|] eqn:Ea; try discriminate.
      destruct (nth_error h l) as [ob|] eqn:El; [|discriminate].
      destruct (otag ob) as [t'|] eqn:Et; [|discriminate].
      destruct (ocells ob) as [|v cells'] eqn:Ecs; [discriminate|].
      assert (Ec : nth_error (ocells ob) 0 = Some v) by (rewrite Ecs; reflexivity).
      destruct (Pos.eqb_spec t' t); [|discriminate]. subst t'.
      inversion Hx; subst; clear Hx. simpl. split; [|split; [exact I|apply heap_ext_refl]].
      apply continue_ok; auto. apply upd_ok; auto.
      inversion Hev; subst. rewrite El in H1; inversion H1; subst ob0.
      unfold lab_of in H3. rewrite Et in H3.
      eapply val_in_weaken; [eapply Hok; eauto|].
      pose proof (Hh _ _ _ _ El Ec) as Hc. unfold cell_node in Hc. simpl in Hc. rewrite acell_0 in Hc. exact Hc.
    - (* ICall *)
      destruct (resolve P h (fenv fr) c) as [[[g cenv] pre]|] eqn:Er; [|discriminate].
      destruct (find_func P g) as [gfn|] eqn:Eg; [|discriminate].
      inversion Hx; subst; clear Hx. simpl.
      assert (Hcaller : frame_ok h (set_env fr (fenv fr))) by (apply set_env_frame_ok; [apply Hs|auto]).
      assert (Hcge : edge S cs g -> cg_edge P S (ffn fr) g).
      { intros He. exists fn, cs. split; [apply find_func_In; auto|]. split; auto.
        exists blk, dst, c, args. split; [eapply nth_error_In; eauto|eapply nth_error_In; eauto]. }
      destruct c as [g0|xo|xo m]; simpl in Er.
      + (* static *)
        inversion Er; subst; clear Er.
        destruct Hok as (Hrg & Hed & Hbind & Hret).
        assert (Hcg' : cg_reach P S g) by (econstructor 2; eauto).
        split; [|split; [simpl; auto|apply heap_ext_refl]].
        apply call_state_ok; auto.
        * apply new_frame_ok; auto.
          -- intros i v r Hn Hr. simpl in Hn. rewrite nth_error_map in Hn.
             destruct (nth_error args i) as [a|] eqn:Ea; [|discriminate]. inversion Hn; subst.
             eapply eval_flows; eauto. eapply bind_ok_nth; eauto.
          -- intros i v r Hn. destruct i; discriminate.
      + (* dynamic *)
        pose proof (Hev xo) as Hxo.
        destruct (eval P (fenv fr) xo) as [| |g0 cenv0] eqn:Ex; try discriminate.
        inversion Er; subst; clear Er.
        inversion Hxo; subst.
        destruct (Hok _ H1) as (Hrg & Hed & Hbind & Hret).
        assert (Hcg' : cg_reach P S g) by (econstructor 2; eauto).
        split; [|split; [simpl; auto|apply heap_ext_refl]].
        apply call_state_ok; auto.
        * apply new_frame_ok; auto.
          -- intros i v r Hn Hr. simpl in Hn. rewrite nth_error_map in Hn.
             destruct (nth_error args i) as [a|] eqn:Ea; [|discriminate]. inversion Hn; subst.
             eapply eval_flows; eauto. eapply bind_ok_nth; eauto.
          -- intros i v r Hn Hr. eapply H3; eauto.
      + (* invoke *)
        pose proof (Hev xo) as Hxo.
        destruct (eval P (fenv fr) xo) as [|l o0|] eqn:Ex; try discriminate.
        destruct (nth_error h l) as [ob|] eqn:El; [|discriminate].
        destruct (otag ob) as [t|] eqn:Et; [|discriminate].
        destruct (ocells ob) as [|recv cells'] eqn:Ecs; [discriminate|].
        assert (Ec : nth_error (ocells ob) 0 = Some recv) by (rewrite Ecs; reflexivity).
        destruct (lookup_m P t m) as [g0|] eqn:Em; [|discriminate].
        inversion Er; subst; clear Er.
        inversion Hxo; subst. rewrite El in H1; inversion H1; subst ob0.
        unfold lab_of in H3. rewrite Et in H3.
        destruct (Hok _ _ _ H3 Em) as (Hrg & Hed & Hbind & Hret).
        assert (Hcg' : cg_reach P S g) by (econstructor 2; eauto).
        split; [|split; [simpl; auto|apply heap_ext_refl]].
        apply call_state_ok; auto.
        * apply new_frame_ok; auto.
          -- intros i v r Hn Hr. specialize (Hbind _ Eg).
             destruct (fparams gfn) as [|p0 ps]; [destruct i; discriminate|].
             destruct Hbind as [Hrecv Hb2].
             destruct i; simpl in Hn, Hr.
             ++ inversion Hn; inversion Hr; subst.
                eapply val_in_weaken; [apply Hrecv|].
                pose proof (Hh _ _ _ _ El Ec) as Hc. unfold cell_node in Hc. simpl in Hc. rewrite acell_0 in Hc. exact Hc.
             ++ rewrite nth_error_map in Hn.
                destruct (nth_error args i) as [a|] eqn:Ea; [|discriminate]. inversion Hn; subst.
                eapply eval_flows; eauto. eapply bind_ok_nth; eauto.
          -- intros i v r Hn. destruct i; discriminate.
  Qed.

  Lemma exec_term_ok o h fr rest pend fn blk st' ev :
    heap_ok h -> globals_ok h -> stack_ok h (fr :: rest) -> (forall r, In r pend -> In r (roots P)) ->
    find_func P (ffn fr) = Some fn -> nth_error (fblocks fn) (fblk fr) = Some blk ->
    exec_term P o h fr rest pend (bterm blk) = Some (st', ev) ->
    state_ok st' /\ event_ok ev /\ heap_ext h (sheap st').
  Proof.
    intros Hh Hg Hs Hp Hf Hb Hx.
    destruct Hs as (Hfr & Hl & Hrest).
    destruct Hfr as (Hreach & Hcg & Henv).
    pose proof (term_at_ok _ _ _ _ Hf Hreach Hb) as Hok.
    destruct (bterm blk) as [b|b1 b2|x]; simpl in Hx.
    - inversion Hx; subst; clear Hx. simpl. split; [|split; [exact I|apply heap_ext_refl]].
      unfold state_ok; simpl. repeat split; auto.
    - inversion Hx; subst; clear Hx. simpl. split; [|split; [exact I|apply heap_ext_refl]].
      unfold state_ok; simpl. repeat split; auto.
    - simpl in Hok.
      destruct rest as [|caller rest'].
      + inversion Hx; subst; clear Hx. simpl. split; [|split; [exact I|apply heap_ext_refl]].
        unfold state_ok; simpl. repeat split; auto.
      + inversion Hx; subst; clear Hx. simpl. split; [|split; [exact I|apply heap_ext_refl]].
        simpl in Hl. destruct Hrest as (Hc & Hcl & Hr').
        destruct Hc as (A & B & C).
        unfold state_ok; simpl. split; [exact Hh|]. split; [exact Hg|]. split; [|exact Hp].
        split; [|split; [exact Hcl|exact Hr']].
        split; [exact A|]. split; [exact B|]. simpl.
        apply upd_ok; auto.
        eapply val_in_weaken; [apply Hl|].
        eapply (eval_flows h fr x (NRet (ffn fr))); eauto.
  Qed.

  Theorem step_ok o st st' ev :
    state_ok st -> step P o st = Some (st', ev) -> state_ok st' /\ event_ok ev /\ heap_ext (sheap st) (sheap st').
  Proof.
    intros (Hh & Hg & Hs & Hp) Hx. unfold step in Hx.
    destruct (sstack st) as [|fr rest] eqn:Es.
    - destruct (spending st) as [|r pend] eqn:Ep; [discriminate|].
      destruct (find_func P r) as [rfn|] eqn:Er; [|discriminate].
      inversion Hx; subst; clear Hx. simpl.
      assert (Hr : In r (roots P)) by (apply Hp; left; reflexivity).
      split; [|split; [exact Hr|apply heap_ext_refl]].
      unfold state_ok; simpl. split; [exact Hh|]. split; [exact Hg|]. split; [|intros r' Hr'; apply Hp; right; exact Hr'].
      split; [|split; exact I].
      apply new_frame_ok.
      + destruct HC as [H _]. apply H. exact Hr.
      + constructor 1. exact Hr.
      + intros i v r' Hn. destruct i; discriminate.
      + intros i v r' Hn. destruct i; discriminate.
    - destruct (find_func P (ffn fr)) as [fn|] eqn:Ef; [|discriminate].
      destruct (nth_error (fblocks fn) (fblk fr)) as [blk|] eqn:Eb; [|discriminate].
      destruct (nth_error (binstrs blk) (fpc fr)) as [i|] eqn:Ei.
      + eapply exec_instr_ok; eauto.
      + eapply exec_term_ok; eauto.
  Qed.

  Lemma global_loc_in_spec gs : forall g base l,
    global_loc_in gs g base = Some l ->
    base <= l /\ exists ob, nth_error (map mk_global gs) (l - base) = Some ob /\ osite ob = g /\ otag ob = None.
  Proof.
    induction gs as [|[g' kn] gs IH]; simpl; intros g base l H; [discriminate|].
    destruct (Pos.eqb_spec g' g).
    - inversion H; subst. split; [lia|]. rewrite Nat.sub_diag. simpl. eexists; split; [reflexivity|]. split; reflexivity.
    - destruct (IH _ _ _ H) as (Hle & ob & Hn & Hs & Ht). split; [lia|].
      replace (l - base) with (Datatypes.S (l - Datatypes.S base)) by lia. simpl. exists ob; auto.
  Qed.

  Theorem init_ok : state_ok (init_state P).
  Proof.
    unfold state_ok, init_state; simpl. split; [|split; [|split; [exact I|auto]]].
    - intros l ob i v Hl Hc. rewrite nth_error_map in Hl.
      destruct (nth_error (globals P) l) as [g|]; [|discriminate]. inversion Hl; subst. simpl in Hc.
      apply nth_error_repeat_inv in Hc. subst. constructor.
    - intros g l Hl. unfold global_loc in Hl. apply global_loc_in_spec in Hl.
      destruct Hl as (_ & ob & Hn & Hs & Ht). rewrite Nat.sub_0_r in Hn. exists ob; auto.
  Qed.

  Theorem run_ok : forall os st st' evs,
    state_ok st -> run P os st = (st', evs) ->
    state_ok st' /\ Forall (fun e => event_ok (Some e)) evs /\ heap_ext (sheap st) (sheap st').
  Proof.
    induction os as [|o os IH]; intros st st' evs Hs Hr; simpl in Hr.
    - inversion Hr; subst. split; [auto|split; [constructor|apply heap_ext_refl]].
    - destruct (step P o st) as [[st1 ev]|] eqn:E.
      + destruct (run P os st1) as [st2 evs2] eqn:E2. inversion Hr; subst; clear Hr.
        destruct (step_ok _ _ _ _ Hs E) as (H1 & He & Hx).
        destruct (IH _ _ _ H1 E2) as (H2 & Hes & Hx2).
        split; [exact H2|]. split; [|eapply heap_ext_trans; eauto].
        destruct ev; auto.
      + inversion Hr; subst. split; [auto|split; [constructor|apply heap_ext_refl]].
  Qed.

  (* ---- what the invariant says about pointers held in registers and heap cells *)
  Lemma stack_ok_frame h st fr : stack_ok h st -> In fr st -> frame_ok h fr.
  Proof.
    induction st as [|a st IH]; simpl; intros H Hin; [contradiction|].
    destruct H as (A & _ & C). destruct Hin as [->|Hin]; auto.
  Qed.

  Lemma state_ok_reg st fr r l off :
    state_ok st -> In fr (sstack st) -> fenv fr r = VPtr l off ->
    exists ob, nth_error (sheap st) l = Some ob /\ pts S (NReg (ffn fr) r) (lab_of ob off).
  Proof.
    intros (_ & _ & Hs & _) Hin He.
    destruct (stack_ok_frame _ _ _ Hs Hin) as (_ & _ & Henv).
    specialize (Henv r). rewrite He in Henv. inversion Henv; subst. eauto.
  Qed.

  Lemma state_ok_cell st l0 ob0 i l off :
    state_ok st -> nth_error (sheap st) l0 = Some ob0 -> nth_error (ocells ob0) i = Some (VPtr l off) ->
    exists ob, nth_error (sheap st) l = Some ob /\ pts S (cell_node ob0 i) (lab_of ob off).
  Proof.
    intros (Hh & _) Hl Hc. specialize (Hh _ _ _ _ Hl Hc). inversion Hh; subst. eauto.
  Qed.

  Lemma state_ok_fun_reg st fr r g cenv :
    state_ok st -> In fr (sstack st) -> fenv fr r = VClo g cenv -> pts S (NReg (ffn fr) r) (LFun g).
  Proof.
    intros (_ & _ & Hs & _) Hin He.
    destruct (stack_ok_frame _ _ _ Hs Hin) as (_ & _ & Henv).
    specialize (Henv r). rewrite He in Henv. inversion Henv; subst. auto.
  Qed.

  Lemma state_ok_executed st fr : state_ok st -> In fr (sstack st) -> reach S (ffn fr) /\ cg_reach P S (ffn fr).
  Proof.
    intros (_ & _ & Hs & _) Hin. destruct (stack_ok_frame _ _ _ Hs Hin) as (A & B & _). auto.
  Qed.

End Soundness.
