(** * C16, part 2: list helpers, CFG paths, and properties of the abstract / concrete stack semantics *)
From Coq Require Import List Arith Bool Lia.
From Argot Require Import Model.Defers Model.DefersSpec Proofs.DefersOrder.
Import ListNotations.

(** ** [upd] / [nth] *)
Lemma upd_length {A} (l : list A) i x : length (upd l i x) = length l.
Proof. revert i; induction l as [|y l IH]; intros [|i]; simpl; auto. Qed.

Lemma nth_upd_eq {A} (l : list A) i x d : i < length l -> nth i (upd l i x) d = x.
Proof. revert i; induction l as [|y l IH]; intros [|i]; simpl; intros H; try lia; auto. apply IH; lia. Qed.

Lemma nth_upd_neq {A} (l : list A) i j x d : i <> j -> nth j (upd l i x) d = nth j l d.
Proof.
  revert i j; induction l as [|y l IH]; intros [|i] [|j]; simpl; intros H; try lia; auto.
Qed.

Lemma upd_oob {A} (l : list A) i x : length l <= i -> upd l i x = l.
Proof. revert i; induction l as [|y l IH]; intros [|i]; simpl; intros H; try lia; auto. f_equal; apply IH; lia. Qed.

Lemma upd_nth_same {A} (l : list A) i d : upd l i (nth i l d) = l.
Proof. revert i; induction l as [|y l IH]; intros [|i]; simpl; auto. f_equal; auto. Qed.

Lemma nth_upd {A} (l : list A) i j x d :
  nth j (upd l i x) d = if Nat.eqb i j then (if Nat.ltb i (length l) then x else nth j l d) else nth j l d.
Proof.
  destruct (Nat.eqb_spec i j) as [->|Hne].
  - destruct (Nat.ltb_spec j (length l)).
    + apply nth_upd_eq; auto.
    + rewrite upd_oob; auto.
  - apply nth_upd_neq; auto.
Qed.

Lemma nth_map_const {A B} (l : list A) (x : B) i : nth i (map (fun _ => x) l) x = x.
Proof. revert i; induction l as [|y l IH]; intros [|i]; simpl; auto. Qed.

Lemma nth_true_lt (l : list bool) i : nth i l false = true -> i < length l.
Proof.
  intros H. destruct (Nat.ltb_spec i (length l)); auto.
  rewrite nth_overflow in H; auto; discriminate.
Qed.

Lemma nth_nonempty_lt {A} (l : list (list A)) i : nth i l [] <> [] -> i < length l.
Proof.
  intros H. destruct (Nat.ltb_spec i (length l)); auto.
  rewrite nth_overflow in H; auto; congruence.
Qed.

(** ** blocks and well-formedness *)
Lemma blk_oob c b : length c <= b -> blk c b = mkBlock [] [].
Proof. intros H; unfold blk; apply nth_overflow; auto. Qed.

Lemma instr_at_lt c d k : instr_at c d = Some k -> fst d < length c.
Proof.
  unfold instr_at; intros H. destruct (Nat.ltb_spec (fst d) (length c)); auto.
  rewrite blk_oob in H; auto. simpl in H. destruct (snd d); discriminate.
Qed.

Lemma succ_lt c b b' : In b' (succs (blk c b)) -> b < length c.
Proof.
  intros H. destruct (Nat.ltb_spec b (length c)); auto.
  rewrite blk_oob in H; auto. destruct H.
Qed.

Lemma wf_blk c b : wf_cfg c = true -> b < length c -> wf_block (length c) (blk c b) = true.
Proof.
  unfold wf_cfg; intros H Hb. rewrite forallb_forall in H. apply H. unfold blk; apply nth_In; auto.
Qed.

Lemma wf_succ_lt c b b' : wf_cfg c = true -> In b' (succs (blk c b)) -> b' < length c.
Proof.
  intros W H. pose proof (wf_blk c b W (succ_lt _ _ _ H)) as Hw.
  unfold wf_block in Hw. apply andb_true_iff in Hw as [Hw _]. apply andb_true_iff in Hw as [Hw _].
  rewrite forallb_forall in Hw. apply Nat.ltb_lt; auto.
Qed.

Definition no_run (ks : list ikind) : Prop := forall k, In k ks -> k <> KRunDefers.

Lemma has_rundefers_false b : has_rundefers b = false -> no_run (instrs b).
Proof.
  unfold has_rundefers, no_run; intros H k Hk ->.
  assert (existsb (fun k => match k with KRunDefers => true | _ => false end) (instrs b) = true).
  { apply existsb_exists; exists KRunDefers; auto. }
  congruence.
Qed.

Lemma wf_succ_no_run c b b' : wf_cfg c = true -> In b' (succs (blk c b)) -> no_run (instrs (blk c b)).
Proof.
  intros W H. pose proof (wf_blk c b W (succ_lt _ _ _ H)) as Hw.
  unfold wf_block in Hw. apply andb_true_iff in Hw as [Hw _]. apply andb_true_iff in Hw as [_ Hw].
  destruct (has_rundefers (blk c b)) eqn:E.
  - destruct (succs (blk c b)); [destruct H | discriminate].
  - apply has_rundefers_false; auto.
Qed.

Lemma firstn_In_l {A} (l : list A) n x : In x (firstn n l) -> In x l.
Proof. intros H. rewrite <- (firstn_skipn n l). apply in_or_app; auto. Qed.

Lemma no_run_firstn ks n : no_run ks -> no_run (firstn n ks).
Proof. intros H k Hk; apply H. eapply firstn_In_l; eauto. Qed.

Lemma nth_error_firstn {A} (l : list A) n k x : nth_error (firstn n l) k = Some x -> nth_error l k = Some x /\ k < n.
Proof.
  revert n k; induction l as [|y l IH]; intros [|n] [|k]; simpl; try discriminate; auto.
  - intros H; split; auto; lia.
  - intros H; apply IH in H as [H1 H2]; split; auto; lia.
Qed.

Lemma firstn_firstn_le {A} (l : list A) n k : k <= n -> firstn k (firstn n l) = firstn k l.
Proof.
  revert n k; induction l as [|y l IH]; intros [|n] [|k]; simpl; intros H; try lia; auto.
  f_equal; apply IH; lia.
Qed.

(** ** CFG paths *)
Section Paths.
  Variable c : cfg.

  Lemma bpath_inv a q z :
    bpath c a q z -> (q = [] /\ a = z) \/ exists p b, q = p ++ [b] /\ bpath c a p b /\ In z (succs (blk c b)).
  Proof. intros H; inversion H; subst; auto. right; eauto. Qed.

  Lemma bpath_app a p b q d : bpath c a p b -> bpath c b q d -> bpath c a (p ++ q) d.
  Proof.
    intros H1 H2; induction H2.
    - rewrite app_nil_r; auto.
    - rewrite app_assoc. econstructor; eauto.
  Qed.

  Lemma bpath_split a p1 x p2 z : bpath c a (p1 ++ x :: p2) z -> bpath c a p1 x /\ bpath c x (x :: p2) z.
  Proof.
    revert z; induction p2 as [|y p2 IH] using rev_ind; intros z H.
    - apply bpath_inv in H as [[H _]|(p & b & E & H1 & H2)].
      + destruct p1; discriminate.
      + apply app_inj_tail in E as [-> ->]. split; auto.
        change [b] with ([] ++ [b]). econstructor; eauto. constructor.
    - apply bpath_inv in H as [[H _]|(p & b & E & H1 & H2)].
      + destruct p1; discriminate.
      + change (p1 ++ x :: p2 ++ [y]) with (p1 ++ (x :: p2) ++ [y]) in E.
        rewrite app_assoc in E. apply app_inj_tail in E as [<- <-].
        apply IH in H1 as [A B]. split; auto.
        change (x :: p2 ++ [y]) with ((x :: p2) ++ [y]). econstructor; eauto.
  Qed.

  Lemma bpath_head a q z : bpath c a q z -> q <> [] -> exists q', q = a :: q'.
  Proof.
    induction 1 as [|a p b b' H IH Hs]; intros Hq; [congruence|].
    destruct p as [|x p].
    - apply bpath_inv in H as [[_ ->]|(p' & b0 & E & _)].
      + exists []; auto.
      + destruct p'; discriminate.
    - destruct IH as [q' E]; [discriminate|]. rewrite E. exists (q' ++ [b]); auto.
  Qed.

  Lemma bpath_has_succ a q z : bpath c a q z -> forall x, In x q -> exists y, In y (succs (blk c x)).
  Proof.
    induction 1 as [|a p b b' H IH Hs]; intros x Hx; [destruct Hx|].
    apply in_app_or in Hx as [Hx|[<-|[]]]; eauto.
  Qed.

  Lemma bpath_lt a p b : wf_cfg c = true -> a < length c -> bpath c a p b -> b < length c.
  Proof. intros W Ha H; induction H; auto. eapply wf_succ_lt; eauto. Qed.

  Lemma epath_lt p b : wf_cfg c = true -> c <> [] -> epath c p b -> b < length c.
  Proof. intros W Hc H. eapply bpath_lt; eauto. destruct c; simpl; [congruence | lia]. Qed.
End Paths.

(** ** generic facts about [exec] *)
Section Exec.
  Variable step : iid -> ikind -> stack -> stack.

  Lemma path_exec_snoc c p b : path_exec step c (p ++ [b]) = block_exec step c b (path_exec step c p).
  Proof. unfold path_exec; rewrite fold_left_app; auto. Qed.

  Lemma path_exec_app c p q :
    path_exec step c (p ++ q) = fold_left (fun s b => block_exec step c b s) q (path_exec step c p).
  Proof. unfold path_exec; rewrite fold_left_app; auto. Qed.
End Exec.

(** ** the abstract semantics *)
Lemma NoDup_snoc {A} (l : list A) x : NoDup l -> ~ In x l -> NoDup (l ++ [x]).
Proof.
  induction l as [|y l IH]; simpl; intros H Hx.
  - constructor; auto.
  - inversion H; subst. constructor.
    + intros Hi; apply in_app_or in Hi as [Hi|[Hi|[]]]; auto.
    + apply IH; auto.
Qed.

Lemma push_defer_In d s x : In x (push_defer d s) <-> In x s \/ x = d.
Proof.
  unfold push_defer. destruct (stack_mem d s) eqn:E.
  - apply stack_mem_In in E. split; auto. intros [H| ->]; auto.
  - rewrite in_app_iff; simpl; intuition.
Qed.

Lemma push_defer_NoDup d s : NoDup s -> NoDup (push_defer d s).
Proof.
  intros H; unfold push_defer. destruct (stack_mem d s) eqn:E; auto.
  apply NoDup_snoc; auto. intros Hi; apply stack_mem_In in Hi; congruence.
Qed.

Lemma abs_elems b j ks s d :
  In d (exec step_abs b j ks s) -> In d s \/ exists k, d = (b, j + k) /\ nth_error ks k = Some KDefer.
Proof.
  revert j s; induction ks as [|k0 ks IH]; intros j s H; simpl in H; auto.
  apply IH in H as [H|(k & -> & Hk)].
  - destruct k0; simpl in H; auto.
    + apply push_defer_In in H as [H| ->]; auto. right; exists 0; split; auto.
    + destruct H.
  - right; exists (S k); split; auto. f_equal; lia.
Qed.

Lemma abs_NoDup b j ks s : NoDup s -> NoDup (exec step_abs b j ks s).
Proof.
  revert j s; induction ks as [|k0 ks IH]; intros j s H; simpl; auto.
  apply IH. destruct k0; simpl; auto using push_defer_NoDup. constructor.
Qed.

Lemma abs_preserve b j ks s d : no_run ks -> In d s -> In d (exec step_abs b j ks s).
Proof.
  revert j s; induction ks as [|k0 ks IH]; intros j s N H; simpl; auto.
  apply IH. { intros k Hk; apply N; right; auto. }
  destruct k0; simpl; auto.
  - apply push_defer_In; auto.
  - exfalso; apply (N KRunDefers); [left|]; auto.
Qed.

Lemma abs_push b j ks s k : no_run ks -> nth_error ks k = Some KDefer -> In (b, j + k) (exec step_abs b j ks s).
Proof.
  revert j s k; induction ks as [|k0 ks IH]; intros j s [|k] N H; simpl in H; try discriminate.
  - inversion H; subst. simpl. apply abs_preserve. { intros k Hk; apply N; right; auto. }
    apply push_defer_In; right; f_equal; lia.
  - simpl. replace (j + S k) with (S j + k) by lia. apply IH; auto. intros k' Hk; apply N; right; auto.
Qed.

(** agreement of the abstract and the concrete semantics when no defer is ever pushed twice *)
Lemma exec_agree b j ks s :
  (forall k, nth_error ks k = Some KDefer -> ~ In (b, j + k) (exec step_abs b j (firstn k ks) s)) ->
  exec step_abs b j ks s = exec step_real b j ks s.
Proof.
  revert j s; induction ks as [|k0 ks IH]; intros j s H; simpl; auto.
  assert (E : step_abs (b, j) k0 s = step_real (b, j) k0 s).
  { destruct k0; simpl; auto. apply push_defer_notin.
    specialize (H 0 eq_refl). simpl in H. rewrite Nat.add_0_r in H; auto. }
  rewrite <- E. apply IH. intros k Hk.
  specialize (H (S k) Hk). simpl in H. replace (S j + k) with (j + S k) by lia; auto.
Qed.

Section AbsPaths.
  Variable c : cfg.
  Definition apath (p : list nat) : stack := path_exec step_abs c p.
  Definition aat (r : iid) (s : stack) : stack := at_exec step_abs c r s.

  Lemma apath_elems p d : In d (apath p) -> In (fst d) p /\ is_defer c d.
  Proof.
    revert d; induction p as [|b p IH] using rev_ind; intros d H.
    - destruct H.
    - unfold apath in H; rewrite path_exec_snoc in H. apply abs_elems in H as [H|(k & -> & Hk)].
      + apply IH in H as [H1 H2]; split; auto. apply in_or_app; auto.
      + split; [apply in_or_app; right; left; auto | exact Hk].
  Qed.

  Lemma apath_NoDup p : NoDup (apath p).
  Proof.
    induction p as [|b p IH] using rev_ind; [constructor|].
    unfold apath; rewrite path_exec_snoc. apply abs_NoDup; auto.
  Qed.

  Lemma aat_self_in b j s : In (b, j) (aat (b, j) s) -> In (b, j) s.
  Proof.
    unfold aat, at_exec; simpl. intros H. apply abs_elems in H as [H|(k & E & Hk)]; auto.
    apply nth_error_firstn in Hk as [_ Hk]. inversion E; lia.
  Qed.

  Lemma aat_elems r s d : In d (aat r s) -> In d s \/ is_defer c d.
  Proof.
    unfold aat, at_exec. intros H. apply abs_elems in H as [H|(k & -> & Hk)]; auto.
    right. apply nth_error_firstn in Hk as [Hk _]. exact Hk.
  Qed.

  Lemma aat_NoDup r s : NoDup s -> NoDup (aat r s).
  Proof. apply abs_NoDup. Qed.
End AbsPaths.
