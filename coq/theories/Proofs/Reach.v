(** * Proofs about the reachability model (C18) *)
From Coq Require Import List PArith Bool Arith Lia FMapPositive.
From Argot Require Import Model.Reach.
Import ListNotations.

(** ** finite sets of positives *)

Lemma pmem_padd_same : forall x s, pmem x (padd x s) = true.
Proof. intros; unfold pmem, padd. rewrite PM.gss. reflexivity. Qed.

Lemma pmem_padd_other : forall x y s, x <> y -> pmem x (padd y s) = pmem x s.
Proof. intros; unfold pmem, padd. rewrite PM.gso by assumption. reflexivity. Qed.

Lemma pmem_pempty : forall x, pmem x pempty = false.
Proof. intros; unfold pmem, pempty. rewrite PM.gempty. reflexivity. Qed.

Lemma pmem_padd : forall x y s, pmem x (padd y s) = true <-> x = y \/ pmem x s = true.
Proof.
  intros. destruct (Pos.eq_dec x y) as [->|N].
  - rewrite pmem_padd_same. tauto.
  - rewrite pmem_padd_other by assumption. split; [tauto|]. intros [E|H]; [contradiction|assumption].
Qed.

Lemma pset_of_fold : forall l s x, pmem x (fold_left (fun s x => padd x s) l s) = true <-> In x l \/ pmem x s = true.
Proof.
  induction l as [|y l IH]; simpl; intros.
  - tauto.
  - rewrite IH, pmem_padd. split; intros [H|H]; auto; destruct H; auto.
Qed.

Lemma pmem_pset_of : forall l x, pmem x (pset_of l) = true <-> In x l.
Proof.
  intros. unfold pset_of. rewrite pset_of_fold, pmem_pempty. split; [intros [H|H]; [assumption|discriminate]|auto].
Qed.

Lemma lmem_In : forall x l, lmem x l = true <-> In x l.
Proof.
  induction l as [|y l IH]; simpl.
  - split; [discriminate|tauto].
  - destruct (Pos.eqb_spec x y) as [->|N].
    + split; auto.
    + rewrite IH. split; [auto|]. intros [E|H]; [congruence|assumption].
Qed.

Lemma flat_map_nil : forall (A B : Type) (f : A -> list B) l, flat_map f l = [] -> forall x, In x l -> f x = [].
Proof.
  induction l as [|y l IH]; simpl; intros H x Hx; [contradiction|].
  apply app_eq_nil in H. destruct H as [H1 H2]. destruct Hx as [->|Hx]; auto.
Qed.

(** ** The generic closure *)

Section ClosureProofs.
  Variable succ : positive -> list positive.

  Definition inv_seen (seen : pset) (out : list positive) : Prop :=
    forall x, pmem x seen = true <-> In x out.

  Lemma push_new_spec : forall xs seen wl out seen' wl' out',
      inv_seen seen out ->
      push_new xs seen wl out = (seen', wl', out') ->
      exists news,
        wl' = news ++ wl /\ out' = news ++ out /\ inv_seen seen' out'
        /\ (forall x, In x news -> In x xs /\ ~ In x out)
        /\ (forall x, In x xs -> In x out')
        /\ (NoDup out -> NoDup out').
  Proof.
    induction xs as [|x xs IH]; simpl; intros seen wl out seen' wl' out' Hinv H.
    - inversion H; subst. exists []. simpl.
      split; [reflexivity|]. split; [reflexivity|]. split; [assumption|].
      split; [intros ? []|]. split; [intros ? []|]. auto.
    - destruct (pmem x seen) eqn:Hm.
      + destruct (IH _ _ _ _ _ _ Hinv H) as (news & -> & -> & Hi & Hn & Hx & Hd).
        exists news.
        split; [reflexivity|]. split; [reflexivity|]. split; [assumption|].
        split; [|split; [|assumption]].
        * intros y Hy. destruct (Hn y Hy). auto.
        * intros y [->|Hy]; auto. apply in_or_app. right. apply Hinv. assumption.
      + assert (Hnot : ~ In x out) by (intro Hc; apply Hinv in Hc; congruence).
        assert (Hinv' : inv_seen (padd x seen) (x :: out)).
        { intro y. rewrite pmem_padd. simpl. rewrite (Hinv y). split; intros [E|E]; auto. }
        destruct (IH _ _ _ _ _ _ Hinv' H) as (news & -> & -> & Hi & Hn & Hx & Hd).
        exists (news ++ [x]). rewrite <- !app_assoc. simpl.
        split; [reflexivity|]. split; [reflexivity|]. split; [assumption|].
        split; [|split].
        * intros y Hy. apply in_app_or in Hy. destruct Hy as [Hy|[->|[]]]; auto.
          destruct (Hn y Hy) as [Ha Hb]. split; auto. intro Ho. apply Hb. right. assumption.
        * intros y [->|Hy]; auto. apply in_or_app. right. left. reflexivity.
        * intro Ho. apply Hd. constructor; assumption.
  Qed.

  (** loop invariant *)
  Definition Inv (seen : pset) (wl out : list positive) : Prop :=
    inv_seen seen out /\ NoDup out /\ incl wl out
    /\ (forall x, In x out -> In x wl \/ incl (succ x) out).

  Lemma Inv_step : forall seen x wl out seen' wl' out',
      Inv seen (x :: wl) out ->
      push_new (succ x) seen wl out = (seen', wl', out') ->
      Inv seen' wl' out' /\ incl out out'
      /\ (forall y, In y out' -> In y out \/ In y (succ x))
      /\ length wl' + length out = length wl + length out'.
  Proof.
    intros seen x wl out seen' wl' out' (Hs & Hd & Hw & Hc) H.
    destruct (push_new_spec _ _ _ _ _ _ _ Hs H) as (news & -> & -> & Hi & Hn & Hx & Hdd).
    split; [|split; [|split]].
    - split; [assumption|]. split; [auto|]. split.
      + intros y Hy. apply in_app_or in Hy. apply in_or_app. destruct Hy; auto. right. apply Hw. right. assumption.
      + intros y Hy. apply in_app_or in Hy. destruct Hy as [Hy|Hy].
        * left. apply in_or_app. auto.
        * destruct (Hc y Hy) as [[->|Hy']|Hy'].
          -- right. intros z Hz. apply Hx. assumption.
          -- left. apply in_or_app. auto.
          -- right. intros z Hz. apply in_or_app. right. apply Hy'. assumption.
    - intros y Hy. apply in_or_app. auto.
    - intros y Hy. apply in_app_or in Hy. destruct Hy as [Hy|Hy]; auto. right. apply Hn. assumption.
    - rewrite !app_length. lia.
  Qed.

  Lemma loop_spec : forall fuel seen wl out res,
      Inv seen wl out ->
      loop succ fuel seen wl out = Done res ->
      incl out res /\ NoDup res /\ (forall x, In x res -> incl (succ x) res)
      /\ (forall S : positive -> Prop,
             (forall x, In x out -> S x) -> (forall x y, S x -> In y (succ x) -> S y) -> forall x, In x res -> S x).
  Proof.
    induction fuel as [|n IH]; intros seen wl out res HI H; destruct wl as [|x wl]; simpl in H; try discriminate.
    - inversion H; subst. destruct HI as (_ & Hd & _ & Hc).
      repeat split; auto using incl_refl.
      intros x Hx. destruct (Hc x Hx) as [[]|]; assumption.
    - inversion H; subst. destruct HI as (_ & Hd & _ & Hc).
      repeat split; auto using incl_refl.
      intros x Hx. destruct (Hc x Hx) as [[]|]; assumption.
    - destruct (push_new (succ x) seen wl out) as [[seen' wl'] out'] eqn:Hp.
      destruct (Inv_step _ _ _ _ _ _ _ HI Hp) as (HI' & Hinc & Hfrom & _).
      destruct (IH _ _ _ _ HI' H) as (H1 & H2 & H3 & H4).
      repeat split; auto.
      + eapply incl_tran; eassumption.
      + intros S HS Hstep y Hy. apply (H4 S); auto.
        intros z Hz. destruct (Hfrom z Hz) as [Hz'|Hz']; auto.
        apply (Hstep x); auto. apply HS. destruct HI as (_ & _ & Hw & _). apply Hw. left. reflexivity.
  Qed.

  Lemma Inv_init : forall roots s w o,
      push_new roots pempty [] [] = (s, w, o) ->
      Inv s w o /\ w = o /\ incl roots o /\ (forall x, In x o -> In x roots).
  Proof.
    intros roots s w o H.
    assert (H0 : inv_seen pempty []).
    { intro x. rewrite pmem_pempty. simpl. split; [discriminate|tauto]. }
    destruct (push_new_spec _ _ _ _ _ _ _ H0 H) as (news & -> & -> & Hi & Hn & Hx & Hd).
    rewrite !app_nil_r in *.
    split; [|split; [reflexivity|split]].
    - split; [assumption|]. split; [apply Hd; constructor|]. split; [apply incl_refl|].
      intros x Hx'. left. assumption.
    - intros x Hx'. apply Hx. assumption.
    - intros x Hx'. apply Hn. assumption.
  Qed.

  (** reachability from the roots along [succ], as a relation *)
  Inductive Reachable (roots : list positive) : positive -> Prop :=
  | Reach_root : forall x, In x roots -> Reachable roots x
  | Reach_step : forall x y, Reachable roots x -> In y (succ x) -> Reachable roots y.

  Theorem reach_roots : forall roots fuel res, reach succ roots fuel = Done res -> incl roots res.
  Proof.
    unfold reach; intros roots fuel res H.
    destruct (push_new roots pempty [] []) as [[s w] o] eqn:Hp.
    destruct (Inv_init _ _ _ _ Hp) as (HI & _ & Hr & _).
    destruct (loop_spec _ _ _ _ _ HI H) as (H1 & _). eapply incl_tran; eassumption.
  Qed.

  Theorem reach_closed : forall roots fuel res,
      reach succ roots fuel = Done res -> forall x, In x res -> incl (succ x) res.
  Proof.
    unfold reach; intros roots fuel res H.
    destruct (push_new roots pempty [] []) as [[s w] o] eqn:Hp.
    destruct (Inv_init _ _ _ _ Hp) as (HI & _).
    destruct (loop_spec _ _ _ _ _ HI H) as (_ & _ & H3 & _). assumption.
  Qed.

  Theorem reach_nodup : forall roots fuel res, reach succ roots fuel = Done res -> NoDup res.
  Proof.
    unfold reach; intros roots fuel res H.
    destruct (push_new roots pempty [] []) as [[s w] o] eqn:Hp.
    destruct (Inv_init _ _ _ _ Hp) as (HI & _).
    destruct (loop_spec _ _ _ _ _ HI H) as (_ & H2 & _). assumption.
  Qed.

  (** the result is the least set containing the roots and closed under [succ] *)
  Theorem reach_least : forall roots fuel res (S : positive -> Prop),
      reach succ roots fuel = Done res ->
      (forall x, In x roots -> S x) -> (forall x y, S x -> In y (succ x) -> S y) ->
      forall x, In x res -> S x.
  Proof.
    unfold reach; intros roots fuel res S H HS Hstep.
    destruct (push_new roots pempty [] []) as [[s w] o] eqn:Hp.
    destruct (Inv_init _ _ _ _ Hp) as (HI & _ & _ & Hfrom).
    destruct (loop_spec _ _ _ _ _ HI H) as (_ & _ & _ & H4).
    apply H4; auto.
  Qed.

  Theorem reach_exact : forall roots fuel res,
      reach succ roots fuel = Done res -> forall x, In x res <-> Reachable roots x.
  Proof.
    intros roots fuel res H x. split.
    - apply (reach_least _ _ _ (Reachable roots) H).
      + apply Reach_root.
      + intros; eapply Reach_step; eassumption.
    - induction 1.
      + eapply reach_roots; eassumption.
      + eapply reach_closed; eassumption.
  Qed.

  Theorem reach_subset : forall roots fuel res (U : list positive),
      reach succ roots fuel = Done res ->
      incl roots U -> (forall x, In x U -> incl (succ x) U) -> incl res U.
  Proof.
    intros roots fuel res U H Hr Hc x Hx.
    apply (reach_least _ _ _ (fun y => In y U) H); auto.
    intros y z Hy Hz. apply (Hc y); assumption.
  Qed.

  (** termination: fuel = size of any closed universe containing the roots is enough *)
  Lemma loop_terminates : forall (U : list positive) fuel seen wl out,
      (forall x, In x U -> incl (succ x) U) ->
      Inv seen wl out -> incl out U ->
      length wl + length U <= fuel + length out ->
      exists res, loop succ fuel seen wl out = Done res.
  Proof.
    intros U. induction fuel as [|n IH]; intros seen wl out HU HI Ho Hlen; destruct wl as [|x wl]; simpl.
    - eexists; reflexivity.
    - exfalso. destruct HI as (_ & Hd & _ & _).
      pose proof (NoDup_incl_length Hd Ho). simpl in Hlen. lia.
    - eexists; reflexivity.
    - destruct (push_new (succ x) seen wl out) as [[seen' wl'] out'] eqn:Hp.
      destruct (Inv_step _ _ _ _ _ _ _ HI Hp) as (HI' & Hinc & Hfrom & Hl).
      apply IH; auto.
      + intros y Hy. destruct (Hfrom y Hy) as [Hy'|Hy']; auto.
        apply (HU x); auto. apply Ho. destruct HI as (_ & _ & Hw & _). apply Hw. left. reflexivity.
      + simpl in Hlen. lia.
  Qed.

  Theorem reach_terminates : forall roots (U : list positive) fuel,
      incl roots U -> (forall x, In x U -> incl (succ x) U) -> length U <= fuel ->
      exists res, reach succ roots fuel = Done res.
  Proof.
    unfold reach; intros roots U fuel Hr HU Hlen.
    destruct (push_new roots pempty [] []) as [[s w] o] eqn:Hp.
    destruct (Inv_init _ _ _ _ Hp) as (HI & -> & _ & Hfrom).
    apply (loop_terminates U); auto.
    - intros x Hx. apply Hr. apply Hfrom. assumption.
    - lia.
  Qed.

  (** more fuel does not change a finished run *)
  Lemma loop_fuel_mono : forall n seen wl out res,
      loop succ n seen wl out = Done res -> forall m, n <= m -> loop succ m seen wl out = Done res.
  Proof.
    induction n as [|n IH]; intros seen wl out res H m Hm; destruct wl as [|x wl]; simpl in H; try discriminate.
    - destruct m; simpl; assumption.
    - destruct m; simpl; assumption.
    - destruct m as [|m]; [lia|]. simpl.
      destruct (push_new (succ x) seen wl out) as [[seen' wl'] out']. apply IH; [assumption|lia].
  Qed.

  Theorem reach_fuel_mono : forall roots n m res,
      reach succ roots n = Done res -> n <= m -> reach succ roots m = Done res.
  Proof.
    unfold reach; intros roots n m res H Hm.
    destruct (push_new roots pempty [] []) as [[s w] o]. eapply loop_fuel_mono; eassumption.
  Qed.

  (** fewer roots, smaller result *)
  Theorem reach_mono_roots : forall r1 r2 f1 f2 o1 o2,
      incl r1 r2 -> reach succ r1 f1 = Done o1 -> reach succ r2 f2 = Done o2 -> incl o1 o2.
  Proof.
    intros r1 r2 f1 f2 o1 o2 Hr H1 H2 x Hx.
    apply (reach_least _ _ _ (fun y => In y o2) H1); auto.
    - intros y Hy. eapply reach_roots; eauto.
    - intros y z Hy Hz. eapply reach_closed; eauto.
  Qed.
End ClosureProofs.

(** ** The program level *)

Lemma index_find_acc : forall (P : program) (acc : PM.t func) f fn,
    PM.find f (fold_left (fun m fn => PM.add (f_id fn) fn m) P acc) = Some fn ->
    (In fn P /\ f_id fn = f) \/ PM.find f acc = Some fn.
Proof.
  induction P as [|g P IH]; simpl; intros acc f fn H; auto.
  destruct (IH _ _ _ H) as [[Hin He]|Hacc]; auto.
  destruct (Pos.eq_dec f (f_id g)) as [->|N].
  - rewrite PM.gss in Hacc. inversion Hacc; subst. auto.
  - rewrite PM.gso in Hacc by assumption. auto.
Qed.

Lemma index_find : forall P f fn, PM.find f (index P) = Some fn -> In fn P /\ f_id fn = f.
Proof.
  intros P f fn H. destruct (index_find_acc _ _ _ _ H) as [?|H0]; auto.
  rewrite PM.gempty in H0. discriminate.
Qed.

Lemma ops_at_incl : forall ops ks, incl (ops_at ops ks) (all_ops ops).
Proof.
  intros ops ks v Hv. unfold ops_at in Hv. unfold all_ops. apply in_flat_map in Hv. apply in_flat_map.
  destruct Hv as (kv & Hkv & Hv). exists kv. split; auto. destruct (lmem (fst kv) ks); [assumption|contradiction].
Qed.

Lemma ops_at_in : forall ops ks k vs v, In (k, vs) ops -> lmem k ks = true -> In v vs -> In v (ops_at ops ks).
Proof.
  intros. unfold ops_at. apply in_flat_map. exists (k, vs). simpl. rewrite H0. auto.
Qed.

Lemma ops_at_inv : forall ops ks v, In v (ops_at ops ks) -> exists k vs, In (k, vs) ops /\ lmem k ks = true /\ In v vs.
Proof.
  intros ops ks v Hv. unfold ops_at in Hv. apply in_flat_map in Hv. destruct Hv as ([k vs] & Hkv & Hv). simpl in Hv.
  destruct (lmem k ks) eqn:E; [|contradiction]. eauto.
Qed.

Lemma fns_of_in : forall fn vs v f, In v vs -> fn_of fn v = Some f -> In f (fns_of fn vs).
Proof.
  intros. unfold fns_of. apply in_flat_map. exists v. split; auto. rewrite H0. left. reflexivity.
Qed.

Lemma fns_of_inv : forall fn vs f, In f (fns_of fn vs) -> exists v, In v vs /\ fn_of fn v = Some f.
Proof.
  intros fn vs f H. unfold fns_of in H. apply in_flat_map in H. destruct H as (v & Hv & Hf).
  destruct (fn_of fn v) eqn:E; [|contradiction]. destruct Hf as [->|[]]. eauto.
Qed.

Lemma fn_of_in_refs : forall fn v f, fn_of fn v = Some f -> In f (refs_of fn).
Proof.
  intros fn v f H. unfold fn_of in H. destruct (PM.find v (f_vals fn)) as [vl|] eqn:E; [|discriminate].
  unfold refs_of. apply in_or_app. left. apply in_flat_map. exists (v, vl). split.
  - apply PM.elements_correct. assumption.
  - simpl. rewrite H. left. reflexivity.
Qed.

Section ProgramProofs.
  Variable T : tables.

  (** *** the value visitor always terminates within its fuel and contains its roots *)
  Lemma visited_done : forall fn, exists o, reach (vsucc T fn) (vroots T fn) (vfuel fn) = Done o.
  Proof.
    intro fn. apply (reach_terminates _ _ (mentioned fn)).
    - intros v Hv. unfold vroots in Hv. apply in_flat_map in Hv. destruct Hv as (i & Hi & Hv).
      unfold mentioned. apply in_or_app. left. apply in_flat_map. exists i. split; auto.
      eapply ops_at_incl; eassumption.
    - intros x _ v Hv. unfold vsucc in Hv. destruct (PM.find x (f_vals fn)) as [vl|] eqn:E; [|contradiction].
      unfold mentioned. apply in_or_app. right. apply in_flat_map. exists (x, vl). split.
      + apply PM.elements_correct. assumption.
      + simpl. right. eapply ops_at_incl; eassumption.
    - unfold vfuel. lia.
  Qed.

  Lemma visited_roots : forall fn, incl (vroots T fn) (visited T fn).
  Proof.
    intro fn. unfold visited. destruct (visited_done fn) as [o Ho]. rewrite Ho. eapply reach_roots; eassumption.
  Qed.

  Lemma visited_closed : forall fn v, In v (visited T fn) -> incl (vsucc T fn v) (visited T fn).
  Proof.
    intros fn v. unfold visited. destruct (visited_done fn) as [o Ho]. rewrite Ho. eapply reach_closed; eassumption.
  Qed.

  (** a function constant in a visited operand field of an instruction is a callee *)
  Lemma operand_callee : forall idx g fn i k vs v f,
      PM.find g idx = Some fn -> In i (f_instrs fn) -> In (k, vs) (i_ops i) -> In v vs ->
      lmem k (lookup (t_instr T) (i_ty i)) = true -> fn_of fn v = Some f ->
      In f (find_callees T idx g).
  Proof.
    intros idx g fn i k vs v f Hg Hi Hk Hv Hl Hf. unfold find_callees. rewrite Hg.
    apply in_or_app. right. unfold addr_taken. eapply fns_of_in; [|eassumption].
    apply visited_roots. unfold vroots. apply in_flat_map. exists i. split; auto.
    eapply ops_at_in; eassumption.
  Qed.

  Lemma iface_callee : forall idx g fn i f,
      PM.find g idx = Some fn -> In i (f_instrs fn) -> has_feat T i (ft_iface T) = true ->
      In f (needed_methods i) -> In f (find_callees T idx g).
  Proof.
    intros idx g fn i f Hg Hi Hh Hf. unfold find_callees. rewrite Hg.
    apply in_or_app. left. apply in_flat_map. exists i. split; auto.
    apply in_or_app. right. unfold iface_callees. rewrite Hh. assumption.
  Qed.

  (** every callee is referenced by the function's dump *)
  Lemma callees_in_refs : forall idx g fn f,
      PM.find g idx = Some fn -> In f (find_callees T idx g) -> In f (refs_of fn).
  Proof.
    intros idx g fn f Hg H. unfold find_callees in H. rewrite Hg in H. apply in_app_or in H. destruct H as [H|H].
    - apply in_flat_map in H. destruct H as (i & Hi & H). apply in_app_or in H. destruct H as [H|H].
      + unfold static_callees in H. destruct (i_invoke i); [contradiction|].
        apply in_flat_map in H. destruct H as (v & Hv & H).
        destruct (PM.find v (f_vals fn)) as [vl|] eqn:E; [|contradiction].
        apply in_app_or in H. destruct H as [H|H].
        * destruct (has_feat T i (ft_static T)); [|contradiction].
          destruct (v_fn vl) eqn:Ef; [|contradiction]. destruct H as [->|[]].
          apply (fn_of_in_refs fn v). unfold fn_of. rewrite E. assumption.
        * destruct (has_feat T i (ft_closure T) && Pos.eqb (v_ty vl) (ty_makeclosure T)); [|contradiction].
          apply fns_of_inv in H. destruct H as (w & _ & Hw). eapply fn_of_in_refs; eassumption.
      + unfold iface_callees in H. destruct (has_feat T i (ft_iface T)); [|contradiction].
        unfold refs_of. apply in_or_app. right. apply in_flat_map. exists i. split; auto.
        unfold needed_methods in H. destruct (i_names i).
        * assumption.
        * apply in_map_iff in H. destruct H as (mf & <- & Hmf). apply filter_In in Hmf. apply in_map. tauto.
    - unfold addr_taken in H. apply fns_of_inv in H. destruct H as (v & _ & Hv). eapply fn_of_in_refs; eassumption.
  Qed.

  Lemma callees_closed_all : forall P,
      wf_refs P = true -> forall g, incl (find_callees T (index P) g) (map f_id P).
  Proof.
    intros P Hwf g f Hf.
    destruct (PM.find g (index P)) as [fn|] eqn:Hg.
    - pose proof (callees_in_refs _ _ _ _ Hg Hf) as Hr.
      destruct (index_find _ _ _ Hg) as [Hin _].
      unfold wf_refs in Hwf. rewrite forallb_forall in Hwf. specialize (Hwf fn Hin).
      rewrite forallb_forall in Hwf. specialize (Hwf f Hr).
      destruct (PM.find f (index P)) as [fn'|] eqn:Hf'; [|discriminate].
      destruct (index_find _ _ _ Hf') as [Hin' <-]. apply in_map. assumption.
    - unfold find_callees in Hf. rewrite Hg in Hf. contradiction.
  Qed.

  Lemma roots_in_all : forall s P, incl (roots s P) (map f_id P).
  Proof.
    intros s P f Hf. unfold roots in Hf. apply in_map_iff in Hf. destruct Hf as (fn & <- & Hfn).
    apply filter_In in Hfn. apply in_map. tauto.
  Qed.

  (** *** reported set is contained in the set of all functions *)
  Theorem reach_prog_subset_all : forall P s fuel out,
      wf_refs P = true -> reach_prog T P s fuel = Done out -> incl out (map f_id P).
  Proof.
    intros P s fuel out Hwf H. unfold reach_prog in H.
    eapply reach_subset; [eassumption|apply roots_in_all|].
    intros x _. apply callees_closed_all. assumption.
  Qed.

  (** *** termination with a fuel bound from the number of functions *)
  Theorem reach_prog_terminates : forall P s,
      wf_refs P = true -> exists out, reach_prog T P s (prog_fuel P) = Done out.
  Proof.
    intros P s Hwf. unfold reach_prog. apply (reach_terminates _ _ (map f_id P)).
    - apply roots_in_all.
    - intros x _. apply callees_closed_all. assumption.
    - rewrite map_length. unfold prog_fuel. lia.
  Qed.

  (** *** the root selections: excluding more roots shrinks the result *)
  Definition sel_le (s1 s2 : sel) : Prop :=
    (nomain s1 = true -> nomain s2 = true) /\ (noinit s1 = true -> noinit s2 = true).

  Lemma roots_mono : forall s1 s2 P, sel_le s1 s2 -> incl (roots s2 P) (roots s1 P).
  Proof.
    intros s1 s2 P [Hm Hi] f Hf. unfold roots in *. apply in_map_iff in Hf. destruct Hf as (fn & <- & Hfn).
    apply filter_In in Hfn. destruct Hfn as [Hin Hr]. apply in_map. apply filter_In. split; auto.
    unfold is_root in *. destruct (nomain s1), (nomain s2), (noinit s1), (noinit s2), (f_main fn), (f_init fn);
      simpl in *; auto; try (specialize (Hm eq_refl)); try (specialize (Hi eq_refl)); discriminate.
  Qed.

  Theorem reach_prog_mono_sel : forall P s1 s2 f1 f2 o1 o2,
      sel_le s1 s2 -> reach_prog T P s1 f1 = Done o1 -> reach_prog T P s2 f2 = Done o2 -> incl o2 o1.
  Proof.
    intros P s1 s2 f1 f2 o1 o2 Hle H1 H2. unfold reach_prog in *.
    eapply reach_mono_roots; [|eassumption|eassumption]. apply roots_mono. assumption.
  Qed.
End ProgramProofs.

(** ** Abstract execution model and soundness

    "A function can only be entered via a function value that was an operand of an executed instruction, or a method
    made available by an executed MakeInterface": [executed] over-approximates the functions entered in any run of a
    program without reflection/cgo.
    - [ex_root]: the run starts in the roots (main.main, the initializer of main);
    - [ex_operand]: a [*ssa.Function] constant occurring as an operand (any field: callee, argument, stored value,
      closure function, ...) of an instruction of an executed function may be called at any later time;
    - [ex_method]: when an executed function converts a value to an interface, the methods of its type that the
      interface declares (all of them for the empty interface, through which reflection-free code can still assert to
      anything) may be invoked;
    - [ex_assert]: ... and so may a method whose name belongs to an interface that an executed function asserts an
      interface value to (interface-to-interface assertion widens the static method set). *)
Section Exec.
  Variable T : tables.
  Variable idx : PM.t func.
  Variable rts : list positive.

  Inductive executed : positive -> Prop :=
  | ex_root : forall f, In f rts -> executed f
  | ex_operand : forall g fn i k vs v f,
      executed g -> PM.find g idx = Some fn -> In i (f_instrs fn) ->
      In (k, vs) (i_ops i) -> In v vs -> fn_of fn v = Some f -> executed f
  | ex_method : forall g fn i m f,
      executed g -> PM.find g idx = Some fn -> In i (f_instrs fn) -> is_makeiface T i = true ->
      In (m, f) (i_meths i) -> (i_names i = [] \/ lmem m (i_names i) = true) -> executed f
  | ex_assert : forall g fn i m f h fh j,
      executed g -> PM.find g idx = Some fn -> In i (f_instrs fn) -> is_makeiface T i = true ->
      In (m, f) (i_meths i) ->
      executed h -> PM.find h idx = Some fh -> In j (f_instrs fh) -> is_typeassert T j = true ->
      In (m, f) (i_meths j) -> In m (i_names j) ->
      executed f.

  Lemma assert_methods_in : forall j m f,
      is_typeassert T j = true -> In (m, f) (i_meths j) -> In m (i_names j) -> In f (assert_methods T j).
  Proof.
    intros j m f Hj Hmf Hm. unfold assert_methods. rewrite Hj.
    destruct (i_names j) as [|n ns] eqn:En; [contradiction|].
    apply in_map_iff. exists (m, f). split; [reflexivity|]. apply filter_In. split; [assumption|].
    simpl fst. apply lmem_In. assumption.
  Qed.

  Lemma assert_fns_in : forall out h fh j m f,
      In h out -> PM.find h idx = Some fh -> In j (f_instrs fh) -> is_typeassert T j = true ->
      In (m, f) (i_meths j) -> In m (i_names j) -> In f (assert_fns T idx out).
  Proof.
    intros out h fh j m f Hh Hf Hj Hta Hmf Hm. unfold assert_fns. apply in_flat_map. exists h. split; [assumption|].
    rewrite Hf. apply in_flat_map. exists j. split; [assumption|]. eapply assert_methods_in; eassumption.
  Qed.

  Lemma cert_parts : forall out,
      check_cert T idx rts out = true ->
      (forall r, In r rts -> In r out)
      /\ (forall g fn i, In g out -> PM.find g idx = Some fn -> In i (f_instrs fn) ->
            instr_gaps T (pset_of out) (pset_of (assert_fns T idx out)) g fn i = []).
  Proof.
    intros out H. unfold check_cert in H. destruct (cert_gaps T idx rts out) eqn:E; [|discriminate].
    unfold cert_gaps in E. apply app_eq_nil in E. destruct E as [E1 E2]. split.
    - intros r Hr. pose proof (flat_map_nil _ _ _ _ E1 r Hr) as Hn. simpl in Hn.
      destruct (pmem r (pset_of out)) eqn:Em; [|discriminate]. apply pmem_pset_of. assumption.
    - intros g fn i Hg Hf Hi. pose proof (flat_map_nil _ _ _ _ E2 g Hg) as Hn. simpl in Hn. rewrite Hf in Hn.
      apply (flat_map_nil _ _ _ _ Hn i Hi).
  Qed.

  (** the verified validator: a reported set that passes the certificate check contains every executed function *)
  Theorem cert_sound : forall out,
      check_cert T idx rts out = true -> forall f, executed f -> In f out.
  Proof.
    intros out Hc. destruct (cert_parts out Hc) as [Hr Hg]. induction 1.
    - auto.
    - specialize (Hg g fn i IHexecuted H0 H1). unfold instr_gaps in Hg. apply app_eq_nil in Hg. destruct Hg as [Hg _].
      pose proof (flat_map_nil _ _ _ _ Hg (k, vs) H2) as Hn. simpl in Hn.
      pose proof (flat_map_nil _ _ _ _ Hn v H3) as Hv. simpl in Hv. rewrite H4 in Hv.
      destruct (pmem f (pset_of out)) eqn:Em; [|discriminate]. apply pmem_pset_of. assumption.
    - specialize (Hg g fn i IHexecuted H0 H1). unfold instr_gaps in Hg. apply app_eq_nil in Hg. destruct Hg as [_ Hg].
      rewrite H2 in Hg. pose proof (flat_map_nil _ _ _ _ Hg (m, f) H3) as Hn. simpl in Hn.
      destruct (pmem f (pset_of out)) eqn:Em; [apply pmem_pset_of; assumption|].
      destruct H4 as [E|E].
      + rewrite E in Hn. discriminate.
      + revert Hn E. destruct (i_names i) as [|n ns]; intros Hn E; [discriminate|].
        change (if (m =? n)%positive then true else lmem m ns) with (lmem m (n :: ns)) in Hn.
        rewrite E in Hn. discriminate.
    - specialize (Hg g fn i IHexecuted1 H0 H1). unfold instr_gaps in Hg. apply app_eq_nil in Hg. destruct Hg as [_ Hg].
      rewrite H2 in Hg. pose proof (flat_map_nil _ _ _ _ Hg (m, f) H3) as Hn. simpl in Hn.
      destruct (pmem f (pset_of out)) eqn:Em; [apply pmem_pset_of; assumption|].
      assert (Ha : pmem f (pset_of (assert_fns T idx out)) = true).
      { apply pmem_pset_of. eapply assert_fns_in; eassumption. }
      revert Hn. destruct (i_names i) as [|n ns]; intro Hn; [discriminate|].
      change (if (m =? n)%positive then true else lmem m ns) with (lmem m (n :: ns)) in Hn.
      destruct (lmem m (n :: ns)); [discriminate|]. rewrite Ha in Hn. discriminate.
  Qed.
End Exec.

(** ** The analysis passes the certificate, up to the exempted operand fields and interface assertions *)
Section Sound.
  Variable T : tables.

  Lemma wf_ops_instr : forall P g fn i,
      wf_ops T P = true -> PM.find g (index P) = Some fn -> In i (f_instrs fn) -> wf_instr T fn i = true.
  Proof.
    intros P g fn i Hwf Hg Hi. destruct (index_find _ _ _ Hg) as [Hin _].
    unfold wf_ops in Hwf. rewrite forallb_forall in Hwf. specialize (Hwf fn Hin).
    apply andb_true_iff in Hwf. destruct Hwf as [Hwf _]. rewrite forallb_forall in Hwf. auto.
  Qed.

  Lemma pair_mem_In : forall ty k l, pair_mem ty k l = true <-> In (ty, k) l.
  Proof.
    intros ty k l. unfold pair_mem. rewrite existsb_exists. split.
    - intros ([a b] & Hin & H). simpl in H. apply andb_true_iff in H. destruct H as [H1 H2].
      apply Pos.eqb_eq in H1. apply Pos.eqb_eq in H2. subst. assumption.
    - intro H. exists (ty, k). split; auto. simpl. rewrite !Pos.eqb_refl. reflexivity.
  Qed.

  (** a function constant sitting in an operand field that is not exempted is found by the visitor *)
  Lemma covered_field_visited : forall except P g fn i k vs v f,
      operand_cover_except T except = true -> wf_ops T P = true ->
      PM.find g (index P) = Some fn -> In i (f_instrs fn) -> In (k, vs) (i_ops i) -> In v vs -> fn_of fn v = Some f ->
      pair_mem (i_ty i) k except = false ->
      lmem k (lookup (t_instr T) (i_ty i)) = true.
  Proof.
    intros except P g fn i k vs v f Hcov Hwf Hg Hi Hk Hv Hf Hex.
    pose proof (wf_ops_instr _ _ _ _ Hwf Hg Hi) as Hwi. unfold wf_instr in Hwi.
    apply andb_true_iff in Hwi. destruct Hwi as [Hty Hflds].
    rewrite forallb_forall in Hflds. specialize (Hflds (k, vs) Hk). simpl in Hflds.
    apply andb_true_iff in Hflds. destruct Hflds as [Hsch Hnf].
    assert (Hnon : is_nonfun T (i_ty i) k = false).
    { destruct (is_nonfun T (i_ty i) k) eqn:E; [|reflexivity]. simpl in Hnf.
      rewrite forallb_forall in Hnf. specialize (Hnf v Hv). rewrite Hf in Hnf. discriminate. }
    destruct (lmem k (lookup (t_instr T) (i_ty i))) eqn:El; [reflexivity|exfalso].
    unfold operand_cover_except in Hcov. apply andb_true_iff in Hcov. destruct Hcov as [Hcov _].
    rewrite forallb_forall in Hcov.
    assert (Hu : In (i_ty i, k) (uncovered T)).
    { unfold uncovered. apply in_flat_map. exists (i_ty i). split; [apply lmem_In; assumption|].
      apply in_flat_map. exists k. split; [apply lmem_In; assumption|]. rewrite Hnon, El. simpl. left. reflexivity. }
    specialize (Hcov _ Hu). simpl in Hcov. congruence.
  Qed.

  Theorem reach_gaps_excused : forall except P s fuel out,
      operand_cover_except T except = true -> wf_ops T P = true ->
      reach_prog T P s fuel = Done out ->
      forall g, In g (cert_gaps T (index P) (roots s P) out) -> gap_excused except (negb (assert_case T)) g = true.
  Proof.
    intros except P s fuel out Hcov Hwf Hreach gp Hgp.
    pose proof (reach_roots _ _ _ _ Hreach) as Hroots.
    pose proof (reach_closed _ _ _ _ Hreach) as Hclosed.
    unfold cert_gaps in Hgp. apply in_app_or in Hgp. destruct Hgp as [Hgp|Hgp].
    - apply in_flat_map in Hgp. destruct Hgp as (r & Hr & Hgp).
      destruct (pmem r (pset_of out)) eqn:E; [contradiction|].
      exfalso. apply Hroots in Hr. apply pmem_pset_of in Hr. congruence.
    - apply in_flat_map in Hgp. destruct Hgp as (g & Hg & Hgp).
      destruct (PM.find g (index P)) as [fn|] eqn:Hfn; [|contradiction].
      apply in_flat_map in Hgp. destruct Hgp as (i & Hi & Hgp).
      unfold instr_gaps in Hgp. apply in_app_or in Hgp. destruct Hgp as [Hgp|Hgp].
      + apply in_flat_map in Hgp. destruct Hgp as ([k vs] & Hk & Hgp). simpl in Hgp.
        apply in_flat_map in Hgp. destruct Hgp as (v & Hv & Hgp).
        destruct (fn_of fn v) as [f|] eqn:Hf; [|contradiction].
        destruct (pmem f (pset_of out)) eqn:Em; [contradiction|]. destruct Hgp as [<-|[]].
        unfold gap_excused. simpl.
        destruct (pair_mem (i_ty i) k except) eqn:Ex; [reflexivity|exfalso].
        pose proof (covered_field_visited _ _ _ _ _ _ _ _ _ Hcov Hwf Hfn Hi Hk Hv Hf Ex) as Hvis.
        pose proof (operand_callee T _ _ _ _ _ _ _ _ Hfn Hi Hk Hv Hvis Hf) as Hc.
        apply (Hclosed g Hg) in Hc. apply pmem_pset_of in Hc. congruence.
      + destruct (is_makeiface T i) eqn:Emi; [|contradiction].
        apply in_flat_map in Hgp. destruct Hgp as ([m f] & Hmf & Hgp). simpl in Hgp.
        destruct (pmem f (pset_of out)) eqn:Em; [contradiction|].
        assert (Hfeat : has_feat T i (ft_iface T) = true).
        { unfold operand_cover_except in Hcov. apply andb_true_iff in Hcov. destruct Hcov as [_ Hic].
          unfold iface_case in Hic. unfold has_feat. unfold is_makeiface in Emi. apply Pos.eqb_eq in Emi.
          rewrite Emi. assumption. }
        assert (Hneed : In f (needed_methods i) -> False).
        { intro Hn. pose proof (iface_callee T _ _ _ _ _ Hfn Hi Hfeat Hn) as Hc.
          apply (Hclosed g Hg) in Hc. apply pmem_pset_of in Hc. congruence. }
        revert Hgp. destruct (i_names i) as [|n ns] eqn:En; intro Hgp.
        * exfalso. apply Hneed. unfold needed_methods. rewrite En.
          apply in_map_iff. exists (m, f). auto.
        * change (if (m =? n)%positive then true else lmem m ns) with (lmem m (n :: ns)) in Hgp.
          destruct (lmem m (n :: ns)) eqn:El.
          -- exfalso. apply Hneed. unfold needed_methods. rewrite En.
             apply in_map_iff. exists (m, f). split; auto. apply filter_In. split; auto.
          -- destruct (pmem f (pset_of (assert_fns T (index P) out))) eqn:Ea; [|contradiction].
             destruct Hgp as [<-|[]]. unfold gap_excused. simpl.
             destruct (assert_case T) eqn:Eac; [exfalso|reflexivity].
             apply pmem_pset_of in Ea. unfold assert_fns in Ea. apply in_flat_map in Ea.
             destruct Ea as (h & Hh & Ea). destruct (PM.find h (index P)) as [fh|] eqn:Hfh; [|contradiction].
             apply in_flat_map in Ea. destruct Ea as (j & Hj & Ea).
             unfold assert_methods in Ea. destruct (is_typeassert T j) eqn:Eta; [|contradiction].
             assert (Hfj : has_feat T j (ft_iface T) = true).
             { unfold has_feat. unfold is_typeassert in Eta. apply Pos.eqb_eq in Eta. rewrite Eta. exact Eac. }
             assert (Hnj : In f (needed_methods j)).
             { unfold needed_methods. destruct (i_names j); [contradiction|assumption]. }
             pose proof (iface_callee T _ _ _ _ _ Hfh Hj Hfj Hnj) as Hc.
             apply (Hclosed h Hh) in Hc. apply pmem_pset_of in Hc. congruence.
  Qed.

  (** weaker form: whatever the TypeAssert case does *)
  Corollary reach_gaps_excused_weak : forall except P s fuel out,
      operand_cover_except T except = true -> wf_ops T P = true ->
      reach_prog T P s fuel = Done out ->
      forall g, In g (cert_gaps T (index P) (roots s P) out) -> gap_excused except true g = true.
  Proof.
    intros except P s fuel out Hcov Hwf Hreach g Hg.
    pose proof (reach_gaps_excused _ _ _ _ _ Hcov Hwf Hreach g Hg) as H.
    unfold gap_excused in *. destruct (g_kind g) as [[p|p|]|[[p|p|]|[p|p|]|]|]; auto.
  Qed.

  (** conservativeness: with full operand coverage (or when no reported function uses an exempted operand field for a
      function constant, and no method is callable only after an interface-to-interface assertion), every executed
      function is reported *)
  Theorem reach_sound_except : forall except P s fuel out,
      operand_cover_except T except = true -> wf_ops T P = true ->
      reach_prog T P s fuel = Done out ->
      (forall g, In g (cert_gaps T (index P) (roots s P) out) -> gap_excused except true g = false) ->
      forall f, executed T (index P) (roots s P) f -> In f out.
  Proof.
    intros except P s fuel out Hcov Hwf Hreach Hnone. apply cert_sound.
    pose proof (reach_gaps_excused_weak _ _ _ _ _ Hcov Hwf Hreach) as Hexc.
    unfold check_cert. destruct (cert_gaps T (index P) (roots s P) out) as [|g gs]; [reflexivity|exfalso].
    assert (Hin : In g (g :: gs)) by (left; reflexivity).
    pose proof (Hexc g Hin) as H1. pose proof (Hnone g Hin) as H2. congruence.
  Qed.

  Definition iface_cover (P : program) (s : sel) (out : list positive) : Prop :=
    forall g, In g (cert_gaps T (index P) (roots s P) out) -> g_kind g <> 4%positive.

  Theorem reach_sound : forall P s fuel out,
      operand_cover T = true -> wf_ops T P = true ->
      reach_prog T P s fuel = Done out -> iface_cover P s out ->
      forall f, executed T (index P) (roots s P) f -> In f out.
  Proof.
    intros P s fuel out Hcov Hwf Hreach Hic. eapply (reach_sound_except []); eauto.
    intros g Hg. specialize (Hic g Hg). unfold gap_excused.
    destruct (Pos.eq_dec (g_kind g) 4) as [E|E]; [contradiction|].
    destruct (g_kind g) as [[p|p|]|[[p|p|]|[p|p|]|]|]; try reflexivity.
    exfalso. apply E. reflexivity.
  Qed.

  (** conservativeness without side condition: full operand coverage and the TypeAssert case *)
  Theorem reach_sound_full : forall P s fuel out,
      operand_cover T = true -> assert_case T = true -> wf_ops T P = true ->
      reach_prog T P s fuel = Done out ->
      forall f, executed T (index P) (roots s P) f -> In f out.
  Proof.
    intros P s fuel out Hcov Hac Hwf Hreach. apply cert_sound.
    pose proof (reach_gaps_excused [] _ _ _ _ Hcov Hwf Hreach) as Hexc. rewrite Hac in Hexc. simpl in Hexc.
    unfold check_cert. destruct (cert_gaps T (index P) (roots s P) out) as [|g gs]; [reflexivity|exfalso].
    specialize (Hexc g (or_introl eq_refl)). unfold gap_excused in Hexc.
    destruct (g_kind g) as [[p|p|]|[[p|p|]|[p|p|]|]|]; simpl in Hexc; discriminate.
  Qed.

  (** *** static call graph: direct calls and closure creations *)
  Inductive cg_edge (idx : PM.t func) : positive -> positive -> Prop :=
  | cg_call : forall g fn i vs v f,
      PM.find g idx = Some fn -> In i (f_instrs fn) -> In (k_callvalue T, vs) (i_ops i) -> In v vs ->
      fn_of fn v = Some f -> cg_edge idx g f
  | cg_closure : forall g fn i vs v f,
      PM.find g idx = Some fn -> In i (f_instrs fn) -> i_ty i = ty_makeclosure T -> In (k_fn T, vs) (i_ops i) -> In v vs ->
      fn_of fn v = Some f -> cg_edge idx g f.

  Inductive cg_reach (idx : PM.t func) (rts : list positive) : positive -> Prop :=
  | cgr_root : forall f, In f rts -> cg_reach idx rts f
  | cgr_step : forall g f, cg_reach idx rts g -> cg_edge idx g f -> cg_reach idx rts f.

  Theorem reach_contains_cg : forall P s fuel out,
      call_cover T = true -> wf_ops T P = true ->
      reach_prog T P s fuel = Done out ->
      forall f, cg_reach (index P) (roots s P) f -> In f out.
  Proof.
    intros P s fuel out Hcc Hwf Hreach f Hf.
    pose proof (reach_roots _ _ _ _ Hreach) as Hroots.
    pose proof (reach_closed _ _ _ _ Hreach) as Hclosed.
    unfold call_cover in Hcc. apply andb_true_iff in Hcc. destruct Hcc as [Hcv Hfn].
    rewrite forallb_forall in Hcv.
    induction Hf as [f Hr|g f Hg IH He].
    - auto.
    - apply (Hclosed g IH). destruct He as [g fn i vs v f Hfind Hi Hk Hv Hfo|g fn i vs v f Hfind Hi Hty Hk Hv Hfo].
      + eapply operand_callee; try eassumption.
        pose proof (wf_ops_instr _ _ _ _ Hwf Hfind Hi) as Hwi. unfold wf_instr in Hwi.
        apply andb_true_iff in Hwi. destruct Hwi as [Hty Hflds].
        rewrite forallb_forall in Hflds. specialize (Hflds _ Hk). simpl in Hflds.
        apply andb_true_iff in Hflds. destruct Hflds as [Hsch _].
        apply lmem_In in Hty. specialize (Hcv _ Hty). rewrite Hsch in Hcv. simpl in Hcv. assumption.
      + eapply operand_callee; try eassumption. rewrite Hty. assumption.
  Qed.

  (** the static call graph is part of the execution model *)
  Lemma cg_reach_executed : forall idx rts f, cg_reach idx rts f -> executed T idx rts f.
  Proof.
    induction 1 as [f Hr|g f Hg IH He].
    - apply ex_root. assumption.
    - destruct He; eapply ex_operand; eassumption.
  Qed.
End Sound.
