(** * Witnesses (C17): refutations and non-vacuity examples, all by [vm_compute] on concrete states *)
From stdpp Require Import gmap.
From Coq Require Import ZArith.
From Argot Require Import Model.GraphOps Proofs.GraphOps Proofs.GraphOpsInv Proofs.GraphOpsBuild.

(** a caller (summary 1) with the call node 1 of instruction 7, its argument node 2 and a second call node 3 of
    the same instruction (another callee), a closure node 4 of instruction 8, a global access node 5 of global 9,
    a parameter 6 and a return value 10; a callee (summary 2) with parameter 11 and return value 12 *)
Definition w_nodes : gmap N nattr :=
  <[1%N := mkNA KC 1 7 0]> (<[2%N := mkNA KA 1 0 0]> (<[3%N := mkNA KC 1 7 0]> (<[4%N := mkNA KK 1 8 0]>
  (<[5%N := mkNA KG 1 0 9]> (<[6%N := mkNA KP 1 0 0]> (<[10%N := mkNA KR 1 0 0]>
  (<[11%N := mkNA KP 2 0 0]> (<[12%N := mkNA KR 2 0 0]> ∅)))))))).
Definition w_sums : gmap N sattr :=
  <[1%N := mkSA [(0%N, 6%N)] [(0%N, 10%N)] true]> (<[2%N := mkSA [(0%N, 11%N)] [(0%N, 12%N)] true]> ∅).
Definition w0 : state := empty_over w_nodes w_sums.

(** two tuple components of one call (indices 0 and 1 of call node 1) flow into the same node 2 *)
Definition w_idx_ops : list op := [OUpdate 1 2 0 1 0; OUpdate 1 2 1 1 0].

Lemma idx_refuted_witness : valid_seq w0 w_idx_ops /\ consistent (run w0 w_idx_ops) /\ ~ consistent_idx (run w0 w_idx_ops).
Proof.
  split; [simpl; done|]. split.
  - apply check_consistent_spec. vm_compute. done.
  - intros H. apply check_idx_spec in H. vm_compute in H. done.
Qed.

(** without the side condition of [OLink] (two call nodes of one instruction resolved to the same summary) the
    second node stays unregistered *)
Lemma link_conflict_witness :
  consistent (apply_op w0 (OLink 1 2)) /\ ~ valid_op (apply_op w0 (OLink 1 2)) (OLink 3 2) /\
  ~ consistent (apply_op (apply_op w0 (OLink 1 2)) (OLink 3 2)).
Proof.
  split; [apply check_consistent_spec; vm_compute; done|]. split.
  - vm_compute. intros [H|H]; done.
  - intros H. apply check_consistent_spec in H. vm_compute in H. done.
Qed.

(** a non-trivial valid run: a summary is built (with a global write and a read), populated, linked, its closure
    synchronised; the result is consistent, has edges in both maps, a registered call site and global locations *)
Definition w_ops : list op :=
  [ OUpdate 1 2 0 1 0; OUpdate 6 1 (-1) 2 3; OParamEdge 2 0 0; OReturnEdge 2 0 0;
    OBuild 1 [mkM true 6 5 (-1) 1 0; mkM false 1 10 1 2 0; mkM false 2 10 (-1) 2 0];
    OPopulate 2 [(0, 0)%Z] [(0, 0)%Z]; OLink 1 2; OSyncClosure 4 2; OUpdate 1 2 1 4 0 ].

Lemma nontrivial_witness :
  valid_seq w0 w_ops /\ inv (run w0 w_ops) /\
  get2 (callsites (run w0 w_ops)) 2 7 = Some 1%N /\ is_Some (get2 (wlocs (run w0 w_ops)) 9 5) /\
  length (default [] (get2 (outm (run w0 w_ops)) 1 2)) = 2 /\ is_Some (get2 (inm (run w0 w_ops)) 2 1).
Proof.
  split.
  - vm_compute. repeat split; auto.
  - split.
    + split; [apply check_consistent_spec; vm_compute; done|].
      apply clean_ok_spec. apply (bool_decide_unpack _). vm_compute. done.
    + vm_compute. repeat split; eauto.
Qed.
