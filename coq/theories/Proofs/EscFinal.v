(* Statements of the C13/C14 properties over an abstract language, their instances for the calculus, and the lemmas the
   Properties files export. *)
From Coq Require Import List Arith Bool Lia.
From Coq Require String.
Import String.StringSyntax.
Delimit Scope string_scope with string.
From Argot Require Import Lang.Conc Model.Esc Model.EscTable Proofs.EscGraph0 Proofs.Esc Proofs.EscStep Proofs.EscSound Proofs.EscShare.
Import ListNotations.

(* ---- the full statements, over any language with threads, a shared heap and instruction points ---- *)
Record lang : Type := {
  L_prog : Type; L_state : Type; L_sched : Type; L_point : Type;
  L_run : L_prog -> L_sched -> L_state;
  (* in state s thread tid is about to execute the instruction at point p, which dereferences a pointer to object l *)
  L_next_access : L_prog -> L_state -> nat -> L_point -> loc -> Prop;
  (* l is reachable from a global or from the stack of a thread other than tid *)
  L_shared : L_state -> nat -> loc -> Prop }.

(* C14, full statement (for Go: L = SSA programs with goroutines incl. calls with summary instantiation, maps, slices,
   interfaces, closures; classified_local P p = "p is Local in every context the analysis derives for its function") *)
Definition local_sound (L : lang) (classified_local : L_prog L -> L_point L -> Prop) : Prop :=
  forall P sched tid p l,
    L_next_access L P (L_run L P sched) tid p l -> classified_local P p -> ~ L_shared L (L_run L P sched) tid l.

(* C13, full statement: every cross-thread flow observed under some schedule is reported as a taint flow or as an escape *)
Definition escape_or_flow (L : lang) (Src Snk : Type)
  (flow_observed : L_prog L -> L_sched L -> Src -> Snk -> Prop)
  (taint_reported : L_prog L -> Src -> Snk -> Prop) (escape_reported : L_prog L -> Src -> Prop) : Prop :=
  forall P sched s k, flow_observed P sched s k -> taint_reported P s k \/ escape_reported P s.

(* instruction kinds of analysis/escape.transferFunction that the calculus (hence the proved fragment) lacks *)
Definition fragment_lacks : list String.string :=
  ["Call (static/invoke/indirect: EscapeGraph.Call summary instantiation, Resolve of call-site contexts)";
   "Defer / RunDefers"; "MakeClosure free variables and closure calls"; "MakeInterface of struct values / TypeAssert / ChangeInterface dispatch";
   "Field / copyStruct (struct values)"; "field subnodes with a status different from their base object (interior pointers)";
   "Select"; "Next / Range over maps (keys[*]/values[*] pseudo-fields are ordinary fields here)";
   "builtins append / copy / delete / clear"; "Slice of string, Convert string<->[]byte (hidden allocations)"; "Panic / recover";
   "Extract of tuples"; "reflect / json summaries"]%string.

(* ---- the calculus as an instance ---- *)
Definition conc_next_access (P : prog) (s : state) (tid : nat) (p : nat * nat) (l : loc) : Prop :=
  exists t i succs q, nth_error (thr s) tid = Some t /\ t_live t = true /\ t_fn t = fst p /\ t_pc t = snd p /\
    fetch P (fst p) (snd p) = Some (i, succs) /\ guarded_operand i = Some q /\ t_regs t q = Some l.

Definition conc_lang : lang :=
  {| L_prog := prog; L_state := state; L_sched := list (nat * nat); L_point := nat * nat;
     L_run := run; L_next_access := conc_next_access; L_shared := shared |}.

(* Local according to the executable model: the fixpoint loop returns an annotation in which p is Local *)
Definition conc_classified_local (P : prog) (p : nat * nat) : Prop :=
  0 < length P /\ exists fuel A i succs, analyze fuel P = Annot A /\ fetch P (fst p) (snd p) = Some (i, succs) /\
    instr_verdict (getA A (fst p) (snd p)) i = VLocal.

Lemma analyze_fuel_valid : forall fuel P A0 A, analyze_fuel fuel P A0 = Annot A -> check_annot P A = true.
Proof.
  induction fuel as [|k IH]; simpl; intros P A0 A H; destruct (check_annot P A0) eqn:C.
  - inversion H; subst; auto.
  - discriminate.
  - inversion H; subst; auto.
  - destruct (round P A0) as [A1|]; [eapply IH; eauto | discriminate].
Qed.

Lemma analyze_valid : forall fuel P A, analyze fuel P = Annot A -> check_annot P A = true.
Proof. intros; eapply analyze_fuel_valid; eauto. Qed.

Theorem local_sound_conc : local_sound conc_lang conc_classified_local.
Proof.
  unfold local_sound; simpl. intros P sched tid [fn pc] l (t & i & succs & q & Ht & Hl & Hfn & Hpc & F & G & Hq)
    (HP & fuel & A & i' & succs' & HA & F' & V); simpl in *.
  rewrite F in F'; inversion F'; subst i' succs'. subst fn pc.
  eapply (local_sound_core P A (analyze_valid _ _ _ HA) HP sched tid t i succs q l); eauto.
Qed.

(* ---- C13: objects stay private as long as no sharing cause occurs ---- *)
Lemma nxt_mono : forall P s c, nxt s <= nxt (step P s c).
Proof.
  intros P s [tid br]; unfold step. destruct (nth_error (thr s) tid) as [t|]; auto.
  destruct (negb (t_live t)); auto. destruct (fetch P (t_fn t) (t_pc t)) as [[i succs]|]; simpl; auto.
  destruct i; simpl; auto; try (destruct (t_regs t _); simpl; auto).
Qed.

Theorem no_cause_no_sharing : forall P A, check_annot P A = true -> forall post s owner o,
  alpha P A s -> o < nxt s -> ~ shared s owner o ->
  (forall post1 c post2, post = post1 ++ c :: post2 -> ~ share_cause P A (fold_left (step P) post1 s) owner o) ->
  ~ shared (fold_left (step P) post s) owner o.
Proof.
  intros P A CA; induction post as [|c post IH]; intros s owner o Al Ho NS NC; simpl; auto.
  assert (NS1 : ~ shared (step P s c) owner o).
  { intro Sh. destruct c as [tid br]. destruct (share_event P A s Al tid br owner o Ho NS Sh) as [_ SC].
    apply (NC [] (tid, br) post eq_refl). exact SC. }
  apply IH; auto.
  - apply alpha_step; auto.
  - pose proof (nxt_mono P s c); lia.
  - intros post1 c' post2 E. specialize (NC (c :: post1) c' post2). simpl in NC. apply NC. rewrite E; reflexivity.
Qed.
