(** * Proofs about the MapParallel model (C20): every run is finite with an exact step count, no reachable
      non-final state is stuck, and the final state carries [map f xs] with every thread terminated. *)
From Coq Require Import List Arith Bool ZArith Lia Permutation.
From Argot Require Import Model.MapPar.
Import ListNotations.

(** ** generic list facts *)

Lemma upd_split {X} (l : list X) n x old :
  nth_error l n = Some old ->
  exists l1 l2, l = l1 ++ old :: l2 /\ upd n x l = l1 ++ x :: l2 /\ length l1 = n.
Proof.
  revert n; induction l as [|h t IH]; intros [|n] H; simpl in *; try discriminate.
  - inversion H; subst. exists [], t. auto.
  - destruct (IH _ H) as (l1 & l2 & -> & E & L). exists (h :: l1), l2. simpl. rewrite E, L. auto.
Qed.

Definition sumf {X} (g : X -> nat) (l : list X) : nat := list_sum (map g l).

Lemma sumf_app {X} (g : X -> nat) l1 l2 : sumf g (l1 ++ l2) = sumf g l1 + sumf g l2.
Proof. unfold sumf. now rewrite map_app, list_sum_app. Qed.

Lemma sumf_cons {X} (g : X -> nat) x l : sumf g (x :: l) = g x + sumf g l.
Proof. reflexivity. Qed.

Lemma sumf_zero {X} (g : X -> nat) l : sumf g l = 0 <-> Forall (fun x => g x = 0) l.
Proof.
  induction l as [|h t IH]; simpl.
  - split; auto.
  - rewrite sumf_cons. split.
    + intros H. constructor; [lia|apply IH; lia].
    + intros H. inversion H; subst. apply IH in H3. lia.
Qed.

Lemma find_first {X} (p : X -> bool) (l : list X) :
  (exists n x, nth_error l n = Some x /\ p x = true) \/ Forall (fun x => p x = false) l.
Proof.
  induction l as [|h t [(n & x & H & P)|IH]].
  - right. constructor.
  - left. exists (S n), x. auto.
  - destruct (p h) eqn:E.
    + left. exists 0, h. auto.
    + right. constructor; auto.
Qed.

Lemma list_eq_nth_error {X} (l1 l2 : list X) : (forall j, nth_error l1 j = nth_error l2 j) -> l1 = l2.
Proof.
  revert l2; induction l1 as [|a l1 IH]; intros [|b l2] H; auto.
  - specialize (H 0); discriminate.
  - specialize (H 0); discriminate.
  - f_equal. { specialize (H 0). simpl in H. congruence. }
    apply IH. intros j. apply (H (S j)).
Qed.

Lemma map_fst_combine {X Y} (l : list X) (l' : list Y) : length l = length l' -> map fst (combine l l') = l.
Proof.
  revert l'; induction l as [|a l IH]; intros [|b l'] H; simpl in *; try discriminate; auto.
  f_equal. apply IH. lia.
Qed.

Lemma in_combine_seq {Y} (ys : list Y) s j y :
  nth_error ys j = Some y -> In (s + j, y) (combine (seq s (length ys)) ys).
Proof.
  revert s j; induction ys as [|a ys IH]; intros s [|j] H; simpl in *; try discriminate.
  - inversion H; subst. left. f_equal. lia.
  - right. replace (s + S j) with (S s + j) by lia. now apply IH.
Qed.

Section Proofs.
  Variables A B : Type.
  Variable f : A -> B.
  Variable zero : B.

  Notation state := (state A B).
  Notation wst := (wst A B).
  Notation step := (step A B f zero).
  Notation exec := (exec A B f zero).
  Notation run := (run A B f zero).
  Notation enabled := (enabled A B f zero).
  Notation init := (init A B).
  Notation indexed := (indexed A).
  Notation build := (build B zero).
  Notation fill := (fill B).
  Notation set_nth := (set_nth B).
  Notation final := (final A B).
  Notation all_terminated := (all_terminated A B).

  (** ** the measure: number of steps still to be executed *)
  Definition wmu (w : wst) : nat := match w with WRecv => 1 | WHave _ => 3 | WSend _ => 2 | WDone => 0 end.
  Definition pmu (p : ppc) : nat := match p with PDone => 0 | _ => 1 end.
  Definition cmu (c : cpc) : nat := match c with CDone => 0 | _ => 1 end.
  Definition mmu (s : state) : nat :=
    match st_main s with
    | MStart => 2 * (st_nw s - length (st_workers s)) + 3
    | MSpawn => 2 * (st_nw s - length (st_workers s)) + 2
    | MRange => 1
    | MDone => 0
    end.
  Definition measure (s : state) : nat :=
    3 * length (st_unsent s) + sumf wmu (st_workers s) + pmu (st_prod s) + cmu (st_closer s) + mmu s.

  Lemma indexed_length xs : length (indexed xs) = length xs.
  Proof. unfold MapPar.indexed. rewrite combine_length, seq_length. lia. Qed.

  Lemma measure_init xs nr : measure (init xs nr) = bound (length xs) (nworkers nr).
  Proof. unfold measure, mmu, bound; simpl. rewrite indexed_length. unfold sumf; simpl. lia. Qed.

  Lemma sumf_upd (g : wst -> nat) l n x old :
    nth_error l n = Some old -> sumf g (upd n x l) + g old = sumf g l + g x.
  Proof.
    intros H. destruct (upd_split l n x old H) as (l1 & l2 & -> & -> & _).
    rewrite !sumf_app, !sumf_cons. lia.
  Qed.

  Lemma upd_length {X} n (x : X) l : length (upd n x l) = length l.
  Proof. revert n; induction l; intros [|n]; simpl; auto. Qed.

  (** ** the invariant *)
  Definition fi (p : nat * A) : nat * B := (fst p, f (snd p)).
  Definition pending (w : wst) : list (nat * B) :=
    match w with WHave ix => [fi ix] | WSend iy => [iy] | _ => [] end.
  Definition live (w : wst) : nat := match w with WDone => 0 | _ => 1 end.

  Record Inv (xs : list A) (s : state) : Prop := mkInv {
    (* data: every index is exactly once either unsent, in flight at a worker, or collected - with the right payload *)
    i_perm : Permutation (map fi (indexed xs))
                         (map fi (st_unsent s) ++ flat_map pending (st_workers s) ++ st_collected s);
    (* control *)
    i_nw : 1 <= st_nw s;
    i_len : length (st_workers s) <= st_nw s;
    i_start : st_main s = MStart -> st_workers s = [] /\ st_prod s = PNone;
    i_prod : st_main s <> MStart -> st_prod s <> PNone;
    i_full : st_main s = MRange \/ st_main s = MDone -> length (st_workers s) = st_nw s;
    i_cnone : st_main s = MStart \/ st_main s = MSpawn <-> st_closer s = CNone;
    i_inclosed : st_in_closed s = true <-> st_prod s = PDone;
    i_unsent : st_in_closed s = true -> st_unsent s = [];
    i_outclosed : st_out_closed s = true <-> st_closer s = CDone;
    i_wg : st_main s <> MStart -> st_wg s = (st_nw s - length (st_workers s)) + sumf live (st_workers s);
    i_wdone : Forall (fun w => is_wdone A B w = true -> st_in_closed s = true) (st_workers s);
    i_alldone : st_out_closed s = true -> Forall (fun w => is_wdone A B w = true) (st_workers s);
    i_done : st_main s = MDone -> st_out_closed s = true /\ st_result s = Some (build (st_collected s));
    i_notdone : st_main s <> MDone -> st_result s = None
  }.

  Lemma inv_init xs nr : Inv xs (init xs nr).
  Proof.
    constructor; simpl; try solve [intuition (try congruence; try discriminate)].
    - rewrite app_nil_r. apply Permutation_refl.
    - unfold nworkers. destruct (nr <=? 0)%Z eqn:E; [lia|]. apply Z.leb_gt in E. lia.
    - lia.
    - constructor.
  Qed.

  Ltac inv_step H :=
    repeat match type of H with
           | match ?x with _ => _ end = Some _ => let E := fresh "E" in destruct x eqn:E; try discriminate H
           | (if ?x then _ else _) = Some _ => let E := fresh "E" in destruct x eqn:E; try discriminate H
           end;
    try (injection H as H; subst).

  Ltac unfold_step H :=
    unfold MapPar.step, step_main, step_prod_send, step_prod_close, step_work_compute, step_work_send,
      step_work_exit, step_closer, set_workers in H; simpl in H.

  Ltac ltb_cleanup :=
    repeat match goal with
           | H : (_ <? _) = true |- _ => apply Nat.ltb_lt in H
           | H : (_ <? _) = false |- _ => apply Nat.ltb_ge in H
           end.

  Lemma step_measure xs c s s' : Inv xs s -> step c s = Some s' -> measure s = S (measure s').
  Proof.
    intros I H. destruct s as [nw mn pr un ic ws wg cl oc col res].
    pose proof (i_start _ _ I) as Hs. pose proof (proj1 (i_cnone _ _ I)) as Hc. simpl in Hs, Hc. clear I.
    destruct c; unfold_step H; inv_step H;
      unfold measure, mmu; simpl; rewrite ?upd_length, ?app_length, ?sumf_app; simpl;
      try match goal with E : nth_error _ _ = Some ?o |- context [sumf wmu (upd ?n ?x ?l)] =>
                        pose proof (sumf_upd wmu l n x o E) as U; simpl in U end;
      ltb_cleanup; unfold sumf in *; simpl in *;
      try (destruct Hs as [_ ->]; [reflexivity|]); try (rewrite Hc by auto); simpl; try lia.
  Qed.

  Lemma exec_inv_measure xs tr s s' :
    Inv xs s -> (forall c s1 s2, Inv xs s1 -> step c s1 = Some s2 -> Inv xs s2) ->
    exec tr s = Some s' -> Inv xs s' /\ measure s = length tr + measure s'.
  Proof.
    intros I P. revert s I; induction tr as [|c tr IH]; intros s I H; simpl in *.
    - inversion H; subst. auto.
    - destruct (step c s) as [s1|] eqn:E; try discriminate.
      pose proof (step_measure _ _ _ _ I E). destruct (IH s1 (P _ _ _ I E) H). split; auto. lia.
  Qed.

  (** ** preservation *)
  Lemma pending_upd l n x old :
    nth_error l n = Some old ->
    Permutation (pending old ++ flat_map pending (upd n x l)) (pending x ++ flat_map pending l).
  Proof.
    intros H. destruct (upd_split l n x old H) as (l1 & l2 & -> & -> & _).
    rewrite !flat_map_app. simpl.
    etransitivity; [apply Permutation_app_swap_app|].
    etransitivity; [|apply Permutation_app_swap_app].
    apply Permutation_app_head. apply Permutation_app_swap_app.
  Qed.

  Lemma Forall_upd {X} (P : X -> Prop) n x l : Forall P l -> P x -> Forall P (upd n x l).
  Proof.
    intros H Px. revert n; induction H; intros [|n]; simpl; constructor; auto.
  Qed.

  Lemma nth_error_Forall {X} (P : X -> Prop) l n x : Forall P l -> nth_error l n = Some x -> P x.
  Proof. intros H E. rewrite Forall_forall in H. apply H. eapply nth_error_In; eauto. Qed.

  Ltac start I H :=
    destruct I as [Iperm Inw Ilen Istart Iprod Ifull Icnone Iincl Iuns Ioutc Iwg Iwdone Ialld Idone Indone];
    simpl in *; unfold_step H; inv_step H; constructor; simpl in *; ltb_cleanup.
  Ltac ctl := try solve [intuition (try congruence; try discriminate; try lia)].

  Lemma step_main_inv xs s s' : Inv xs s -> step CMain s = Some s' -> Inv xs s'.
  Proof.
    intros I H. destruct s as [nw mn pr un ic ws wg cl oc col res].
    start I H; ctl.
    - intros _. destruct Istart as [-> _]; auto. simpl. unfold sumf; simpl. lia.
    - rewrite flat_map_app; simpl. now rewrite app_nil_r.
    - rewrite app_length; simpl; lia.
    - intros _. rewrite app_length, sumf_app; simpl. unfold sumf at 2; simpl. rewrite Iwg by discriminate. lia.
    - apply Forall_app; split; auto. constructor; auto. simpl; discriminate.
  Qed.

  Ltac upd_goals :=
    rewrite ?upd_length;
    try match goal with
        | E : nth_error ?l ?n = Some ?o |- context [sumf live (upd ?n ?x ?l)] =>
            let U := fresh "U" in pose proof (sumf_upd live l n x o E) as U; simpl in U
        end.

  Lemma step_prod_send_inv xs w s s' : Inv xs s -> step (CProdSend w) s = Some s' -> Inv xs s'.
  Proof.
    intros I H. destruct s as [nw mn pr un ic ws wg cl oc col res].
    start I H; ctl; upd_goals; ctl.
    - etransitivity; [exact Iperm|]. symmetry.
      pose proof (pending_upd ws w (WHave p) WRecv E1) as P; simpl in P.
      etransitivity; [|symmetry; apply Permutation_middle].
      apply Permutation_app_head. change (fi p :: flat_map pending ws ++ col) with ((fi p :: flat_map pending ws) ++ col).
      now apply Permutation_app_tail.
    - apply Forall_upd; auto. simpl; discriminate.
    - intros O. specialize (Ialld O). pose proof (nth_error_Forall _ _ _ _ Ialld E1). discriminate.
  Qed.

  Lemma step_prod_close_inv xs s s' : Inv xs s -> step CProdClose s = Some s' -> Inv xs s'.
  Proof.
    intros I H. destruct s as [nw mn pr un ic ws wg cl oc col res].
    start I H; ctl; upd_goals; ctl.
    apply Forall_forall; auto.
  Qed.

  Ltac start_contra Istart :=
    let M := fresh in intros M; destruct (Istart M) as [-> _];
    match goal with E : nth_error [] ?w = Some _ |- _ => destruct w; discriminate E end.
  Ltac alldone_contra Ialld :=
    let O := fresh in intros O; specialize (Ialld O);
    match goal with E : nth_error _ _ = Some _ |- _ =>
      let X := fresh in pose proof (nth_error_Forall _ _ _ _ Ialld E) as X; discriminate X end.

  Lemma step_work_compute_inv xs w s s' : Inv xs s -> step (CWorkCompute w) s = Some s' -> Inv xs s'.
  Proof.
    intros I H. destruct s as [nw mn pr un ic ws wg cl oc col res].
    start I H; ctl; upd_goals; ctl.
    - pose proof (pending_upd ws w (WSend (n, f a)) _ E) as P; simpl in P. apply Permutation_cons_inv in P.
      etransitivity; [exact Iperm|]. apply Permutation_app_head, Permutation_app_tail. now symmetry.
    - start_contra Istart.
    - apply Forall_upd; auto. simpl; discriminate.
    - alldone_contra Ialld.
  Qed.

  Lemma step_work_send_inv xs w s s' : Inv xs s -> step (CWorkSend w) s = Some s' -> Inv xs s'.
  Proof.
    intros I H. destruct s as [nw mn pr un ic ws wg cl oc col res].
    start I H; ctl; upd_goals; ctl.
    - pose proof (pending_upd ws w WRecv _ E1) as P; simpl in P.
      etransitivity; [exact Iperm|]. apply Permutation_app_head.
      transitivity ((iy :: flat_map pending (upd w WRecv ws)) ++ col);
        [apply Permutation_app_tail; now symmetry|].
      simpl. rewrite app_assoc. apply Permutation_cons_append.
    - apply Forall_upd; auto. simpl; discriminate.
  Qed.

  Lemma step_work_exit_inv xs w s s' : Inv xs s -> step (CWorkExit w) s = Some s' -> Inv xs s'.
  Proof.
    intros I H. destruct s as [nw mn pr un ic ws wg cl oc col res].
    start I H; ctl; upd_goals; ctl.
    - pose proof (pending_upd ws w WDone _ E0) as P; simpl in P.
      etransitivity; [exact Iperm|]. apply Permutation_app_head, Permutation_app_tail. now symmetry.
    - apply Forall_forall; auto.
    - alldone_contra Ialld.
  Qed.

  Lemma step_closer_inv xs s s' : Inv xs s -> step CCloser s = Some s' -> Inv xs s'.
  Proof.
    intros I H. destruct s as [nw mn pr un ic ws wg cl oc col res].
    start I H; ctl; upd_goals; ctl.
    intros _.
    assert (M : mn = MRange \/ mn = MDone).
    { destruct mn; auto; exfalso; assert (X : CWait = CNone) by (apply Icnone; auto); discriminate X. }
    assert (Z : sumf live ws = 0).
    { rewrite (Ifull M) in Iwg. assert (mn <> MStart) by (destruct M; congruence). specialize (Iwg H). lia. }
    apply sumf_zero in Z. eapply Forall_impl; [|exact Z]. intros [] ?; simpl in *; auto; discriminate.
  Qed.

  Theorem step_inv xs c s s' : Inv xs s -> step c s = Some s' -> Inv xs s'.
  Proof.
    destruct c; eauto using step_main_inv, step_prod_send_inv, step_prod_close_inv, step_work_compute_inv,
      step_work_send_inv, step_work_exit_inv, step_closer_inv.
  Qed.

  Lemma exec_inv xs tr s s' : Inv xs s -> exec tr s = Some s' -> Inv xs s' /\ measure s = length tr + measure s'.
  Proof. intros I. apply exec_inv_measure; auto. apply step_inv. Qed.

  (** ** no reachable non-final state is stuck *)
  Definition is_have (w : wst) : bool := match w with WHave _ => true | _ => false end.
  Definition is_send (w : wst) : bool := match w with WSend _ => true | _ => false end.
  Definition is_recv (w : wst) : bool := match w with WRecv => true | _ => false end.

  Theorem deadlock_free xs s : Inv xs s -> final s = false -> exists c s', step c s = Some s'.
  Proof.
    intros I F. destruct s as [nw mn pr un ic ws wg cl oc col res].
    destruct I as [Iperm Inw Ilen Istart Iprod Ifull Icnone Iincl Iuns Ioutc Iwg Iwdone Ialld Idone Indone].
    unfold MapPar.final in F. simpl in *.
    destruct mn; try discriminate.
    - exists CMain. eexists. reflexivity.
    - exists CMain. simpl. unfold step_main; simpl. destruct (length ws <? nw); eexists; reflexivity.
    - destruct (find_first is_have ws) as [(w & x & E & P)|NH].
      { destruct x as [|[i a]| |]; try discriminate. exists (CWorkCompute w). simpl; unfold step_work_compute; simpl.
        rewrite E. eexists; reflexivity. }
      destruct (find_first is_send ws) as [(w & x & E & P)|NS].
      { destruct x; try discriminate. destruct oc eqn:O.
        { exfalso. specialize (Ialld eq_refl). pose proof (nth_error_Forall _ _ _ _ Ialld E) as X. discriminate X. }
        exists (CWorkSend w). simpl; unfold step_work_send; simpl; rewrite E. eexists; reflexivity. }
      destruct (find_first is_recv ws) as [(w & x & E & P)|NR].
      { destruct x; try discriminate. destruct pr.
        - exfalso. apply Iprod; auto. discriminate.
        - destruct un as [|ix rest].
          + exists CProdClose. eexists; reflexivity.
          + exists (CProdSend w). simpl; unfold step_prod_send; simpl. rewrite E. eexists; reflexivity.
        - assert (ic = true) by (apply Iincl; auto). subst.
          exists (CWorkExit w). simpl; unfold step_work_exit; simpl; rewrite E. eexists; reflexivity. }
      assert (AD : Forall (fun w => is_wdone A B w = true) ws).
      { rewrite Forall_forall in *. intros w Hw. specialize (NH w Hw). specialize (NS w Hw). specialize (NR w Hw).
        destruct w; simpl in *; auto; discriminate. }
      assert (L : length ws = nw) by auto.
      assert (Z : sumf live ws = 0).
      { apply sumf_zero. eapply Forall_impl; [|exact AD]. intros []; simpl; auto; discriminate. }
      assert (W : wg = 0) by (rewrite Iwg by discriminate; lia).
      destruct cl.
      + exfalso. assert (X : MRange = MStart \/ MRange = MSpawn) by (apply Icnone; auto). destruct X; discriminate.
      + exists CCloser. subst wg. eexists; reflexivity.
      + assert (oc = true) by (apply Ioutc; auto). subst.
        exists CMain. eexists; reflexivity.
  Qed.

  (** ** building the result by index *)
  Lemma set_nth_spec i y l :
    i < length l ->
    exists l', set_nth i y l = Some l' /\ length l' = length l /\ nth_error l' i = Some y /\
               (forall j, j <> i -> nth_error l' j = nth_error l j).
  Proof.
    revert i; induction l as [|h t IH]; intros [|i] H; simpl in *; try lia.
    - exists (y :: t). repeat split; auto. intros [|j] ?; simpl; auto. lia.
    - destruct (IH i) as (t' & -> & L & N & O); [lia|].
      exists (h :: t'). repeat split; simpl; auto. intros [|j] ?; simpl; auto.
  Qed.

  Lemma fill_spec col : forall res,
    (forall i y, In (i, y) col -> i < length res) -> NoDup (map fst col) ->
    exists res', fill res col = Some res' /\ length res' = length res /\
                 (forall i y, In (i, y) col -> nth_error res' i = Some y) /\
                 (forall j, ~ In j (map fst col) -> nth_error res' j = nth_error res j).
  Proof.
    induction col as [|[i y] col IH]; intros res Hlt ND; simpl in *.
    - exists res. repeat split; auto. intros ? ? [].
    - inversion ND as [|? ? Hni ND']; subst.
      destruct (set_nth_spec i y res) as (res1 & -> & L1 & N1 & O1); [apply (Hlt i y); auto|].
      destruct (IH res1) as (res' & -> & L' & N' & O'); auto.
      { intros j z Hj. rewrite L1. apply (Hlt j z); auto. }
      exists res'. repeat split; auto; try lia.
      + intros j z [Hj|Hj].
        * inversion Hj; subst. rewrite O'; auto.
        * auto.
      + intros j Hj. rewrite O' by tauto. apply O1. intros ->. tauto.
  Qed.

  Lemma build_perm ys col : Permutation (combine (seq 0 (length ys)) ys) col -> build col = Some ys.
  Proof.
    intros P. unfold MapPar.build.
    assert (Lc : length col = length ys).
    { rewrite <- (Permutation_length P), combine_length, seq_length. lia. }
    assert (Hin : forall i y, In (i, y) col -> In (i, y) (combine (seq 0 (length ys)) ys)).
    { intros i y H. eapply Permutation_in; [symmetry; exact P|exact H]. }
    destruct (fill_spec col (repeat zero (length col))) as (res & -> & L & N & _).
    - intros i y H. apply Hin in H. apply in_combine_l in H. apply in_seq in H. rewrite repeat_length. lia.
    - eapply Permutation_NoDup; [apply Permutation_map; exact P|].
      rewrite map_fst_combine by now rewrite seq_length. apply seq_NoDup.
    - f_equal. apply list_eq_nth_error. intros j.
      destruct (nth_error ys j) as [y|] eqn:E.
      + apply N. eapply Permutation_in; [exact P|]. apply (in_combine_seq ys 0 j y E).
      + apply nth_error_None in E. apply nth_error_None. rewrite L, repeat_length. lia.
  Qed.

  Lemma map_fi_combine xs : forall s,
    map fi (combine (seq s (length xs)) xs) = combine (seq s (length xs)) (map f xs).
  Proof. induction xs as [|x xs IH]; intros s; simpl; auto. now rewrite IH. Qed.

  Lemma map_fi_indexed xs : map fi (indexed xs) = combine (seq 0 (length (map f xs))) (map f xs).
  Proof. unfold MapPar.indexed. now rewrite map_fi_combine, map_length. Qed.

  (** ** the final state *)
  Lemma flat_pending_done ws : Forall (fun w => is_wdone A B w = true) ws -> flat_map pending ws = [] /\ sumf wmu ws = 0.
  Proof.
    induction 1 as [|w ws Hw _ [IH1 IH2]]; simpl; auto.
    destruct w; try discriminate. simpl. rewrite IH1. rewrite sumf_cons, IH2. auto.
  Qed.

  Theorem final_correct xs s :
    Inv xs s -> final s = true ->
    st_result s = Some (Some (map f xs)) /\ all_terminated s = true /\ measure s = 0.
  Proof.
    intros I F. destruct s as [nw mn pr un ic ws wg cl oc col res].
    destruct I as [Iperm Inw Ilen Istart Iprod Ifull Icnone Iincl Iuns Ioutc Iwg Iwdone Ialld Idone Indone].
    unfold MapPar.final in F. simpl in *. destruct mn; try discriminate.
    destruct Idone as [-> ->]; auto.
    specialize (Ialld eq_refl). specialize (Ifull (or_intror eq_refl)).
    assert (cl = CDone) by (apply Ioutc; auto). subst cl.
    assert (ic = true).
    { destruct ws as [|w0 ws']; simpl in *; [lia|]. inversion Ialld; inversion Iwdone; subst; auto. }
    subst ic. assert (pr = PDone) by (apply Iincl; auto). subst pr. rewrite Iuns in * by auto.
    destruct (flat_pending_done ws Ialld) as [FP WM]. rewrite FP in Iperm. simpl in Iperm.
    rewrite map_fi_indexed in Iperm. rewrite (build_perm _ _ Iperm).
    split; auto. split.
    - unfold MapPar.all_terminated, MapPar.final; simpl. rewrite Ifull, Nat.eqb_refl, andb_true_r.
      apply forallb_forall. rewrite Forall_forall in Ialld. auto.
    - unfold measure, mmu; simpl. rewrite WM. reflexivity.
  Qed.

  (** ** schedulers *)
  Lemma step_in_all_choices c s s' : step c s = Some s' -> In c (all_choices A B s).
  Proof.
    intros H. unfold all_choices.
    assert (W : forall w x, nth_error (st_workers s) w = Some x -> In w (seq 0 (length (st_workers s)))).
    { intros w x E. apply in_seq. split; [lia|]. simpl. apply nth_error_Some. congruence. }
    destruct c; simpl; auto; do 3 right; apply in_flat_map; exists w;
      (split; [|simpl; auto]); unfold_step H; inv_step H; eapply W; eauto.
  Qed.

  Lemma step_enabled c s s' : step c s = Some s' -> In c (enabled s).
  Proof.
    intros H. unfold MapPar.enabled. apply filter_In. split; [eapply step_in_all_choices; eauto|].
    rewrite H. reflexivity.
  Qed.

  Lemma enabled_step c s : In c (enabled s) -> exists s', step c s = Some s'.
  Proof.
    unfold MapPar.enabled. intros H. apply filter_In in H. destruct H as [_ H].
    destruct (step c s) as [s'|]; [eauto|discriminate].
  Qed.

  Lemma stuck_final xs s : Inv xs s -> enabled s = [] -> final s = true.
  Proof.
    intros I E. destruct (final s) eqn:F; auto.
    destruct (deadlock_free xs s I F) as (c & s' & H). apply step_enabled in H. rewrite E in H. destruct H.
  Qed.

  Theorem run_correct xs : forall fuel s sched,
    Inv xs s -> measure s <= fuel ->
    final (fst (run fuel sched s)) = true /\ snd (run fuel sched s) = measure s /\ Inv xs (fst (run fuel sched s)).
  Proof.
    induction fuel as [|fuel IH]; intros s sched I M; cbn [MapPar.run].
    - cbn [fst snd]. assert (F : final s = true).
      { destruct (final s) eqn:F; auto. destruct (deadlock_free xs s I F) as (c & s' & H).
        apply (step_measure xs) in H; auto. lia. }
      destruct (final_correct xs s I F) as (_ & _ & Z). (split; [|split]); auto; lia.
    - destruct (enabled s) as [|c0 en] eqn:En.
      + pose proof (stuck_final xs s I En) as F. cbn [fst snd].
        destruct (final_correct xs s I F) as (_ & _ & Z). (split; [|split]); auto; lia.
      + cbv zeta. set (c := nth (sched 0 mod length (c0 :: en)) (c0 :: en) c0).
        assert (Hc : In c (enabled s)).
        { rewrite En. apply nth_In. apply Nat.mod_upper_bound. simpl. lia. }
        destruct (enabled_step c s Hc) as (s1 & H1). rewrite H1.
        pose proof (step_measure xs _ _ _ I H1) as M1. pose proof (step_inv xs _ _ _ I H1) as I1.
        specialize (IH s1 (fun i => sched (S i)) I1). destruct IH as (F & K & I2); [lia|].
        destruct (run fuel (fun i => sched (S i)) s1) as [r k]. cbn [fst snd] in *. (split; [|split]); auto. lia.
  Qed.

End Proofs.
