(* Preservation of the abstraction relation alpha (Proofs/Esc.v) by every step of the calculus. *)
From Coq Require Import List Arith Bool Lia.
From Argot Require Import Lang.Conc Model.Esc Proofs.EscGraph0 Proofs.Esc.
Import ListNotations.

(* ------------------------------------------------------------------------------------------ other threads *)
Lemma frame_other : forall s s' k g R regsk (held : loc -> Prop),
  tinv s k g R regsk ->
  nxt s <= nxt s' ->
  (forall l, held l -> ~ loc_in g R l) ->
  (forall l f l', heap s' l f = Some l' -> heap s l f = Some l' \/ (held l /\ held l')) ->
  (forall gv l, glob s' gv = Some l -> glob s gv = Some l \/ held l) ->
  (forall k' t' r l, k' <> k -> nth_error (thr s') k' = Some t' -> t_regs t' r = Some l ->
       (exists t0 r0, nth_error (thr s) k' = Some t0 /\ t_regs t0 r0 = Some l) \/ held l \/
       (exists l0 f, held l0 /\ heap s l0 f = Some l) \/ (exists gv, glob s gv = Some l) \/ nxt s <= l) ->
  tinv s' k g R regsk.
Proof.
  intros s s' k g R regsk held I Hn Hheld Hh Hg Hr. constructor.
  - intros l n Hrn. pose proof (i0 _ _ _ _ _ I l n Hrn). lia.
  - apply (i1 _ _ _ _ _ I).
  - intros l n f l' Hrn Z Hh'. destruct (Hh _ _ _ Hh') as [Old | [Hl _]].
    + eapply (i2 _ _ _ _ _ I); eauto.
    + exfalso; apply (Hheld l Hl). exists n; auto.
  - intros l f l' Hl' Hh'. destruct (Hh _ _ _ Hh') as [Old | [_ Hl2]].
    + eapply (i3 _ _ _ _ _ I); eauto.
    + exfalso; apply (Hheld l' Hl2); auto.
  - intros l gv Hl Hg'. destruct (Hg _ _ Hg') as [Old | Hl2].
    + exact (i4g _ _ _ _ _ I l gv Hl Old).
    + exact (Hheld l Hl2 Hl).
  - intros l k' t' r Hl Hk Hn' Hreg.
    destruct (Hr k' t' r l Hk Hn' Hreg) as [(t0 & r0 & A & B) | [Hl2 | [(l0 & f & Hl0 & Hh0) | [(gv & Hgv) | Hfresh]]]].
    + exact (i4t _ _ _ _ _ I l k' t0 r0 Hl Hk A B).
    + exact (Hheld l Hl2 Hl).
    + apply (Hheld l0 Hl0). eapply (i3 _ _ _ _ _ I); eauto.
    + exact (i4g _ _ _ _ _ I l gv Hl Hgv).
    + destruct Hl as (n & Hrn & _). pose proof (i0 _ _ _ _ _ I l n Hrn). lia.
  - apply (i5 _ _ _ _ _ I).
  - apply (i6 _ _ _ _ _ I).
Qed.

(* ------------------------------------------------------------------------------------------ executing thread: generic pieces *)
Definition mk (h : loc -> fld -> val) (n : loc) (gl : gvar -> val) (th : list thread) : state :=
  {| heap := h; nxt := n; glob := gl; thr := th |}.

Lemma tinv_new_regs : forall s tid g R regs regs' thr',
  tinv s tid g R regs ->
  (forall k t', k <> tid -> nth_error thr' k = Some t' ->
      nth_error (thr s) k = Some t' \/ (forall r l, t_regs t' r = Some l -> ~ loc_in g R l)) ->
  (forall r l, regs' r = Some l -> exists n, R l n /\ vedge g r n) ->
  tinv (mk (heap s) (nxt s) (glob s) thr') tid g R regs'.
Proof.
  intros s tid g R regs regs' thr' I Hthr H1. constructor; simpl.
  - apply (i0 _ _ _ _ _ I).
  - exact H1.
  - apply (i2 _ _ _ _ _ I).
  - apply (i3 _ _ _ _ _ I).
  - apply (i4g _ _ _ _ _ I).
  - intros l k t' r Hl Hk Hn Hreg. destruct (Hthr k t' Hk Hn) as [Old | New].
    + exact (i4t _ _ _ _ _ I l k t' r Hl Hk Old Hreg).
    + exact (New r l Hreg Hl).
  - apply (i5 _ _ _ _ _ I).
  - apply (i6 _ _ _ _ _ I).
Qed.

Definition addR (R : loc -> node -> Prop) (l0 : loc) (m : node) : loc -> node -> Prop :=
  fun l n => R l n \/ (l = l0 /\ n = m).

Lemma loc_in_addR : forall g R l0 m l, st g m <> 0 -> (loc_in g (addR R l0 m) l <-> loc_in g R l).
Proof.
  intros g R l0 m l Hm; split; intros (n & Hn & Z).
  - destruct Hn as [Hn | [_ ->]]; [exists n; auto | contradiction].
  - exists n; split; auto. left; auto.
Qed.

Lemma tinv_add_rep : forall s tid g R regs l0 m,
  tinv s tid g R regs -> st g m <> 0 -> ~ loc_in g R l0 -> l0 < nxt s -> tinv s tid g (addR R l0 m) regs.
Proof.
  intros s tid g R regs l0 m I Hm Hnl Hlt. constructor.
  - intros l n [Hrn | [-> _]]; auto. apply (i0 _ _ _ _ _ I l n Hrn).
  - intros r l H. destruct (i1 _ _ _ _ _ I r l H) as (n & A & B). exists n; split; auto. left; auto.
  - intros l n f l' [Hrn | [_ ->]] Z Hh; [|contradiction].
    destruct (i2 _ _ _ _ _ I l n f l' Hrn Z Hh) as (n' & A & B). exists n'; split; auto. left; auto.
  - intros l f l' Hl' Hh. apply loc_in_addR; auto. apply loc_in_addR in Hl'; auto. eapply (i3 _ _ _ _ _ I); eauto.
  - intros l gv Hl. apply loc_in_addR in Hl; auto. apply (i4g _ _ _ _ _ I); auto.
  - intros l k t' r Hl. apply loc_in_addR in Hl; auto. apply (i4t _ _ _ _ _ I); auto.
  - intros l n n' [Hrn | [_ ->]] Z Hn'; [|contradiction].
    destruct Hn' as [Hn' | [-> _]].
    + eapply (i5 _ _ _ _ _ I); eauto.
    + exfalso; apply Hnl. exists n; auto.
  - apply (i6 _ _ _ _ _ I).
Qed.

(* ------------------------------------------------------------------------------------------ transfer specs *)
Lemma transfer_spec : forall fn pc i g g1, transfer fn pc i g = Some g1 ->
  closed g1 /\ gle g g1 /\
  (forall r n, vedge (transfer_raw fn pc i g) r n -> vedge g1 r n) /\
  (forall n f m, fedge (transfer_raw fn pc i g) n f m -> fedge g1 n f m) /\
  (forall n, st (transfer_raw fn pc i g) n <= st g1 n).
Proof.
  intros fn pc i g g1 T. split; [eapply transfer_closed; eauto|]. split; [eapply transfer_ge; eauto|].
  unfold transfer in T; apply close_props in T. destruct T as (_ & V & F & S).
  repeat split; intros; [apply V | apply F | apply S]; auto.
Qed.

(* ------------------------------------------------------------------------------------------ per instruction *)
Section Exec.
Variables (s : state) (tid : nat) (t : thread) (g g1 : graph) (R : loc -> node -> Prop) (fn pc : nat).
Hypothesis WF : wf s.
Hypothesis Ht : nth_error (thr s) tid = Some t.
Hypothesis I : tinv s tid g R (t_regs t).
Variable thr' : list thread.
Hypothesis Hthr : forall k, k <> tid -> nth_error thr' k = nth_error (thr s) k.

Let Hthr_old : forall (g0 : graph) (R0 : loc -> node -> Prop) k t', k <> tid -> nth_error thr' k = Some t' ->
  nth_error (thr s) k = Some t' \/ (forall r l, t_regs t' r = Some l -> ~ loc_in g0 R0 l).
Proof. intros g0 R0 k t' Hk Hn; left; rewrite <- Hthr; auto. Qed.

Lemma exec_alloc : forall r, transfer fn pc (IAlloc r) g = Some g1 ->
  exists R', tinv (mk (heap s) (S (nxt s)) (glob s) thr') tid g1 R' (upd (t_regs t) r (Some (nxt s))).
Proof.
  intros r T. destruct (transfer_spec _ _ _ _ _ T) as (C & L & SV & SF & SS).
  pose proof (tinv_mono _ _ _ _ _ _ I L C) as I1.
  assert (V : vedge g1 r (NAlloc fn pc)).
  { apply SV. simpl. apply vedge_with_v; left; left; reflexivity. }
  exists (addR R (nxt s) (NAlloc fn pc)). constructor; simpl.
  - intros l n [Hrn | [-> _]]; [pose proof (i0 _ _ _ _ _ I1 l n Hrn); lia | lia].
  - intros r' l H. destruct (upd_cases _ (t_regs t) r (Some (nxt s)) r') as [[-> E] | [Hne E]]; rewrite E in H.
    + inversion H; subst. exists (NAlloc fn pc); split; auto. right; auto.
    + destruct (i1 _ _ _ _ _ I1 r' l H) as (n & A & B). exists n; split; auto. left; auto.
  - intros l n f l' [Hrn | [-> _]] Z Hh.
    + destruct (i2 _ _ _ _ _ I1 l n f l' Hrn Z Hh) as (n' & A & B). exists n'; split; auto. left; auto.
    + apply (wf_heap _ WF) in Hh. lia.
  - intros l f l' (n' & [Hrn | [-> _]] & Z) Hh.
    + assert (Hl : loc_in g1 R l') by (exists n'; auto).
      destruct (i3 _ _ _ _ _ I1 l f l' Hl Hh) as (n & A & B). exists n; split; auto. left; auto.
    + apply (wf_heap _ WF) in Hh. lia.
  - intros l gv (n & [Hrn | [-> _]] & Z) Hg.
    + apply (i4g _ _ _ _ _ I1 l gv); auto. exists n; auto.
    + apply (wf_glob _ WF) in Hg. lia.
  - intros l k t' r' (n & [Hrn | [-> _]] & Z) Hk Hn Hreg; rewrite Hthr in Hn by auto.
    + apply (i4t _ _ _ _ _ I1 l k t' r'); auto. exists n; auto.
    + apply (wf_regs _ WF _ _ _ _ Hn) in Hreg. lia.
  - intros l n n' [Hrn | [-> ->]] Z [Hrn' | [E ->]].
    + eapply (i5 _ _ _ _ _ I1); eauto.
    + subst l. pose proof (i0 _ _ _ _ _ I1 _ _ Hrn). lia.
    + pose proof (i0 _ _ _ _ _ I1 _ _ Hrn'). lia.
    + reflexivity.
  - exact C.
Qed.

Lemma exec_copy : forall r q, transfer fn pc (ICopy r q) g = Some g1 ->
  tinv (mk (heap s) (nxt s) (glob s) thr') tid g1 R (upd (t_regs t) r (t_regs t q)).
Proof.
  intros r q T. destruct (transfer_spec _ _ _ _ _ T) as (C & L & SV & SF & SS).
  pose proof (tinv_mono _ _ _ _ _ _ I L C) as I1.
  eapply tinv_new_regs; [exact I1 | apply Hthr_old |].
  intros r' l H. destruct (upd_cases _ (t_regs t) r (t_regs t q) r') as [[-> E] | [Hne E]]; rewrite E in H.
  - destruct (i1 _ _ _ _ _ I q l H) as (n & A & B). exists n; split; auto.
    apply SV; simpl. apply vedge_with_v; left. apply in_map_iff. exists n; split; auto. apply vsucc_spec; auto.
  - apply (i1 _ _ _ _ _ I1); auto.
Qed.

Lemma exec_nop : forall i, (i = INop) -> transfer fn pc i g = Some g1 ->
  tinv (mk (heap s) (nxt s) (glob s) thr') tid g1 R (t_regs t).
Proof.
  intros i -> T. destruct (transfer_spec _ _ _ _ _ T) as (C & L & SV & SF & SS).
  pose proof (tinv_mono _ _ _ _ _ _ I L C) as I1.
  eapply tinv_new_regs; [exact I1 | apply Hthr_old | apply (i1 _ _ _ _ _ I1)].
Qed.

Lemma exec_load : forall r q f l0, transfer fn pc (ILoad r q f) g = Some g1 -> t_regs t q = Some l0 ->
  exists R', tinv (mk (heap s) (nxt s) (glob s) thr') tid g1 R' (upd (t_regs t) r (heap s l0 f)).
Proof.
  intros r q f l0 T Hq. destruct (transfer_spec _ _ _ _ _ T) as (C & L & SV & SF & SS).
  pose proof (tinv_mono _ _ _ _ _ _ I L C) as I1.
  destruct (i1 _ _ _ _ _ I q l0 Hq) as (n0 & Rn0 & Vq).
  set (bases := vsucc g q).
  set (gA := with_f g (map (fun n => (n, f, NLoad fn pc)) (filter (fun n => negb (Nat.eqb (st g n) 0)) bases))).
  assert (RawV : forall m, fedge gA n0 f m -> vedge g1 r m).
  { intros m Hm. apply SV; simpl. fold bases. fold gA. apply vedge_with_v; left.
    apply in_flat_map. exists n0; split; [apply vsucc_spec; auto|]. apply in_map_iff. exists m; split; auto.
    apply fsucc_spec; auto. }
  destruct (heap s l0 f) as [l'|] eqn:Hh.
  - destruct (Nat.eq_dec (st g n0) 0) as [Z | NZ].
    + (* the base is captured: its field is tracked *)
      destruct (i2 _ _ _ _ _ I l0 n0 f l' Rn0 Z Hh) as (n' & Rn' & E).
      exists R. eapply tinv_new_regs; [exact I1 | apply Hthr_old |].
      intros r' l H. destruct (upd_cases _ (t_regs t) r (Some l') r') as [[-> Eq] | [Hne Eq]]; rewrite Eq in H.
      * inversion H; subst. exists n'; split; auto. apply RawV. unfold gA. apply fedge_with_f; right; auto.
      * apply (i1 _ _ _ _ _ I1); auto.
    + (* the base is not captured: the loaded object is represented by the load node *)
      assert (FL : fedge gA n0 f (NLoad fn pc)).
      { unfold gA. apply fedge_with_f; left. apply in_map_iff. exists n0; split; auto.
        apply filter_In; split; [apply vsucc_spec; auto|]. apply negb_true_iff. apply Nat.eqb_neq; auto. }
      assert (NL : st g1 (NLoad fn pc) <> 0).
      { pose proof (intrinsic_le_st g1 (NLoad fn pc)); simpl in *; lia. }
      assert (NotLoc : ~ loc_in g1 R l').
      { intro Hl. apply (loc_in_mono _ _ _ _ L) in Hl.
        destruct (i3 _ _ _ _ _ I l0 f l' Hl Hh) as (nL & RnL & ZL).
        assert (n0 = nL) by (eapply (i5 _ _ _ _ _ I); eauto). subst; contradiction. }
      assert (Lt : l' < nxt s) by (apply (wf_heap _ WF) in Hh; lia).
      pose proof (tinv_add_rep _ _ _ _ _ l' (NLoad fn pc) I1 NL NotLoc Lt) as I2.
      exists (addR R l' (NLoad fn pc)). eapply tinv_new_regs; [exact I2 | apply Hthr_old |].
      intros r' l H. destruct (upd_cases _ (t_regs t) r (Some l') r') as [[-> Eq] | [Hne Eq]]; rewrite Eq in H.
      * inversion H; subst. exists (NLoad fn pc); split; [right; auto | apply RawV; auto].
      * apply (i1 _ _ _ _ _ I2); auto.
  - exists R. eapply tinv_new_regs; [exact I1 | apply Hthr_old |].
    intros r' l H. destruct (upd_cases _ (t_regs t) r (@None loc) r') as [[-> Eq] | [Hne Eq]]; rewrite Eq in H.
    + discriminate.
    + apply (i1 _ _ _ _ _ I1); auto.
Qed.

Lemma exec_gload : forall r gv, transfer fn pc (IGLoad r gv) g = Some g1 ->
  exists R', tinv (mk (heap s) (nxt s) (glob s) thr') tid g1 R' (upd (t_regs t) r (glob s gv)).
Proof.
  intros r gv T. destruct (transfer_spec _ _ _ _ _ T) as (C & L & SV & SF & SS).
  pose proof (tinv_mono _ _ _ _ _ _ I L C) as I1.
  assert (V : vedge g1 r (NLoad fn pc)).
  { apply SV; simpl. apply vedge_with_v; left. apply in_map_iff. exists (NLoad fn pc); split; auto.
    apply fsucc_spec. apply fedge_with_f; left; left; reflexivity. }
  destruct (glob s gv) as [l'|] eqn:Hg.
  - assert (NL : st g1 (NLoad fn pc) <> 0).
    { pose proof (intrinsic_le_st g1 (NLoad fn pc)); simpl in *; lia. }
    assert (NotLoc : ~ loc_in g1 R l') by (intro Hl; exact (i4g _ _ _ _ _ I1 l' gv Hl Hg)).
    assert (Lt : l' < nxt s) by (eapply (wf_glob _ WF); eauto).
    pose proof (tinv_add_rep _ _ _ _ _ l' (NLoad fn pc) I1 NL NotLoc Lt) as I2.
    exists (addR R l' (NLoad fn pc)). eapply tinv_new_regs; [exact I2 | apply Hthr_old |].
    intros r' l H. destruct (upd_cases _ (t_regs t) r (Some l') r') as [[-> Eq] | [Hne Eq]]; rewrite Eq in H.
    + inversion H; subst. exists (NLoad fn pc); split; [right; auto | auto].
    + apply (i1 _ _ _ _ _ I2); auto.
  - exists R. eapply tinv_new_regs; [exact I1 | apply Hthr_old |].
    intros r' l H. destruct (upd_cases _ (t_regs t) r (@None loc) r') as [[-> Eq] | [Hne Eq]]; rewrite Eq in H.
    + discriminate.
    + apply (i1 _ _ _ _ _ I1); auto.
Qed.

Lemma exec_store : forall r f q l0, transfer fn pc (IStore r f q) g = Some g1 -> t_regs t r = Some l0 ->
  tinv (mk (upd2 (heap s) l0 f (t_regs t q)) (nxt s) (glob s) thr') tid g1 R (t_regs t).
Proof.
  intros r f q l0 T Hr. destruct (transfer_spec _ _ _ _ _ T) as (C & L & SV & SF & SS).
  pose proof (tinv_mono _ _ _ _ _ _ I L C) as I1.
  destruct (i1 _ _ _ _ _ I r l0 Hr) as (n0 & Rn0 & Vr).
  assert (NewE : forall l2 n', t_regs t q = Some l2 -> vedge g q n' -> fedge g1 n0 f n').
  { intros l2 n' _ Vq. apply SF; simpl. apply fedge_with_f; left. apply in_map_iff. exists (n0, n'); split; auto.
    unfold pairs. apply in_flat_map. exists n0; split; [apply vsucc_spec; auto|].
    apply in_map_iff. exists n'; split; auto. apply vsucc_spec; auto. }
  constructor; simpl.
  - apply (i0 _ _ _ _ _ I1).
  - apply (i1 _ _ _ _ _ I1).
  - intros l n f1 l2 Rn Z Hh.
    destruct (upd2_cases (heap s) l0 f (t_regs t q) l f1) as [(-> & -> & E) | (_ & E)]; rewrite E in Hh.
    + destruct (i1 _ _ _ _ _ I q l2 Hh) as (n' & Rn' & Vq). exists n'; split; auto.
      assert (n0 = n) by (eapply (i5 _ _ _ _ _ I1); eauto). subst n0. eapply NewE; eauto.
    + eapply (i2 _ _ _ _ _ I1); eauto.
  - intros l f1 l2 Hl2 Hh.
    destruct (upd2_cases (heap s) l0 f (t_regs t q) l f1) as [(-> & -> & E) | (_ & E)]; rewrite E in Hh.
    + destruct (i1 _ _ _ _ _ I q l2 Hh) as (n' & Rn' & Vq). destruct Hl2 as (nL & RnL & ZL).
      assert (n' = nL) by (eapply (i5 _ _ _ _ _ I1); eauto). subst n'.
      exists n0; split; auto. pose proof (NewE _ _ Hh Vq) as E1. apply C in E1. lia.
    + eapply (i3 _ _ _ _ _ I1); eauto.
  - apply (i4g _ _ _ _ _ I1).
  - intros l k t' r' Hl Hk Hn. rewrite Hthr in Hn by auto. apply (i4t _ _ _ _ _ I1 l k t' r'); auto.
  - apply (i5 _ _ _ _ _ I1).
  - exact C.
Qed.

Lemma exec_gstore : forall gv q, transfer fn pc (IGStore gv q) g = Some g1 ->
  tinv (mk (heap s) (nxt s) (upd (glob s) gv (t_regs t q)) thr') tid g1 R (t_regs t).
Proof.
  intros gv q T. destruct (transfer_spec _ _ _ _ _ T) as (C & L & SV & SF & SS).
  pose proof (tinv_mono _ _ _ _ _ _ I L C) as I1.
  constructor; simpl.
  - apply (i0 _ _ _ _ _ I1).
  - apply (i1 _ _ _ _ _ I1).
  - apply (i2 _ _ _ _ _ I1).
  - apply (i3 _ _ _ _ _ I1).
  - intros l gv' Hl Hg. destruct (upd_cases _ (glob s) gv (t_regs t q) gv') as [[-> E] | [Hne E]]; rewrite E in Hg.
    + destruct (i1 _ _ _ _ _ I q l Hg) as (n' & Rn' & Vq). destruct Hl as (nL & RnL & ZL).
      assert (n' = nL) by (eapply (i5 _ _ _ _ _ I1); eauto). subst n'.
      assert (E1 : fedge g1 (NGlob gv) 0 nL).
      { apply SF; simpl. apply fedge_with_f; left. apply in_map_iff. exists nL; split; auto. apply vsucc_spec; auto. }
      apply C in E1. pose proof (intrinsic_le_st g1 (NGlob gv)); simpl in *. lia.
    + exact (i4g _ _ _ _ _ I1 l gv' Hl Hg).
  - intros l k t' r' Hl Hk Hn. rewrite Hthr in Hn by auto. apply (i4t _ _ _ _ _ I1 l k t' r'); auto.
  - apply (i5 _ _ _ _ _ I1).
  - exact C.
Qed.

End Exec.

(* go: the executing thread *)
Lemma exec_go : forall s tid t g g1 R fn pc callee args thr' tn,
  nth_error (thr s) tid = Some t -> tinv s tid g R (t_regs t) ->
  transfer fn pc (IGo callee args) g = Some g1 ->
  (forall k t', k <> tid -> nth_error thr' k = Some t' -> nth_error (thr s) k = Some t' \/ t' = tn) ->
  t_regs tn = spawn_regs (t_regs t) args ->
  tinv (mk (heap s) (nxt s) (glob s) thr') tid g1 R (t_regs t).
Proof.
  intros s tid t g g1 R fn pc callee args thr' tn Ht I T Hthr Hregs.
  destruct (transfer_spec _ _ _ _ _ T) as (C & L & SV & SF & SS).
  pose proof (tinv_mono _ _ _ _ _ _ I L C) as I1.
  eapply tinv_new_regs; [exact I1 | | apply (i1 _ _ _ _ _ I1)].
  intros k t' Hk Hn. destruct (Hthr k t' Hk Hn) as [Old | ->]; [left; auto | right].
  intros r l Hreg (nL & RnL & ZL). rewrite Hregs in Hreg. unfold spawn_regs in Hreg.
  destruct (nth_error args r) as [a|] eqn:Ea; [|discriminate].
  destruct (i1 _ _ _ _ _ I a l Hreg) as (n & Rn & Va).
  assert (n = nL) by (eapply (i5 _ _ _ _ _ I1); eauto). subst n.
  assert (2 <= st g1 nL).
  { etransitivity; [|apply SS]. simpl.
    destruct (fold_raise2_props (flat_map (vsucc g) args) g) as (_ & _ & _ & T2). apply T2.
    apply in_flat_map. exists a; split; [eapply nth_error_In; eauto | apply vsucc_spec; auto]. }
  lia.
Qed.

(* go: the new thread, in the arbitrary context of its function *)
Definition Rparam (regs : reg -> val) : loc -> node -> Prop := fun l n => exists i, n = NParam i /\ regs i = Some l.

Lemma tinv_spawn : forall s tid arity regs nargs,
  (forall r l, regs r = Some l -> l < nxt s /\ r < nargs) -> nargs <= arity ->
  tinv s tid (arb_ctx arity) (Rparam regs) regs.
Proof.
  intros s tid arity regs nargs Hregs Hle.
  assert (NoLoc : forall l, ~ loc_in (arb_ctx arity) (Rparam regs) l).
  { intros l (n & (i & -> & _) & Z). pose proof (intrinsic_le_st (arb_ctx arity) (NParam i)); simpl in *; lia. }
  constructor.
  - intros l n (i & _ & H). apply Hregs in H; tauto.
  - intros r l H. exists (NParam r); split; [exists r; auto|].
    unfold vedge, arb_ctx; simpl. apply in_map_iff. exists r; split; auto. apply in_seq. apply Hregs in H; lia.
  - intros l n f l' (i & -> & _) Z. pose proof (intrinsic_le_st (arb_ctx arity) (NParam i)); simpl in *; lia.
  - intros l f l' Hl; exfalso; eapply NoLoc; eauto.
  - intros l gv Hl; exfalso; eapply NoLoc; eauto.
  - intros l k t' r Hl; exfalso; eapply NoLoc; eauto.
  - intros l n n' (i & -> & _) Z. pose proof (intrinsic_le_st (arb_ctx arity) (NParam i)); simpl in *; lia.
  - intros n f m H; inversion H.
Qed.
