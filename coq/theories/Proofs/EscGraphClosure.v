(** * C15 — the status order and [computeEdgeClosure] (fuelled worklist): specification and fuel bound *)
From stdpp Require Import gmap.
From Coq Require Import Lia.
From Argot Require Import Model.EscGraph.

(** ** The status order *)
Definition sle (a b : estatus) : Prop := st_le a b = true.

Global Instance estatus_eq_dec : EqDecision estatus.
Proof. solve_decision. Defined.

Lemma sle_refl a : sle a a.
Proof. destruct a; reflexivity. Qed.
Lemma sle_trans a b c : sle a b -> sle b c -> sle a c.
Proof. unfold sle; destruct a, b, c; simpl; congruence. Qed.
Lemma sle_antisym a b : sle a b -> sle b a -> a = b.
Proof. unfold sle; destruct a, b; simpl; congruence. Qed.
Lemma sle_total a b : sle a b \/ sle b a.
Proof. unfold sle; destruct a, b; simpl; auto. Qed.
Lemma sle_local a : sle Local a.
Proof. destruct a; reflexivity. Qed.
Lemma st_lt_true a b : st_lt a b = true <-> ~ sle b a.
Proof. unfold st_lt, sle; destruct (st_le b a); simpl; split; congruence. Qed.
Lemma st_lt_false a b : st_lt a b = false <-> sle b a.
Proof. unfold st_lt, sle; destruct (st_le b a); simpl; split; congruence. Qed.
Lemma st_lt_sle a b : st_lt a b = true -> sle a b.
Proof. intros H%st_lt_true. destruct (sle_total a b); tauto. Qed.
Lemma st_lt_rank a b : st_lt a b = true -> st_rank a < st_rank b.
Proof. destruct a, b; simpl; (discriminate || lia). Qed.
Lemma st_rank_le2 a : st_rank a <= 2.
Proof. destruct a; simpl; lia. Qed.
Lemma st_max_ub_l a b : sle a (st_max a b).
Proof. unfold st_max, sle; destruct a, b; reflexivity. Qed.
Lemma st_max_ub_r a b : sle b (st_max a b).
Proof. unfold st_max, sle; destruct a, b; reflexivity. Qed.
Lemma st_max_lub a b c : sle a c -> sle b c -> sle (st_max a b) c.
Proof. unfold st_max, sle; destruct a, b, c; simpl; congruence. Qed.
Lemma st_eqb_eq a b : st_eqb a b = true <-> a = b.
Proof. destruct a, b; cbv; split; congruence. Qed.

Lemma map_fmap {A B} (f : A -> B) (l : list A) : map f l = f <$> l.
Proof. induction l as [|a l IH]; [reflexivity|]. cbn. rewrite IH. reflexivity. Qed.

Lemma sigma_insert (st : gmap node estatus) x s n :
  sigma (<[x := s]> st) n = if decide (n = x) then s else sigma st n.
Proof.
  unfold sigma. destruct (decide (n = x)) as [->|].
  - rewrite lookup_insert. reflexivity.
  - rewrite lookup_insert_ne; [reflexivity|congruence].
Qed.

(** potential for the fuel bound *)
Fixpoint phi (l : list node) (st : gmap node estatus) : nat :=
  match l with
  | [] => 0
  | n :: l' => (2 - st_rank (sigma st n)) + phi l' st
  end.

Lemma phi_insert_notin l x s st : x ∉ l -> phi l (<[x := s]> st) = phi l st.
Proof.
  induction l as [|y l IH]; simpl; intros Hx; [done|].
  apply not_elem_of_cons in Hx as [Hxy Hx].
  rewrite sigma_insert. destruct (decide (y = x)); [congruence|]. now rewrite IH.
Qed.

Lemma phi_raise l x s st :
  NoDup l -> x ∈ l -> st_lt (sigma st x) s = true -> phi l (<[x := s]> st) + 1 <= phi l st.
Proof.
  induction l as [|y l IH]; simpl; intros Hnd Hx Hlt.
  - now apply elem_of_nil in Hx.
  - apply NoDup_cons in Hnd as [Hy Hnd]. rewrite sigma_insert.
    destruct (decide (y = x)) as [->|Hne].
    + rewrite phi_insert_notin by done. apply st_lt_rank in Hlt. pose proof (st_rank_le2 s). lia.
    + apply elem_of_cons in Hx as [->|Hx]; [done|]. specialize (IH Hnd Hx Hlt). lia.
Qed.

Lemma phi_bound l st : phi l st <= 2 * length l.
Proof. induction l; simpl; lia. Qed.

Section Closure.
  Context (ord : list node -> list node) (ord_perm : forall l, ord l ≡ₚ l).
  Implicit Types (e : gmap node (gmap node flags)) (st : gmap node estatus).

  (** [d] is an entry of [e[c]] *)
  Definition succ e (c d : node) : Prop := is_Some (default ∅ (e !! c) !! d).

  Lemma elem_of_succs_of e c d : d ∈ succs_of ord e c <-> succ e c d.
  Proof.
    unfold succs_of, succ. rewrite ord_perm, map_fmap, elem_of_list_fmap. split.
    - intros [[k f] [-> H%elem_of_map_to_list]]. simpl. eauto.
    - intros [f H]. exists (d, f). split; [done|]. now apply elem_of_map_to_list.
  Qed.

  Lemma succ_target e c d : succ e c d -> d ∈ targets_of e.
  Proof.
    unfold succ, targets_of. intros [f H].
    destruct (e !! c) as [m|] eqn:Hc; simpl in H; [|now rewrite lookup_empty in H].
    apply elem_of_union_list. exists (dom m). split.
    - rewrite map_fmap, elem_of_list_fmap. exists (c, m). split; [done|]. now apply elem_of_map_to_list.
    - apply elem_of_dom. eauto.
  Qed.

  (** ** The inner loop *)
  Lemma raise_succs_spec s succs : forall st st' new,
    raise_succs s succs st = (st', new) ->
    (forall n, sle (sigma st n) (sigma st' n)) /\
    (forall n, n ∈ succs -> sle s (sigma st' n)) /\
    (forall n, sigma st' n <> sigma st n -> n ∈ succs /\ sigma st' n = s /\ n ∈ new) /\
    (forall n, n ∈ dom st' <-> n ∈ dom st \/ n ∈ new) /\
    (forall n, n ∈ new -> n ∈ succs) /\
    (forall l, NoDup l -> (forall n, n ∈ succs -> n ∈ l) -> phi l st' + length new <= phi l st).
  Proof.
    induction succs as [|x rest IH]; simpl; intros st st' new.
    - intros Heq. inversion Heq; subst st' new.
      refine (conj _ (conj _ (conj _ (conj _ (conj _ _))))).
      + intros n. apply sle_refl.
      + intros n Hn. now apply elem_of_nil in Hn.
      + intros n Hn. congruence.
      + intros n. rewrite elem_of_nil. tauto.
      + intros n Hn. now apply elem_of_nil in Hn.
      + intros l _ _. simpl. lia.
    - destruct (st_lt (sigma st x) s) eqn:Hlt.
      + destruct (raise_succs s rest (<[x := s]> st)) as [st1 new1] eqn:Hr.
        intros Heq. inversion Heq; subst st' new; clear Heq.
        destruct (IH _ _ _ Hr) as (H1 & H2 & H3 & H4 & H5 & H6).
        assert (Hins : forall n, sigma (<[x := s]> st) n = if decide (n = x) then s else sigma st n)
          by (intros; apply sigma_insert).
        refine (conj _ (conj _ (conj _ (conj _ (conj _ _))))).
        * intros n. eapply sle_trans; [|apply H1]. rewrite Hins.
          destruct (decide (n = x)) as [->|]; [now apply st_lt_sle|apply sle_refl].
        * intros n Hn. apply elem_of_cons in Hn as [->|Hn]; [|now apply H2].
          eapply sle_trans; [|apply H1]. rewrite Hins. destruct (decide (x = x)); [apply sle_refl|congruence].
        * intros n Hn.
          destruct (decide (sigma st1 n = sigma (<[x := s]> st) n)) as [He|Hne].
          -- rewrite He. rewrite He in Hn. rewrite Hins. rewrite Hins in Hn.
             destruct (decide (n = x)) as [->|]; [|congruence].
             split; [set_solver|]. split; [reflexivity|set_solver].
          -- destruct (H3 _ Hne) as (? & ? & ?). split; [set_solver|]. split; [assumption|set_solver].
        * intros n. rewrite H4, dom_insert. set_solver.
        * intros n Hn. apply elem_of_cons in Hn as [->|Hn]; [set_solver|]. apply H5 in Hn. set_solver.
        * intros l Hnd Hl. simpl.
          assert (phi l (<[x := s]> st) + 1 <= phi l st)
            by (apply phi_raise; [assumption|apply Hl; set_solver|assumption]).
          assert (phi l st1 + length new1 <= phi l (<[x := s]> st))
            by (apply H6; [assumption|]; intros; apply Hl; set_solver).
          lia.
      + intros Heq. destruct (IH _ _ _ Heq) as (H1 & H2 & H3 & H4 & H5 & H6).
        refine (conj _ (conj _ (conj _ (conj _ (conj _ _))))).
        * exact H1.
        * intros n Hn. apply elem_of_cons in Hn as [->|Hn]; [|now apply H2].
          eapply sle_trans; [|apply H1]. now apply st_lt_false.
        * intros n Hn. destruct (H3 _ Hn) as (? & ? & ?). split; [set_solver|]. split; assumption.
        * exact H4.
        * intros n Hn. apply H5 in Hn. set_solver.
        * intros l Hnd Hl. apply H6; [assumption|]. intros; apply Hl; set_solver.
  Qed.

  (** ** The worklist loop *)
  Definition closedf e (t : node -> estatus) : Prop := forall c d, succ e c d -> sle (t c) (t d).

  Lemma close_loop_spec e fuel : forall wl st st',
    close_loop ord fuel e wl st = Done st' ->
    (forall n, sle (sigma st n) (sigma st' n)) /\
    (forall t, closedf e t -> (forall n, sle (sigma st n) (t n)) -> forall n, sle (sigma st' n) (t n)) /\
    (forall c d, succ e c d -> (sle (sigma st c) (sigma st d) \/ c ∈ wl) -> sle (sigma st' c) (sigma st' d)) /\
    ((forall c d, succ e c d -> d ∈ dom st) -> dom st' = dom st).
  Proof.
    assert (Hbase : forall st st' : gmap node estatus, Done st = Done st' ->
      (forall n, sle (sigma st n) (sigma st' n)) /\
      (forall t, closedf e t -> (forall n, sle (sigma st n) (t n)) -> forall n, sle (sigma st' n) (t n)) /\
      (forall c d, succ e c d -> (sle (sigma st c) (sigma st d) \/ c ∈ @nil node) -> sle (sigma st' c) (sigma st' d)) /\
      ((forall c d, succ e c d -> d ∈ dom st) -> dom st' = dom st)).
    { intros st st' Heq. inversion Heq; subst st'.
      refine (conj _ (conj _ (conj _ _))).
      - intros; apply sle_refl.
      - intros t _ H. exact H.
      - intros c d _ [H|H]; [exact H|now apply elem_of_nil in H].
      - intros _. reflexivity. }
    induction fuel as [|k IH]; intros wl st st'.
    - destruct wl; simpl; [apply Hbase|discriminate].
    - destruct wl as [|n wl']; simpl; [apply Hbase|].
      destruct (raise_succs (sigma st n) (succs_of ord e n) st) as [st1 new] eqn:Hr.
      intros Hrun.
      destruct (raise_succs_spec _ _ _ _ _ Hr) as (R1 & R2 & R3 & R4 & R5 & _).
      destruct (IH _ _ _ Hrun) as (I1 & I2 & I3 & I4).
      refine (conj _ (conj _ (conj _ _))).
      + intros m. eapply sle_trans; [apply R1|apply I1].
      + intros t Hcl Hle. apply I2; [assumption|]. intros m.
        destruct (decide (sigma st1 m = sigma st m)) as [->|Hne]; [apply Hle|].
        destruct (R3 _ Hne) as (Hm & -> & _). apply elem_of_succs_of in Hm.
        eapply sle_trans; [apply Hle|]. now apply Hcl.
      + intros c d Hcd Hor. apply I3; [assumption|].
        destruct (decide (sigma st1 c = sigma st c)) as [Hc|Hne].
        * destruct Hor as [Hle|Hin].
          -- left. rewrite Hc. eapply sle_trans; [apply Hle|apply R1].
          -- apply elem_of_cons in Hin as [->|Hin].
             ++ left. rewrite Hc. apply R2. now apply elem_of_succs_of.
             ++ right. apply elem_of_app. now right.
        * destruct (R3 _ Hne) as (_ & _ & Hnew). right. apply elem_of_app. left.
          apply elem_of_list_In. apply (proj1 (in_rev new c)). apply elem_of_list_In. exact Hnew.
      + intros Hdom. rewrite I4.
        * apply set_eq. intros m. rewrite R4. split; [|auto]. intros [?|Hm]; [assumption|].
          apply R5, elem_of_succs_of in Hm. eauto.
        * intros c d Hcd. apply R4. left. eauto.
  Qed.

  Lemma close_loop_done e l (Hnd : NoDup l) (Hl : forall c d, succ e c d -> d ∈ l) fuel : forall wl st,
    length wl + phi l st < fuel -> exists st', close_loop ord fuel e wl st = Done st'.
  Proof.
    induction fuel as [|k IH]; intros wl st Hf; [lia|].
    destruct wl as [|n wl']; simpl; [eauto|].
    destruct (raise_succs (sigma st n) (succs_of ord e n) st) as [st1 new] eqn:Hr.
    destruct (raise_succs_spec _ _ _ _ _ Hr) as (_ & _ & _ & _ & _ & R6).
    apply IH. rewrite app_length, rev_length. simpl in Hf.
    assert (phi l st1 + length new <= phi l st); [|lia].
    apply R6; [assumption|]. intros m Hm. apply elem_of_succs_of in Hm. eauto.
  Qed.

  (** ** computeEdgeClosure on the status map *)
  Lemma closure_st_done e a b st : exists st', closure_st ord (close_fuel e) e a b st = Done st'.
  Proof.
    unfold closure_st. destruct (st_lt (sigma st b) (sigma st a)); [|eauto].
    eapply (close_loop_done e (elements (targets_of e))).
    - apply NoDup_elements.
    - intros c d H. apply elem_of_elements. eapply succ_target; eauto.
    - unfold close_fuel. simpl.
      pose proof (phi_bound (elements (targets_of e)) (<[b:=sigma st a]> st)) as Hb.
      change (length (elements (targets_of e))) with (size (targets_of e)) in Hb. lia.
  Qed.

  Lemma closure_st_spec e fuel a b st st' :
    closure_st ord fuel e a b st = Done st' ->
    (forall n, sle (sigma st n) (sigma st' n)) /\
    (succ e a b -> sle (sigma st' a) (sigma st' b)) /\
    (forall c d, succ e c d -> sle (sigma st c) (sigma st d) -> sle (sigma st' c) (sigma st' d)) /\
    (forall t, closedf e t -> sle (t a) (t b) -> (forall n, sle (sigma st n) (t n)) -> forall n, sle (sigma st' n) (t n)) /\
    (b ∈ dom st -> (forall c d, succ e c d -> d ∈ dom st) -> dom st' = dom st).
  Proof.
    unfold closure_st. destruct (st_lt (sigma st b) (sigma st a)) eqn:Hlt.
    - intros Hrun. destruct (close_loop_spec _ _ _ _ _ Hrun) as (I1 & I2 & I3 & I4).
      assert (Hab : a <> b). { intros ->. apply st_lt_true in Hlt. apply Hlt, sle_refl. }
      assert (Hins : forall n, sigma (<[b:=sigma st a]> st) n = if decide (n = b) then sigma st a else sigma st n)
        by (intros; apply sigma_insert).
      assert (H0 : forall n, sle (sigma st n) (sigma (<[b:=sigma st a]> st) n)).
      { intros n. rewrite Hins. destruct (decide (n = b)) as [->|]; [now apply st_lt_sle|apply sle_refl]. }
      refine (conj _ (conj _ (conj _ (conj _ _)))).
      + intros n. eapply sle_trans; [apply H0|apply I1].
      + intros Hedge. apply I3; [assumption|]. left. rewrite !Hins.
        destruct (decide (a = b)); [congruence|]. destruct (decide (b = b)); [apply sle_refl|congruence].
      + intros c d Hcd Hle. apply I3; [assumption|].
        destruct (decide (c = b)) as [->|Hcb]; [right; set_solver|]. left. rewrite !Hins.
        destruct (decide (c = b)); [congruence|].
        destruct (decide (d = b)) as [->|]; [|assumption]. eapply sle_trans; [apply Hle|now apply st_lt_sle].
      + intros t Hcl Hab' Hle. apply I2; [assumption|]. intros n. rewrite Hins.
        destruct (decide (n = b)) as [->|]; [|apply Hle]. eapply sle_trans; [apply Hle|assumption].
      + intros Hb Hdom. rewrite I4.
        * rewrite dom_insert_L. set_solver.
        * intros c d Hcd. rewrite dom_insert. apply Hdom in Hcd. set_solver.
    - intros Hrun. inversion Hrun; subst st'. apply st_lt_false in Hlt.
      refine (conj _ (conj _ (conj _ (conj _ _)))).
      + intros; apply sle_refl.
      + intros _. assumption.
      + intros c d _ H. exact H.
      + intros t _ _ H. exact H.
      + intros _ _. reflexivity.
  Qed.
End Closure.
