(** * Proofs/RWGen — finite theorems about the REGENERATED tables of coq/gen/GenRW.v (re-proved on every run against
    what /repo/analysis/lang/instructions.go and the pinned x/tools ssa package say now) *)
From Coq Require Import List String Bool.
From Argot Require Import Model.RW Proofs.RW.
From ArgotGen Require Import GenRW.
Import ListNotations.
Open Scope string_scope.

(** every operand position through which a global can be read is compared by FnReadsFrom, or is a known gap; every
    position through which it is written is compared by FnWritesTo *)
Lemma rw_cover_except_known_gen : rw_cover_except known_rw_gaps rw_schema rw_reads_from rw_writes_to = true.
Proof. vm_compute. reflexivity. Qed.

(** the write scan is complete (no exception needed) *)
Lemma rw_write_cover_gen : write_gaps rw_schema rw_writes_to = [].
Proof. vm_compute. reflexivity. Qed.

(** sanity of the regenerated tables: the schema lists the load through which a scalar global is read and the store
    through which it is written, and both scans list them (so the theorems above are not vacuous) *)
Lemma rw_tables_nontrivial_gen :
  covered (map fst rw_schema) ("UnOp", "X") && covered (map fst rw_schema) ("Store", "Addr") &&
  covered rw_reads_from ("UnOp", "X") && covered rw_writes_to ("Store", "Addr") &&
  Nat.leb 40 (List.length rw_schema) = true.
Proof. vm_compute. reflexivity. Qed.
