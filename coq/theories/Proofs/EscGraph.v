(** * C15 — proofs about the escape-graph model (umbrella file)

    - [EscGraphClosure]: status order; [computeEdgeClosure] worklist: specification and fuel bound
    - [EscGraphOrder]  : [LessEqual] / [Matches] decide the order / equality; invariant; antisymmetry
    - [EscGraphOps]    : [AddNode], [AddEdge], [MergeNodeStatus] compute least constrained extensions
    - [EscGraphMerge]  : [Merge] is the least upper bound; semilattice laws; monotonicity of the primitives
    - [EscGraphJoin]   : [Merge] = closure (union of edges, max of statuses); soundness of the boolean invariant check
    - [EscGraphFix]    : block-level worklist order irrelevance (instance of [Base/Fix.v]) *)
From Argot Require Export Proofs.EscGraphClosure Proofs.EscGraphOrder Proofs.EscGraphOps Proofs.EscGraphMerge
  Proofs.EscGraphJoin Proofs.EscGraphFix.
