(* ====================================================================== *)
(*  Argot.Base.Closure                                                    *)
(*                                                                        *)
(*  A generic, fully proved theory of a worklist traversal with a         *)
(*  seen-set (BFS / DFS / any queue discipline, any successor order,      *)
(*  lazily built graph), and of the "stop after k sink visits" variant.   *)
(*                                                                        *)
(*  Only the Coq standard library is used; no axioms.                     *)
(*                                                                        *)
(*  Layout:                                                               *)
(*    Part A  executable definitions (mem, push, wl, run, wlk, runk, ...) *)
(*    Part B  specification vocabulary (reach, set_eq, oracle_ok)         *)
(*    Part C  proofs about ONE oracle pack                                *)
(*    Part D  theorems relating TWO oracle packs (order independence,     *)
(*            lazy = eager, alarm limit)                                  *)
(*    Part E  non-vacuity: generic oracle packs and concrete examples     *)
(* ====================================================================== *)

From Coq Require Import List Arith Bool Lia.
Import ListNotations.

(* proofs depend only on the section variables their statement mentions,
   plus the hypotheses named in [Proof using] *)
Set Default Proof Using "Type".

Section Worklist.
  Variable K : Type.
  Variable K_eq_dec : forall x y : K, {x = y} + {x <> y}.
  Variable succ : K -> list K.              (* the reference ("eager") key graph *)
  Variable is_sink : K -> bool.

  (* ==================================================================== *)
  (*  Part A.  Executable definitions                                      *)
  (* ==================================================================== *)

  Definition mem (x : K) (l : list K) : bool :=
    if in_dec K_eq_dec x l then true else false.

  (* enqueue-with-seen: a successor is appended to the queue and added to
     seen iff it is not yet seen *)
  Fixpoint push (ys : list K) (queue seen : list K) : list K * list K :=
    match ys with
    | [] => (queue, seen)
    | y :: ys' =>
        if mem y seen then push ys' queue seen
        else push ys' (queue ++ [y]) (y :: seen)
    end.

  Inductive result := Done (seen : list K) | OutOfFuel.

  Inductive kresult :=
    KDone (hits : list K) | KStopped (hits : list K) | KOutOfFuel.

  Definition hits_of (r : kresult) : list K :=
    match r with KDone h => h | KStopped h => h | KOutOfFuel => [] end.

  Section Pack.
    (* The traversal threads an arbitrary state through two arbitrary
       functions:
         nexts  successors actually produced when key x is expanded in
                state s (map-iteration order, summaries built on touch)
         sched  arbitrary re-arrangement of the queue before the head is
                popped (queue discipline)                                 *)
    Variable St : Type.
    Variable nexts : St -> K -> list K * St.
    Variable sched : St -> list K -> list K * St.

    Fixpoint wl (fuel : nat) (s : St) (queue seen : list K) : result :=
      match fuel with
      | 0 => OutOfFuel
      | S f =>
          let (q, s1) := sched s queue in
          match q with
          | [] => Done seen
          | x :: rest =>
              let (ys, s2) := nexts s1 x in
              let (q', seen') := push ys rest seen in
              wl f s2 q' seen'
          end
      end.

    Definition run (fuel : nat) (s : St) (roots : list K) : result :=
      let (q, seen) := push roots [] [] in wl fuel s q seen.

    (* Traversal with an alarm limit.  A hit is recorded when a sink key is
       POPPED (sink test on the current key, then increment-and-test).
       [k = 0] means "no limit"; for [0 < k] the traversal stops as soon as
       the counter reaches k.  Sinks are expanded like any other key; all
       theorems hold for an ARBITRARY [succ], so an implementation that
       does not expand sinks is covered by instantiating [succ] with
       [fun x => if is_sink x then [] else succ x].                        *)
    Fixpoint wlk (fuel : nat) (k cnt : nat) (s : St)
             (queue seen hits : list K) : kresult :=
      match fuel with
      | 0 => KOutOfFuel
      | S f =>
          let (q, s1) := sched s queue in
          match q with
          | [] => KDone hits
          | x :: rest =>
              if is_sink x then
                if (0 <? k) && (k <=? S cnt) then KStopped (x :: hits)
                else
                  let (ys, s2) := nexts s1 x in
                  let (q', seen') := push ys rest seen in
                  wlk f k (S cnt) s2 q' seen' (x :: hits)
              else
                let (ys, s2) := nexts s1 x in
                let (q', seen') := push ys rest seen in
                wlk f k cnt s2 q' seen' hits
          end
      end.

    (* start with a counter already at [cnt] (shared counter of a driver) *)
    Definition runk_from (fuel k cnt : nat) (s : St) (roots : list K) : kresult :=
      let (q, seen) := push roots [] [] in wlk fuel k cnt s q seen [].

    Definition runk (fuel k : nat) (s : St) (roots : list K) : kresult :=
      runk_from fuel k 0 s roots.

    (* The final oracle state of the very same traversal as [wlk] (same
       recursion, the hit list is irrelevant for it).  Only used by the
       multi-entry driver below, which must thread the state.             *)
    Fixpoint wlk_st (fuel : nat) (k cnt : nat) (s : St)
             (queue seen : list K) : St :=
      match fuel with
      | 0 => s
      | S f =>
          let (q, s1) := sched s queue in
          match q with
          | [] => s1
          | x :: rest =>
              if is_sink x then
                if (0 <? k) && (k <=? S cnt) then s1
                else
                  let (ys, s2) := nexts s1 x in
                  let (q', seen') := push ys rest seen in
                  wlk_st f k (S cnt) s2 q' seen'
              else
                let (ys, s2) := nexts s1 x in
                let (q', seen') := push ys rest seen in
                wlk_st f k cnt s2 q' seen'
          end
      end.

    Definition runk_st (fuel k cnt : nat) (s : St) (roots : list K) : St :=
      let (q, seen) := push roots [] [] in wlk_st fuel k cnt s q seen.

    (* Driver over a list of entry points: FRESH seen set per entry, SHARED
       counter, the limit is tested before each entry.  Returns the list of
       per-entry hit lists (entries skipped after the limit was reached
       contribute nothing), or None if some entry ran out of fuel.         *)
    Fixpoint drive (fuel k cnt : nat) (s : St) (entries : list (list K))
      : option (list (list K)) :=
      match entries with
      | [] => Some []
      | e :: es =>
          if (0 <? k) && (k <=? cnt) then Some []
          else
            match runk_from fuel k cnt s e with
            | KOutOfFuel => None
            | r =>
                match drive fuel k (cnt + length (hits_of r))
                            (runk_st fuel k cnt s e) es with
                | None => None
                | Some hs => Some (hits_of r :: hs)
                end
            end
      end.

  End Pack.

  (* ==================================================================== *)
  (*  Part B.  Specification vocabulary                                    *)
  (* ==================================================================== *)

  (* reachability closure of a list of roots *)
  Inductive reach (roots : list K) : K -> Prop :=
  | reach_root x : In x roots -> reach roots x
  | reach_step x y : reach roots x -> In y (succ x) -> reach roots y.

  Definition set_eq (a b : list K) : Prop := forall x, In x a <-> In x b.

  (* Hypotheses about the oracles, relative to an invariant [Inv] on oracle
     states (so they need to hold only on states that actually arise) and
     only on REACHABLE keys.
     [ok_sched] only asks for the same SET of elements: the scheduler may
     reorder and even duplicate.                                           *)
  Record oracle_ok (St : Type)
         (nexts : St -> K -> list K * St) (sched : St -> list K -> list K * St)
         (Inv : St -> Prop) (roots : list K) : Prop := {
    ok_sched : forall s l, Inv s ->
                 set_eq (fst (sched s l)) l /\ Inv (snd (sched s l));
    ok_nexts : forall s x, Inv s -> reach roots x ->
                 set_eq (fst (nexts s x)) (succ x) /\ Inv (snd (nexts s x))
  }.

  (* ==================================================================== *)
  (*  Part C.  Proofs for one oracle pack                                  *)
  (* ==================================================================== *)

  Lemma set_eq_refl a : set_eq a a.
  Proof. intro x; split; auto. Qed.

  Lemma set_eq_sym a b : set_eq a b -> set_eq b a.
  Proof. intros H x; split; apply H. Qed.

  Lemma set_eq_trans a b c : set_eq a b -> set_eq b c -> set_eq a c.
  Proof. intros H1 H2 x; split; intro H; [apply H2, H1, H | apply H1, H2, H]. Qed.

  Lemma mem_true x l : mem x l = true <-> In x l.
  Proof.
    unfold mem. destruct (in_dec K_eq_dec x l); split; intros; auto; discriminate.
  Qed.

  Lemma mem_false x l : mem x l = false <-> ~ In x l.
  Proof.
    unfold mem. destruct (in_dec K_eq_dec x l); split; intros; auto;
      try discriminate; contradiction.
  Qed.

  (* ---------- push ---------- *)

  Lemma push_seen_in ys : forall q seen x,
    In x (snd (push ys q seen)) <-> In x seen \/ In x ys.
  Proof.
    induction ys as [|y ys IH]; intros q seen x; simpl.
    - split; [auto | intros [H|[]]; auto].
    - destruct (mem y seen) eqn:E.
      + apply mem_true in E. rewrite IH. split; [intros [H|H]; auto|].
        intros [H|[H|H]]; auto. subst; auto.
      + rewrite IH. simpl.
        split; [intros [[H|H]|H] | intros [H|[H|H]]]; auto.
  Qed.

  Lemma push_queue_in ys : forall q seen x,
    In x (fst (push ys q seen)) <-> In x q \/ (In x ys /\ ~ In x seen).
  Proof.
    induction ys as [|y ys IH]; intros q seen x; simpl.
    - split; [auto | intros [H|[[] _]]; auto].
    - destruct (mem y seen) eqn:E.
      + apply mem_true in E. rewrite IH. split.
        * intros [H|[H1 H2]]; auto.
        * intros [H|[[H1|H1] H2]]; auto. subst. contradiction.
      + apply mem_false in E. rewrite IH. rewrite in_app_iff. simpl. split.
        * intros [[H|[H|[]]]|[H1 H2]]; auto.
          -- subst; auto.
          -- right. split; auto.
        * intros [H|[[H1|H1] H2]]; auto.
          destruct (K_eq_dec y x) as [e|n]; auto.
          right; split; auto. intros [?|?]; auto.
  Qed.

  Lemma push_length ys : forall q seen,
    length (fst (push ys q seen)) + length seen
    = length q + length (snd (push ys q seen)).
  Proof.
    induction ys as [|y ys IH]; intros q seen; simpl.
    - reflexivity.
    - destruct (mem y seen).
      + apply IH.
      + specialize (IH (q ++ [y]) (y :: seen)). rewrite app_length in IH.
        simpl in IH. lia.
  Qed.

  Lemma push_seen_nodup ys : forall q seen,
    NoDup seen -> NoDup (snd (push ys q seen)).
  Proof.
    induction ys as [|y ys IH]; intros q seen H; simpl; auto.
    destruct (mem y seen) eqn:E; auto.
    apply mem_false in E. apply IH. constructor; auto.
  Qed.

  Lemma NoDup_snoc (l : list K) y : NoDup l -> ~ In y l -> NoDup (l ++ [y]).
  Proof.
    induction l as [|a l IH]; intros H Hy; simpl.
    - constructor; auto.
    - inversion H; subst. constructor.
      + rewrite in_app_iff. simpl. intros [?|[?|[]]]; auto.
        subst. apply Hy. left; auto.
      + apply IH; auto. intro; apply Hy; right; auto.
  Qed.

  Lemma push_queue_nodup ys : forall q seen,
    NoDup q -> incl q seen -> NoDup (fst (push ys q seen)).
  Proof.
    induction ys as [|y ys IH]; intros q seen H Hi; simpl; auto.
    destruct (mem y seen) eqn:E; auto.
    apply mem_false in E. apply IH.
    - apply NoDup_snoc; auto.
    - intros z Hz. apply in_app_or in Hz. destruct Hz as [Hz|[Hz|[]]].
      + right; auto.
      + left; auto.
  Qed.

  (* ---------- the loop invariant on (queue, seen) ---------- *)

  Record inv (roots q seen : list K) : Prop := {
    inv_reach  : forall x, In x seen -> reach roots x;
    inv_roots  : forall x, In x roots -> In x seen;
    inv_queue  : forall x, In x q -> In x seen;
    inv_closed : forall x, In x seen ->
                   In x q \/ forall y, In y (succ x) -> In y seen
  }.

  Lemma inv_init roots :
    inv roots (fst (push roots [] [])) (snd (push roots [] [])).
  Proof.
    split; intros x.
    - rewrite push_seen_in. intros [[]|H]. constructor; auto.
    - rewrite push_seen_in. auto.
    - rewrite push_queue_in, push_seen_in. intros [[]|[H _]]; auto.
    - rewrite push_seen_in, push_queue_in. intros [[]|H]. left. right. split; auto.
  Qed.

  Lemma init_seen_in_queue roots x :
    In x (snd (push roots [] [])) -> In x (fst (push roots [] [])).
  Proof.
    rewrite push_seen_in, push_queue_in. intros [[]|H]. right. split; auto.
  Qed.

  Lemma inv_step roots q seen x rest ys :
    inv roots q seen -> set_eq (x :: rest) q -> set_eq ys (succ x) ->
    inv roots (fst (push ys rest seen)) (snd (push ys rest seen)).
  Proof.
    intros [Hr Hro Hq Hc] Hs Hys.
    assert (Hx : In x seen) by (apply Hq, Hs; left; auto).
    split; intros z.
    - rewrite push_seen_in. intros [H|H]; auto.
      apply reach_step with x; auto. apply Hys; auto.
    - rewrite push_seen_in. auto.
    - rewrite push_queue_in, push_seen_in. intros [H|[H _]]; auto.
      left. apply Hq, Hs. right; auto.
    - rewrite push_seen_in, push_queue_in. intros [H|H].
      + destruct (Hc z H) as [Hzq|Hzc].
        * apply Hs in Hzq. destruct Hzq as [Hzx|Hzr]; auto.
          subst z. right. intros y Hy. rewrite push_seen_in. right. apply Hys; auto.
        * right. intros y Hy. rewrite push_seen_in. left; auto.
      + destruct (in_dec K_eq_dec z seen) as [Hi|Hn].
        * destruct (Hc z Hi) as [Hzq|Hzc].
          -- apply Hs in Hzq. destruct Hzq as [Hzx|Hzr]; auto.
             subst z. right. intros y Hy. rewrite push_seen_in. right. apply Hys; auto.
          -- right. intros y Hy. rewrite push_seen_in. left; auto.
        * left. right. split; auto.
  Qed.

  Lemma inv_final roots q seen :
    inv roots q seen -> (forall x, ~ In x q) ->
    forall x, In x seen <-> reach roots x.
  Proof.
    intros [Hr Hro Hq Hc] He x. split; auto.
    induction 1 as [x Hx | x y Hxy IH Hy]; auto.
    destruct (Hc x IH) as [H|H]; auto. exfalso; eapply He; eauto.
  Qed.

  Section PackProofs.
    Variable St : Type.
    Variable nexts : St -> K -> list K * St.
    Variable sched : St -> list K -> list K * St.
    Variable Inv : St -> Prop.
    Variable roots : list K.
    Hypothesis OK : oracle_ok St nexts sched Inv roots.

    (* everything the proofs need to know about one iteration *)
    Lemma step_ok s q seen :
      Inv s -> inv roots q seen ->
      set_eq (fst (sched s q)) q /\ Inv (snd (sched s q)) /\
      forall x rest, fst (sched s q) = x :: rest ->
        In x seen /\
        Inv (snd (nexts (snd (sched s q)) x)) /\
        inv roots (fst (push (fst (nexts (snd (sched s q)) x)) rest seen))
                  (snd (push (fst (nexts (snd (sched s q)) x)) rest seen)).
    Proof using OK.
      intros Hs Hi. destruct OK as [Hsch Hnx].
      destruct (Hsch s q Hs) as [Hq Hs1]. split; auto. split; auto.
      intros x rest E. rewrite E in Hq.
      assert (Hx : In x seen) by (apply (inv_queue _ _ _ Hi), Hq; left; auto).
      assert (Hrx : reach roots x) by (apply (inv_reach _ _ _ Hi); auto).
      destruct (Hnx _ x Hs1 Hrx) as [Hys Hs2].
      split; auto. split; auto.
      eapply inv_step; eauto.
    Qed.

    (* ---------- 1. closure ---------- *)

    Lemma wl_spec : forall fuel s q seen r,
      Inv s -> inv roots q seen -> wl St nexts sched fuel s q seen = Done r ->
      forall x, In x r <-> reach roots x.
    Proof using OK.
      induction fuel as [|f IH]; intros s q seen r Hs Hi Hw; simpl in Hw;
        [discriminate|].
      destruct (step_ok s q seen Hs Hi) as (Hq & Hs1 & Hstep).
      destruct (sched s q) as [q1 s1]; simpl in *.
      destruct q1 as [|x rest].
      - inversion Hw; subst. apply inv_final with q; auto.
        intros y Hy. apply Hq in Hy. destruct Hy.
      - destruct (Hstep x rest eq_refl) as (Hx & Hs2 & Hi').
        destruct (nexts s1 x) as [ys s2]; simpl in *.
        destruct (push ys rest seen) as [q' seen']; simpl in *.
        eapply IH; eauto.
    Qed.

    Theorem wl_closure_spec : forall fuel s0 seen,
      Inv s0 -> run St nexts sched fuel s0 roots = Done seen ->
      forall x, In x seen <-> reach roots x.
    Proof using OK.
      intros fuel s0 seen Hs H. unfold run in H.
      pose proof (inv_init roots) as Hi.
      destruct (push roots [] []) as [q sn]; simpl in *.
      eapply wl_spec; eauto.
    Qed.

    Lemma wl_nodup_gen : forall fuel s q seen r,
      Inv s -> inv roots q seen -> NoDup seen ->
      wl St nexts sched fuel s q seen = Done r -> NoDup r.
    Proof using OK.
      induction fuel as [|f IH]; intros s q seen r Hs Hi Hn Hw; simpl in Hw;
        [discriminate|].
      destruct (step_ok s q seen Hs Hi) as (Hq & Hs1 & Hstep).
      destruct (sched s q) as [q1 s1]; simpl in *.
      destruct q1 as [|x rest].
      - inversion Hw; subst; auto.
      - destruct (Hstep x rest eq_refl) as (Hx & Hs2 & Hi').
        destruct (nexts s1 x) as [ys s2]; simpl in *.
        pose proof (push_seen_nodup ys rest seen Hn) as Hn'.
        destruct (push ys rest seen) as [q' seen']; simpl in *.
        eapply IH; eauto.
    Qed.

    Theorem wl_nodup : forall fuel s0 seen,
      Inv s0 -> run St nexts sched fuel s0 roots = Done seen -> NoDup seen.
    Proof using OK.
      intros fuel s0 seen Hs H. unfold run in H.
      pose proof (inv_init roots) as Hi.
      pose proof (push_seen_nodup roots [] [] (NoDup_nil K)) as Hn.
      destruct (push roots [] []) as [q sn]; simpl in *.
      eapply wl_nodup_gen; eauto.
    Qed.

    (* ---------- 4. termination and fuel monotonicity ---------- *)

    Lemma wl_fuel_mono_gen : forall f f' s q seen r,
      wl St nexts sched f s q seen = Done r -> f <= f' ->
      wl St nexts sched f' s q seen = Done r.
    Proof.
      induction f as [|f IH]; intros f' s q seen r H Hle; simpl in H;
        [discriminate|].
      destruct f' as [|f']; [lia|]. simpl.
      destruct (sched s q) as [q1 s1]. destruct q1 as [|x rest]; auto.
      destruct (nexts s1 x) as [ys s2].
      destruct (push ys rest seen) as [q' seen'].
      apply IH; auto. lia.
    Qed.

    Theorem wl_fuel_mono : forall f f' s0 r,
      run St nexts sched f s0 roots = Done r -> f <= f' ->
      run St nexts sched f' s0 roots = Done r.
    Proof.
      unfold run. intros f f' s0 r. destruct (push roots [] []) as [q sn].
      apply wl_fuel_mono_gen.
    Qed.

    Section Termination.
      (* [U] : any finite over-approximation of the reachable keys *)
      Variable U : list K.
      Hypothesis HU : forall x, reach roots x -> In x U.
      (* The scheduler must not lengthen the queue.  This is the weakest
         natural strengthening of [ok_sched] that gives a fuel bound: a
         scheduler that is only [set_eq]-preserving could duplicate queue
         entries forever.  It is implied by [Permutation].                *)
      Hypothesis Hlen : forall s l, Inv s -> length (fst (sched s l)) <= length l.

      Lemma wl_terminates_gen : forall fuel s q seen,
        Inv s -> inv roots q seen -> NoDup seen ->
        length U - length seen + length q < fuel ->
        exists r, wl St nexts sched fuel s q seen = Done r.
      Proof using OK HU Hlen.
        induction fuel as [|f IH]; intros s q seen Hs Hi Hn Hm; [lia|]. simpl.
        destruct (step_ok s q seen Hs Hi) as (Hq & Hs1 & Hstep).
        pose proof (Hlen s q Hs) as Hl.
        destruct (sched s q) as [q1 s1]; simpl in *.
        destruct q1 as [|x rest]; [eexists; reflexivity|].
        destruct (Hstep x rest eq_refl) as (Hx & Hs2 & Hi').
        destruct (nexts s1 x) as [ys s2]; simpl in *.
        pose proof (push_seen_nodup ys rest seen Hn) as Hn'.
        pose proof (push_length ys rest seen) as Hpl.
        assert (Hb : length seen <= length U).
        { apply NoDup_incl_length; auto.
          intros z Hz. apply HU. apply (inv_reach _ _ _ Hi); auto. }
        destruct (push ys rest seen) as [q' seen']; simpl in *.
        assert (Hb' : length seen' <= length U).
        { apply NoDup_incl_length; auto.
          intros z Hz. apply HU. apply (inv_reach _ _ _ Hi'); auto. }
        apply IH; auto. lia.
      Qed.

      Theorem wl_terminates_fuel : forall fuel s0,
        Inv s0 -> length U < fuel ->
        exists seen, run St nexts sched fuel s0 roots = Done seen.
      Proof using OK HU Hlen.
        intros fuel s0 Hs Hf. unfold run.
        pose proof (inv_init roots) as Hi.
        pose proof (push_seen_nodup roots [] [] (NoDup_nil K)) as Hn.
        pose proof (push_length roots [] []) as Hpl.
        destruct (push roots [] []) as [q sn]; simpl in *.
        apply wl_terminates_gen; auto.
        assert (length sn <= length U).
        { apply NoDup_incl_length; auto.
          intros z Hz. apply HU. apply (inv_reach _ _ _ Hi); auto. }
        lia.
      Qed.

      Theorem wl_terminates : forall s0,
        Inv s0 ->
        exists seen, run St nexts sched (S (length U)) s0 roots = Done seen.
      Proof using OK HU Hlen. intros s0 Hs. apply wl_terminates_fuel; auto. Qed.

    End Termination.

    (* ---------- 5. alarm limit ---------- *)

    (* invariant relating the hit list / counter to (queue, seen);
       [c0] is the value of the shared counter when the traversal started *)
    Record kinv (k c0 : nat) (q seen hits : list K) (cnt : nat) : Prop := {
      kinv_hits  : forall x, In x hits -> In x seen /\ is_sink x = true;
      kinv_sinks : forall x, In x seen -> is_sink x = true -> In x q \/ In x hits;
      kinv_cnt   : cnt = c0 + length hits;
      kinv_lim   : 0 < k -> cnt < k
    }.

    Definition kpost (k c0 : nat) (r : kresult) : Prop :=
      match r with
      | KDone h =>
          (forall x, In x h <-> reach roots x /\ is_sink x = true) /\
          (0 < k -> c0 + length h < k)
      | KStopped h =>
          h <> [] /\
          (forall x, In x h -> reach roots x /\ is_sink x = true) /\
          0 < k /\ c0 + length h = k
      | KOutOfFuel => True
      end.

    Lemma kinv_sched k c0 q q1 seen hits cnt :
      set_eq q1 q -> kinv k c0 q seen hits cnt -> kinv k c0 q1 seen hits cnt.
    Proof.
      intros Hq [H1 H2 H3 H4]. split; auto.
      intros x Hx Hsx. destruct (H2 x Hx Hsx); auto. left. apply Hq; auto.
    Qed.

    Lemma kinv_step_sink k c0 x rest ys seen hits cnt :
      kinv k c0 (x :: rest) seen hits cnt -> In x seen -> is_sink x = true ->
      (0 < k -> S cnt < k) ->
      kinv k c0 (fst (push ys rest seen)) (snd (push ys rest seen))
           (x :: hits) (S cnt).
    Proof.
      intros [H1 H2 H3 H4] Hx Hsx Hlim. split; auto.
      - intros z [Hz|Hz]; rewrite push_seen_in.
        + subst; auto.
        + destruct (H1 z Hz); auto.
      - intros z. rewrite push_seen_in, push_queue_in. intros Hz Hsz.
        destruct (in_dec K_eq_dec z seen) as [Hi|Hn].
        + destruct (H2 z Hi Hsz) as [[E|Hr]|Hh].
          * right; left; auto.
          * left; left; auto.
          * right; right; auto.
        + destruct Hz as [Hz|Hz]; [contradiction|]. left; right; auto.
      - simpl. lia.
    Qed.

    Lemma kinv_step_nosink k c0 x rest ys seen hits cnt :
      kinv k c0 (x :: rest) seen hits cnt -> is_sink x = false ->
      kinv k c0 (fst (push ys rest seen)) (snd (push ys rest seen)) hits cnt.
    Proof.
      intros [H1 H2 H3 H4] Hsx. split; auto.
      - intros z Hz. rewrite push_seen_in. destruct (H1 z Hz); auto.
      - intros z. rewrite push_seen_in, push_queue_in. intros Hz Hsz.
        destruct (in_dec K_eq_dec z seen) as [Hi|Hn].
        + destruct (H2 z Hi Hsz) as [[E|Hr]|Hh]; auto.
          subst z. rewrite Hsx in Hsz. discriminate.
        + destruct Hz as [Hz|Hz]; [contradiction|]. left; right; auto.
    Qed.

    Lemma wlk_spec k c0 : forall fuel cnt s q seen hits,
      Inv s -> inv roots q seen -> kinv k c0 q seen hits cnt ->
      kpost k c0 (wlk St nexts sched fuel k cnt s q seen hits).
    Proof using OK.
      induction fuel as [|f IH]; intros cnt s q seen hits Hs Hi Hk; simpl;
        [exact I|].
      destruct (step_ok s q seen Hs Hi) as (Hq & Hs1 & Hstep).
      apply (kinv_sched k c0 q (fst (sched s q))) in Hk; auto.
      destruct (sched s q) as [q1 s1]; simpl in *.
      destruct q1 as [|x rest].
      - (* queue empty: seen is the closure, every seen sink is a hit *)
        assert (Hfin : forall x, In x seen <-> reach roots x).
        { apply inv_final with q; auto.
          intros y Hy. apply Hq in Hy. destruct Hy. }
        destruct Hk as [H1 H2 H3 H4]. simpl. split.
        + intros x. split.
          * intros Hx. destruct (H1 x Hx). split; auto. apply Hfin; auto.
          * intros [Hr Hsx]. apply Hfin in Hr.
            destruct (H2 x Hr Hsx) as [[]|]; auto.
        + intros Hk0. specialize (H4 Hk0). lia.
      - destruct (Hstep x rest eq_refl) as (Hx & Hs2 & Hi').
        assert (Hrx : reach roots x) by (apply (inv_reach _ _ _ Hi); auto).
        destruct (is_sink x) eqn:Hsx.
        + destruct ((0 <? k) && (k <=? S cnt)) eqn:Et.
          * apply andb_true_iff in Et. destruct Et as [Et1 Et2].
            apply Nat.ltb_lt in Et1. apply Nat.leb_le in Et2.
            destruct Hk as [H1 H2 H3 H4]. simpl.
            split; [discriminate|]. split; [|split; auto].
            -- intros z [Hz|Hz].
               ++ subst; auto.
               ++ destruct (H1 z Hz). split; auto.
                  apply (inv_reach _ _ _ Hi); auto.
            -- specialize (H4 Et1). lia.
          * assert (Hlim : 0 < k -> S cnt < k).
            { intros Hk0. apply andb_false_iff in Et. destruct Et as [Et|Et].
              - apply Nat.ltb_ge in Et. lia.
              - apply Nat.leb_gt in Et. lia. }
            pose proof (kinv_step_sink k c0 x rest (fst (nexts s1 x)) seen hits cnt
                          Hk Hx Hsx Hlim) as Hk'.
            destruct (nexts s1 x) as [ys s2]; simpl in *.
            destruct (push ys rest seen) as [q' seen']; simpl in *.
            apply IH; auto.
        + pose proof (kinv_step_nosink k c0 x rest (fst (nexts s1 x)) seen hits cnt
                        Hk Hsx) as Hk'.
          destruct (nexts s1 x) as [ys s2]; simpl in *.
          destruct (push ys rest seen) as [q' seen']; simpl in *.
          apply IH; auto.
    Qed.

    Lemma kinv_init k c0 :
      (0 < k -> c0 < k) ->
      kinv k c0 (fst (push roots [] [])) (snd (push roots [] [])) [] c0.
    Proof.
      intros H. split; [ | | simpl; lia | exact H].
      - intros x [].
      - intros x Hx _. left. apply init_seen_in_queue; auto.
    Qed.

    Theorem runk_from_spec : forall fuel k c0 s0,
      Inv s0 -> (0 < k -> c0 < k) ->
      kpost k c0 (runk_from St nexts sched fuel k c0 s0 roots).
    Proof using OK.
      intros fuel k c0 s0 Hs Hc. unfold runk_from.
      pose proof (inv_init roots) as Hi.
      pose proof (kinv_init k c0 Hc) as Hk.
      destruct (push roots [] []) as [q sn]; simpl in *.
      apply wlk_spec; auto.
    Qed.

    Theorem runk_spec : forall fuel k s0,
      Inv s0 -> kpost k 0 (runk St nexts sched fuel k s0 roots).
    Proof using OK. intros. apply runk_from_spec; auto. Qed.

    (* with k = 0 the traversal never stops early (needs no hypothesis) *)
    Lemma wlk_unlimited_not_stopped : forall fuel cnt s q seen hits h,
      wlk St nexts sched fuel 0 cnt s q seen hits <> KStopped h.
    Proof.
      induction fuel as [|f IH]; intros cnt s q seen hits h; simpl;
        [discriminate|].
      destruct (sched s q) as [q1 s1]. destruct q1 as [|x rest]; [discriminate|].
      destruct (is_sink x); simpl;
        destruct (nexts s1 x) as [ys s2];
        destruct (push ys rest seen) as [q' seen']; apply IH.
    Qed.

    (* NoDup of the hit list needs a scheduler that does not duplicate
       queue entries (a [set_eq]-only scheduler may pop a key twice).     *)
    Section HitsNoDup.
      Hypothesis Hnd : forall s l, Inv s -> NoDup l -> NoDup (fst (sched s l)).

      Record ninv (q seen hits : list K) : Prop := {
        ninv_q   : NoDup q;
        ninv_h   : NoDup hits;
        ninv_dis : forall x, In x hits -> In x seen /\ ~ In x q
      }.

      Lemma ninv_pop x rest ys seen hits :
        ninv (x :: rest) seen hits -> In x seen -> incl rest seen ->
        ninv (fst (push ys rest seen)) (snd (push ys rest seen)) (x :: hits) /\
        ninv (fst (push ys rest seen)) (snd (push ys rest seen)) hits.
      Proof.
        intros [Hq Hh Hd] Hx Hinc. inversion Hq as [|a l Hxr Hrest]; subst.
        assert (Hq' : NoDup (fst (push ys rest seen)))
          by (apply push_queue_nodup; auto).
        assert (Hd' : forall z, In z hits ->
                   In z (snd (push ys rest seen)) /\ ~ In z (fst (push ys rest seen))).
        { intros z Hz. destruct (Hd z Hz) as [Hzs Hzq].
          rewrite push_seen_in, push_queue_in. split; auto.
          intros [H|[_ H]]; auto. apply Hzq. right; auto. }
        split; split; auto.
        - constructor; auto. intro Hxh. destruct (Hd x Hxh) as [_ H].
          apply H. left; auto.
        - intros z [Hz|Hz]; auto. subst z.
          rewrite push_seen_in, push_queue_in. split; auto.
          intros [H|[_ H]]; auto.
      Qed.

      Lemma wlk_nodup k : forall fuel cnt s q seen hits,
        Inv s -> inv roots q seen -> ninv q seen hits ->
        NoDup (hits_of (wlk St nexts sched fuel k cnt s q seen hits)).
      Proof using OK Hnd.
        induction fuel as [|f IH]; intros cnt s q seen hits Hs Hi Hn; simpl;
          [constructor|].
        destruct (step_ok s q seen Hs Hi) as (Hq & Hs1 & Hstep).
        assert (Hn1 : ninv (fst (sched s q)) seen hits).
        { destruct Hn as [Hnq Hnh Hnd']. split; auto.
          intros z Hz. destruct (Hnd' z Hz) as [Hzs Hzq]. split; auto.
          intro H. apply Hzq. apply Hq; auto. }
        destruct (sched s q) as [q1 s1]; simpl in *.
        destruct q1 as [|x rest].
        - simpl. apply (ninv_h _ _ _ Hn).
        - destruct (Hstep x rest eq_refl) as (Hx & Hs2 & Hi').
          assert (Hinc : incl rest seen).
          { intros z Hz. apply (inv_queue _ _ _ Hi). apply Hq. right; auto. }
          destruct (ninv_pop x rest (fst (nexts s1 x)) seen hits Hn1 Hx Hinc)
            as [Hna Hnb].
          destruct (is_sink x) eqn:Hsx.
          + destruct ((0 <? k) && (k <=? S cnt)) eqn:Et.
            * simpl. constructor.
              -- intro Hxh. destruct (ninv_dis _ _ _ Hn1 x Hxh) as [_ H].
                 apply H; left; auto.
              -- apply (ninv_h _ _ _ Hn).
            * destruct (nexts s1 x) as [ys s2]; simpl in *.
              destruct (push ys rest seen) as [q' seen']; simpl in *.
              apply IH; auto.
          + destruct (nexts s1 x) as [ys s2]; simpl in *.
            destruct (push ys rest seen) as [q' seen']; simpl in *.
            apply IH; auto.
      Qed.

      Theorem runk_from_nodup : forall fuel k c0 s0,
        Inv s0 -> NoDup (hits_of (runk_from St nexts sched fuel k c0 s0 roots)).
      Proof using OK Hnd.
        intros fuel k c0 s0 Hs. unfold runk_from.
        pose proof (inv_init roots) as Hi.
        assert (Hn : ninv (fst (push roots [] [])) (snd (push roots [] [])) []).
        { split.
          - apply push_queue_nodup; [constructor | intros z []].
          - constructor.
          - intros z []. }
        destruct (push roots [] []) as [q sn]; simpl in *.
        apply wlk_nodup; auto.
      Qed.

    End HitsNoDup.

    (* the final oracle state of a limited traversal satisfies Inv (needed
       by the multi-entry driver, which threads the state) *)
    Lemma wlk_st_Inv : forall fuel k cnt s q seen,
      Inv s -> inv roots q seen -> Inv (wlk_st St nexts sched fuel k cnt s q seen).
    Proof using OK.
      induction fuel as [|f IH]; intros k cnt s q seen Hs Hi; simpl; auto.
      destruct (step_ok s q seen Hs Hi) as (Hq & Hs1 & Hstep).
      destruct (sched s q) as [q1 s1]; simpl in *.
      destruct q1 as [|x rest]; auto.
      destruct (Hstep x rest eq_refl) as (Hx & Hs2 & Hi').
      destruct (is_sink x); [destruct ((0 <? k) && (k <=? S cnt)); auto|];
        destruct (nexts s1 x) as [ys s2]; simpl in *;
        destruct (push ys rest seen) as [q' seen']; simpl in *;
        apply IH; auto.
    Qed.

    Lemma runk_st_Inv : forall fuel k cnt s0,
      Inv s0 -> Inv (runk_st St nexts sched fuel k cnt s0 roots).
    Proof using OK.
      intros fuel k cnt s0 Hs. unfold runk_st.
      pose proof (inv_init roots) as Hi.
      destruct (push roots [] []) as [q sn]; simpl in *.
      apply wlk_st_Inv; auto.
    Qed.

  End PackProofs.

  (* ==================================================================== *)
  (*  Part D.  Theorems relating two oracle packs                          *)
  (* ==================================================================== *)

  (* ---------- 2. order independence ---------- *)

  Theorem order_indep :
    forall (S1 S2 : Type)
           (nexts1 : S1 -> K -> list K * S1) (sched1 : S1 -> list K -> list K * S1)
           (Inv1 : S1 -> Prop)
           (nexts2 : S2 -> K -> list K * S2) (sched2 : S2 -> list K -> list K * S2)
           (Inv2 : S2 -> Prop)
           (roots : list K) (f1 f2 : nat) (s1 : S1) (s2 : S2) (seen1 seen2 : list K),
      oracle_ok S1 nexts1 sched1 Inv1 roots ->
      oracle_ok S2 nexts2 sched2 Inv2 roots ->
      Inv1 s1 -> Inv2 s2 ->
      run S1 nexts1 sched1 f1 s1 roots = Done seen1 ->
      run S2 nexts2 sched2 f2 s2 roots = Done seen2 ->
      set_eq seen1 seen2.
  Proof.
    intros S1 S2 nexts1 sched1 Inv1 nexts2 sched2 Inv2 roots f1 f2 s1 s2 seen1 seen2
           OK1 OK2 H1 H2 R1 R2 x.
    rewrite (wl_closure_spec S1 nexts1 sched1 Inv1 roots OK1 f1 s1 seen1 H1 R1 x).
    rewrite (wl_closure_spec S2 nexts2 sched2 Inv2 roots OK2 f2 s2 seen2 H2 R2 x).
    reflexivity.
  Qed.

  (* ---------- 3. lazy = eager ---------- *)

  (* the eager successor oracle: the reference graph itself, state untouched *)
  Definition nexts_eager (St : Type) (s : St) (x : K) : list K * St := (succ x, s).

  (* "lazy": any successor oracle that agrees (as a set) with [succ] on every
     REACHABLE key in every state satisfying the invariant -- the graph is
     built on touch, the state records which summaries are built.          *)
  Theorem lazy_eq_eager :
    forall (SL SE : Type)
           (nextsL : SL -> K -> list K * SL) (schedL : SL -> list K -> list K * SL)
           (InvL : SL -> Prop)
           (schedE : SE -> list K -> list K * SE) (InvE : SE -> Prop)
           (roots : list K) (fl fe : nat) (sl : SL) (se : SE)
           (seen_lazy seen_eager : list K),
      (forall s l, InvL s -> set_eq (fst (schedL s l)) l /\ InvL (snd (schedL s l))) ->
      (forall s x, InvL s -> reach roots x ->
         set_eq (fst (nextsL s x)) (succ x) /\ InvL (snd (nextsL s x))) ->
      (forall s l, InvE s -> set_eq (fst (schedE s l)) l /\ InvE (snd (schedE s l))) ->
      InvL sl -> InvE se ->
      run SL nextsL schedL fl sl roots = Done seen_lazy ->
      run SE (nexts_eager SE) schedE fe se roots = Done seen_eager ->
      set_eq seen_lazy seen_eager.
  Proof.
    intros SL SE nextsL schedL InvL schedE InvE roots fl fe sl se seen_lazy seen_eager
           HsL HnL HsE Hl He RL RE.
    eapply (order_indep SL SE nextsL schedL InvL (nexts_eager SE) schedE InvE);
      eauto.
    - split; auto.
    - split; auto. intros s x Hs _. simpl. split; auto. apply set_eq_refl.
  Qed.

  (* ---------- 5. alarm limit ---------- *)

  Lemma filter_sink_in (l : list K) x :
    In x (filter is_sink l) <-> In x l /\ is_sink x = true.
  Proof. apply filter_In. Qed.

  (* The part of the alarm-limit theorem that holds for ANY [oracle_ok]
     scheduler (even a duplicating one).  The limited and the unlimited run
     may use different oracle packs.                                       *)
  Theorem alarm_limit_core :
    forall (S1 S2 : Type)
           (nexts1 : S1 -> K -> list K * S1) (sched1 : S1 -> list K -> list K * S1)
           (Inv1 : S1 -> Prop)
           (nexts2 : S2 -> K -> list K * S2) (sched2 : S2 -> list K -> list K * S2)
           (Inv2 : S2 -> Prop)
           (roots : list K) (k fuel fuel' : nat) (s1 : S1) (s2 : S2)
           (r : kresult) (seen_full : list K),
      0 < k ->
      oracle_ok S1 nexts1 sched1 Inv1 roots ->
      oracle_ok S2 nexts2 sched2 Inv2 roots ->
      Inv1 s1 -> Inv2 s2 ->
      runk S1 nexts1 sched1 fuel k s1 roots = r -> r <> KOutOfFuel ->
      run S2 nexts2 sched2 fuel' s2 roots = Done seen_full ->
      let full := filter is_sink seen_full in
      incl (hits_of r) full /\ length (hits_of r) <= k /\
      (full <> [] -> hits_of r <> []).
  Proof.
    intros S1 S2 nexts1 sched1 Inv1 nexts2 sched2 Inv2 roots k fuel fuel' s1 s2 r
           seen_full Hk OK1 OK2 H1 H2 Rk Hr Rf full.
    pose proof (wl_closure_spec S2 nexts2 sched2 Inv2 roots OK2 fuel' s2 seen_full H2 Rf)
      as Hfull.
    pose proof (runk_spec S1 nexts1 sched1 Inv1 roots OK1 fuel k s1 H1) as Hp.
    rewrite Rk in Hp. unfold full.
    destruct r as [h|h|]; simpl in *.
    - destruct Hp as [Hp1 Hp2]. split; [|split].
      + intros x Hx. apply filter_sink_in. apply Hp1 in Hx. destruct Hx.
        split; auto. apply Hfull; auto.
      + specialize (Hp2 Hk). lia.
      + intros Hne Heq. subst h.
        destruct (filter is_sink seen_full) as [|x l] eqn:E; [apply Hne; auto|].
        assert (Hx : In x (filter is_sink seen_full)) by (rewrite E; left; auto).
        apply filter_sink_in in Hx. destruct Hx as [Hx Hsx].
        apply (Hp1 x). split; auto. apply Hfull; auto.
    - destruct Hp as (Hne & Hp1 & _ & Hp2). split; [|split]; auto.
      + intros x Hx. apply filter_sink_in. apply Hp1 in Hx. destruct Hx.
        split; auto. apply Hfull; auto.
      + lia.
    - exfalso; apply Hr; auto.
  Qed.

  (* Full statement.  The extra hypothesis on [sched1] (it does not create
     duplicates in a duplicate-free queue) is needed ONLY for the
     [NoDup (hits_of r)] conjunct: a scheduler that is merely
     [set_eq]-preserving may duplicate a queue entry, which is then popped
     and counted twice.  It is implied by [Permutation (fst (sched s l)) l]. *)
  Theorem alarm_limit :
    forall (S1 S2 : Type)
           (nexts1 : S1 -> K -> list K * S1) (sched1 : S1 -> list K -> list K * S1)
           (Inv1 : S1 -> Prop)
           (nexts2 : S2 -> K -> list K * S2) (sched2 : S2 -> list K -> list K * S2)
           (Inv2 : S2 -> Prop)
           (roots : list K) (k fuel fuel' : nat) (s1 : S1) (s2 : S2)
           (r : kresult) (seen_full : list K),
      0 < k ->
      oracle_ok S1 nexts1 sched1 Inv1 roots ->
      (forall s l, Inv1 s -> NoDup l -> NoDup (fst (sched1 s l))) ->
      oracle_ok S2 nexts2 sched2 Inv2 roots ->
      Inv1 s1 -> Inv2 s2 ->
      runk S1 nexts1 sched1 fuel k s1 roots = r -> r <> KOutOfFuel ->
      run S2 nexts2 sched2 fuel' s2 roots = Done seen_full ->
      let full := filter is_sink seen_full in
      incl (hits_of r) full /\ length (hits_of r) <= k /\ NoDup (hits_of r) /\
      (full <> [] -> hits_of r <> []).
  Proof.
    intros S1 S2 nexts1 sched1 Inv1 nexts2 sched2 Inv2 roots k fuel fuel' s1 s2 r
           seen_full Hk OK1 Hnd OK2 H1 H2 Rk Hr Rf full.
    destruct (alarm_limit_core S1 S2 nexts1 sched1 Inv1 nexts2 sched2 Inv2 roots k
                fuel fuel' s1 s2 r seen_full Hk OK1 OK2 H1 H2 Rk Hr Rf)
      as (A & B & C).
    split; auto. split; auto. split; auto.
    rewrite <- Rk. unfold runk.
    apply (runk_from_nodup S1 nexts1 sched1 Inv1 roots OK1 Hnd); auto.
  Qed.

  (* A traversal that ends with KDone (whatever k) has recorded exactly the
     reachable sinks. *)
  Theorem alarm_done :
    forall (S1 S2 : Type)
           (nexts1 : S1 -> K -> list K * S1) (sched1 : S1 -> list K -> list K * S1)
           (Inv1 : S1 -> Prop)
           (nexts2 : S2 -> K -> list K * S2) (sched2 : S2 -> list K -> list K * S2)
           (Inv2 : S2 -> Prop)
           (roots : list K) (k fuel fuel' : nat) (s1 : S1) (s2 : S2)
           (hits seen_full : list K),
      oracle_ok S1 nexts1 sched1 Inv1 roots ->
      oracle_ok S2 nexts2 sched2 Inv2 roots ->
      Inv1 s1 -> Inv2 s2 ->
      runk S1 nexts1 sched1 fuel k s1 roots = KDone hits ->
      run S2 nexts2 sched2 fuel' s2 roots = Done seen_full ->
      set_eq hits (filter is_sink seen_full).
  Proof.
    intros S1 S2 nexts1 sched1 Inv1 nexts2 sched2 Inv2 roots k fuel fuel' s1 s2 hits
           seen_full OK1 OK2 H1 H2 Rk Rf x.
    pose proof (wl_closure_spec S2 nexts2 sched2 Inv2 roots OK2 fuel' s2 seen_full H2 Rf)
      as Hfull.
    pose proof (runk_spec S1 nexts1 sched1 Inv1 roots OK1 fuel k s1 H1) as Hp.
    rewrite Rk in Hp. simpl in Hp. destruct Hp as [Hp _].
    rewrite filter_sink_in, Hp, Hfull. reflexivity.
  Qed.

  Theorem alarm_unlimited :
    forall (S1 S2 : Type)
           (nexts1 : S1 -> K -> list K * S1) (sched1 : S1 -> list K -> list K * S1)
           (Inv1 : S1 -> Prop)
           (nexts2 : S2 -> K -> list K * S2) (sched2 : S2 -> list K -> list K * S2)
           (Inv2 : S2 -> Prop)
           (roots : list K) (fuel fuel' : nat) (s1 : S1) (s2 : S2)
           (hits seen_full : list K),
      oracle_ok S1 nexts1 sched1 Inv1 roots ->
      oracle_ok S2 nexts2 sched2 Inv2 roots ->
      Inv1 s1 -> Inv2 s2 ->
      runk S1 nexts1 sched1 fuel 0 s1 roots = KDone hits ->
      run S2 nexts2 sched2 fuel' s2 roots = Done seen_full ->
      set_eq hits (filter is_sink seen_full).
  Proof.
    intros S1 S2 nexts1 sched1 Inv1 nexts2 sched2 Inv2 roots fuel fuel' s1 s2 hits
           seen_full OK1 OK2 H1 H2 Rk Rf.
    exact (alarm_done S1 S2 nexts1 sched1 Inv1 nexts2 sched2 Inv2 roots 0 fuel fuel'
             s1 s2 hits seen_full OK1 OK2 H1 H2 Rk Rf).
  Qed.

  (* with k = 0 the result is never KStopped (no hypothesis needed) *)
  Theorem runk_unlimited_not_stopped :
    forall (St : Type) (nexts : St -> K -> list K * St)
           (sched : St -> list K -> list K * St) fuel s roots h,
      runk St nexts sched fuel 0 s roots <> KStopped h.
  Proof.
    intros. unfold runk, runk_from. destruct (push roots [] []) as [q sn].
    apply wlk_unlimited_not_stopped.
  Qed.

  (* Reported PAIRS: the tool counts sink VISITS; several visited keys may map
     to the same reported (source, sink) pair. *)
  Theorem alarm_limit_pairs :
    forall (P : Type) (P_eq_dec : forall a b : P, {a = b} + {a <> b})
           (report : K -> P)
           (S1 S2 : Type)
           (nexts1 : S1 -> K -> list K * S1) (sched1 : S1 -> list K -> list K * S1)
           (Inv1 : S1 -> Prop)
           (nexts2 : S2 -> K -> list K * S2) (sched2 : S2 -> list K -> list K * S2)
           (Inv2 : S2 -> Prop)
           (roots : list K) (k fuel fuel' : nat) (s1 : S1) (s2 : S2)
           (r : kresult) (seen_full : list K),
      0 < k ->
      oracle_ok S1 nexts1 sched1 Inv1 roots ->
      oracle_ok S2 nexts2 sched2 Inv2 roots ->
      Inv1 s1 -> Inv2 s2 ->
      runk S1 nexts1 sched1 fuel k s1 roots = r -> r <> KOutOfFuel ->
      run S2 nexts2 sched2 fuel' s2 roots = Done seen_full ->
      let full := filter is_sink seen_full in
      let pairs := nodup P_eq_dec (map report (hits_of r)) in
      length pairs <= k /\
      incl (map report (hits_of r)) (map report full) /\
      incl pairs (nodup P_eq_dec (map report full)) /\
      (map report full <> [] -> pairs <> []).
  Proof.
    intros P P_eq_dec report S1 S2 nexts1 sched1 Inv1 nexts2 sched2 Inv2 roots k fuel
           fuel' s1 s2 r seen_full Hk OK1 OK2 H1 H2 Rk Hr Rf full pairs.
    destruct (alarm_limit_core S1 S2 nexts1 sched1 Inv1 nexts2 sched2 Inv2 roots k
                fuel fuel' s1 s2 r seen_full Hk OK1 OK2 H1 H2 Rk Hr Rf)
      as (A & B & C).
    fold full in A, C. unfold pairs.
    assert (Hincl : incl (map report (hits_of r)) (map report full))
      by (apply incl_map; auto).
    split; [|split; [|split]]; auto.
    - apply Nat.le_trans with (length (map report (hits_of r))).
      + apply NoDup_incl_length; [apply NoDup_nodup|].
        intros p Hp. apply nodup_In in Hp; auto.
      + rewrite map_length; auto.
    - intros p Hp. apply nodup_In. apply nodup_In in Hp. auto.
    - intros Hne Heq.
      assert (Hf : full <> []) by (intro E; rewrite E in Hne; apply Hne; auto).
      specialize (C Hf). destruct (hits_of r) as [|x l]; [apply C; auto|].
      assert (Hin : In (report x) (nodup P_eq_dec (map report (x :: l))))
        by (apply nodup_In; left; auto).
      rewrite Heq in Hin. destruct Hin.
  Qed.

  (* ---------- 5b. several entry points, shared counter ---------- *)

  (* The driver loops over entry points, each with a FRESH seen set but a
     SHARED counter, testing the limit before each entry.  For the list [hs]
     of per-entry hit lists it returns:
     (a) the i-th hit list only contains sinks reachable from the i-th entry
         (entries after the limit was reached are skipped: hs may be shorter);
     (b) counted with multiplicity, at most k hits overall (for 0 < k);
     (c) the union of the hits is non-empty iff some entry reaches a sink.   *)
  Lemma firstn_incl_ (A : Type) : forall n (l : list A), incl (firstn n l) l.
  Proof.
    induction n as [|n IH]; intros l x Hx; simpl in Hx; [destruct Hx|].
    destruct l as [|a l]; [destruct Hx|]. destruct Hx as [Hx|Hx].
    - left; auto.
    - right; apply IH; auto.
  Qed.

  Definition entry_hits_ok (e h : list K) : Prop :=
    forall x, In x h -> reach e x /\ is_sink x = true.

  Lemma drive_spec :
    forall (St : Type) (nexts : St -> K -> list K * St)
           (sched : St -> list K -> list K * St) (Inv : St -> Prop)
           (fuel k : nat) (entries : list (list K)) (cnt : nat) (s0 : St)
           (hs : list (list K)),
      (forall e, In e entries -> oracle_ok St nexts sched Inv e) ->
      Inv s0 -> (0 < k -> cnt <= k) ->
      drive St nexts sched fuel k cnt s0 entries = Some hs ->
      Forall2 entry_hits_ok (firstn (length hs) entries) hs /\
      (0 < k -> cnt + length (concat hs) <= k) /\
      ((0 < k -> cnt < k) ->
       (exists e x, In e entries /\ reach e x /\ is_sink x = true) ->
       concat hs <> []).
  Proof.
    intros St nexts sched Inv fuel k.
    induction entries as [|e es IH]; intros cnt s0 hs HOK Hs Hc Hd; simpl in Hd.
    - inversion Hd; subst; simpl. split; [constructor|]. split.
      + intros Hk; specialize (Hc Hk); lia.
      + intros _ (e & x & [] & _).
    - destruct ((0 <? k) && (k <=? cnt)) eqn:Et.
      + inversion Hd; subst; simpl. split; [constructor|]. split.
        * intros Hk; specialize (Hc Hk); lia.
        * intros Hlt _. apply andb_true_iff in Et. destruct Et as [Et1 Et2].
          apply Nat.ltb_lt in Et1. apply Nat.leb_le in Et2.
          specialize (Hlt Et1). lia.
      + assert (Hc' : 0 < k -> cnt < k).
        { intros Hk0. apply andb_false_iff in Et. destruct Et as [Et|Et].
          - apply Nat.ltb_ge in Et. lia.
          - apply Nat.leb_gt in Et. lia. }
        assert (OKe : oracle_ok St nexts sched Inv e) by (apply HOK; left; auto).
        assert (OKes : forall e', In e' es -> oracle_ok St nexts sched Inv e')
          by (intros; apply HOK; right; auto).
        pose proof (runk_from_spec St nexts sched Inv e OKe fuel k cnt s0 Hs Hc') as Hp.
        pose proof (runk_st_Inv St nexts sched Inv e OKe fuel k cnt s0 Hs) as Hs'.
        destruct (runk_from St nexts sched fuel k cnt s0 e) as [h|h|] eqn:Er;
          simpl in Hd, Hp; [| |discriminate].
        * (* this entry ran to completion *)
          destruct (drive St nexts sched fuel k (cnt + length h)
                          (runk_st St nexts sched fuel k cnt s0 e) es) as [hs'|] eqn:Ed;
            [|discriminate].
          inversion Hd; subst hs. destruct Hp as [Hp1 Hp2].
          assert (Hc'' : 0 < k -> cnt + length h <= k)
            by (intros Hk0; specialize (Hp2 Hk0); lia).
          destruct (IH _ _ _ OKes Hs' Hc'' Ed) as (A & B & C).
          split; [|split].
          -- simpl. constructor; auto. intros x Hx. apply Hp1; auto.
          -- simpl. rewrite app_length. intros Hk0. specialize (B Hk0). lia.
          -- intros _ (e' & x & [He|He] & Hr & Hsx); simpl.
             ++ subst e'. assert (Hx : In x h) by (apply Hp1; auto).
                destruct h; [destruct Hx | discriminate].
             ++ intro Happ. apply app_eq_nil in Happ. destruct Happ as [_ Happ].
                revert Happ. apply C; auto. exists e', x; auto.
        * (* the limit was reached inside this entry *)
          destruct (drive St nexts sched fuel k (cnt + length h)
                          (runk_st St nexts sched fuel k cnt s0 e) es) as [hs'|] eqn:Ed;
            [|discriminate].
          inversion Hd; subst hs. destruct Hp as (Hne & Hp1 & Hk0 & Hp2).
          assert (Hc'' : 0 < k -> cnt + length h <= k) by (intros; lia).
          destruct (IH _ _ _ OKes Hs' Hc'' Ed) as (A & B & C).
          split; [|split].
          -- simpl. constructor; auto.
          -- simpl. rewrite app_length. intros Hk1. specialize (B Hk1). lia.
          -- intros _ _. simpl.
             destruct h; [exfalso; apply Hne; reflexivity | discriminate].
  Qed.

  Theorem alarm_limit_entries :
    forall (St : Type) (nexts : St -> K -> list K * St)
           (sched : St -> list K -> list K * St) (Inv : St -> Prop)
           (fuel k : nat) (entries : list (list K)) (s0 : St) (hs : list (list K)),
      (forall e, In e entries -> oracle_ok St nexts sched Inv e) ->
      Inv s0 ->
      drive St nexts sched fuel k 0 s0 entries = Some hs ->
      Forall2 entry_hits_ok (firstn (length hs) entries) hs /\
      (0 < k -> length (concat hs) <= k) /\
      (concat hs <> [] <->
       exists e x, In e entries /\ reach e x /\ is_sink x = true).
  Proof.
    intros St nexts sched Inv fuel k entries s0 hs HOK Hs Hd.
    destruct (drive_spec St nexts sched Inv fuel k entries 0 s0 hs HOK Hs) as (A & B & C);
      auto; [lia|].
    split; auto. split; [intros Hk; specialize (B Hk); lia|]. split.
    - (* a hit comes from some entry, by (a) *)
      clear B C Hd. intros Hne. revert A Hne.
      generalize (firstn_incl_ _ (length hs) entries).
      generalize (firstn (length hs) entries) as es.
      intros es Hinc A. induction A as [|e h es' hs' Heh A IH]; simpl.
      + intros Hne; exfalso; apply Hne; auto.
      + intros Hne. destruct h as [|x h].
        * simpl in Hne. apply IH; auto. intros z Hz. apply Hinc. right; auto.
        * exists e, x. destruct (Heh x (or_introl eq_refl)) as [Hr Hsx].
          split; [apply Hinc; left; auto | auto].
    - intros He. apply C; auto.
  Qed.

  (* ==================================================================== *)
  (*  Part E (generic half).  Concrete oracle packs satisfying oracle_ok   *)
  (* ==================================================================== *)

  Definition nexts_id := nexts_eager.
  Definition sched_id (St : Type) (s : St) (l : list K) : list K * St := (l, s).
  Definition nexts_rev (St : Type) (s : St) (x : K) : list K * St := (rev (succ x), s).
  Definition sched_rev (St : Type) (s : St) (l : list K) : list K * St := (rev l, s).
  (* a genuinely stateful scheduler: alternates FIFO / reversed, counting steps *)
  Definition sched_alt (n : nat) (l : list K) : list K * nat :=
    (if Nat.even n then l else rev l, S n).

  Lemma set_eq_rev (l : list K) : set_eq (rev l) l.
  Proof. intro x. symmetry. apply in_rev. Qed.

  Lemma oracle_ok_id (St : Type) (roots : list K) :
    oracle_ok St (nexts_id St) (sched_id St) (fun _ => True) roots.
  Proof. split; intros; simpl; split; auto; apply set_eq_refl. Qed.

  Lemma oracle_ok_rev (St : Type) (roots : list K) :
    oracle_ok St (nexts_rev St) (sched_rev St) (fun _ => True) roots.
  Proof. split; intros; simpl; split; auto; apply set_eq_rev. Qed.

  Lemma oracle_ok_alt (roots : list K) :
    oracle_ok nat (nexts_rev nat) sched_alt (fun _ => True) roots.
  Proof.
    split; intros; simpl; split; auto.
    - destruct (Nat.even s); [apply set_eq_refl | apply set_eq_rev].
    - apply set_eq_rev.
  Qed.

  (* the extra scheduler hypotheses of wl_terminates / alarm_limit are
     satisfiable too *)
  Lemma sched_id_length (St : Type) (s : St) l :
    length (fst (sched_id St s l)) <= length l.
  Proof. simpl; lia. Qed.

  Lemma sched_rev_length (St : Type) (s : St) l :
    length (fst (sched_rev St s l)) <= length l.
  Proof. simpl. rewrite rev_length. lia. Qed.

  Lemma sched_alt_length (s : nat) l : length (fst (sched_alt s l)) <= length l.
  Proof. simpl. destruct (Nat.even s); [|rewrite rev_length]; lia. Qed.

  Lemma sched_id_nodup (St : Type) (s : St) l :
    NoDup l -> NoDup (fst (sched_id St s l)).
  Proof. auto. Qed.

  Lemma sched_rev_nodup (St : Type) (s : St) l :
    NoDup l -> NoDup (fst (sched_rev St s l)).
  Proof. simpl. apply NoDup_rev. Qed.

  Lemma sched_alt_nodup (s : nat) l : NoDup l -> NoDup (fst (sched_alt s l)).
  Proof. simpl. destruct (Nat.even s); auto. apply NoDup_rev. Qed.

End Worklist.

Arguments Done {K} seen.
Arguments OutOfFuel {K}.
Arguments KDone {K} hits.
Arguments KStopped {K} hits.
Arguments KOutOfFuel {K}.
Arguments hits_of {K} r.
Arguments set_eq {K} a b.

(* ====================================================================== *)
(*  Part E (concrete half).  Non-vacuity on K := nat                       *)
(* ====================================================================== *)

Module ClosureExamples.

  Definition succ5 (n : nat) : list nat := [(n + 1) mod 5; (2 * n) mod 5].
  Definition sink5 (n : nat) : bool := (n =? 3) || (n =? 4).

  (* three oracle packs: FIFO/identity, LIFO-ish/reversing, stateful alternating *)
  Definition run_id fuel roots :=
    run nat Nat.eq_dec unit (nexts_id nat succ5 unit) (sched_id nat unit) fuel tt roots.
  Definition run_rev fuel roots :=
    run nat Nat.eq_dec unit (nexts_rev nat succ5 unit) (sched_rev nat unit) fuel tt roots.
  Definition run_alt fuel roots :=
    run nat Nat.eq_dec nat (nexts_rev nat succ5 nat) (sched_alt nat) fuel 0 roots.

  Example run_id_5 : run_id 10 [0] = Done [4; 3; 2; 1; 0].
  Proof. vm_compute. reflexivity. Qed.

  Example run_rev_5 : run_rev 10 [0] = Done [3; 4; 2; 1; 0].
  Proof. vm_compute. reflexivity. Qed.

  Example run_alt_5 : run_alt 10 [0] = Done [3; 4; 2; 1; 0].
  Proof. vm_compute. reflexivity. Qed.

  (* order_indep applies (its hypotheses are satisfiable) and the conclusion
     is what the computation shows: different orders, same set *)
  Example order_indep_5 : set_eq [4; 3; 2; 1; 0] [3; 4; 2; 1; 0].
  Proof.
    apply (order_indep nat Nat.eq_dec succ5 unit nat
             (nexts_id nat succ5 unit) (sched_id nat unit) (fun _ => True)
             (nexts_rev nat succ5 nat) (sched_alt nat) (fun _ => True)
             [0] 10 10 tt 0).
    - apply oracle_ok_id.
    - apply oracle_ok_alt.
    - exact I.
    - exact I.
    - exact run_id_5.
    - exact run_alt_5.
  Qed.

  (* wl_closure_spec used as a decision procedure for reachability *)
  Example reach5_spec : forall x, In x [4; 3; 2; 1; 0] <-> reach nat succ5 [0] x.
  Proof.
    apply (wl_closure_spec nat Nat.eq_dec succ5 unit
             (nexts_id nat succ5 unit) (sched_id nat unit) (fun _ => True) [0]
             (oracle_ok_id nat succ5 unit [0]) 10 tt); [exact I | exact run_id_5].
  Qed.

  (* wl_terminates: U := [0..4] gives the fuel bound 6, and 6 is tight *)
  Example terminates_5 : exists seen, run_alt 6 [0] = Done seen.
  Proof.
    apply (wl_terminates nat Nat.eq_dec succ5 nat (nexts_rev nat succ5 nat)
             (sched_alt nat) (fun _ => True) [0] (oracle_ok_alt nat succ5 [0])
             [4; 3; 2; 1; 0]).
    - intros x Hx. apply reach5_spec; auto.
    - intros s l _. apply sched_alt_length.
    - exact I.
  Qed.

  Example fuel_bound_tight_5 : run_id 5 [0] = OutOfFuel /\ run_id 6 [0] = Done [4; 3; 2; 1; 0].
  Proof. split; vm_compute; reflexivity. Qed.

  (* alarm limit *)
  Definition runk_id fuel k roots :=
    runk nat Nat.eq_dec sink5 unit (nexts_id nat succ5 unit) (sched_id nat unit)
         fuel k tt roots.
  Definition runk_alt fuel k roots :=
    runk nat Nat.eq_dec sink5 nat (nexts_rev nat succ5 nat) (sched_alt nat)
         fuel k 0 roots.

  Example runk_1_stops : runk_id 10 1 [0] = KStopped [3].
  Proof. vm_compute. reflexivity. Qed.

  Example runk_alt_1_stops : runk_alt 10 1 [0] = KStopped [3].
  Proof. vm_compute. reflexivity. Qed.

  Example runk_unlimited : runk_id 10 0 [0] = KDone [4; 3].
  Proof. vm_compute. reflexivity. Qed.

  Example runk_large_limit : runk_id 10 5 [0] = KDone [4; 3].
  Proof. vm_compute. reflexivity. Qed.

  (* alarm_limit applies: limited run with the alternating pack, reference
     run with the identity pack *)
  Example alarm_limit_5 :
    let full := filter sink5 [4; 3; 2; 1; 0] in
    incl [3] full /\ length [3] <= 1 /\ NoDup [3] /\ (full <> [] -> [3] <> []).
  Proof.
    apply (alarm_limit nat Nat.eq_dec succ5 sink5 nat unit
             (nexts_rev nat succ5 nat) (sched_alt nat) (fun _ => True)
             (nexts_id nat succ5 unit) (sched_id nat unit) (fun _ => True)
             [0] 1 10 10 0 tt (KStopped [3]) [4; 3; 2; 1; 0]).
    - lia.
    - apply oracle_ok_alt.
    - intros s l _. apply sched_alt_nodup.
    - apply oracle_ok_id.
    - exact I.
    - exact I.
    - exact runk_alt_1_stops.
    - discriminate.
    - exact run_id_5.
  Qed.

  (* several entries, shared counter k = 3: the third entry is skipped *)
  Example drive_5 :
    drive nat Nat.eq_dec sink5 unit (nexts_id nat succ5 unit) (sched_id nat unit)
          10 3 0 tt [[0]; [2]; [1]] = Some [[4; 3]; [3]].
  Proof. vm_compute. reflexivity. Qed.

  (* alarm_limit_entries applies to that driver run *)
  Example alarm_limit_entries_5 :
    Forall2 (entry_hits_ok nat succ5 sink5) [[0]; [2]] [[4; 3]; [3]] /\
    (0 < 3 -> length (concat [[4; 3]; [3]]) <= 3) /\
    (concat [[4; 3]; [3]] <> [] <->
     exists e x, In e [[0]; [2]; [1]] /\ reach nat succ5 e x /\ sink5 x = true).
  Proof.
    apply (alarm_limit_entries nat Nat.eq_dec succ5 sink5 unit
             (nexts_id nat succ5 unit) (sched_id nat unit) (fun _ => True)
             10 3 [[0]; [2]; [1]] tt [[4; 3]; [3]]).
    - intros e _. apply oracle_ok_id.
    - exact I.
    - exact drive_5.
  Qed.

  (* alarm_limit_pairs: with limit 5 both sinks are visited but they map to
     the same reported pair *)
  Example alarm_limit_pairs_5 :
    let report := fun n : nat => n / 3 in
    let full := filter sink5 [4; 3; 2; 1; 0] in
    let pairs := nodup Nat.eq_dec (map report [4; 3]) in
    pairs = [1] /\
    length pairs <= 5 /\
    incl (map report [4; 3]) (map report full) /\
    incl pairs (nodup Nat.eq_dec (map report full)) /\
    (map report full <> [] -> pairs <> []).
  Proof.
    split; [vm_compute; reflexivity|].
    apply (alarm_limit_pairs nat Nat.eq_dec succ5 sink5 nat Nat.eq_dec (fun n => n / 3)
             unit unit
             (nexts_id nat succ5 unit) (sched_id nat unit) (fun _ => True)
             (nexts_id nat succ5 unit) (sched_id nat unit) (fun _ => True)
             [0] 5 10 10 tt tt (KDone [4; 3]) [4; 3; 2; 1; 0]).
    - lia.
    - apply oracle_ok_id.
    - apply oracle_ok_id.
    - exact I.
    - exact I.
    - exact runk_large_limit.
    - discriminate.
    - exact run_id_5.
  Qed.

  (* ---------- the hypothesis of lazy_eq_eager is necessary ---------- *)

  (* graph 0 -> 1, 0 -> 2; a "lazy" successor oracle that omits the successor
     2 of the reachable key 0 (an on-demand summary that is never built)    *)
  Definition succ_ex (n : nat) : list nat :=
    match n with 0 => [1; 2] | _ => [] end.
  Definition nexts_lazy_bad (s : unit) (x : nat) : list nat * unit :=
    match x with 0 => ([1], s) | _ => (succ_ex x, s) end.

  Example lazy_neq_eager_example :
    exists seen_eager seen_lazy,
      run nat Nat.eq_dec unit (nexts_eager nat succ_ex unit) (sched_id nat unit)
          5 tt [0] = Done seen_eager /\
      run nat Nat.eq_dec unit nexts_lazy_bad (sched_id nat unit)
          5 tt [0] = Done seen_lazy /\
      incl seen_lazy seen_eager /\ In 2 seen_eager /\ ~ In 2 seen_lazy.
  Proof.
    exists [2; 1; 0], [1; 0].
    split; [vm_compute; reflexivity|]. split; [vm_compute; reflexivity|].
    split; [|split].
    - intros x [H|[H|[]]]; subst; simpl; auto.
    - simpl; auto.
    - simpl. intros [H|[H|[]]]; discriminate.
  Qed.

  (* ... and indeed the bad oracle violates exactly the [ok_nexts] field *)
  Example lazy_bad_not_ok :
    ~ oracle_ok nat succ_ex unit nexts_lazy_bad (sched_id nat unit) (fun _ => True) [0].
  Proof.
    intros [_ Hn].
    destruct (Hn tt 0 I (reach_root nat succ_ex [0] 0 (or_introl eq_refl))) as [H _].
    simpl in H. destruct (proj2 (H 2)) as [E|[]]; [right; left; reflexivity | discriminate].
  Qed.

End ClosureExamples.
