(** * Chaotic (worklist) iteration of a monotone system over a finite index set

    [n] unknowns (blocks of a function, functions of a program) with values in a pre-ordered set [L]; unknown [i] is
    recomputed as [F i x] from the current state [x].  A worklist run repeatedly takes SOME queued index, recomputes
    it, and — when the value changed — stores it and queues its dependants.  We show, for every strategy of choosing
    the next index and every queue discipline that keeps the not-yet-processed indices queued:

    - the state only ascends and stays below every pre-fixpoint above the initial state ([wsteps_inv]);
    - when the worklist is empty the state is a fixpoint, hence the least one above the initial state, so any two
      runs end in equivalent states ([wl_order_irrelevant]);
    - with a height certificate ([mu]) every run of the concrete fuelled algorithm [wl_iter] ends within an explicit
      fuel bound, whatever the oracle [pick] ([wl_iter_terminates]), and two oracles give equivalent results
      ([wl_iter_order_irrelevant]).

    Everything is relative to a predicate [good] (the data-structure invariant under which [F] is monotone). *)
From Coq Require Import List Arith Lia Bool PeanoNat.
Import ListNotations.

Section Chaotic.
  Variable L : Type.
  Variable le : L -> L -> Prop.
  Hypothesis le_refl : forall a, le a a.
  Hypothesis le_trans : forall a b c, le a b -> le b c -> le a c.
  Definition eqv (a b : L) : Prop := le a b /\ le b a.

  Variable good : L -> Prop.
  Variable n : nat.
  Definition state := nat -> L.
  Definition sle (x y : state) : Prop := forall i, i < n -> le (x i) (y i).
  Definition sgood (x : state) : Prop := forall i, i < n -> good (x i).

  Variable F : nat -> state -> L.
  Hypothesis F_good : forall i x, i < n -> sgood x -> good (F i x).
  Hypothesis F_mono : forall i x y, i < n -> sgood x -> sgood y -> sle x y -> le (F i x) (F i y).

  (** dependants: [F j] looks at component [i] only if [j] is among [succs i] *)
  Variable succs : nat -> list nat.
  Hypothesis succs_lt : forall i j, i < n -> In j (succs i) -> j < n.

  Definition upd (x : state) (i : nat) (v : L) : state := fun j => if Nat.eqb j i then v else x j.
  Hypothesis F_dep : forall i j x v, ~ In j (succs i) -> F j (upd x i v) = F j x.

  Lemma upd_same x i v : upd x i v i = v.
  Proof. unfold upd. now rewrite Nat.eqb_refl. Qed.
  Lemma upd_other x i v j : j <> i -> upd x i v j = x j.
  Proof. unfold upd. intros H. apply Nat.eqb_neq in H. now rewrite H. Qed.

  Lemma eqv_refl a : eqv a a.
  Proof. split; apply le_refl. Qed.

  Definition inflationary (x : state) : Prop := forall i, i < n -> le (x i) (F i x).
  Definition stable (x : state) : Prop := forall i, i < n -> eqv (F i x) (x i).
  Definition prefix (y : state) : Prop := forall i, i < n -> le (F i y) (y i).

  Lemma sle_refl x : sle x x.
  Proof. intros i _. apply le_refl. Qed.
  Lemma sle_trans x y z : sle x y -> sle y z -> sle x z.
  Proof. intros H1 H2 i Hi. eapply le_trans; [apply H1|apply H2]; assumption. Qed.

  Lemma sle_upd x i : i < n -> inflationary x -> sle x (upd x i (F i x)).
  Proof.
    intros Hi Hinf j Hj. destruct (Nat.eq_dec j i) as [->|Hne].
    - rewrite upd_same. now apply Hinf.
    - rewrite upd_other by assumption. apply le_refl.
  Qed.

  Lemma sgood_upd x i : i < n -> sgood x -> sgood (upd x i (F i x)).
  Proof.
    intros Hi Hg j Hj. destruct (Nat.eq_dec j i) as [->|Hne].
    - rewrite upd_same. now apply F_good.
    - rewrite upd_other by assumption. now apply Hg.
  Qed.

  Lemma inflationary_upd x i : i < n -> sgood x -> inflationary x -> inflationary (upd x i (F i x)).
  Proof.
    intros Hi Hg Hinf j Hj.
    assert (Hle : sle x (upd x i (F i x))) by now apply sle_upd.
    assert (Hg' : sgood (upd x i (F i x))) by now apply sgood_upd.
    destruct (Nat.eq_dec j i) as [->|Hne].
    - rewrite upd_same. now apply F_mono.
    - rewrite upd_other by assumption. eapply le_trans; [now apply Hinf|]. now apply F_mono.
  Qed.

  Lemma below_prefix_upd x y i :
    i < n -> sgood x -> sgood y -> sle x y -> prefix y -> sle (upd x i (F i x)) y.
  Proof.
    intros Hi Hgx Hgy Hle Hp j Hj. destruct (Nat.eq_dec j i) as [->|Hne].
    - rewrite upd_same. eapply le_trans; [|now apply Hp]. now apply F_mono.
    - rewrite upd_other by assumption. now apply Hle.
  Qed.

  (** ** Worklist steps, for an arbitrary strategy and queue discipline *)
  Inductive wstep : list nat * state -> list nat * state -> Prop :=
  | ws_same wl x i wl' :
      In i wl -> i < n -> eqv (F i x) (x i) ->
      (forall j, In j wl -> j <> i -> In j wl') ->
      wstep (wl, x) (wl', x)
  | ws_change wl x i wl' :
      In i wl -> i < n ->
      (forall j, In j wl -> j <> i -> In j wl') ->
      (forall j, In j (succs i) -> In j wl') ->
      wstep (wl, x) (wl', upd x i (F i x)).

  Inductive wsteps : list nat * state -> list nat * state -> Prop :=
  | wss_refl c : wsteps c c
  | wss_step c1 c2 c3 : wstep c1 c2 -> wsteps c2 c3 -> wsteps c1 c3.

  (** every index that is not queued is stable *)
  Definition unqueued_stable (c : list nat * state) : Prop :=
    forall j, j < n -> ~ In j (fst c) -> eqv (F j (snd c)) (snd c j).

  Record winv (x0 : state) (c : list nat * state) : Prop := mkWinv {
    wi_good : sgood (snd c);
    wi_infl : inflationary (snd c);
    wi_above : sle x0 (snd c);
    wi_least : forall y, sgood y -> prefix y -> sle x0 y -> sle (snd c) y;
    wi_unq : unqueued_stable c }.

  Lemma wstep_inv x0 c c' : winv x0 c -> wstep c c' -> winv x0 c'.
  Proof.
    intros [Hg Hi Ha Hl Hu] Hs.
    inversion Hs as [wl x i wl' Hin Hlt Heq Hkeep | wl x i wl' Hin Hlt Hkeep Hsucc]; subst; simpl in *.
    - constructor; simpl; try assumption.
      intros j Hj Hnin. simpl in *. destruct (Nat.eq_dec j i) as [->|Hne]; [assumption|].
      apply Hu; [assumption|]. intros Hin'. apply Hnin. now apply Hkeep.
    - constructor; simpl.
      + now apply sgood_upd.
      + now apply inflationary_upd.
      + eapply sle_trans; [apply Ha|]. now apply sle_upd.
      + intros y Hgy Hp H0. apply below_prefix_upd; try assumption. now apply Hl.
      + intros j Hj Hnin. simpl in *.
        assert (Hns : ~ In j (succs i)) by (intros Hin'; apply Hnin; now apply Hsucc).
        rewrite F_dep by assumption.
        destruct (Nat.eq_dec j i) as [->|Hne].
        * rewrite upd_same. apply eqv_refl.
        * rewrite upd_other by assumption. apply Hu; [assumption|].
          intros Hin'. apply Hnin. now apply Hkeep.
  Qed.

  Lemma wsteps_inv x0 c c' : winv x0 c -> wsteps c c' -> winv x0 c'.
  Proof. intros H Hs. induction Hs; [assumption|]. apply IHHs. eapply wstep_inv; eassumption. Qed.

  Lemma winv_init x0 wl0 :
    sgood x0 -> inflationary x0 -> unqueued_stable (wl0, x0) -> winv x0 (wl0, x0).
  Proof.
    intros Hg Hi Hu. constructor; simpl; try assumption.
    - apply sle_refl.
    - intros y _ _ H. exact H.
  Qed.

  (** an empty worklist means a fixpoint, and it is the least pre-fixpoint above the initial state *)
  Theorem wl_result_least x0 wl0 a :
    sgood x0 -> inflationary x0 -> unqueued_stable (wl0, x0) ->
    wsteps (wl0, x0) ([], a) ->
    stable a /\ sle x0 a /\ (forall y, sgood y -> prefix y -> sle x0 y -> sle a y).
  Proof.
    intros Hg Hi Hu Hs. pose proof (wsteps_inv x0 _ _ (winv_init _ _ Hg Hi Hu) Hs) as [Hg' Hi' Ha Hl Hu'].
    simpl in *. split; [|split; assumption].
    intros j Hj. apply (Hu' j Hj). simpl. tauto.
  Qed.

  (** the order in which the worklist is processed is irrelevant *)
  Theorem wl_order_irrelevant x0 wl0 a b :
    sgood x0 -> inflationary x0 -> unqueued_stable (wl0, x0) ->
    wsteps (wl0, x0) ([], a) -> wsteps (wl0, x0) ([], b) ->
    forall i, i < n -> eqv (a i) (b i).
  Proof.
    intros Hg Hi Hu Ha Hb.
    pose proof (wsteps_inv x0 _ _ (winv_init _ _ Hg Hi Hu) Ha) as [Hga _ _ _ _].
    pose proof (wsteps_inv x0 _ _ (winv_init _ _ Hg Hi Hu) Hb) as [Hgb _ _ _ _].
    destruct (wl_result_least _ _ _ Hg Hi Hu Ha) as (Sa & Aa & La).
    destruct (wl_result_least _ _ _ Hg Hi Hu Hb) as (Sb & Ab & Lb).
    simpl in *.
    assert (Pa : prefix a) by (intros j Hj; apply (Sa j Hj)).
    assert (Pb : prefix b) by (intros j Hj; apply (Sb j Hj)).
    intros i Hi'. split; [apply (La b Hgb Pb Ab i Hi')|apply (Lb a Hga Pa Aa i Hi')].
  Qed.

  (** ** The concrete fuelled algorithm with an oracle choosing the position to process next *)
  Variable eqb : L -> L -> bool.
  Hypothesis eqb_sound : forall a b, eqb a b = true -> eqv a b.
  Hypothesis eqb_complete : forall a b, good a -> good b -> eqv a b -> eqb a b = true.

  Fixpoint remove_at (p : nat) (l : list nat) : list nat :=
    match l, p with
    | [], _ => []
    | _ :: r, 0 => r
    | x :: r, S q => x :: remove_at q r
    end.

  Definition add_new (wl ss : list nat) : list nat :=
    fold_left (fun acc j => if existsb (Nat.eqb j) acc then acc else acc ++ [j]) ss wl.

  Fixpoint wl_iter (pick : list nat -> nat) (fuel : nat) (wl : list nat) (x : state) : option state :=
    match fuel with
    | 0 => None
    | S k =>
        match wl with
        | [] => Some x
        | _ :: _ =>
            let p := pick wl mod length wl in
            let i := nth p wl 0 in
            let wl' := remove_at p wl in
            let v := F i x in
            if eqb v (x i) then wl_iter pick k wl' x
            else wl_iter pick k (add_new wl' (succs i)) (upd x i v)
        end
    end.

  Lemma remove_at_in p : forall l j, In j l -> j <> nth p l 0 -> In j (remove_at p l).
  Proof.
    induction p as [|q IH]; intros [|x r] j Hin Hne; simpl in *; try contradiction.
    - destruct Hin as [->|Hin]; [congruence|assumption].
    - destruct Hin as [->|Hin]; [now left|]. right. now apply IH.
  Qed.

  Lemma remove_at_length p : forall l, p < length l -> length (remove_at p l) = length l - 1.
  Proof.
    induction p as [|q IH]; intros [|x r] Hp; simpl in *; try lia.
    rewrite IH by lia. lia.
  Qed.

  Lemma remove_at_incl p : forall l j, In j (remove_at p l) -> In j l.
  Proof.
    induction p as [|q IH]; intros [|x r] j Hin; simpl in *; try contradiction.
    - now right.
    - destruct Hin as [->|Hin]; [now left|]. right. now apply IH.
  Qed.

  Lemma add_new_in ss : forall wl j, In j (add_new wl ss) <-> In j wl \/ In j ss.
  Proof.
    unfold add_new. induction ss as [|s ss IH]; intros wl j; simpl.
    - tauto.
    - rewrite IH. destruct (existsb (Nat.eqb s) wl) eqn:E.
      + apply existsb_exists in E as (y & Hy & Heq). apply Nat.eqb_eq in Heq. subst y.
        split; [tauto|]. intros [H|[<-|H]]; tauto.
      + rewrite in_app_iff. simpl. split; [intros [[H|[<-|[]]]|H]; tauto|intros [H|[<-|H]]; tauto].
  Qed.

  Lemma add_new_length ss : forall wl, length (add_new wl ss) <= length wl + length ss.
  Proof.
    unfold add_new. induction ss as [|s ss IH]; intros wl; simpl; [lia|].
    destruct (existsb (Nat.eqb s) wl).
    - specialize (IH wl). lia.
    - specialize (IH (wl ++ [s])). rewrite app_length in IH. simpl in IH. lia.
  Qed.

  Definition all_lt (wl : list nat) : Prop := forall j, In j wl -> j < n.

  (** the algorithm performs worklist steps *)
  Lemma wl_iter_steps pick fuel : forall wl x a,
    all_lt wl -> wl_iter pick fuel wl x = Some a -> wsteps (wl, x) ([], a).
  Proof.
    induction fuel as [|k IH]; intros wl x a Hlt Hrun; simpl in Hrun; [discriminate|].
    destruct wl as [|w wl0]; [inversion Hrun; constructor|].
    set (wl := w :: wl0) in *.
    set (p := pick wl mod length wl) in *.
    assert (Hp : p < length wl) by (apply Nat.mod_upper_bound; simpl; lia).
    set (i := nth p wl 0) in *.
    assert (Hin : In i wl) by (apply nth_In; assumption).
    assert (Hi : i < n) by (apply Hlt; assumption).
    assert (Hrem : forall j, In j wl -> j <> i -> In j (remove_at p wl)) by (intros; now apply remove_at_in).
    destruct (eqb (F i x) (x i)) eqn:E.
    - apply eqb_sound in E. eapply wss_step; [eapply (ws_same wl x i); eassumption|].
      apply IH; [|assumption]. intros j Hj. apply Hlt. eapply remove_at_incl; eassumption.
    - eapply wss_step; [eapply (ws_change wl x i (add_new (remove_at p wl) (succs i))); try assumption|].
      + intros j Hj Hne. apply add_new_in. left. now apply Hrem.
      + intros j Hj. apply add_new_in. now right.
      + apply IH; [|assumption]. intros j Hj. apply add_new_in in Hj as [Hj|Hj].
        * apply Hlt. eapply remove_at_incl; eassumption.
        * eapply succs_lt; eassumption.
  Qed.

  Theorem wl_iter_order_irrelevant pick1 pick2 fuel1 fuel2 wl0 x0 a b :
    all_lt wl0 -> sgood x0 -> inflationary x0 -> unqueued_stable (wl0, x0) ->
    wl_iter pick1 fuel1 wl0 x0 = Some a -> wl_iter pick2 fuel2 wl0 x0 = Some b ->
    forall i, i < n -> eqv (a i) (b i).
  Proof.
    intros Hlt Hg Hi Hu Ha Hb. eapply wl_order_irrelevant; try eassumption; eapply wl_iter_steps; eassumption.
  Qed.

  Theorem wl_iter_least pick fuel wl0 x0 a :
    all_lt wl0 -> sgood x0 -> inflationary x0 -> unqueued_stable (wl0, x0) ->
    wl_iter pick fuel wl0 x0 = Some a ->
    stable a /\ sle x0 a /\ (forall y, sgood y -> prefix y -> sle x0 y -> sle a y).
  Proof. intros Hlt Hg Hi Hu Ha. eapply wl_result_least; try eassumption. eapply wl_iter_steps; eassumption. Qed.

  (** ** Termination from a height certificate *)
  Variable mu : L -> nat.
  Variable H : nat.
  Hypothesis mu_bound : forall a, good a -> mu a <= H.
  Hypothesis mu_strict : forall a b, good a -> good b -> le a b -> ~ le b a -> mu a < mu b.
  Variable m : nat.
  Hypothesis succs_len : forall i, i < n -> length (succs i) <= m.

  Fixpoint room (x : state) (k : nat) : nat :=
    match k with 0 => 0 | S k' => (H - mu (x k')) + room x k' end.

  Lemma room_upd_ge x i v : forall k, k <= i -> room (upd x i v) k = room x k.
  Proof.
    induction k as [|k IH]; intros Hk; simpl; [reflexivity|].
    rewrite upd_other by lia. rewrite IH by lia. reflexivity.
  Qed.

  Lemma room_upd x i v : forall k, i < k -> mu (x i) < mu v -> mu v <= H -> room (upd x i v) k + 1 <= room x k.
  Proof.
    induction k as [|k IH]; intros Hk Hlt Hb; [lia|]. simpl.
    destruct (Nat.eq_dec i k) as [->|Hne].
    - rewrite upd_same. rewrite room_upd_ge by lia. lia.
    - rewrite upd_other by lia. assert (i < k) by lia. specialize (IH H0 Hlt Hb). lia.
  Qed.

  Theorem wl_iter_terminates pick : forall fuel wl x,
    all_lt wl -> sgood x -> inflationary x ->
    (m + 1) * room x n + length wl < fuel ->
    exists a, wl_iter pick fuel wl x = Some a.
  Proof.
    induction fuel as [|k IH]; intros wl x Hlt Hg Hinf Hf; [lia|]. simpl.
    destruct wl as [|w wl0]; [eauto|].
    set (wl := w :: wl0) in *.
    set (p := pick wl mod length wl) in *.
    assert (Hp : p < length wl) by (apply Nat.mod_upper_bound; simpl; lia).
    set (i := nth p wl 0) in *.
    assert (Hin : In i wl) by (apply nth_In; assumption).
    assert (Hi : i < n) by (apply Hlt; assumption).
    pose proof (remove_at_length p wl Hp) as Hlen.
    assert (Hlw : length wl >= 1) by (simpl; lia).
    destruct (eqb (F i x) (x i)) eqn:E.
    - apply IH; try assumption.
      + intros j Hj. apply Hlt. eapply remove_at_incl; eassumption.
      + lia.
    - assert (Hne : ~ le (F i x) (x i)).
      { intros Hle. assert (Heqv : eqv (F i x) (x i)) by (split; [assumption|now apply Hinf]).
        apply eqb_complete in Heqv; [congruence|now apply F_good|now apply Hg]. }
      assert (Hmu : mu (x i) < mu (F i x)).
      { apply mu_strict; [now apply Hg|now apply F_good|now apply Hinf|assumption]. }
      assert (Hroom : room (upd x i (F i x)) n + 1 <= room x n).
      { apply room_upd; [assumption|assumption|]. apply mu_bound. now apply F_good. }
      apply IH.
      + intros j Hj. apply add_new_in in Hj as [Hj|Hj].
        * apply Hlt. eapply remove_at_incl; eassumption.
        * eapply succs_lt; eassumption.
      + now apply sgood_upd.
      + now apply inflationary_upd.
      + pose proof (add_new_length (succs i) (remove_at p wl)) as Hal.
        pose proof (succs_len i Hi) as Hsl. nia.
  Qed.
End Chaotic.
