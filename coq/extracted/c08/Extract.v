Require Extraction.
Require Import ExtrOcamlBasic.
From Argot Require Import Model.Intra.
Extraction "intra.ml" violations check_closed check_wf_ssa required_edges fs_build.
