Require Extraction.
Require Import ExtrOcamlBasic.
From Argot Require Import Model.Intra Lang.RegSem.
Extraction "intra.ml" violations check_closed check_wf_ssa required_edges fs_build
                      check_store_closed check_loads_ok check_addr_alloc.
