#!/bin/sh
# builds the extracted validator of Model/Intra.v + driver; run after the Coq development is compiled
set -e
cd "$(dirname "$0")"
coqc -Q ../../theories Argot Extract.v >/dev/null
mkdir -p ../../../build/bin
ocamlfind ocamlopt -w -a -O3 intra.mli intra.ml driver.ml -o ../../../build/bin/c08model 2>/dev/null || ocamlfind ocamlopt -w -a intra.mli intra.ml driver.ml -o ../../../build/bin/c08model
