(* Reads the c08dump format, rebuilds each function as the [func] record of Model/Intra.v and runs the extracted verified
   validators of Model/Intra.v on the implementation's real output:

     (1) whole-state forward closure: violations F_cfg ALL_MARKS where F_cfg has the CFG only, so that the only rule is
         cl_forward -- "marks attached to a value at a point are attached at every later point", for every mark dumped;
     (2) the rule system R: violations F S' where S' is a SUBSET of the implementation's facts selected by this
         (untrusted) driver: the marks of spec origins (parameter / free variable / call result with a summary node)
         located at points reachable from the origin's own point (at the origin's point itself only on the origin's value, the
         value defined there and the address written there, unless that point lies on a CFG cycle), on values that have a definition (not constants,
         globals, functions: the implementation's base-object rule can put marks on a shared *ssa.Const, and transferCopy
         deliberately does not transfer from constants), plus all summary edges.  The selection drops artefacts of the
         implementation's backward RunDefers edges and base-object propagation (a call's mark on its own arguments).  It is
         untrusted by construction: the verified checker proves S' closed w.r.t. the FULL CFG and rule system, and every
         Edge fact of S' is a real summary edge, so closed_covers_chains applies to the real summary;
     (3) check_wf_ssa F (sound for wf_ssa).

   Output, one block per function:
     R <fid> wf=<0|1> closed=<0|1> fwd=<0|1> nviol=<n> nfwd=<n> nfacts=<n> nsel=<n> nreq=<n>
           l2aa=<check_addr_alloc> l2sc=<check_store_closed on S'> l2lo=<check_loads_ok> nst= nld= nal=   (Lang/RegSem.hfunc built
           from the LS / LL / LA lines: T-cert of intra_sound_L2_noalias_partial_tcert on the fragment l2aa=1)
     Y <fid> store <p> <x> <a> <m>            diagnostics: store *a = x at p, mark m on x but not on a
     V <fid> origin <mid> <pid> <vid> | forward <p> <q> <v> <m> | transfer <p> <a> <r> <m> | edge <p> <v> <m> <u>
     W <fid> forward <p> <q> <v> <m>          violations of (1)
     Q <fid> <mid> <uid>                      edges required by the executable chain search of the model (chain_values)
   Points unreachable from the entry block (reach flag 0) and origins/uses whose summary node does not exist (nnodes 0)
   are left out of F, as stated in status/C08.md. *)
open Intra

let rec pos_of_int n = if n <= 1 then XH else if n land 1 = 0 then XO (pos_of_int (n lsr 1)) else XI (pos_of_int (n lsr 1))
let rec int_of_pos = function XH -> 1 | XO p -> 2 * int_of_pos p | XI p -> 2 * int_of_pos p + 1
let n_of_int n = if n <= 0 then N0 else Npos (pos_of_int n)
let rec nat_of_int n = if n <= 0 then O else S (nat_of_int (n - 1))

let split_ws s = List.filter (fun x -> x <> "") (String.split_on_char ' ' s)
let split_last_colon l =
  match String.rindex_opt l ':' with
  | Some k -> [String.sub l 0 k; String.sub l (k + 1) (String.length l - k - 1)]
  | None -> [l]
let starts_with p s = String.length s >= String.length p && String.sub s 0 (String.length p) = p

let builtin_of = function
  | "append" -> BAppend | "len" -> BLen | "min" -> BMin | "max" -> BMax | "complex" -> BComplex
  | "real" -> BReal | "imag" -> BImag | "ssa:wrapnilchk" -> BWrapNilChk
  | "cap" -> BCap | "copy" -> BCopy | "recover" -> BRecover | _ -> BNoValue

let kind_of k aux =
  match k with
  | "BinOp" -> KBinOp | "UnOp" -> KUnOp | "Convert" -> KConvert | "ChangeType" -> KChangeType
  | "ChangeInterface" -> KChangeInterface | "MakeInterface" -> KMakeInterface | "TypeAssert" -> KTypeAssert
  | "SliceToArrayPointer" -> KSliceToArrayPointer | "Slice" -> KSlice | "Phi" -> KPhi
  | "Extract" ->
    (match String.split_on_char ',' aux with
     | [j; c] -> KExtract (n_of_int (int_of_string j), c = "call")
     | _ -> failwith ("bad Extract aux " ^ aux))
  | "Field" -> KField | "FieldAddr" -> KFieldAddr | "Index" -> KIndex | "IndexAddr" -> KIndexAddr
  | "Lookup" -> KLookup | "Next" -> KNext | "Range" -> KRange
  | "Call" ->
    if starts_with "builtin:" aux then
      let nm = List.hd (String.split_on_char ',' (String.sub aux 8 (String.length aux - 8))) in
      KBuiltin (builtin_of nm)
    else if starts_with "errinvoke" aux then KErrorInvoke
    else KCall
  | "Go" -> KGo | "Defer" -> KDefer | "MakeClosure" -> KMakeClosure | "Return" -> KReturn | "If" -> KIf
  | _ -> KOther

type st = {
  mutable fid : string;
  mutable instrs : (int * instr) list;
  mutable reachable : (int, bool) Hashtbl.t;
  mutable succ : (int * int list) list;
  mutable defs : (int * int) list;
  mutable origins : (int * int * int) list;
  mutable tuples : (int * (int * int)) list;
  mutable uses : (int * (int * int)) list;
  mutable facts : fact list;
  mutable nfacts : int;
  mutable stores : (int * (int * int)) list;   (* LS: point, (address register, stored value) *)
  mutable loads : (int * int) list;            (* LL: point, address register *)
  mutable allocs : int list;                   (* LA: point *)
}

let fresh () = { fid = ""; instrs = []; reachable = Hashtbl.create 64; succ = []; defs = []; origins = []; tuples = [];
                 uses = []; facts = []; nfacts = 0; stores = []; loads = []; allocs = [] }

let maxv = ref 20

let flush_fn (s : st) =
  let p = pos_of_int in
  let is_r x = try Hashtbl.find s.reachable x with Not_found -> false in
  let f_instr = List.fold_left (fun m (pt, i) -> PositiveMap.add (p pt) i m) PositiveMap.empty s.instrs in
  let f_succ = List.fold_left (fun m (pt, l) ->
      if is_r pt then
        let old = (match PositiveMap.find (p pt) m with Some o -> o | None -> []) in
        PositiveMap.add (p pt) (old @ List.map p (List.filter is_r l)) m
      else m) PositiveMap.empty (List.rev s.succ) in
  let f_def = List.fold_left (fun m (v, pt) -> PositiveMap.add (p v) (p pt) m) PositiveMap.empty s.defs in
  let f_origins = List.rev_map (fun (m, pt, v) -> ((p m, p pt), p v)) (List.filter (fun (_, pt, _) -> is_r pt) s.origins) in
  let f_tuple = List.fold_left (fun m (mk, (t, k)) -> PositiveMap.add (p mk) (p t, n_of_int k) m) PositiveMap.empty s.tuples in
  let f_uses = List.fold_left (fun m (pt, (v, u)) ->
      if is_r pt then
        let old = (match PositiveMap.find (p pt) m with Some o -> o | None -> []) in
        PositiveMap.add (p pt) ((p v, p u) :: old) m
      else m) PositiveMap.empty s.uses in
  let f = { f_instr; f_succ; f_def; f_origins; f_tuple; f_uses } in
  let wf = check_wf_ssa f in
  (* (1) forward closure of everything dumped *)
  let fcfg = { f_instr = PositiveMap.empty; f_succ; f_def = PositiveMap.empty; f_origins = []; f_tuple = PositiveMap.empty;
               f_uses = PositiveMap.empty } in
  let fw = violations fcfg s.facts in
  let nfw = List.length fw in
  (* (2) selection of S' *)
  let npts = List.fold_left (fun a (pt, _) -> max a pt) 0 s.instrs + 1 in
  let succ_tbl = Array.make (npts + 1) [] in
  List.iter (fun (pt, l) -> if is_r pt && pt <= npts then succ_tbl.(pt) <- succ_tbl.(pt) @ List.filter is_r l) (List.rev s.succ);
  let reach_from p0 =
    let seen = Bytes.make (npts + 1) '0' in
    let oncycle = ref false in
    let rec go = function
      | [] -> ()
      | x :: w ->
        if x = p0 then oncycle := true;
        if x <= npts && Bytes.get seen x = '0' then (Bytes.set seen x '1'; go (succ_tbl.(x) @ w)) else go w in
    if p0 <= npts then (Bytes.set seen p0 '1'; go succ_tbl.(p0));
    (seen, !oncycle) in
  let has_def = Hashtbl.create 64 in
  List.iter (fun (v, _) -> Hashtbl.replace has_def v ()) s.defs;
  (* address registers of stores are kept too (a global used as an address has no definition point): check_store_closed is
     evaluated on the same selected list *)
  List.iter (fun (_, (a, _)) -> if a > 0 then Hashtbl.replace has_def a ()) s.stores;
  let sel = Hashtbl.create 16 in
  List.iter (fun (m, pt, v) -> if is_r pt then Hashtbl.replace sel m (pt, v, reach_from pt)) s.origins;
  let nsel = ref 0 in
  let facts' = List.filter (fun f ->
      match f with
      | Edge _ -> true
      | Mark (pp, vv, mm) ->
        (match Hashtbl.find_opt sel (int_of_pos mm) with
         | None -> false
         | Some (p0, v0, (seen, oncycle)) ->
           let pi = int_of_pos pp in
           let keep = pi <= npts && Bytes.get seen pi = '1' && Hashtbl.mem has_def (int_of_pos vv) && (pi <> p0 || int_of_pos vv = v0 || oncycle || List.mem (int_of_pos vv, p0) s.defs
                                                      || List.exists (fun (pt, (a, _)) -> pt = p0 && a = int_of_pos vv) s.stores) in
           if keep then incr nsel; keep)) s.facts in
  let vs = violations f facts' in
  let nv = List.length vs in
  let req = required_edges f (nat_of_int (List.length s.instrs + 2)) in
  let req = List.sort_uniq compare (List.map (fun (m, u) -> (int_of_pos m, int_of_pos u)) req) in
  (* L2 fragment (Lang/RegSem.v): hfunc = F + store / load / alloc tables; the three boolean hypotheses of
     intra_sound_L2_noalias_partial_tcert other than check_closed, on the SAME selected fact list *)
  let stores = List.filter (fun (pt, (a, x)) -> is_r pt && a > 0 && x > 0) s.stores in
  let loads = List.filter (fun (pt, a) -> is_r pt && a > 0) s.loads in
  let allocs = List.filter is_r s.allocs in
  let h = { h_func = f;
            h_store = List.fold_left (fun m (pt, (a, x)) -> PositiveMap.add (p pt) (p a, p x) m) PositiveMap.empty stores;
            h_load = List.fold_left (fun m (pt, a) -> PositiveMap.add (p pt) (p a) m) PositiveMap.empty loads;
            h_alloc = List.fold_left (fun m pt -> PositiveSet.add (p pt) m) PositiveSet.empty allocs } in
  let l2aa = check_addr_alloc h in
  let l2lo = check_loads_ok h in
  let l2sc = check_store_closed h facts' in
  Printf.printf "R %s wf=%d closed=%d fwd=%d nviol=%d nfwd=%d nfacts=%d nsel=%d nreq=%d l2aa=%d l2sc=%d l2lo=%d nst=%d nld=%d nal=%d\n"
    s.fid (if wf then 1 else 0)
    (if nv = 0 then 1 else 0) (if nfw = 0 then 1 else 0) nv nfw s.nfacts !nsel (List.length req)
    (if l2aa then 1 else 0) (if l2sc then 1 else 0) (if l2lo then 1 else 0)
    (List.length stores) (List.length loads) (List.length allocs);
  if not l2sc then begin
    (* diagnostics only (unverified): the store instances whose address register lacks a mark of the stored value *)
    let fs = fs_build facts' in
    let st = Hashtbl.create 16 in
    List.iter (fun (pt, ax) -> Hashtbl.replace st pt ax) stores;
    let k = ref 0 in
    List.iter (fun f -> match f with
        | Mark (pp, xx, mm) ->
          (match Hashtbl.find_opt st (int_of_pos pp) with
           | Some (a, x) when x = int_of_pos xx && not (mem_mark fs pp (p a) mm) && !k < !maxv ->
             incr k; Printf.printf "Y %s store %d %d %d %d\n" s.fid (int_of_pos pp) x a (int_of_pos mm)
           | _ -> ())
        | Edge _ -> ()) facts'
  end;
  let ip = int_of_pos in
  let pr tag k v =
    if k < !maxv then
      match v with
      | VOrigin (m, pt, v) -> Printf.printf "%s %s origin %d %d %d\n" tag s.fid (ip m) (ip pt) (ip v)
      | VForward (a, b, v, m) -> Printf.printf "%s %s forward %d %d %d %d\n" tag s.fid (ip a) (ip b) (ip v) (ip m)
      | VTransfer (pt, a, r, m) -> Printf.printf "%s %s transfer %d %d %d %d\n" tag s.fid (ip pt) (ip a) (ip r) (ip m)
      | VEdge (pt, v, m, u) -> Printf.printf "%s %s edge %d %d %d %d\n" tag s.fid (ip pt) (ip v) (ip m) (ip u) in
  List.iteri (pr "V") vs;
  List.iteri (pr "W") fw;
  List.iter (fun (m, u) -> Printf.printf "Q %s %d %d\n" s.fid m u) req

let () =
  (match Sys.argv with [| _; n |] -> maxv := int_of_string n | _ -> ());
  let s = ref (fresh ()) in
  let entry_defs = ref [] in
  (try
     while true do
       let l = input_line stdin in
       if String.length l > 0 then
         match l.[0] with
         | 'F' -> s := fresh (); entry_defs := [];
           (match split_ws l with _ :: id :: _ -> !s.fid <- id | _ -> ())
         | 'P' ->
           (match split_last_colon l with
            | left :: right :: _ ->
              (match split_ws left with
               | [_; pid; _; _; kind; def; reach; aux] ->
                 let pid = int_of_string pid and def = int_of_string def in
                 let ops = List.filter (fun x -> x > 0) (List.map int_of_string (split_ws right)) in
                 let r = (reach = "1") in
                 Hashtbl.replace !s.reachable pid r;
                 if r then begin
                   let k = kind_of kind aux in
                   (* a builtin/Error-invoke call in go/defer position defines no value *)
                   let i = { i_kind = k; i_def = (if def > 0 then Some (pos_of_int def) else None);
                             i_ops = List.map pos_of_int ops } in
                   !s.instrs <- (pid, i) :: !s.instrs;
                   if def > 0 then !s.defs <- (def, pid) :: !s.defs
                 end
               | _ -> failwith ("bad P line: " ^ l))
            | _ -> failwith ("bad P line: " ^ l))
         | 'S' ->
           (match String.split_on_char ':' l with
            | [left; right] ->
              (match split_ws left with
               | [_; pid] -> !s.succ <- (int_of_string pid, List.map int_of_string (split_ws right)) :: !s.succ
               | _ -> failwith ("bad S line: " ^ l))
            | _ -> failwith ("bad S line: " ^ l))
         | 'O' ->
           (match split_ws l with
            | [_; mid; kind; pid; vid; idx; nnodes; tuple] ->
              let mid = int_of_string mid and pid = int_of_string pid and vid = int_of_string vid in
              if kind <> "C" && pid > 0 && vid > 0 then !s.defs <- (vid, pid) :: !s.defs;
              if int_of_string tuple > 0 then !s.tuples <- (mid, (int_of_string tuple, int_of_string idx)) :: !s.tuples;
              if int_of_string nnodes > 0 && pid > 0 && vid > 0 then !s.origins <- (mid, pid, vid) :: !s.origins
            | _ -> failwith ("bad O line: " ^ l))
         | 'U' ->
           (match split_ws l with
            | [_; uid; _; pid; vid; _; nnodes] ->
              if int_of_string nnodes > 0 && int_of_string vid > 0 then
                !s.uses <- (int_of_string pid, (int_of_string vid, int_of_string uid)) :: !s.uses
            | _ -> failwith ("bad U line: " ^ l))
         | 'M' ->
           (match String.split_on_char ':' l with
            | [left; right] ->
              (match split_ws left with
               | [_; pid; vid] ->
                 let pp = pos_of_int (int_of_string pid) and vv = pos_of_int (int_of_string vid) in
                 List.iter (fun m -> !s.facts <- Mark (pp, vv, pos_of_int (int_of_string m)) :: !s.facts;
                             !s.nfacts <- !s.nfacts + 1) (split_ws right)
               | _ -> failwith ("bad M line: " ^ l))
            | _ -> failwith ("bad M line: " ^ l))
         | 'E' ->
           (match split_ws l with
            | [_; m; u] -> !s.facts <- Edge (pos_of_int (int_of_string m), pos_of_int (int_of_string u)) :: !s.facts;
              !s.nfacts <- !s.nfacts + 1
            | _ -> failwith ("bad E line: " ^ l))
         | 'L' ->
           (match split_ws l with
            | ["LS"; pt; a; x] -> !s.stores <- (int_of_string pt, (int_of_string a, int_of_string x)) :: !s.stores
            | ["LL"; pt; a] -> !s.loads <- (int_of_string pt, int_of_string a) :: !s.loads
            | ["LA"; pt] -> !s.allocs <- int_of_string pt :: !s.allocs
            | _ -> failwith ("bad L line: " ^ l))
         | 'Z' -> flush_fn !s
         | _ -> ()
     done
   with End_of_file -> ())
