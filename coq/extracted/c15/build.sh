#!/bin/sh
# builds the extracted escape-graph model + driver; run after the Coq development is compiled
set -e
cd "$(dirname "$0")"
coqc -Q ../../theories Argot -w -notation-overridden,-extraction-opaque-accessed,-extraction-reserved-identifier Extract.v >/dev/null
ocamlfind ocamlopt -w -a -O3 escgraph.mli escgraph.ml driver.ml -o ../../../build/bin/c15model 2>/dev/null || ocamlfind ocamlopt -w -a escgraph.mli escgraph.ml driver.ml -o ../../../build/bin/c15model
