(* Reads the c15dump case format, runs the extracted Coq model of the escape graph operations, prints the model's
   results in the format of go.txt:  "C <id>" then graph lines ("n <num> <status|-> <edgekey>", "e <a> <b> <flags>")
   or "b 0|1", then ".".  For merge cases with both inputs inside the invariant it also prints an "S <id>" block with
   the executable specification of the join (union of edges, maximum of statuses, naive closure).
   Every operation is evaluated under two map-iteration orders (identity and reversal); a difference is reported
   as "! <id> order-dependent". *)
open Escgraph

let rec pos_of_int n = if n <= 1 then XH else if n land 1 = 0 then XO (pos_of_int (n lsr 1)) else XI (pos_of_int (n lsr 1))
let rec int_of_pos = function XH -> 1 | XO p -> 2 * int_of_pos p | XI p -> 2 * int_of_pos p + 1
let node_of_num n = pos_of_int (n + 1)
let num_of_node p = int_of_pos p - 1

let st_of_int = function 0 -> Local | 1 -> Escaped | _ -> Leaked
let int_of_st = function Local -> 0 | Escaped -> 1 | Leaked -> 2
let flags_of_int f = { f_int = f land 1 <> 0; f_ext = f land 2 <> 0; f_sub = f land 4 <> 0 }
let int_of_flags f = (if f.f_int then 1 else 0) + (if f.f_ext then 2 else 0) + (if f.f_sub then 4 else 0)
let bit_flags f = flags_of_int f

let split_ws s = List.filter (fun x -> x <> "") (String.split_on_char ' ' s)

let serialize (g : graph) : string =
  let b = Buffer.create 256 in
  let module IS = Set.Make (Int) in
  let sts = List.map (fun (n, s) -> (num_of_node n, int_of_st s)) (g_status_list g) in
  let keys = List.map num_of_node (g_edge_keys g) in
  let es = List.concat_map (fun k -> List.map (fun (d, f) -> (k, num_of_node d, int_of_flags f)) (g_out_list g (node_of_num k))) keys in
  let all = List.fold_left (fun acc (n, _) -> IS.add n acc) IS.empty sts in
  let all = List.fold_left (fun acc k -> IS.add k acc) all keys in
  let all = List.fold_left (fun acc (_, d, _) -> IS.add d acc) all es in
  IS.iter (fun n ->
      let st = match List.assoc_opt n sts with Some s -> string_of_int s | None -> "-" in
      Buffer.add_string b (Printf.sprintf "n %d %s %d\n" n st (if List.mem n keys then 1 else 0))) all;
  List.iter (fun (a, d, f) -> Buffer.add_string b (Printf.sprintf "e %d %d %d\n" a d f)) (List.sort compare es);
  Buffer.contents b

type case = { id : string; op : string; args : int list; mutable intr : (int * int) list; mutable graphs : graph list }

let () =
  let cur = ref None in
  let curg = ref None in
  let flush_graph c = match !curg with Some g -> c.graphs <- c.graphs @ [g]; curg := None | None -> () in
  let run c =
    flush_graph c;
    let tbl = List.fold_left (fun t (n, s) -> tbl_set (node_of_num n) (st_of_int s) t) tbl_empty c.intr in
    let intr n = tbl_get tbl n in
    let idord (l : node list) = l in
    let revord (l : node list) = List.rev l in
    let g1 () = List.nth c.graphs 0 and g2 () = List.nth c.graphs 1 in
    let arg i = List.nth c.args i in
    let narg i = node_of_num (arg i) in
    let both (f : (node list -> node list) -> string) =
      let r1 = f idord and r2 = f revord in
      if r1 <> r2 then Printf.printf "! %s order-dependent\n" c.id;
      r1 in
    let outg f = both (fun o -> serialize (f o)) in
    let outb f = both (fun o -> if f o then "b 1\n" else "b 0\n") in
    let res =
      match c.op with
      | "merge" -> outg (fun o -> merge1 intr o (g1 ()) (g2 ()))
      | "le" -> outb (fun o -> less_equal o (g1 ()) (g2 ()))
      | "matches" -> outb (fun _ -> matches (g1 ()) (g2 ()))
      | "addedge" -> outg (fun o -> add_edge intr o (narg 0) (narg 1) (bit_flags (arg 2)) (g1 ()))
      | "mstatus" -> outg (fun o -> merge_node_status o (narg 0) (st_of_int (arg 1)) (g1 ()))
      | "addnode" -> outg (fun _ -> add_node intr (narg 0) (g1 ()))
      | "wassign" -> outg (fun o -> weak_assign_flat intr o (narg 0) (narg 1) (g1 ()))
      | "closure" -> outg (fun o -> closure o (narg 0) (narg 1) (g1 ()))
      | op -> failwith ("unknown op " ^ op) in
    Printf.printf "C %s\n%s.\n" c.id res;
    List.iteri (fun i g -> Printf.printf "I %s %d %d %d\n" c.id i (if wf_b intr g then 1 else 0) (if closed_b g then 1 else 0)) c.graphs;
    if c.op = "merge" && inv_b intr (g1 ()) && inv_b intr (g2 ()) then begin
      let naive = serialize (join_naive (g1 ()) (g2 ())) in
      let spec = serialize (join_spec idord (g1 ()) (g2 ())) in
      if naive <> spec then Printf.printf "! %s join_spec differs from join_naive\n" c.id;
      Printf.printf "S %s\n%s.\n" c.id naive
    end
  in
  (try
     while true do
       let l = input_line stdin in
       if String.length l > 0 then
         match l.[0], !cur with
         | 'C', _ ->
           (match split_ws l with
            | _ :: id :: op :: rest -> cur := Some { id; op; args = List.map int_of_string rest; intr = []; graphs = [] }; curg := None
            | _ -> failwith ("bad C line: " ^ l))
         | 'i', Some c -> (match split_ws l with [_; n; s] -> c.intr <- (int_of_string n, int_of_string s) :: c.intr | _ -> failwith l)
         | 'g', Some c -> flush_graph c; curg := Some g_empty
         | 'n', Some _ ->
           (match split_ws l, !curg with
            | [_; n; s; k], Some g ->
              let g = if s = "-" then g else g_set_status (node_of_num (int_of_string n)) (st_of_int (int_of_string s)) g in
              let g = if k = "1" then g_edge_key (node_of_num (int_of_string n)) g else g in
              curg := Some g
            | _ -> failwith ("bad n line: " ^ l))
         | 'e', Some _ ->
           (match split_ws l, !curg with
            | [_; a; b; f], Some g ->
              let fi = int_of_string f in
              if fi < 1 || fi > 7 then failwith ("flags outside the model: " ^ l);
              curg := Some (g_set_edge (node_of_num (int_of_string a)) (node_of_num (int_of_string b)) (flags_of_int fi) g)
            | _ -> failwith ("bad e line: " ^ l))
         | '.', Some c -> run c; cur := None
         | _ -> ()
     done
   with End_of_file -> ())
