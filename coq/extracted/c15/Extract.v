Require Extraction.
Require Import ExtrOcamlBasic.
From stdpp Require Import gmap.
From Argot Require Import Model.EscGraph.

(* helpers for the driver: building and reading gmaps without touching std++ internals *)
Definition g_empty : graph := empty_graph.
Definition g_set_status (n : positive) (s : estatus) (g : graph) : graph := mkGraph (edges g) (<[n := s]> (status g)).
Definition g_edge_key (n : positive) (g : graph) : graph :=
  match edges g !! n with Some _ => g | None => mkGraph (<[n := ∅]> (edges g)) (status g) end.
Definition g_set_edge (a b : positive) (f : flags) (g : graph) : graph :=
  mkGraph (<[a := <[b := f]> (default ∅ (edges g !! a))]> (edges g)) (status g).
Definition g_status_list (g : graph) : list (positive * estatus) := map_to_list (status g).
Definition g_edge_keys (g : graph) : list positive := map fst (map_to_list (edges g)).
Definition g_out_list (g : graph) (n : positive) : list (positive * flags) := map_to_list (out_edges g n).
Definition tbl_empty : gmap positive estatus := ∅.
Definition tbl_set (n : positive) (s : estatus) (t : gmap positive estatus) := <[n := s]> t.
Definition tbl_get (t : gmap positive estatus) (n : positive) : estatus := default Local (t !! n).

Extraction "escgraph.ml" g_empty g_set_status g_edge_key g_set_edge g_status_list g_edge_keys g_out_list
  tbl_empty tbl_set tbl_get
  add_node add_edge merge_node_status closure weak_assign_flat merge less_equal matches inv_b wf_b closed_b
  join_spec join_naive store_flat load_flat ensure_load.
