Require Extraction.
Require Import ExtrOcamlBasic.
From Argot Require Import Model.Defers.
Extraction "defers.ml" analyze bounded run_sets wf_cfg rds.
