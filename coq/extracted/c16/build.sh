#!/bin/sh
# builds the extracted model + driver; run from this directory after the Coq development is compiled
set -e
cd "$(dirname "$0")"
coqc -Q ../../theories Argot Extract.v >/dev/null
ocamlfind ocamlopt -w -a -O3 defers.mli defers.ml driver.ml -o ../../../build/bin/c16model 2>/dev/null || ocamlfind ocamlopt -w -a defers.mli defers.ml driver.ml -o ../../../build/bin/c16model
