(* Reads the c16dump format, runs the extracted Coq model of the defer analysis, prints the model's observables in
   the same canonical format (R / S lines) plus W (wf_cfg verdict). *)
open Defers

let rec nat_of_int n = if n <= 0 then O else S (nat_of_int (n - 1))
let rec int_of_nat = function O -> 0 | S n -> 1 + int_of_nat n

let split_ws s = List.filter (fun x -> x <> "") (String.split_on_char ' ' s)

let stack_str (s : (nat * nat) list) =
  if s = [] then "e"
  else String.concat "," (List.map (fun (b, i) -> Printf.sprintf "%d.%d" (int_of_nat b) (int_of_nat i)) s)

let () =
  let fuel = nat_of_int 200000 in
  let cur_id = ref "" in
  let order = ref [] in
  let blocks = ref [] in
  let flush_fn () =
    let c = List.rev !blocks in
    let w = wf_cfg c in
    Printf.printf "F %s\n" !cur_id;
    Printf.printf "W %d\n" (if w then 1 else 0);
    (match analyze fuel c !order with
     | OutOfFuel -> print_string "R outoffuel\n"
     | Done st ->
       Printf.printf "R %d\n" (if bounded st then 1 else 0);
       (* keys: every RunDefers position recorded, latest binding *)
       let keys = List.sort_uniq compare (List.map (fun ((b, i), _) -> (int_of_nat b, int_of_nat i)) (rds st)) in
       let lines = List.map (fun (b, i) ->
           match run_sets st (nat_of_int b, nat_of_int i) with
           | None -> Printf.sprintf "S %d %d : ?" b i
           | Some set -> Printf.sprintf "S %d %d : %s" b i (String.concat ";" (List.map stack_str set))) keys in
       List.iter print_endline (List.sort compare lines));
    print_string "E\n"
  in
  (try
     while true do
       let l = input_line stdin in
       if String.length l > 0 then
         match l.[0] with
         | 'F' -> (match split_ws l with _ :: id :: _ -> cur_id := id | _ -> ()); order := []; blocks := []
         | 'O' -> order := List.map (fun x -> nat_of_int (int_of_string x)) (List.tl (split_ws l))
         | 'B' ->
           (match String.split_on_char '|' l with
            | [left; right] ->
              let ks = (match split_ws left with _ :: _ :: k :: _ -> k | _ -> "") in
              let ins = List.init (String.length ks) (fun i -> match ks.[i] with 'D' -> KDefer | 'R' -> KRunDefers | _ -> KOther) in
              let ss = List.map (fun x -> nat_of_int (int_of_string x)) (split_ws right) in
              blocks := { instrs = ins; succs = ss } :: !blocks
            | _ -> failwith ("bad B line: " ^ l))
         | 'E' -> flush_fn ()
         | _ -> ()
     done
   with End_of_file -> ())
