#!/bin/sh
# builds the extracted model (Model/Summ.v + Model/Resolve.v) + driver; run after the Coq development is compiled
set -e
cd "$(dirname "$0")"
coqc -Q ../../theories Argot Extract.v >/dev/null
mkdir -p ../../../build/bin
ocamlfind ocamlopt -w -a -O3 resolve.mli resolve.ml driver.ml -o ../../../build/bin/c10model 2>/dev/null || ocamlfind ocamlopt -w -a resolve.mli resolve.ml driver.ml -o ../../../build/bin/c10model
