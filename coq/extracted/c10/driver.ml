(* Reads C10 cases (worlds + call sites, see tools/props/c10.py), runs the extracted Coq model Model/Resolve.v and
   prints the predicted one-step flows of the queried call site.

   CASE <id>
   FN <fid> <nparams> <retlens: n,n,.. | -> <ikey | ->
   FC <fid> <args> <rets>                 function contract        (matrix: [a,b][][c] rows, - = no rows)
   IC <key> <repfid> <args> <rets>        interface-method contract and its representative
   BODY <fid> <edges: P<i>:<k>,R<i>:<j>,.. | ->
   CS <static fid | -> <mkey | -> <cg fids | -> <impl fids | ->     a call site of the program
   Q  <static fid | -> <mkey | -> <cg fids | -> <impl fids | ->     the queried call site (also part of the program)
   END                                     -> prints "CASE <id>", "R i j" / "A i k" lines (true flows), "E"          *)
open Resolve

let rec nat_of_int n = if n <= 0 then O else S (nat_of_int (n - 1))
let rec int_of_nat = function O -> 0 | S n -> 1 + int_of_nat n
let rec pos_of_int n = if n <= 1 then XH else if n land 1 = 0 then XO (pos_of_int (n / 2)) else XI (pos_of_int (n / 2))
let z_of_int n = if n = 0 then Z0 else if n > 0 then Zpos (pos_of_int n) else Zneg (pos_of_int (-n))

let split_ws s = List.filter (fun x -> x <> "") (String.split_on_char ' ' s)
let ints_of s = if s = "-" || s = "" then [] else List.map int_of_string (String.split_on_char ',' s)

(* "[1,2][][0]" -> [[1;2];[];[0]] ; "-" -> [] *)
let matrix_of s =
  if s = "-" then []
  else begin
    let rows = ref [] and buf = Buffer.create 8 in
    String.iter (fun c -> match c with
        | '[' -> Buffer.clear buf
        | ']' -> rows := (List.map z_of_int (ints_of (Buffer.contents buf))) :: !rows
        | c -> Buffer.add_char buf c) s;
    List.rev !rows
  end

let edges_of s =
  if s = "-" then []
  else List.map (fun t ->
      let kind = t.[0] in
      match String.split_on_char ':' (String.sub t 1 (String.length t - 1)) with
      | [a; b] -> if kind = 'P' then EP (nat_of_int (int_of_string a), z_of_int (int_of_string b))
        else ER (nat_of_int (int_of_string a), z_of_int (int_of_string b))
      | _ -> failwith ("bad edge " ^ t)) (String.split_on_char ',' s)

let () =
  let id = ref "" in
  let fns : (int, fn) Hashtbl.t = Hashtbl.create 16 in
  let fcs : (int, summary) Hashtbl.t = Hashtbl.create 16 in
  let ics : (int, summary * int) Hashtbl.t = Hashtbl.create 16 in
  let bodies : (int, edge list) Hashtbl.t = Hashtbl.create 16 in
  let prog = ref [] and query = ref None in
  let reset () = Hashtbl.reset fns; Hashtbl.reset fcs; Hashtbl.reset ics; Hashtbl.reset bodies; prog := []; query := None in
  let fn_of i = try Hashtbl.find fns i with Not_found -> failwith (Printf.sprintf "case %s: unknown function %d" !id i) in
  let callsite st mk cg impls =
    { cs_static = (if st = "-" then None else Some (fn_of (int_of_string st)));
      cs_mkey = (if mk = "-" then None else Some (nat_of_int (int_of_string mk)));
      cs_cg = List.map fn_of (ints_of cg); cs_impls = List.map fn_of (ints_of impls) } in
  let finish () =
    let w = { w_fun_contract = (fun f -> Hashtbl.find_opt fcs (int_of_nat f));
              w_iface_contract = (fun k -> match Hashtbl.find_opt ics (int_of_nat k) with
                  | Some (s, rep) -> Some (s, fn_of rep) | None -> None);
              w_body = (fun f -> match Hashtbl.find_opt bodies (int_of_nat f) with Some l -> l | None -> []);
              w_predef = (fun _ -> None) } in
    let p = List.rev !prog in
    Printf.printf "CASE %s\n" !id;
    (match !query with
     | None -> print_string "NOQUERY\n"
     | Some cs ->
       for i = 0 to 3 do
         for j = 0 to 2 do
           if flow_ret w p cs (nat_of_int i) (nat_of_int j) then Printf.printf "R %d %d\n" i j
         done;
         for k = 0 to 3 do
           if flow_arg w p cs (nat_of_int i) (nat_of_int k) then Printf.printf "A %d %d\n" i k
         done
       done);
    print_string "E\n"
  in
  try
    while true do
      let l = input_line stdin in
      match split_ws l with
      | "CASE" :: i :: _ -> reset (); id := i
      | ["FN"; f; np; rl; ik] ->
        let f = int_of_string f in
        Hashtbl.replace fns f { f_id = nat_of_int f;
                                f_sig = { nparams = nat_of_int (int_of_string np); ret_lens = List.map nat_of_int (ints_of rl) };
                                f_ikey = (if ik = "-" then None else Some (nat_of_int (int_of_string ik))) }
      | ["FC"; f; a; r] -> Hashtbl.replace fcs (int_of_string f) { s_args = matrix_of a; s_rets = matrix_of r }
      | ["IC"; k; rep; a; r] -> Hashtbl.replace ics (int_of_string k) ({ s_args = matrix_of a; s_rets = matrix_of r }, int_of_string rep)
      | ["BODY"; f; e] -> Hashtbl.replace bodies (int_of_string f) (edges_of e)
      | ["CS"; st; mk; cg; impls] -> prog := callsite st mk cg impls :: !prog
      | ["Q"; st; mk; cg; impls] -> let cs = callsite st mk cg impls in prog := cs :: !prog; query := Some cs
      | ["END"] -> finish ()
      | [] -> ()
      | _ -> failwith ("bad line: " ^ l)
    done
  with End_of_file -> ()
