Require Extraction.
Require Import ExtrOcamlBasic.
From Argot Require Import Model.Summ Model.Resolve.
Extraction "resolve.ml" flow_ret flow_arg spec_ret spec_arg resolve_callee callee_graph apply conforms written edges creatable.
