(* Reads the c19dump format (tab separated), builds the mini-IR program, runs the extracted Coq model of the
   lightweight may-panic analysis and prints the model's observables in the dumper's canonical form:
     MG <fid> <posid>...   find_go_functions          (compare with IG)
     MR <fid>              in_recover_functions       (compare with IR)
     MD <fid>              does_defer_recover         (compare with ID)
     MX <k> <fid> <posid>...   report under exclude configuration k   (compare with IX) *)
open Maypanic

let split_tab s = String.split_on_char '\t' s

(* shared Peano numerals: nats.(i) = S nats.(i-1) *)
let nats = ref (Array.make 1 O)
let ensure n =
  let a = !nats in
  let len = Array.length a in
  if n >= len then begin
    let b = Array.make (max (n + 1) (2 * len)) O in
    Array.blit a 0 b 0 len;
    for i = len to Array.length b - 1 do b.(i) <- S b.(i - 1) done;
    nats := b
  end
let nat_of_int n = ensure n; !nats.(n)
let rec int_of_nat = function O -> 0 | S n -> 1 + int_of_nat n

let ascii_of_char c =
  let n = Char.code c in
  let b i = (n lsr i) land 1 = 1 in
  Ascii (b 0, b 1, b 2, b 3, b 4, b 5, b 6, b 7)

let coq_string (s : Stdlib.String.t) : Maypanic.string =
  let r = ref EmptyString in
  for i = Stdlib.String.length s - 1 downto 0 do r := String (ascii_of_char s.[i], !r) done;
  !r

let dash s = if s = "-" then "" else s

let () =
  let allow = ref [] in
  let cwd = ref "" in
  let nf = ref 0 in
  let fmeta : (int, (Stdlib.String.t * Stdlib.String.t)) Hashtbl.t = Hashtbl.create 1024 in   (* fid -> pkg, file *)
  let bodies : (int, instr list) Hashtbl.t = Hashtbl.create 1024 in
  let configs = ref [] in
  let dyn = ref 0 in
  let form_of f arg =
    match f with
    | "static" -> FStatic (nat_of_int (int_of_string arg))
    | "closure" -> FClosure (nat_of_int (int_of_string arg))
    | "closureother" -> FClosureOther
    | "invoke" -> incr dyn; FInvoke (nat_of_int 0)
    | "builtin" -> FBuiltin (coq_string arg)
    | "value" -> incr dyn; FValue (nat_of_int 0)
    | _ -> failwith ("unknown form " ^ f) in
  (try
     while true do
       let l = input_line stdin in
       match split_tab l with
       | ["A"; a] -> allow := a :: !allow
       | ["W"; w] -> cwd := w
       | "F" :: id :: _name :: pkg :: file :: _ ->
         let i = int_of_string id in
         if i + 1 > !nf then nf := i + 1;
         Hashtbl.replace fmeta i (pkg, file)
       | ["I"; id; kind; f; arg; p] ->
         let i = int_of_string id in
         let fm = if kind = "call" && f <> "builtin" && arg = "-" then
             (match f with "static" -> FStatic (nat_of_int 0) | "closure" -> FClosure (nat_of_int 0) | _ -> form_of f "0")
           else form_of f arg in
         let ins = (match kind with
             | "go" -> IGo (fm, nat_of_int (int_of_string p))
             | "defer" -> IDefer fm
             | "call" -> ICall fm
             | _ -> IOther) in
         let old = try Hashtbl.find bodies i with Not_found -> [] in
         Hashtbl.replace bodies i (ins :: old)
       | "E" :: k :: paths -> configs := (int_of_string k, paths) :: !configs
       | _ -> ()
     done
   with End_of_file -> ());
  let fl = List.init !nf (fun i ->
      let (pkg, file) = try Hashtbl.find fmeta i with Not_found -> ("-", "-") in
      let body = List.rev (try Hashtbl.find bodies i with Not_found -> []) in
      { f_pkg = (if pkg = "-" then None else Some (coq_string pkg)); f_file = coq_string (dash file); f_body = body }) in
  let prog = { funcs = fl; impls = []; values = [] } in
  let pr_entry tag (f, ps) =
    let ps = List.sort compare (List.map int_of_nat ps) in
    Printf.printf "%s\t%d%s\n" tag (int_of_nat f) (Stdlib.String.concat "" (List.map (fun p -> "\t" ^ string_of_int p) ps)) in
  let sort_entries l = List.sort (fun (a, _) (b, _) -> compare (int_of_nat a) (int_of_nat b)) l in
  List.iter (pr_entry "MG") (sort_entries (find_go_functions prog));
  for i = 0 to !nf - 1 do
    if in_recover_functions prog (nat_of_int i) then Printf.printf "MR\t%d\n" i
  done;
  for i = 0 to !nf - 1 do
    if does_defer_recover prog (nat_of_int i) then Printf.printf "MD\t%d\n" i
  done;
  let allow_c = List.rev_map coq_string !allow in
  List.iter (fun (k, paths) ->
      let c = { c_allow = allow_c; c_cwd = coq_string !cwd; c_exclude = List.map coq_string paths } in
      List.iter (pr_entry (Printf.sprintf "MX\t%d" k)) (sort_entries (report c prog)))
    (List.sort compare !configs)
