#!/bin/sh
# builds the extracted may-panic model + driver; run after the Coq development is compiled
set -e
cd "$(dirname "$0")"
coqc -Q ../../theories Argot Extract.v >/dev/null
mkdir -p ../../../build/bin
ocamlfind ocamlopt -w -a -O3 maypanic.mli maypanic.ml driver.ml -o ../../../build/bin/c19model 2>/dev/null || ocamlfind ocamlopt -w -a maypanic.mli maypanic.ml driver.ml -o ../../../build/bin/c19model
