Require Extraction.
Require Import ExtrOcamlBasic.
From Argot Require Import Model.MayPanic.
Extraction "maypanic.ml" find_go_functions in_recover_functions does_defer_recover filtered report
           mkConfig mkProgram mkFunc.
