#!/bin/sh
# builds the extracted Andersen model + driver; run after the Coq development is compiled
set -e
cd "$(dirname "$0")"
coqc -Q ../../theories Argot Extract.v >/dev/null
ocamlfind ocamlopt -w -a -O3 andersen.mli andersen.ml driver.ml -o ../../../build/bin/c11model 2>/dev/null || ocamlfind ocamlopt -w -a andersen.mli andersen.ml driver.ml -o ../../../build/bin/c11model
