(* Reads a muSSA program (S-expressions written by harness/cmd/c11dump -mu), runs the extracted Coq model
   (Model/Andersen.v: naive saturating solver + verified closedness checker) and prints the least solution:
     STATUS done|outoffuel      CHECK 0|1 (check_closed on the result)
     PTS <f> <r> : labels       CELL <site> <off> : labels      RET <f> : labels
     REACH <f>                  EDGE <callsite> <g>
   labels: o<site>.<off>  b<site>.<tag>  f<fname> *)
open Andersen

let rec pos_of_int n = if n <= 1 then XH else if n land 1 = 0 then XO (pos_of_int (n lsr 1)) else XI (pos_of_int (n lsr 1))
let rec int_of_pos = function XH -> 1 | XO p -> 2 * int_of_pos p | XI p -> 2 * int_of_pos p + 1
let n_of_int n = if n = 0 then N0 else Npos (pos_of_int n)
let int_of_n = function N0 -> 0 | Npos p -> int_of_pos p
let rec nat_of_int n = if n <= 0 then O else S (nat_of_int (n - 1))

type sx = A of string | L of sx list

let parse (s : string) : sx =
  let n = String.length s in
  let pos = ref 0 in
  let rec skip () = if !pos < n && (s.[!pos] = ' ' || s.[!pos] = '\n' || s.[!pos] = '\t' || s.[!pos] = '\r') then (incr pos; skip ()) in
  let rec item () =
    skip ();
    if !pos >= n then failwith "eof"
    else if s.[!pos] = '(' then begin
      incr pos;
      let items = ref [] in
      let rec loop () =
        skip ();
        if !pos >= n then failwith "unbalanced"
        else if s.[!pos] = ')' then incr pos
        else (items := item () :: !items; loop ()) in
      loop ();
      L (List.rev !items)
    end else begin
      let st = !pos in
      while !pos < n && not (s.[!pos] = ' ' || s.[!pos] = '\n' || s.[!pos] = '(' || s.[!pos] = ')' || s.[!pos] = '\t') do incr pos done;
      A (String.sub s st (!pos - st))
    end in
  item ()

let atom = function A s -> s | L _ -> failwith "atom expected"
let int_a x = int_of_string (atom x)
let pos_a x = pos_of_int (int_a x)
let reg_a x = let s = atom x in pos_of_int (int_of_string (String.sub s 1 (String.length s - 1)))

let operand x =
  let s = atom x in
  if s = "c" then OConst
  else
    let v = pos_of_int (int_of_string (String.sub s 1 (String.length s - 1))) in
    match s.[0] with
    | 'r' -> OReg v
    | 'g' -> OGlobal v
    | 'f' -> OFun v
    | _ -> failwith ("operand " ^ s)

let kind x =
  let s = atom x in
  if s = "s" then KStruct else KArr (n_of_int (int_of_string (String.sub s 1 (String.length s - 1))))

type item = I of instr | T of term

let instr_of = function
  | L (A "alloc" :: d :: s :: k :: n :: []) -> I (IAlloc (reg_a d, pos_a s, kind k, nat_of_int (int_a n)))
  | L (A "copy" :: d :: o :: []) -> I (ICopy (reg_a d, operand o))
  | L (A "phi" :: d :: es) ->
    I (IPhi (reg_a d, List.map (function L [b; o] -> (nat_of_int (int_a b), operand o) | _ -> failwith "phi edge") es))
  | L (A "scalar" :: d :: []) -> I (IScalar (reg_a d))
  | L (A "load" :: d :: a :: []) -> I (ILoad (reg_a d, operand a))
  | L (A "store" :: a :: v :: []) -> I (IStore (operand a, operand v))
  | L (A "fieldaddr" :: d :: b :: k :: []) -> I (IFieldAddr (reg_a d, operand b, n_of_int (int_a k)))
  | L (A "indexaddr" :: d :: b :: w :: []) -> I (IIndexAddr (reg_a d, operand b, n_of_int (int_a w)))
  | L (A "closure" :: d :: g :: bs) -> I (IMakeClosure (reg_a d, pos_a g, List.map operand bs))
  | L (A "mkiface" :: d :: s :: t :: x :: []) -> I (IMakeIface (reg_a d, pos_a s, pos_a t, operand x))
  | L (A "assert" :: d :: x :: t :: []) -> I (ITypeAssert (reg_a d, operand x, pos_a t))
  | L (A "call" :: d :: cs :: c :: args) ->
    let c' = (match c with
        | L [A "static"; g] -> CStatic (pos_a g)
        | L [A "dyn"; x] -> CDyn (operand x)
        | L [A "invoke"; x; m] -> CInvoke (operand x, pos_a m)
        | _ -> failwith "callee") in
    I (ICall (reg_a d, pos_a cs, c', List.map operand args))
  | L (A "jump" :: b :: []) -> T (TJump (nat_of_int (int_a b)))
  | L (A "if" :: b1 :: b2 :: []) -> T (TIf (nat_of_int (int_a b1), nat_of_int (int_a b2)))
  | L (A "ret" :: o :: []) -> T (TReturn (operand o))
  | L (A h :: _) -> failwith ("instr " ^ h)
  | _ -> failwith "instr"

let block_of = function
  | L (A "block" :: items) ->
    let rec go acc = function
      | [] -> failwith "block without terminator"
      | x :: rest -> (match instr_of x with
          | I i -> go (i :: acc) rest
          | T t -> { binstrs = List.rev acc; bterm = t }) in
    go [] items
  | _ -> failwith "block"

let prog_of (sx : sx) : prog =
  match sx with
  | L (A "prog" :: L (A "globals" :: gs) :: L (A "mtable" :: ms) :: L (A "roots" :: rs) :: fs) ->
    { funcs = List.map (function
          | L (A "func" :: f :: L (A "params" :: ps) :: L (A "free" :: fv) :: blocks) ->
            (pos_a f, { fparams = List.map reg_a ps; ffree = List.map reg_a fv; fblocks = List.map block_of blocks })
          | _ -> failwith "func") fs;
      globals = List.map (function L [A "g"; s; k; n] -> (pos_a s, (kind k, nat_of_int (int_a n))) | _ -> failwith "global") gs;
      mtable = List.map (function L [A "m"; t; m; g] -> ((pos_a t, pos_a m), pos_a g) | _ -> failwith "mtable") ms;
      roots = List.map pos_a rs }
  | _ -> failwith "prog"

let lab = function
  | LObj (s, o) -> Printf.sprintf "o%d.%d" (int_of_pos s) (int_of_n o)
  | LBox (s, t) -> Printf.sprintf "b%d.%d" (int_of_pos s) (int_of_pos t)
  | LFun f -> Printf.sprintf "f%d" (int_of_pos f)

let labs ls = String.concat " " (List.sort compare (List.map lab ls))

(* -reach <file>: runs the extracted worklist model of dataflow.CallGraphReachable on a dumped call graph
   (E from to / ENTRY id) and prints the reachable node ids (M id) *)
let reach_mode path =
  let ic = open_in path in
  let succ : (int, int list) Hashtbl.t = Hashtbl.create 100000 in
  let entries = ref [] in
  let nedges = ref 0 in
  (try while true do
       let l = input_line ic in
       match String.split_on_char ' ' l with
       | ["E"; a; b] ->
         let a = int_of_string a and b = int_of_string b in
         Hashtbl.replace succ a (b :: (try Hashtbl.find succ a with Not_found -> []));
         incr nedges
       | ["ENTRY"; a] -> entries := int_of_string a :: !entries
       | _ -> ()
     done with End_of_file -> ());
  let succs f = List.map pos_of_int (try Hashtbl.find succ (int_of_pos f) with Not_found -> []) in
  let fuel = nat_of_int (!nedges + List.length !entries + 10) in
  match cg_reachable_from fuel succs (List.map pos_of_int (List.sort compare !entries)) with
  | None -> print_string "REACHSTATUS outoffuel\n"
  | Some s ->
    print_string "REACHSTATUS done\n";
    List.iter (fun (a, _) -> Printf.printf "M %d\n" (int_of_pos a)) (PM.elements s)

let () =
  if Array.length Sys.argv > 2 && Sys.argv.(1) = "-reach" then (reach_mode Sys.argv.(2); exit 0);
  let ic = if Array.length Sys.argv > 1 then open_in Sys.argv.(1) else stdin in
  let buf = Buffer.create 65536 in
  (try while true do Buffer.add_channel buf ic 1 done with End_of_file -> ());
  let p = prog_of (parse (Buffer.contents buf)) in
  let fuel = nat_of_int 100000 in
  let f, status = (match analyze fuel p with Done f -> (f, "done") | OutOfFuel f -> (f, "outoffuel")) in
  Printf.printf "STATUS %s\n" status;
  Printf.printf "CHECK %d\n" (if check_closed p f then 1 else 0);
  List.iter (fun (a, m) ->
      List.iter (fun (b, ls) -> Printf.printf "PTS %d %d : %s\n" (int_of_pos a) (int_of_pos b) (labs (ls_elements ls))) (PM.elements m))
    (PM.elements f.m_reg);
  List.iter (fun (a, m) ->
      List.iter (fun (b, ls) -> Printf.printf "CELL %d %d : %s\n" (int_of_pos a) (int_of_pos b - 1) (labs (ls_elements ls))) (PM.elements m))
    (PM.elements f.m_cell);
  List.iter (fun (a, ls) -> Printf.printf "RET %d : %s\n" (int_of_pos a) (labs (ls_elements ls))) (PM.elements f.m_ret);
  List.iter (fun (a, _) -> Printf.printf "REACH %d\n" (int_of_pos a)) (PM.elements f.m_reach);
  List.iter (fun (a, gs) -> List.iter (fun g -> Printf.printf "EDGE %d %d\n" (int_of_pos a) (int_of_pos g)) gs) (PM.elements f.m_edge)
