Require Extraction.
Require Import ExtrOcamlBasic.
From Argot Require Import Lang.MuSSA Model.Andersen.
Extraction "andersen.ml" analyze check_closed fpts ls_elements freach fedges cg_reachable_from PM.elements.
