#!/bin/sh
# builds the extracted model + driver; run after the Coq development is compiled
set -e
cd "$(dirname "$0")"
coqc -Q ../../theories Argot Extract.v >/dev/null
ocamlfind ocamlopt -w -a -O3 back.mli back.ml driver.ml -o ../../../build/bin/c03model 2>/dev/null || ocamlfind ocamlopt -w -a back.mli back.ml driver.ml -o ../../../build/bin/c03model
