Require Extraction.
Require Import ExtrOcamlBasic.
From Argot Require Import Model.Back.
Extraction "back.ml" back back_all no_oracle get_node get_graph is_base_case root next_of key_of ideal_cands closed_runb run_gaps trace_wfb chainb chain_strictb bstepb mkGraph mkConfig mkNode mkSGraph.
