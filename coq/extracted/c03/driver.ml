(* Reads the c03dump format (sections P ... END), runs the extracted Coq model of the backward traversal
   (Model/Back.v) on the dumped linked graph and entry arguments, prints the model's observables, and runs the
   extracted verified trace checker on the implementation's own traces (T lines).

   usage: c03model [-fresh] [-sat] [-perm SEED] [-fuel N] < dump
     -fresh      every entry argument starts from empty prevEdgeInfos (default: threaded in dump order, as Visit does)
     -sat        every entry argument starts from prevEdgeInfos saturated with all In()/Out() indices of every argument
     -perm SEED  permute every adjacency list (Go map iteration order) with an LCG seeded by SEED (0 = dump order)

   output per section:
     P <dir> <mode>
     R <arg> <outcome> visited=<n> traces=<n> silent=<n>
     M <arg> <n1,n2,...>         model trace (origin first)
     S <arg> <n1,n2,...>         path of a DFS leaf that recorded nothing
     V <arg> <sorted node ids>   nodes of expanded visitor nodes
     W <arg> <ok|BAD|NOTSTRICT> <trace>   checker verdict on an implementation trace
     END *)
open Back

let nat_of_int n = let rec go acc n = if n <= 0 then acc else go (S acc) (n - 1) in go O n
let rec int_of_nat = function O -> 0 | S n -> 1 + int_of_nat n

let rec pos_of_int n = if n <= 1 then XH else if n land 1 = 0 then XO (pos_of_int (n lsr 1)) else XI (pos_of_int (n lsr 1))
let rec int_of_pos = function XH -> 1 | XO p -> 2 * int_of_pos p | XI p -> 2 * int_of_pos p + 1
let n_of_int n = if n <= 0 then N0 else Npos (pos_of_int n)
let z_of_int n = if n = 0 then Z0 else if n > 0 then Zpos (pos_of_int n) else Zneg (pos_of_int (-n))

let split_ws s = List.filter (fun x -> x <> "") (String.split_on_char ' ' s)
let ids s = if s = "-" then [] else List.map int_of_string (String.split_on_char ',' s)
let pairs s = if s = "-" then [] else List.map (fun e -> match String.split_on_char ':' e with
    | [a; b] -> (int_of_string a, b) | _ -> failwith ("bad pair " ^ e)) (String.split_on_char ';' s)

let lcg = ref 1
let rnd n = lcg := (!lcg * 1103515245 + 12345) land 0x7fffffff; (!lcg lsr 8) mod n
let perm = ref 0
let shuffle l =
  if !perm = 0 then l else begin
    let a = Array.of_list l in
    for i = Array.length a - 1 downto 1 do
      let j = rnd (i + 1) in
      let t = a.(i) in a.(i) <- a.(j); a.(j) <- t
    done;
    Array.to_list a
  end

let kind_of = function
  | "P" -> KParam | "F" -> KFreeVar | "A" -> KArg | "C" -> KCall | "R" -> KReturn | "K" -> KClosure
  | "V" -> KBoundVar | "L" -> KBoundLabel | "W" -> KGlobal | "S" -> KSynth | _ -> KIf

let str_ids l = if l = [] then "-" else String.concat "," (List.map (fun p -> string_of_int (int_of_pos p)) l)

let outcome_str = function
  | Done -> "done" | Aborted -> "abort" | OutOfFuel -> "outoffuel"
  | Crashed c -> "crash:" ^ (match c with CrNoNode -> "nonode" | CrNilPrev -> "nilprev" | CrIndex -> "index"
                                         | CrNilCallee -> "nilcallee" | CrNoBoundVars -> "noboundvars" | CrUnhandled -> "unhandled")

let () =
  let fresh = ref false and sat = ref false and fuel = ref 2000000 and ft = ref false and fc = ref false and novar = ref false in
  let args = Array.to_list Sys.argv in
  let rec pa = function
    | "-fresh" :: r -> fresh := true; pa r
    | "-sat" :: r -> sat := true; pa r
    | "-perm" :: s :: r -> perm := int_of_string s; lcg := (int_of_string s) lor 1; pa r
    | "-fuel" :: s :: r -> fuel := int_of_string s; pa r
    | "-fix-tuple" :: r -> ft := true; pa r
    | "-fix-ctrace" :: r -> fc := true; pa r
    | "-no-variants" :: r -> novar := true; pa r
    | _ :: r -> pa r
    | [] -> () in
  pa (List.tl args);
  let fuel_n = nat_of_int !fuel in
  let nodes = ref PositiveMap.Leaf and graphs = ref PositiveMap.Leaf and globals = ref PositiveMap.Leaf in
  let entries = ref [] and itraces = ref [] and cfg = ref { on_demand = false; max_depth = None; skip_bound_labels = false; fix_tuple = false; fix_ctrace = false } in
  let satm = ref PositiveMap.Leaf in
  let events = ref [] in
  let vinfo = ref [] in
  let reset () = nodes := PositiveMap.Leaf; graphs := PositiveMap.Leaf; globals := PositiveMap.Leaf; entries := [];
    itraces := []; satm := PositiveMap.Leaf; events := []; vinfo := [] in
  let oracle_of (ev : int array) : n -> (positive * bool) list -> n list = fun k flags ->
    let k = (match k with N0 -> 0 | Npos p -> int_of_pos p) in
    let fl = Array.of_list flags in
    let n = Array.length fl in
    let big = n + 1 in
    let ranks = Array.make n big in
    let nodes_i = Array.map (fun (p, _) -> int_of_pos p) fl in
    let i = ref 0 and go = ref true in
    while !go && k + !i < Array.length ev do
      let e = ev.(k + !i) in
      let found = ref (-1) in
      let j = ref 0 in
      while !found < 0 && !j < n do
        if ranks.(!j) = big && snd fl.(!j) && nodes_i.(!j) = e then found := !j;
        incr j
      done;
      if !found >= 0 then (ranks.(!found) <- !i; incr i) else go := false
    done;
    List.map n_of_int (Array.to_list ranks) in
  let finish () =
    let g = { nodes = !nodes; graphs = !graphs; globals = !globals } in
    let evs = List.rev !events in
    let check_traces () =
      List.iter (fun (a, t) ->
          let tp = List.map pos_of_int t in
          let ok = trace_wfb g (pos_of_int a) tp in
          let strict = chain_strictb g tp in
          Printf.printf "W %d %s %s\n" a (if not ok then "BAD" else if not strict then "NOTSTRICT" else "ok")
            (String.concat "," (List.map string_of_int t))) (List.rev !itraces) in
    let gaps_out e s =
      let gs = run_gaps g !cfg s in
      let l = List.sort_uniq compare (List.map (fun (v, c) -> (int_of_pos v.v_node, int_of_pos c.c_node)) gs) in
      Printf.printf "H %d closed=%d gaps=%d\n" e (if closed_runb g !cfg s then 1 else 0) (List.length l);
      List.iter (fun (a, b) -> Printf.printf "GAP %d %d %d\n" e a b) l in
    (* evaluation of the executable spec: nodes of all visitor nodes reachable by the ideal successor relation *)
    let ideal_nodes e =
      let seen = Hashtbl.create 1024 in
      let nodes_h = Hashtbl.create 1024 in
      let q = Queue.create () in
      let r = root (pos_of_int e) in
      Queue.add r q;
      let cap = 100000 in
      let n = ref 0 in
      while not (Queue.is_empty q) && !n < cap do
        let v = Queue.pop q in
        incr n;
        Hashtbl.replace nodes_h (int_of_pos v.v_node) ();
        List.iter (fun c ->
            let w = next_of v c in
            let w = { w with v_path = (match w.v_path with a :: b :: _ -> [a; b] | l -> l); v_depth = O } in
            let k = (key_of w, (match w.v_path with _ :: b :: _ -> int_of_pos b | _ -> 0)) in
            if not (Hashtbl.mem seen k) then (Hashtbl.add seen k (); Queue.add w q)) (ideal_cands g !cfg v)
      done;
      let l = Hashtbl.fold (fun k () acc -> k :: acc) nodes_h [] in
      Printf.printf "I %d n=%d capped=%d %s\n" e !n (if Queue.is_empty q then 0 else 1)
        (String.concat "," (List.map string_of_int (List.sort compare l))) in
    let report e outs nvis traces silents vs =
      ideal_nodes e;
      Printf.printf "R %d %s visited=%d traces=%d silent=%d\n" e outs nvis (List.length traces) (List.length silents);
      List.iter (fun t -> Printf.printf "M %d %s\n" e t) (List.sort compare traces);
      List.iter (fun t -> Printf.printf "S %d %s\n" e t) (List.sort compare silents);
      Printf.printf "V %d %s\n" e (String.concat "," (List.map string_of_int (List.sort_uniq compare vs))) in
    if List.exists (fun (c, _) -> c = 'B') evs && not !fresh && not !sat && !perm = 0 then begin
      (* replay: the visits in the order the implementation made them, candidates ordered as the implementation added them.
         The pinned model is tried first; when it does not stay in sync, the model with the repairs switched on is tried
         (fix_tuple / fix_ctrace), so that a repaired implementation is still tied to a model the theorems cover. *)
      let segs = ref [] and cur = ref None in
      let vi = ref (List.rev !vinfo) in
      let close () = (match !cur with
          | Some (a, l, pl) -> segs := (a, Array.of_list (List.rev l), Array.of_list (List.rev pl)) :: !segs
          | None -> ()) in
      List.iter (fun (c, id) ->
          if c = 'B' then begin close (); cur := Some (id, [], []) end
          else if c = 'A' then (match !cur with Some (a, l, pl) -> cur := Some (a, id :: l, pl) | None -> ())
          else begin
            let (t, ct) = (match !vi with x :: r -> vi := r; x | [] -> ([], [])) in
            (match !cur with Some (a, l, pl) -> cur := Some (a, l, (id, t, ct) :: pl) | None -> ())
          end) evs;
      close ();
      let segs = List.rev !segs in
      let have_pops = List.exists (fun (_, _, pl) -> Array.length pl > 0) segs in
      let replay (cf : config) =
        let out = Buffer.create 65536 in
        let allsync = ref true in
        let pei = ref PositiveMap.Leaf in
        let acc : (int, (string list * int * string list * string list * int list)) Hashtbl.t = Hashtbl.create 16 in
        let order = ref [] in
        List.iter (fun (a, ev, pops) ->
            let (s, o) = back (oracle_of ev) g cf fuel_n !pei (pos_of_int a) in
            pei := s.pei;
            let adds = Array.of_list (List.rev_map (fun (((n, _), _), _) -> int_of_pos n) s.seen) in
            let sync =
              if adds = ev then "sync" else begin
                allsync := false;
                let i = ref 0 in
                while !i < Array.length adds && !i < Array.length ev && adds.(!i) = ev.(!i) do incr i done;
                Printf.sprintf "DIVERGE@%d/%d/%d" !i (Array.length adds) (Array.length ev)
              end in
            (* the nodes that reached the switch, with their call and closure traces (root first), in pop order *)
            let ctx =
              if not have_pops then "noctx" else begin
                let reached v = (match get_node g v.v_node with
                    | None -> false
                    | Some x -> (match get_graph g x.n_graph with
                        | None -> false
                        | Some sg -> not ((not sg.g_constructed && not cf.on_demand) || is_base_case g cf x))) in
                let mp = Array.of_list (List.filter reached (List.rev s.visited)) in
                let same i = let v = mp.(i) and (n, t, c) = pops.(i) in
                  int_of_pos v.v_node = n && List.rev_map int_of_pos v.v_trace = t && List.rev_map int_of_pos v.v_ctrace = c in
                let n = min (Array.length mp) (Array.length pops) in
                let i = ref 0 in
                while !i < n && same !i do incr i done;
                if !i = Array.length mp && !i = Array.length pops then "ctx" else begin
                  allsync := false;
                  Printf.sprintf "CTXDIFF@%d/%d/%d" !i (Array.length mp) (Array.length pops)
                end
              end in
            Buffer.add_string out (Printf.sprintf "Q %d %s %s %s\n" a (outcome_str o) sync ctx);
            let gs = run_gaps g cf s in
            let l = List.sort_uniq compare (List.map (fun (v, c) -> (int_of_pos v.v_node, int_of_pos c.c_node)) gs) in
            Buffer.add_string out (Printf.sprintf "H %d closed=%d gaps=%d\n" a (if closed_runb g cf s then 1 else 0) (List.length l));
            List.iter (fun (x, y) -> Buffer.add_string out (Printf.sprintf "GAP %d %d %d\n" a x y)) l;
            let (outs, nv, tr, si, vs) = (try Hashtbl.find acc a with Not_found -> order := a :: !order; ([], 0, [], [], [])) in
            let addu l x = if List.mem x l then l else l @ [x] in
            let tr = List.fold_left addu tr (List.rev_map str_ids s.traces) in
            let si = List.fold_left addu si (List.rev_map str_ids s.silent) in
            Hashtbl.replace acc a (addu outs (outcome_str o), nv + List.length s.visited, tr, si,
                                   List.rev_append (List.map (fun v -> int_of_pos v.v_node) s.visited) vs)) segs;
        (out, !allsync, acc, List.sort compare !order) in
      let variants = if !novar then [(!ft, !fc)] else [(!ft, !fc); (true, true); (false, true); (true, false); (false, false)] in
      let variants = List.sort_uniq compare variants in
      let variants = (!ft, !fc) :: List.filter (fun v -> v <> (!ft, !fc)) variants in
      let rec try_variants = function
        | [] -> None
        | (a, b) :: rest ->
          let cf = { !cfg with fix_tuple = a; fix_ctrace = b } in
          let (out, ok, acc, order) = replay cf in
          if ok then Some ((a, b), cf, out, acc, order)
          else (match try_variants rest with Some r -> Some r | None -> if (a, b) = (!ft, !fc) then Some ((a, b), cf, out, acc, order) else None) in
      (match try_variants variants with
       | Some ((a, b), cf, out, acc, order) ->
         Printf.printf "VARIANT fix_tuple=%d fix_ctrace=%d\n" (if a then 1 else 0) (if b then 1 else 0);
         cfg := cf;
         print_string (Buffer.contents out);
         List.iter (fun a -> let (outs, nv, tr, si, vs) = Hashtbl.find acc a in
                     report a (String.concat "+" outs) nv tr si vs) order
       | None -> ());
      check_traces ();
      print_string "END\n"
    end else begin
    let es = List.concat (List.rev !entries) in
    let es = List.sort_uniq compare es in
    let es = List.map pos_of_int es in
    let p0 = if !sat then !satm else PositiveMap.Leaf in
    let results =
      if !fresh || !sat then List.map (fun e -> let (s, o) = back no_oracle g !cfg fuel_n p0 e in ((e, s), o)) es
      else back_all g !cfg fuel_n PositiveMap.Leaf es in
    List.iter (fun ((e, s), o) ->
        gaps_out (int_of_pos e) s;
        report (int_of_pos e) (outcome_str o) (List.length s.visited) (List.map str_ids s.traces)
          (List.map str_ids s.silent) (List.map (fun v -> int_of_pos v.v_node) s.visited)) results;
    check_traces ();
    print_string "END\n" end in
  (try
     while true do
       let l = input_line stdin in
       if String.length l > 0 then
         match split_ws l with
         | "P" :: _ -> reset (); print_endline l
         | "CFG" :: od :: md :: sb :: _ ->
           let m = int_of_string md in
           cfg := { on_demand = (od = "1"); max_depth = (if m > 0 then Some (nat_of_int m) else None);
                    skip_bound_labels = (sb = "1"); fix_tuple = !ft; fix_ctrace = !fc }
         | "G" :: gid :: cons :: ps :: fvs :: rets :: css :: rcs :: _ ->
           let opt l = List.map (fun i -> if i = 0 then None else Some (pos_of_int i)) l in
           let sg = { g_constructed = (cons = "1"); g_params = opt (ids ps); g_freevars = opt (ids fvs);
                      g_returns = shuffle (List.map pos_of_int (ids rets));
                      g_callsites = shuffle (List.map pos_of_int (ids css));
                      g_refclosures = shuffle (List.map pos_of_int (ids rcs)) } in
           graphs := PositiveMap.add (pos_of_int (int_of_string gid)) sg !graphs
         | "N" :: id :: k :: gid :: idx :: parent :: fa :: fb :: a1 :: a2 :: a3 :: ins :: outs :: lst :: _ ->
           let a1i = int_of_string a1 in
           let inl = List.map (fun (a, b) -> (pos_of_int a, z_of_int (int_of_string b))) (pairs ins) in
           let outl = List.map (fun (a, b) -> (pos_of_int a, List.map (fun x -> z_of_int (int_of_string x))
                                                  (String.split_on_char '/' b))) (pairs outs) in
           let nd = { n_kind = kind_of k; n_graph = pos_of_int (int_of_string gid); n_idx = nat_of_int (int_of_string idx);
                      n_parent = pos_of_int (max 1 (int_of_string parent)); n_fa = (fa = "1"); n_fb = (fb = "1");
                      n_sum = (if a1i = 0 then None else Some (pos_of_int a1i));
                      n_fn = n_of_int (int_of_string a2); n_instr = n_of_int (int_of_string a3);
                      n_in = shuffle inl; n_out = shuffle outl; n_list = List.map pos_of_int (ids lst) } in
           nodes := PositiveMap.add (pos_of_int (int_of_string id)) nd !nodes;
           if k = "A" then begin
             let all = List.map snd inl @ List.concat (List.map snd outl) in
             if all <> [] then satm := PositiveMap.add (pos_of_int (int_of_string id)) all !satm
           end
         | "GL" :: id :: ws :: _ ->
           globals := PositiveMap.add (pos_of_int (int_of_string id)) (shuffle (List.map pos_of_int (ids ws))) !globals
         | "E" :: _ :: args :: _ -> entries := ids args :: !entries
         | "T" :: a :: t :: _ -> itraces := (int_of_string a, ids t) :: !itraces
         | "B" :: a :: _ -> events := ('B', int_of_string a) :: !events
         | "A" :: a :: _ -> events := ('A', int_of_string a) :: !events
         | "V" :: a :: t :: c :: _ -> events := ('V', int_of_string a) :: !events; vinfo := (ids t, ids c) :: !vinfo
         | "X" :: _ -> print_endline l
         | "END" :: _ -> finish ()
         | _ -> ()
     done
   with End_of_file -> ())
