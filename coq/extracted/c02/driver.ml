(* Reads the c02dump format, runs the extracted Coq model Model/Cond.v on every query (Q* lines) and prints the model's
   answers in the same canonical format (R* lines), plus RI lines: the verdict of the executable spec (is there a CFG
   path source -> destination avoiding every validated step?) for every edge query. *)
open Cond

let rec nat_of_int n = if n <= 0 then O else S (nat_of_int (n - 1))
let rec int_of_nat = function O -> 0 | S n -> 1 + int_of_nat n

let split_ws s = List.filter (fun x -> x <> "") (String.split_on_char ' ' s)
let bit s = s = "1"

(* Polish-notation parsers over a token list *)
let rec p_vexpr toks =
  match toks with
  | "a" :: id :: r -> (VAtom (nat_of_int (int_of_string id)), r)
  | k :: id :: r when k = "l" || k = "f" || k = "x" || k = "m" ->
    let (sub, r') = p_vexpr r in
    let i = nat_of_int (int_of_string id) in
    ((match k with "l" -> VLoad (i, sub) | "f" -> VFieldAddr (i, sub) | "x" -> VExtract (i, sub) | _ -> VMkIface (i, sub)), r')
  | _ -> failwith "bad vexpr"

let rec p_cexpr toks =
  match toks with
  | "o" :: r -> (COther, r)
  | "c" :: isval :: rk :: n :: r ->
    let k = match rk with "b" -> RBool | "e" -> RErr | "o" -> ROther | _ -> RNone in
    let rec args i r acc = if i = 0 then (List.rev acc, r) else let (v, r') = p_vexpr r in args (i - 1) r' (v :: acc) in
    let (a, r') = args (int_of_string n) r [] in
    (CCall (bit isval, k, a), r')
  | "b" :: op :: errty :: xnil :: ynil :: r ->
    let o = match op with "e" -> OpEq | "n" -> OpNeq | _ -> OpOther in
    let (x, r1) = p_cexpr r in
    let (y, r2) = p_cexpr r1 in
    (CBin (o, bit errty, bit xnil, bit ynil, x, y), r2)
  | "u" :: isnot :: r -> let (x, r') = p_cexpr r in (CUn (bit isnot, x), r')
  | "t" :: idx :: len :: r ->
    let (x, r') = p_cexpr r in (CExtract (nat_of_int (int_of_string idx), nat_of_int (int_of_string len), x), r')
  | _ -> failwith "bad cexpr"

let conds_str (cs : ((bool * nat) * cexpr) list) =
  String.concat " " (List.map (fun ((pos, id), _) -> (if pos then "+" else "-") ^ string_of_int (int_of_nat id)) cs)

let () =
  let ctab : (int, cexpr) Hashtbl.t = Hashtbl.create 64 in
  let vtab : (int, vexpr) Hashtbl.t = Hashtbl.create 64 in
  let blocks : (int * string * int list) list ref = ref [] in
  let g : block list ref = ref [] in
  let built = ref false in
  let build () =
    if not !built then begin
      built := true;
      let bs = List.sort compare !blocks in
      g := List.map (fun (_, c, ss) ->
          let ifc = if c = "-" then None else
              let id = int_of_string c in
              Some (nat_of_int id, (try Hashtbl.find ctab id with Not_found -> COther)) in
          { succs = List.map nat_of_int ss; ifc = ifc }) bs
    end in
  let n = nat_of_int in
  (try
     while true do
       let l = input_line stdin in
       if String.length l > 0 then
         match split_ws l with
         | "F" :: rest ->
           Hashtbl.reset ctab; Hashtbl.reset vtab; blocks := []; g := []; built := false;
           print_endline l
         | "P" :: _ -> print_endline l
         | "B" :: idx :: c :: "|" :: ss -> blocks := (int_of_string idx, c, List.map int_of_string ss) :: !blocks
         | "C" :: id :: toks -> Hashtbl.replace ctab (int_of_string id) (fst (p_cexpr toks)); built := false
         | "X" :: id :: toks -> Hashtbl.replace vtab (int_of_string id) (fst (p_vexpr toks))
         | [ "QP"; sb; db ] ->
           build ();
           let (a, b) = (int_of_string sb, int_of_string db) in
           (match find_path !g (n a) (n b) with
            | Found raw ->
              Printf.printf "RP %d %d = %s ; %s\n" a b
                (String.concat " " (List.map (fun x -> string_of_int (int_of_nat x)) raw))
                (conds_str (simple_path_condition !g raw))
            | NoPath -> Printf.printf "RP %d %d = nil ; \n" a b
            | OutOfFuel -> Printf.printf "RP %d %d = outoffuel ; \n" a b)
         | [ "QM"; cid; vid ] ->
           let c = Hashtbl.find ctab (int_of_string cid) and v = Hashtbl.find vtab (int_of_string vid) in
           Printf.printf "RM %s %s = %d\n" cid vid (if is_pred_to c v then 1 else 0)
         | [ "QV"; cid ] ->
           let c = Hashtbl.find ctab (int_of_string cid) in
           Printf.printf "RV %s = %d%d\n" cid (if is_validator_condition c true then 1 else 0)
             (if is_validator_condition c false then 1 else 0)
         | [ "QE"; k; sb; si; db; di; vid; _tag ] ->
           build ();
           let v = Hashtbl.find vtab (int_of_string vid) in
           let key = String.concat " " [ k; sb; si; db; di; vid ] in
           let i = int_of_string in
           (match k with
            | "n" ->
              (match edge_cond !g (n (i sb)) (n (i si)) (n (i db)) (n (i di)) v with
               | Some cs -> Printf.printf "RE %s = %s ; d=%d\n" key (conds_str cs) (if edge_dropped cs then 1 else 0)
               | None -> Printf.printf "RE %s = noedge\n" key);
              (* executable spec: a source in the same block before the destination reaches it without any branch *)
              let straight = i sb = i db && i si < i di in
              let verdict =
                if straight then "bypass"
                else match ideal_kept !g (n (i sb)) (n (i db)) v with
                  | Found _ -> "bypass" | NoPath -> "nobypass" | OutOfFuel -> "outoffuel" in
              Printf.printf "RI %s = %s\n" key verdict
            | "t" -> Printf.printf "RE %s =  ; d=0\n" key
            | _ -> Printf.printf "RE %s = unmodelled\n" key)
         | "E" :: _ ->
           build ();
           Printf.printf "W %d %d\n" (if wf_cfgb !g then 1 else 0) (if wf_conds !g then 1 else 0);
           print_endline "E"
         | _ -> ()
     done
   with End_of_file -> ())
