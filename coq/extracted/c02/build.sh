#!/bin/sh
# builds the extracted model + driver; run after the Coq development (Model/Cond.vo) is compiled
set -e
cd "$(dirname "$0")"
coqc -Q ../../theories Argot Extract.v >/dev/null
ocamlfind ocamlopt -w -a -O3 cond.mli cond.ml driver.ml -o ../../../build/bin/c02model 2>/dev/null || ocamlfind ocamlopt -w -a cond.mli cond.ml driver.ml -o ../../../build/bin/c02model
