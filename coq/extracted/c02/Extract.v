Require Extraction.
Require Import ExtrOcamlBasic.
From Argot Require Import Model.Cond.
Extraction "cond.ml" find_path simple_path_condition as_predicate_to edge_dropped edge_cond is_pred_to
  is_validator_condition ideal_kept check_path wf_cfgb wf_conds.
