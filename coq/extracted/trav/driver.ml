(* Reads a travdump file (one or more PROG sections), rebuilds the dumped graph as the Coq [graph] record, runs the
   extracted model of Visitor.Visit (Model/Visit.v) and prints the model's observables next to the implementation's:

     run mode   for every problem p, entry e and order-oracle seed:   MRES / MHIT / MKD lines
                  (seed 0 = identity order, 1 = reversed, >= 2 pseudo-random permutations of every Go map iteration)
     step mode  for every visitor node recorded by the implementation (V lines, queue order) the model's expansion
                  [step_cands] is compared with the children the implementation enqueued: STEP / STEPBAD lines

   usage: travmodel [-seeds K] [-fuel N] [-mode run|step|both] [-v] [-entry p.e] dumpfile *)
open Visit

let rec pos_of_int n = if n <= 1 then XH else if n land 1 = 0 then XO (pos_of_int (n lsr 1)) else XI (pos_of_int (n lsr 1))
let rec int_of_pos = function XH -> 1 | XO p -> 2 * int_of_pos p | XI p -> 2 * int_of_pos p + 1
let n_of_int i = if i <= 0 then N0 else Npos (pos_of_int i)
let int_of_n = function N0 -> 0 | Npos p -> int_of_pos p
let z_of_int i = if i = 0 then Z0 else if i > 0 then Zpos (pos_of_int i) else Zneg (pos_of_int (-i))
let nat_of_int n = let rec go acc n = if n <= 0 then acc else go (S acc) (n - 1) in go O n
let opt_id i = if i = 0 then None else Some (pos_of_int i)

let split_ws s = List.filter (fun x -> x <> "") (String.split_on_char ' ' s)
let ints_of s = if s = "-" || s = "" then [] else List.map int_of_string (String.split_on_char ',' s)
let strip_prefix s = (* "T:1,2" -> "1,2" *) String.sub s 2 (String.length s - 2)

(* ------------------------------------------------------------------------------------------------ dump sections *)
type vline = { vidx : int; vparent : int; vn : vnode }

type entry = { ep : int; ee_ : int; enode : int; etrace : int list; ealarms : int; mutable vs : vline list;
               mutable ehits : (int * int list) list; mutable epanic : bool }

type problem = { pi : int; skipbl : bool; implicit : bool; bits : (int, int) Hashtbl.t; vconds : (int, unit) Hashtbl.t;
                 mutable entries : entry list }

type section = {
  mutable dir : string;
  opts : (string, int) Hashtbl.t;
  nodes : (int, string list) Hashtbl.t;          (* id -> fields after the id *)
  args : (int, int list) Hashtbl.t;
  bvs : (int, int list) Hashtbl.t;
  edges : (int, (int * int * edgeinfo) list) Hashtbl.t;   (* src -> (dst, k, ei) *)
  fns : (int, int list) Hashtbl.t;               (* fid -> [sf; constructed; np; nf] *)
  fps : (int, (int * int) list) Hashtbl.t;
  fvs : (int, (int * int) list) Hashtbl.t;
  css : (int, int list) Hashtbl.t;
  rms : (int, int list) Hashtbl.t;
  grs : (int, int list) Hashtbl.t;
  pfx : (int * int, unit) Hashtbl.t;
  prank : (int, int) Hashtbl.t;
  labelled : (int, unit) Hashtbl.t;
  mutable problems : problem list;
  mutable stable : int;
  mutable err : string;
}

let new_section () = { dir = ""; opts = Hashtbl.create 8; nodes = Hashtbl.create 4096; args = Hashtbl.create 1024;
                       bvs = Hashtbl.create 64; edges = Hashtbl.create 4096; fns = Hashtbl.create 1024; fps = Hashtbl.create 1024;
                       fvs = Hashtbl.create 64; css = Hashtbl.create 1024; rms = Hashtbl.create 1024; grs = Hashtbl.create 64;
                       pfx = Hashtbl.create 64; prank = Hashtbl.create 64; labelled = Hashtbl.create 1024; problems = []; stable = -1; err = "" }

let add_multi h k v = Hashtbl.replace h k (v :: (try Hashtbl.find h k with Not_found -> []))

let parse_tinfo s =
  if s = "-" then []
  else List.map (fun x -> match String.split_on_char '.' x with
      | [a; b] -> (opt_id (int_of_string a), n_of_int (int_of_string b))
      | _ -> failwith ("bad tracing info " ^ x)) (String.split_on_char ';' s)

let find_problem sec p = List.find (fun x -> x.pi = p) sec.problems
let find_entry pr e = List.find (fun x -> x.ee_ = e) pr.entries

let parse_line sec l =
  match split_ws l with
  | "OPT" :: k :: v :: _ -> Hashtbl.replace sec.opts k (int_of_string v)
  | "PFX" :: a :: b :: _ -> Hashtbl.replace sec.pfx (int_of_string a, int_of_string b) ()
  | "LB" :: n :: _ -> Hashtbl.replace sec.labelled (int_of_string n) ()
  | "PRANK" :: a :: b :: _ -> Hashtbl.replace sec.prank (int_of_string a) (int_of_string b)
  | "FN" :: f :: rest -> Hashtbl.replace sec.fns (int_of_string f) (List.map int_of_string rest)
  | "FP" :: f :: i :: n :: _ -> add_multi sec.fps (int_of_string f) (int_of_string i, int_of_string n)
  | "FV" :: f :: i :: n :: _ -> add_multi sec.fvs (int_of_string f) (int_of_string i, int_of_string n)
  | "CS" :: f :: l :: _ -> Hashtbl.replace sec.css (int_of_string f) (ints_of l)
  | "RM" :: f :: l :: _ -> Hashtbl.replace sec.rms (int_of_string f) (ints_of l)
  | "N" :: id :: rest -> Hashtbl.replace sec.nodes (int_of_string id) rest
  | "ARGS" :: id :: l :: _ -> Hashtbl.replace sec.args (int_of_string id) (ints_of l)
  | "BV" :: id :: l :: _ -> Hashtbl.replace sec.bvs (int_of_string id) (ints_of l)
  | "GR" :: g :: l :: _ -> Hashtbl.replace sec.grs (int_of_string g) (ints_of l)
  | "E" :: src :: dst :: k :: idx :: nin :: ee :: conds :: rp :: _ ->
    let rps = if rp = "-" then [] else List.map (fun x -> match String.split_on_char '>' x with
        | [a; b] -> (pos_of_int (int_of_string a), pos_of_int (int_of_string b))
        | _ -> failwith "bad relpath") (String.split_on_char ',' rp) in
    let ei = { e_index = z_of_int (int_of_string idx); e_nin = n_of_int (int_of_string nin); e_ee = (ee = "1");
               e_conds = List.map pos_of_int (ints_of conds); e_relpath = rps } in
    add_multi sec.edges (int_of_string src) (int_of_string dst, int_of_string k, ei)
  | "PB" :: p :: _ :: sb :: im :: _ ->
    sec.problems <- { pi = int_of_string p; skipbl = (sb = "skipbl=1"); implicit = (im = "implicit=1");
                      bits = Hashtbl.create 64; vconds = Hashtbl.create 8; entries = [] } :: sec.problems
  | "PN" :: p :: n :: b :: _ -> Hashtbl.replace (find_problem sec (int_of_string p)).bits (int_of_string n) (int_of_string b)
  | "PC" :: p :: c :: _ -> Hashtbl.replace (find_problem sec (int_of_string p)).vconds (int_of_string c) ()
  | "ENT" :: p :: e :: n :: t :: rest ->
    let pr = find_problem sec (int_of_string p) in
    let al = (match rest with a :: _ when String.length a > 7 && String.sub a 0 7 = "alarms=" ->
        int_of_string (String.sub a 7 (String.length a - 7)) | _ -> 0) in
    pr.entries <- { ep = pr.pi; ee_ = int_of_string e; enode = int_of_string n; etrace = ints_of (strip_prefix t); ealarms = al;
                    vs = []; ehits = []; epanic = false } :: pr.entries
  | "PANIC" :: p :: e :: _ -> (find_entry (find_problem sec (int_of_string p)) (int_of_string e)).epanic <- true
  | "V" :: p :: e :: idx :: parent :: node :: kind :: depth :: prev :: t :: c :: s :: a :: _ ->
    let en = find_entry (find_problem sec (int_of_string p)) (int_of_string e) in
    let v = { v_node = pos_of_int (int_of_string node);
              v_trace = List.rev_map pos_of_int (ints_of (strip_prefix t));
              v_ctrace = List.rev_map pos_of_int (ints_of (strip_prefix c));
              v_kind = (kind = "2"); v_tinfo = parse_tinfo (strip_prefix s);
              v_aps = List.map pos_of_int (ints_of (strip_prefix a));
              v_prev = opt_id (int_of_string prev); v_depth = n_of_int (int_of_string depth) } in
    en.vs <- { vidx = int_of_string idx; vparent = int_of_string parent; vn = v } :: en.vs
  | "HIT" :: p :: e :: n :: t :: _ ->
    let en = find_entry (find_problem sec (int_of_string p)) (int_of_string e) in
    en.ehits <- (int_of_string n, ints_of (strip_prefix t)) :: en.ehits
  | "STABLE" :: v :: _ -> sec.stable <- int_of_string v
  | "ERR" :: _ -> sec.err <- l
  | _ -> ()

(* ------------------------------------------------------------------------------------------------ graph building *)
let build_graph sec : graph =
  let fnmap = ref PositiveMap.empty in
  Hashtbl.iter (fun f fields ->
      match fields with
      | sf :: c :: np :: nf :: _ ->
        let tab h n = List.init n (fun i -> try opt_id (List.assoc i (try Hashtbl.find h f with Not_found -> [])) with Not_found -> None) in
        let r = { f_sf = opt_id sf; f_constructed = (c = 1); f_params = tab sec.fps np; f_freevars = tab sec.fvs nf;
                  f_callsites = List.map pos_of_int (try Hashtbl.find sec.css f with Not_found -> []);
                  f_referring = List.map pos_of_int (try Hashtbl.find sec.rms f with Not_found -> []) } in
        fnmap := PositiveMap.add (pos_of_int f) r !fnmap
      | _ -> failwith "bad FN") sec.fns;
  let nodemap = ref PositiveMap.empty in
  Hashtbl.iter (fun id fields ->
      let i s = int_of_string s in
      let kind, fn = (match fields with
          | "P" :: f :: idx :: _ -> KParam (n_of_int (i idx)), i f
          | "F" :: f :: idx :: _ -> KFreeVar (n_of_int (i idx)), i f
          | "A" :: f :: call :: idx :: _ -> KCallArg (pos_of_int (i call), n_of_int (i idx)), i f
          | "C" :: f :: sf :: cs :: instr :: strcl :: _ :: reach :: _ ->
            KCall (opt_id (i sf), opt_id (i cs), n_of_int (i instr), pos_of_int (i strcl), reach = "1",
                   List.map opt_id (try Hashtbl.find sec.args id with Not_found -> [])), i f
          | "R" :: f :: idx :: _ -> KReturn (z_of_int (i idx)), i f
          | "L" :: f :: cs :: strcl :: _ ->
            (* closure String() classes share the id space of call classes in the dump; offset them so that a call and a
               closure never collide (traces are homogeneous anyway) *)
            KClosure (opt_id (i cs), pos_of_int (i strcl), List.map opt_id (try Hashtbl.find sec.bvs id with Not_found -> [])), i f
          | "B" :: f :: clo :: idx :: _ -> KBoundVar (pos_of_int (i clo), n_of_int (i idx)), i f
          | "T" :: f :: dest :: clo :: idx :: _ -> KBoundLabel (opt_id (i dest), opt_id (i clo), n_of_int (i idx)), i f
          | "G" :: f :: w :: gl :: _ -> KGlobal (w = "1", pos_of_int (i gl)), i f
          | "S" :: f :: _ -> KSynth, i f
          | "I" :: f :: _ -> KIf, i f
          | _ :: f :: _ -> KOther, i f
          | _ -> failwith "bad N") in
      let es = try Hashtbl.find sec.edges id with Not_found -> [] in
      let dsts = List.sort_uniq compare (List.map (fun (d, _, _) -> d) es) in
      let out = List.map (fun d ->
          let eis = List.sort (fun (_, k1, _) (_, k2, _) -> compare k1 k2) (List.filter (fun (d', _, _) -> d' = d) es) in
          (pos_of_int d, List.map (fun (_, _, ei) -> ei) eis)) dsts in
      nodemap := PositiveMap.add (pos_of_int id) { n_kind = kind; n_fn = pos_of_int fn; n_out = out } !nodemap) sec.nodes;
  let reads = ref PositiveMap.empty in
  Hashtbl.iter (fun gl l -> reads := PositiveMap.add (pos_of_int gl) (List.map pos_of_int l) !reads) sec.grs;
  let pfx = sec.pfx in
  { g_nodes = !nodemap; g_fns = !fnmap; g_reads = !reads;
    g_pfx = (fun a b -> Hashtbl.mem pfx (int_of_pos a, int_of_pos b));
    g_prank = (fun a -> try pos_of_int (Hashtbl.find sec.prank (int_of_pos a)) with Not_found -> a);
    g_presum = (fun f -> match (try Hashtbl.find sec.fns (int_of_pos f) with Not_found -> []) with _ :: _ :: _ :: _ :: ps :: _ -> ps = 1 | _ -> false);
    g_labelled = (fun n -> Hashtbl.mem sec.labelled (int_of_pos n)) }

let build_preds pr : preds =
  let bit n b = (try Hashtbl.find pr.bits (int_of_pos n) with Not_found -> 0) land b <> 0 in
  { p_filtered = (fun n -> bit n 1); p_sink = (fun n -> bit n 2); p_sanitizer = (fun n -> bit n 4);
    p_ifvalid = (fun n -> bit n 8); p_validcond = (fun c -> Hashtbl.mem pr.vconds (int_of_pos c)) }

(* ------------------------------------------------------------------------------------------------ order oracles *)
let shuffle seed s i (l : Obj.t list) : Obj.t list =
  if seed = 0 then l
  else if seed = 1 then List.rev l
  else begin
    let a = Array.of_list l in
    let n = Array.length a in
    let st = ref (Hashtbl.hash (seed, s, i, n)) in
    let next () = st := (!st * 1103515245 + 12345) land 0x3fffffff; !st lsr 4 in
    for k = n - 1 downto 1 do
      let j = next () mod (k + 1) in
      let t = a.(k) in a.(k) <- a.(j); a.(j) <- t
    done;
    Array.to_list a
  end

let oracle seed : n -> n -> __ -> __ list -> __ list =
  fun s i _ l -> Obj.magic (shuffle seed (int_of_n s) (int_of_n i) (Obj.magic l))

(* ------------------------------------------------------------------------------------------------ printing *)
let ids_str l = if l = [] then "-" else String.concat "," (List.map string_of_int l)
let trace_str (t : positive list) = ids_str (List.rev_map int_of_pos t)
let tinfo_str ti = if ti = [] then "-" else
    String.concat ";" (List.map (fun (s, i) -> Printf.sprintf "%d.%d" (match s with Some p -> int_of_pos p | None -> 0) (int_of_n i)) ti)
let key_str (v : vnode) =
  Printf.sprintf "%d %d T:%s C:%s A:%s" (int_of_pos v.v_node) (if v.v_kind then 2 else 1) (trace_str v.v_trace) (trace_str v.v_ctrace)
    (ids_str (List.map int_of_pos v.v_aps))
(* canonical forms: access paths as a sorted list (their order is a Go map iteration order) *)
let canon (v : vnode) = { v with v_aps = List.map pos_of_int (List.sort compare (List.map int_of_pos v.v_aps)) }
let full_str (v : vnode) =
  Printf.sprintf "%s S:%s prev=%d depth=%d" (key_str v) (tinfo_str v.v_tinfo) (match v.v_prev with Some p -> int_of_pos p | None -> 0)
    (int_of_n v.v_depth)
let crash_str = function
  | CrNoCallee -> "no-callee" | CrMissingSummary -> "missing-summary" | CrNilParam -> "nil-param" | CrNoBoundVars -> "no-bound-vars"
  | CrNoMatchingBoundVar -> "no-matching-bound-var" | CrNoReferring -> "no-referring-closure" | CrIndex -> "index-out-of-range"
  | CrNilDeref -> "nil-deref" | CrNoAccessPaths -> "no-access-paths" | CrDangling -> "dangling-id"

(* ------------------------------------------------------------------------------------------------ main *)
let () =
  let seeds = ref 3 and fuel = ref 2000000 and mode = ref "both" and verbose = ref false and only = ref "" and file = ref ""
  and fixaps = ref true in
  Arg.parse [ "-seeds", Arg.Set_int seeds, "number of order oracles"; "-fuel", Arg.Set_int fuel, "fuel";
              "-mode", Arg.Set_string mode, "run|step|both"; "-v", Arg.Set verbose, "print visited keys";
              "-entry", Arg.Set_string only, "only entry p.e";
              "-fixaps", Arg.Set fixaps, "addNext with canonical access paths (deduplicated and sorted): the default";
              "-oldaps", Arg.Clear fixaps, "addNext as originally pinned (access paths as a list with duplicates in map order)" ] (fun f -> file := f) "travmodel dumpfile";
  let ic = if !file = "" || !file = "-" then stdin else open_in !file in
  let sections = ref [] in
  let cur = ref (new_section ()) in
  (try while true do
       let l = input_line ic in
       if String.length l > 5 && String.sub l 0 5 = "PROG " then begin
         cur := new_section (); (!cur).dir <- String.sub l 5 (String.length l - 5); sections := !cur :: !sections
       end else parse_line !cur l
     done with End_of_file -> ());
  let fuel_nat = nat_of_int !fuel in
  List.iter (fun sec ->
      Printf.printf "PROG %s\n" sec.dir;
      if sec.err <> "" then Printf.printf "MERR %s\n" sec.err else begin
        let g = build_graph sec in
        let opt k = try Hashtbl.find sec.opts k with Not_found -> 0 in
        List.iter (fun pr ->
            let preds = build_preds pr in
            let cfg = { c_ignore_ns = (opt "ignorenonsummarized" = 1); c_maxdepth = z_of_int (opt "maxdepth"); c_skip_bl = pr.skipbl;
                        c_implicit = pr.implicit; c_maxalarms = n_of_int (opt "maxalarms"); c_fixaps = !fixaps } in
            List.iter (fun en ->
                if !only = "" || !only = Printf.sprintf "%d.%d" en.ep en.ee_ then begin
                  let src = pos_of_int en.enode in
                  let root_trace = List.rev_map pos_of_int en.etrace in
                  let vs = List.rev en.vs in
                  let impl_keys = Hashtbl.create 256 in
                  List.iter (fun v -> Hashtbl.replace impl_keys (key_str v.vn) ()) vs;
                  let impl_keys_c = Hashtbl.create 256 in
                  List.iter (fun v -> Hashtbl.replace impl_keys_c (key_str (canon v.vn)) ()) vs;
                  (* ---- run mode *)
                  if !mode <> "step" then
                    for seed = 0 to !seeds - 1 do
                      let o = visit g preds cfg (oracle seed) src fuel_nat root_trace (n_of_int en.ealarms) in
                      let st = outcome_state o in
                      let what = (match o with Done _ -> "done" | AlarmStop _ -> "alarmstop" | OutOfFuel _ -> "outoffuel"
                                              | Crashed (c, _) -> "crash:" ^ crash_str c) in
                      let hits = List.sort_uniq compare (List.map (fun v -> (int_of_pos v.v_node, List.rev_map int_of_pos v.v_trace)) st.st_hits) in
                      let maxaps = List.fold_left (fun m v -> max m (List.length v.v_aps)) 0 st.st_visited in
                      Printf.printf "MRES %d %d %d %s visited=%d hits=%d sinkvisits=%d maxaps=%d\n" en.ep en.ee_ seed what (List.length st.st_visited)
                        (List.length hits) (List.length st.st_hits) maxaps;
                      List.iter (fun (n, t) -> Printf.printf "MHIT %d %d %d %d T:%s\n" en.ep en.ee_ seed n (ids_str t)) hits;
                      let mk = Hashtbl.create 256 in
                      let mkv = Hashtbl.create 256 in
                      List.iter (fun v -> Hashtbl.replace mk (key_str v) (); Hashtbl.replace mkv (key_str v) v) st.st_visited;
                      List.iter (fun v -> Hashtbl.replace mk (key_str v) (); Hashtbl.replace mkv (key_str v) v) st.st_queue;
                      let only_m = Hashtbl.fold (fun k () acc -> if Hashtbl.mem impl_keys k then acc else k :: acc) mk [] in
                      let only_i = Hashtbl.fold (fun k () acc -> if Hashtbl.mem mk k then acc else k :: acc) impl_keys [] in
                      let mkc = Hashtbl.create 256 in
                      Hashtbl.iter (fun _ v -> Hashtbl.replace mkc (key_str (canon v)) ()) mkv;
                      let conly_m = Hashtbl.fold (fun k () acc -> if Hashtbl.mem impl_keys_c k then acc else acc + 1) mkc 0 in
                      let conly_i = Hashtbl.fold (fun k () acc -> if Hashtbl.mem mkc k then acc else acc + 1) impl_keys_c 0 in
                      Printf.printf "MKD %d %d %d model=%d impl=%d only_model=%d only_impl=%d canon_only_model=%d canon_only_impl=%d\n" en.ep en.ee_ seed
                        (Hashtbl.length mk) (Hashtbl.length impl_keys) (List.length only_m) (List.length only_i) conly_m conly_i;
                      let pr_some tag l = List.iteri (fun i k -> if i < 3 then Printf.printf "MKS %d %d %d %s %s\n" en.ep en.ee_ seed tag k) (List.sort compare l) in
                      pr_some "only_model" only_m; pr_some "only_impl" only_i;
                      if !verbose then List.iter (fun v -> Printf.printf "MV %d %d %d %s\n" en.ep en.ee_ seed (full_str v)) (List.rev st.st_visited)
                    done;
                  (* ---- step mode: every recorded expansion of the implementation against the model's expansion *)
                  if !mode <> "run" && opt "maxalarms" = 0 && opt "novisit" = 0 && not en.epanic then begin
                    let arr = Array.of_list vs in
                    let kids = Hashtbl.create 256 in
                    Array.iter (fun v -> if v.vparent >= 0 then add_multi kids v.vparent v) arr;
                    let seen = Hashtbl.create 256 in
                    let ok = ref 0 and bad = ref 0 and orderdup = ref 0 in
                    Array.iteri (fun i v ->
                        let impl_kids = List.rev (try Hashtbl.find kids v.vidx with Not_found -> []) in
                        (match step_cands g preds cfg (oracle 0) src (n_of_int i) v.vn with
                         | Crash c -> incr bad; Printf.printf "STEPBAD %d %d %d model-crash:%s at %s\n" en.ep en.ee_ v.vidx (crash_str c) (full_str v.vn)
                         | Ok (stop, cands) ->
                           (* compared modulo the order of the access paths (a Go map iteration order): canonical keys *)
                           let fresh = Hashtbl.create 16 in
                           let full = Hashtbl.create 16 in
                           let allc = Hashtbl.create 16 in
                           List.iter (fun c -> let k = key_str (canon c) in
                                       Hashtbl.replace full (full_str (canon c)) ();
                                       Hashtbl.replace allc k ();
                                       if not (Hashtbl.mem seen k) then Hashtbl.replace fresh k ()) cands;
                           let ikeys = Hashtbl.create 16 in
                           List.iter (fun c -> Hashtbl.replace ikeys (key_str (canon c.vn)) ()) impl_kids;
                           let missing = Hashtbl.fold (fun k () acc -> if Hashtbl.mem ikeys k then acc else k :: acc) fresh [] in
                           (* a child whose canonical key was already seen is the same key set in another order: counted, allowed
                              only for non-trivial access paths and only if it is a candidate of the model *)
                           let extra = Hashtbl.fold (fun k () acc ->
                               if Hashtbl.mem fresh k then acc
                               else if Hashtbl.mem allc k && Hashtbl.mem seen k then (incr orderdup; acc)
                               else k :: acc) ikeys [] in
                           let wrong_state = List.filter (fun c -> not (Hashtbl.mem full (full_str (canon c.vn)))) impl_kids in
                           let exact_dups = List.length impl_kids - List.length (List.sort_uniq compare (List.map (fun c -> key_str c.vn) impl_kids)) in
                           if missing = [] && extra = [] && wrong_state = [] && exact_dups = 0 then incr ok
                           else begin
                             incr bad;
                             Printf.printf "STEPBAD %d %d %d at [%s] stop=%s model-only=[%s] impl-only=[%s] state-mismatch=[%s]\n" en.ep en.ee_ v.vidx
                               (full_str v.vn) (match stop with None -> "-" | Some StFiltered -> "filtered" | Some StSink -> "sink"
                                                              | Some StSanitizer -> "sanitizer" | Some StUnconstructed -> "unconstructed")
                               (String.concat " | " missing) (String.concat " | " extra)
                               (String.concat " | " (List.map (fun c -> full_str c.vn) wrong_state))
                           end);
                        List.iter (fun c -> Hashtbl.replace seen (key_str (canon c.vn)) ()) impl_kids) arr;
                    Printf.printf "STEP %d %d nodes=%d ok=%d bad=%d orderdup=%d\n" en.ep en.ee_ (Array.length arr) !ok !bad !orderdup
                  end
                end) (List.rev pr.entries)) (List.rev sec.problems)
      end) (List.rev !sections)
