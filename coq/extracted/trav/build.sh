#!/bin/sh
# builds the extracted traversal model + driver; run after theories/Model/Visit.vo is compiled
set -e
cd "$(dirname "$0")"
coqc -Q ../../theories Argot Extract.v >/dev/null
ocamlfind ocamlopt -w -a -O3 visit.mli visit.ml driver.ml -o ../../../build/bin/travmodel 2>/dev/null || ocamlfind ocamlopt -w -a visit.mli visit.ml driver.ml -o ../../../build/bin/travmodel
