#!/bin/sh
# builds the extracted traversal model + driver; run after theories/Model/Visit.vo is compiled.
# The binary is replaced atomically (several checks use it concurrently).
set -e
cd "$(dirname "$0")"
coqc -Q ../../theories Argot Extract.v >/dev/null
out=../../../build/bin/travmodel
tmp=$out.tmp.$$
ocamlfind ocamlopt -w -a -O3 visit.mli visit.ml driver.ml -o $tmp 2>/dev/null || ocamlfind ocamlopt -w -a visit.mli visit.ml driver.ml -o $tmp
mv -f $tmp $out
