Require Extraction.
Require Import ExtrOcamlBasic.
From Argot Require Import Model.Visit.
Extraction "visit.ml" visit step_cands outcome_state vkey root_vnode lt_mem lt_add lt_empty.
