(* driver of the extracted MapParallel model (Model/MapPar.v).
   stdin : lines  "M <id> <numRoutines> <nsched> <seed> <x0> <x1> ..."
   stdout: per line and schedule s = 0..nsched-1
           "M <id> <s> steps=<k> bound=<b> term=<0|1> res=<OK y0 y1 ...|PANIC|NONE>"
   The mapped function is f x = 3x+1 (the same as harness/cmd/c20mappar uses for its int cases); the schedule is a
   pseudo-random stream derived from (seed, s); schedule 0 is the all-zero stream (always the first enabled choice),
   schedule 1 always takes the last enabled choice (numbers 999 mod k are not k-1, so a descending pattern is used). *)
open Mappar

let rec nat_of_int n = if n <= 0 then O else S (nat_of_int (n - 1))
let rec int_of_nat = function O -> 0 | S n -> 1 + int_of_nat n

let rec pos_of_int n = if n <= 1 then XH else if n land 1 = 1 then XI (pos_of_int (n lsr 1)) else XO (pos_of_int (n lsr 1))
let z_of_int n = if n = 0 then Z0 else if n > 0 then Zpos (pos_of_int n) else Zneg (pos_of_int (-n))

let () =
  try
    while true do
      let line = input_line stdin in
      match String.split_on_char ' ' (String.trim line) with
      | "M" :: id :: nr :: nsched :: seed :: xs ->
          let xs = List.map int_of_string (List.filter (fun s -> s <> "") xs) in
          let nr = int_of_string nr and nsched = int_of_string nsched and seed = int_of_string seed in
          let len = List.length xs in
          let b = int_of_nat (bound (nat_of_int len) (nworkers (z_of_int nr))) in
          for s = 0 to nsched - 1 do
            let st = ref ((seed * 7919 + s * 104729) land 0x7fffffff lor 1) in
            let next () =
              st := (!st * 1103515245 + 12345) land 0x7fffffff;
              (!st lsr 8) mod 331 in
            let sched =
              List.init b (fun i -> if s = 0 then 0 else if s = 1 then 330 - (i mod 7) else next ()) in
            let sched = List.map nat_of_int sched in
            let f x = 3 * x + 1 in
            let ((res, k), term) = map_parallel f 0 xs (z_of_int nr) sched in
            let rs = match res with
              | None -> "NONE"
              | Some None -> "PANIC"
              | Some (Some ys) -> String.concat " " ("OK" :: List.map string_of_int ys) in
            Printf.printf "M %s %d steps=%d bound=%d term=%d res=%s\n" id s (int_of_nat k) b (if term then 1 else 0) rs
          done
      | _ -> ()
    done
  with End_of_file -> ()
