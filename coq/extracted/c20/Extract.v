Require Extraction.
Require Import ExtrOcamlBasic.
From Argot Require Import Model.MapPar.
Extraction "mappar.ml" map_parallel nworkers bound.
