#!/bin/sh
# builds the extracted MapParallel model + driver; run after the Coq development is compiled
set -e
cd "$(dirname "$0")"
coqc -Q ../../theories Argot Extract.v >/dev/null
ocamlfind ocamlopt -w -a -O3 mappar.mli mappar.ml driver.ml -o ../../../build/bin/c20model 2>/dev/null || ocamlfind ocamlopt -w -a mappar.mli mappar.ml driver.ml -o ../../../build/bin/c20model
