Require Extraction.
Require Import ExtrOcamlBasic.
From Argot Require Import Model.Reach Model.ReachGen.
From ArgotGen Require Import GenReach.
Extraction "reach.ml" reach_prog prog_fuel gen_tables known_uncovered wf_refs wf_ops operand_cover operand_cover_except
  uncovered call_cover tables_wf cert_gaps gap_excused roots index find_callees vals_of_list type_names field_names
  xtools_version.
