(* Reads the c18dump format (see harness/cmd/c18dump/main.go), runs the extracted Coq model of the reachability
   analysis (Model/Reach.v instantiated with the regenerated tables, Model/ReachGen.v) and prints, per program:

     TBL operand_cover=<0|1> except_known=<0|1> call_cover=<0|1> tables_wf=<0|1> uncovered=<Type.Field,...>   (once)
     P <dir>
     W <wf_refs> <wf_ops>
     R <sel> <n> <fid>*          the model's reachable set (or "R <sel> outoffuel")
     S <sel> <src> <ngaps> <nunexcused>   certificate check of src = impl (the dumped R line) / model
     g <sel> <src> <kind> <in-fid> <fn-fid> <Type> <Field or method id>     the gaps (only for sel 0, at most 200)
     Z
   With "-callees <fid>" the model's find_callees of that function is printed as "c <fid> <callee>*". *)
open Reach

let rec pos_of_int n = if n <= 1 then XH else if n land 1 = 0 then XO (pos_of_int (n lsr 1)) else XI (pos_of_int (n lsr 1))
let rec int_of_pos = function XH -> 1 | XO p -> 2 * int_of_pos p | XI p -> 2 * int_of_pos p + 1
let rec nat_of_int n = if n <= 0 then O else S (nat_of_int (n - 1))

let char_of_ascii (Ascii (b0, b1, b2, b3, b4, b5, b6, b7)) =
  let b x i = if x then 1 lsl i else 0 in
  Char.chr (b b0 0 + b b1 1 + b b2 2 + b b3 3 + b b4 4 + b b5 5 + b b6 6 + b b7 7)
let rec string_of_coq = function EmptyString -> "" | String (a, s) -> String.make 1 (char_of_ascii a) ^ string_of_coq s

let split_ws s = List.filter (fun x -> x <> "") (String.split_on_char ' ' s)

let name_tbl l =
  let h = Hashtbl.create 64 in
  List.iter (fun (i, n) -> Hashtbl.replace h (string_of_coq n) (int_of_pos i)) l; h
let type_ids = name_tbl type_names
let field_ids = name_tbl field_names
let type_name_of = let h = Hashtbl.create 64 in Hashtbl.iter (fun n i -> Hashtbl.replace h i n) type_ids; h
let field_name_of = let h = Hashtbl.create 64 in Hashtbl.iter (fun n i -> Hashtbl.replace h i n) field_ids; h
let tyname i = try Hashtbl.find type_name_of i with Not_found -> Printf.sprintf "?%d" i
let fdname i = try Hashtbl.find field_name_of i with Not_found -> Printf.sprintf "?%d" i

let t = gen_tables

let () =
  let want_callees = ref [] in
  let args = Array.to_list Sys.argv in
  let rec pa = function
    | "-callees" :: n :: r -> want_callees := int_of_string n :: !want_callees; pa r
    | _ :: r -> pa r
    | [] -> () in
  pa (List.tl args);
  let b x = if x then 1 else 0 in
  let unc = uncovered t in
  Printf.printf "TBL operand_cover=%d except_known=%d call_cover=%d tables_wf=%d uncovered=%s xtools=%s\n"
    (b (operand_cover t)) (b (operand_cover_except t known_uncovered)) (b (call_cover t)) (b (tables_wf t))
    (String.concat "," (List.map (fun (ty, k) -> tyname (int_of_pos ty) ^ "." ^ fdname (int_of_pos k)) unc))
    (string_of_coq xtools_version);
  (* per-program state *)
  let tmap = Hashtbl.create 64 and kmap = Hashtbl.create 64 in
  let funcs = ref [] in
  let cur = ref None in      (* (fid, flags) *)
  let vals = ref [] and instrs = ref [] in
  let impl_r = Hashtbl.create 8 in
  let atab = Hashtbl.create 64 in     (* A tables: methods of the runtime types implementing an asserted interface *)
  let ty_of d = try Hashtbl.find tmap d with Not_found -> 900 + d in
  let fd_of d = try Hashtbl.find kmap d with Not_found -> 900 + d in
  (* parse "<nf> {<kid> <n> <vid>*}" from a token list, returns (operands, rest) *)
  let parse_ops toks =
    match toks with
    | nf :: rest ->
      let nf = int_of_string nf in
      let rec fields i rest acc =
        if i = 0 then (List.rev acc, rest)
        else match rest with
          | k :: n :: rest ->
            let n = int_of_string n in
            let rec take j rest acc2 = if j = 0 then (List.rev acc2, rest) else
                match rest with v :: rest -> take (j - 1) rest (pos_of_int (int_of_string v) :: acc2) | [] -> failwith "short operand list" in
            let (vs, rest) = take n rest [] in
            fields (i - 1) rest ((pos_of_int (fd_of (int_of_string k)), vs) :: acc)
          | _ -> failwith "short field list" in
      fields nf rest []
    | [] -> failwith "missing operand count" in
  let flush_fn () =
    match !cur with
    | None -> ()
    | Some (fid, flags) ->
      let fn = { f_id = pos_of_int fid; f_main = String.contains flags 'm'; f_init = String.contains flags 'i';
                 f_vals = vals_of_list (List.rev !vals); f_instrs = List.rev !instrs } in
      funcs := fn :: !funcs; cur := None; vals := []; instrs := [] in
  let ids_line l = List.map int_of_string l in
  let run_program dir =
    let p = List.rev !funcs in
    Printf.printf "P %s\n" dir;
    Printf.printf "W %d %d\n" (b (wf_refs p)) (b (wf_ops t p));
    let idx = index p in
    List.iter (fun f -> Printf.printf "c %d %s\n" f
                  (String.concat " " (List.map (fun x -> string_of_int (int_of_pos x)) (find_callees t idx (pos_of_int f))))) !want_callees;
    for s = 0 to 3 do
      let sl = { nomain = (s land 1 <> 0); noinit = (s land 2 <> 0) } in
      let rts = roots sl p in
      let report src out =
        let gaps = cert_gaps t idx rts out in
        let unexc = List.filter (fun g -> not (gap_excused known_uncovered true g)) gaps in
        Printf.printf "S %d %s %d %d\n" s src (List.length gaps) (List.length unexc);
        if s = 0 then
          List.iteri (fun i g -> if i < 200 then
                         Printf.printf "g %d %s %d %d %d %s %s\n" s src (int_of_pos g.g_kind) (int_of_pos g.g_in) (int_of_pos g.g_fn)
                           (tyname (int_of_pos g.g_ty))
                           (if int_of_pos g.g_kind = 2 then fdname (int_of_pos g.g_field) else string_of_int (int_of_pos g.g_field))) gaps in
      (match reach_prog t p sl (prog_fuel p) with
       | OutOfFuel -> Printf.printf "R %d outoffuel\n" s
       | Done out ->
         let ids = List.sort compare (List.map int_of_pos out) in
         Printf.printf "R %d %d %s\n" s (List.length ids) (String.concat " " (List.map string_of_int ids));
         (* the model's own set is certified only when it differs from the implementation's (theorem reach_gaps_only_known covers it) *)
         (match Hashtbl.find_opt impl_r s with
          | Some iids when List.sort compare iids = ids -> ()
          | _ -> report "model" out));
      (match Hashtbl.find_opt impl_r s with
       | Some ids -> report "impl" (List.map pos_of_int ids)
       | None -> ())
    done;
    print_string "Z\n";
    funcs := []; Hashtbl.reset tmap; Hashtbl.reset kmap; Hashtbl.reset impl_r; Hashtbl.reset atab in
  let dir = ref "" in
  (try
     while true do
       let l = input_line stdin in
       if String.length l > 0 then
         match l.[0] with
         | 'P' -> dir := (if String.length l > 2 then String.sub l 2 (String.length l - 2) else "")
         | 'T' -> (match split_ws l with
             | [_; d; n] -> Hashtbl.replace tmap (int_of_string d) (try Hashtbl.find type_ids n with Not_found -> 900 + int_of_string d)
             | _ -> ())
         | 'K' -> (match split_ws l with
             | [_; d; n] -> Hashtbl.replace kmap (int_of_string d) (try Hashtbl.find field_ids n with Not_found -> 900 + int_of_string d)
             | _ -> ())
         | 'F' -> flush_fn ();
           (match split_ws l with _ :: id :: flags :: _ -> cur := Some (int_of_string id, flags) | _ -> failwith "bad F line")
         | 'V' -> (match split_ws l with
             | _ :: vid :: tid :: fn :: rest ->
               let (ops, _) = parse_ops rest in
               let fn = int_of_string fn in
               vals := (pos_of_int (int_of_string vid),
                        { v_ty = pos_of_int (ty_of (int_of_string tid)); v_fn = (if fn = 0 then None else Some (pos_of_int fn)); v_ops = ops }) :: !vals
             | _ -> failwith "bad V line")
         | 'I' -> (match split_ws l with
             | _ :: tid :: inv :: rest ->
               let (ops, rest) = parse_ops rest in
               let (meths, rest) = (match rest with
                   | "MA" :: aid :: rest -> ((try Hashtbl.find atab (int_of_string aid) with Not_found -> failwith "unknown A table"), rest)
                   | "M" :: n :: rest ->
                     let n = int_of_string n in
                     let rec take j rest acc = if j = 0 then (List.rev acc, rest) else
                         match rest with m :: f :: rest -> take (j - 1) rest ((pos_of_int (int_of_string m), pos_of_int (int_of_string f)) :: acc)
                                       | _ -> failwith "short M list" in
                     take n rest []
                   | _ -> ([], rest)) in
               let names = (match rest with
                   | "J" :: _ :: rest -> List.map (fun x -> pos_of_int (int_of_string x)) rest
                   | _ -> []) in
               instrs := { i_ty = pos_of_int (ty_of (int_of_string tid)); i_invoke = (inv = "1"); i_ops = ops; i_meths = meths; i_names = names } :: !instrs
             | _ -> failwith "bad I line")
         | 'A' -> (match split_ws l with
             | _ :: aid :: _ :: rest ->
               let rec pairs rest acc = match rest with
                 | m :: f :: rest -> pairs rest ((pos_of_int (int_of_string m), pos_of_int (int_of_string f)) :: acc)
                 | _ -> List.rev acc in
               Hashtbl.replace atab (int_of_string aid) (pairs rest [])
             | _ -> failwith "bad A line")
         | 'E' -> flush_fn ()
         | 'R' -> (match split_ws l with _ :: s :: _ :: ids -> Hashtbl.replace impl_r (int_of_string s) (ids_line ids) | _ -> ())
         | 'Z' -> flush_fn (); run_program !dir
         | _ -> ()
     done
   with End_of_file -> ())
