#!/bin/sh
# builds the extracted reachability model + driver; run after the Coq development (Model/ReachGen.vo) is compiled
set -e
cd "$(dirname "$0")"
coqc -Q ../../theories Argot -Q ../../gen ArgotGen Extract.v >/dev/null
ocamlfind ocamlopt -w -a -O3 reach.mli reach.ml driver.ml -o ../../../build/bin/c18model 2>/dev/null || ocamlfind ocamlopt -w -a reach.mli reach.ml driver.ml -o ../../../build/bin/c18model
