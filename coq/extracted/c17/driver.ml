(* Driver for the extracted C17 model (Model/GraphOps.v).
   Reads the output of harness/cmd/c17dump on stdin.
   - every snapshot (delta-encoded blocks) is loaded with the extracted [load] and the extracted verified validators
     are run on it:            CHECK <prog#> <snap#> <label> lines=.. edges=b calls=b closures=b globals=b idx=b idxp=b clean=b
   - in ops mode the OP lines between two snapshots are applied to the model state with the extracted [apply_op]
     and the result is compared with the next snapshot of the real objects:
                               TDUMP <prog#> <snap#> ops=n equal=b   (+ "DIFF model|real <line>" lines)            *)
open Graphops

let rec pos_of_int (i : int) : positive =
  if i <= 1 then XH else if i land 1 = 0 then XO (pos_of_int (i lsr 1)) else XI (pos_of_int (i lsr 1))
let n_of_int (i : int) : n = if i <= 0 then N0 else Npos (pos_of_int i)
let z_of_int (i : int) : z = if i = 0 then Z0 else if i > 0 then Zpos (pos_of_int i) else Zneg (pos_of_int (-i))
let rec int_of_pos = function XH -> 1 | XO p -> 2 * int_of_pos p | XI p -> 2 * int_of_pos p + 1
let int_of_n = function N0 -> 0 | Npos p -> int_of_pos p
let int_of_z = function Z0 -> 0 | Zpos p -> int_of_pos p | Zneg p -> - (int_of_pos p)

let kind_of_string = function
  | "P" -> KP | "F" -> KF | "C" -> KC | "A" -> KA | "R" -> KR | "K" -> KK | "B" -> KB | "L" -> KL | "Y" -> KY
  | "G" -> KG | "I" -> KI | s -> failwith ("kind " ^ s)
let string_of_kind = function
  | KP -> "P" | KF -> "F" | KC -> "C" | KA -> "A" | KR -> "R" | KK -> "K" | KB -> "B" | KL -> "L" | KY -> "Y"
  | KG -> "G" | KI -> "I"

let ni s = n_of_int (int_of_string s)
let zi s = z_of_int (int_of_string s)
let paths s = if s = "-" then [] else List.map ni (String.split_on_char ',' s)
let einfo i c p = { ei_idx = zi i; ei_cond = ni c; ei_paths = paths p }

let split l = List.filter (fun s -> s <> "") (String.split_on_char ' ' l)

let parse_line (l : string) : dline option =
  match split l with
  | "S" :: g :: c :: _p :: h :: _ -> Some (LS (ni g, c = "1", h = "1"))
  | [ "P"; g; pos; n ] -> Some (LP (ni g, ni pos, ni n))
  | [ "R"; g; pos; n ] -> Some (LR (ni g, ni pos, ni n))
  | [ "N"; n; k; g; i; gl; w; lnk ] -> Some (LN (ni n, kind_of_string k, ni g, ni i, ni gl, w = "1", ni lnk))
  | [ "O"; a; b; "E"; _; _ ] -> Some (LOE (ni a, ni b))
  | [ "O"; a; b; i; c; p ] -> Some (LO (ni a, ni b, einfo i c p))
  | [ "I"; b; a; i; c; p ] -> Some (LI (ni b, ni a, einfo i c p))
  | [ "CS"; g; i; n ] -> Some (LCS (ni g, ni i, ni n))
  | [ "RC"; g; i; n ] -> Some (LRC (ni g, ni i, ni n))
  | [ "GW"; g; n ] -> Some (LGW (ni g, ni n))
  | [ "GR"; g; n ] -> Some (LGR (ni g, ni n))
  | "#" :: _ -> None
  | [] -> None
  | _ -> failwith ("cannot parse dump line: " ^ l)

let string_of_einfo e =
  Printf.sprintf "%d %d %s" (int_of_z e.ei_idx) (int_of_n e.ei_cond)
    (if e.ei_paths = [] then "-" else String.concat "," (List.map (fun p -> string_of_int (int_of_n p)) e.ei_paths))

(* dynamic lines in text form; LO lines get their position in the list so that the list order is compared too.
   A line is kept only when every node / summary it mentions satisfies [okn] / [oks] (present in both skeletons:
   PopulateGraphFromSummary drops the call nodes of a summary, linking may create summaries). *)
let render (s : state) (okn : n -> bool) (oks : n -> bool) : string list =
  let cnt = Hashtbl.create 97 in
  let out = ref [] in
  List.iter (fun l ->
      match l with
      | LO (a, b, e) ->
          if okn a && okn b then begin
            let k = (int_of_n a, int_of_n b) in
            let c = try Hashtbl.find cnt k with Not_found -> 0 in
            Hashtbl.replace cnt k (c + 1);
            out := Printf.sprintf "O %d %d #%d %s" (fst k) (snd k) c (string_of_einfo e) :: !out
          end
      | LOE (a, b) -> if okn a && okn b then out := Printf.sprintf "O %d %d E" (int_of_n a) (int_of_n b) :: !out
      | LI (b, a, e) ->
          if okn a && okn b then out := Printf.sprintf "I %d %d %s" (int_of_n b) (int_of_n a) (string_of_einfo e) :: !out
      | LCS (g, i, n) -> if okn n && oks g then out := Printf.sprintf "CS %d %d %d" (int_of_n g) (int_of_n i) (int_of_n n) :: !out
      | LRC (g, i, n) -> if okn n && oks g then out := Printf.sprintf "RC %d %d %d" (int_of_n g) (int_of_n i) (int_of_n n) :: !out
      | LGW (g, n) -> if okn n then out := Printf.sprintf "GW %d %d" (int_of_n g) (int_of_n n) :: !out
      | LGR (g, n) -> if okn n then out := Printf.sprintf "GR %d %d" (int_of_n g) (int_of_n n) :: !out
      | LN (n, k, g, i, gl, w, lnk) ->
          if okn n then
            out := Printf.sprintf "N %d %s write=%d link=%d" (int_of_n n) (string_of_kind k) (if w then 1 else 0) (int_of_n lnk) :: !out
      | LS (g, c, _) -> if oks g then out := Printf.sprintf "S %d constructed=%d" (int_of_n g) (if c then 1 else 0) :: !out
      | _ -> ())
    (dump_state s);
  List.sort compare !out

let b2i b = if b then 1 else 0

let () =
  let blocks : (string, dline list) Hashtbl.t = Hashtbl.create 1024 in
  let cur_key = ref "" in
  let cur_lines = ref [] in
  let flush_block () =
    if !cur_key <> "" then Hashtbl.replace blocks !cur_key (List.rev !cur_lines);
    cur_key := "";
    cur_lines := []
  in
  let prog = ref 0 in
  let snap = ref 0 in
  let label = ref "" in
  let mode = ref "" in
  let model : state option ref = ref None in
  let ops = ref 0 in
  let all_lines () = Hashtbl.fold (fun _ ls acc -> List.rev_append (List.rev ls) acc) blocks [] in
  (try
     while true do
       let l = input_line stdin in
       if String.length l = 0 then ()
       else if String.length l > 5 && String.sub l 0 5 = "PROG " then begin
         Hashtbl.reset blocks;
         incr prog;
         model := None;
         ops := 0;
         (match split l with _ :: _ :: m :: _ -> mode := m | _ -> ());
         Printf.printf "%s\n" l
       end
       else if String.length l > 5 && String.sub l 0 5 = "SNAP " then begin
         (match split l with
          | _ :: k :: lab :: _ -> snap := int_of_string k; label := lab
          | _ -> ())
       end
       else if String.length l > 2 && String.sub l 0 2 = "B " then begin
         flush_block ();
         cur_key := String.sub l 2 (String.length l - 2)
       end
       else if String.length l > 2 && String.sub l 0 2 = "X " then begin
         flush_block ();
         Hashtbl.remove blocks (String.sub l 2 (String.length l - 2))
       end
       else if l = "ENDSNAP" then begin
         flush_block ();
         let lines = all_lines () in
         let st = load lines in
         Printf.printf "CHECK %d %d %s lines=%d edges=%d calls=%d closures=%d globals=%d idx=%d idxp=%d clean=%d\n" !prog !snap
           !label (List.length lines) (b2i (check_edges st)) (b2i (check_calls st)) (b2i (check_closures st))
           (b2i (check_globals st)) (b2i (check_idx st)) (b2i (check_idx_partial st)) (b2i (check_clean st));
         if !mode = "ops" then begin
           (match !model with
            | None -> ()
            | Some m ->
                let in_node n = has_node m n && has_node st n in
                let in_sum g = has_sum m g && has_sum st g in
                let a = render m in_node in_sum and b = render st in_node in_sum in
                let eq = (a = b) in
                Printf.printf "TDUMP %d %d ops=%d equal=%d\n" !prog !snap !ops (b2i eq);
                if not eq then begin
                  let sa = Hashtbl.create 97 and sb = Hashtbl.create 97 in
                  List.iter (fun x -> Hashtbl.replace sa x ()) a;
                  List.iter (fun x -> Hashtbl.replace sb x ()) b;
                  let c = ref 0 in
                  List.iter (fun x -> if not (Hashtbl.mem sb x) && !c < 20 then (incr c; Printf.printf "DIFF model %s\n" x)) a;
                  c := 0;
                  List.iter (fun x -> if not (Hashtbl.mem sa x) && !c < 20 then (incr c; Printf.printf "DIFF real %s\n" x)) b
                end);
           (* continue from the real state (identical when equal; skeleton extended by what linking created) *)
           model := Some st;
           ops := 0
         end
       end
       else if String.length l > 3 && String.sub l 0 3 = "OP " then begin
         incr ops;
         let o =
           match split l with
           | [ _; "U"; e ] ->
               (match String.split_on_char ',' e with
                | [ a; b; i; p; c ] -> Some (OUpdate (ni a, ni b, zi i, ni p, ni c))
                | _ -> failwith l)
           | [ _; "PP"; g; i; j; _ ] -> Some (OParamEdge (ni g, zi i, zi j))
           | [ _; "RP"; g; i; j; _ ] -> Some (OReturnEdge (ni g, zi i, zi j))
           | [ _; "BUILD"; g; es ] ->
               let es = if es = "-" then [] else String.split_on_char ';' es in
               let me e =
                 let gl = String.length e > 0 && e.[0] = 'g' in
                 let e = if gl then String.sub e 1 (String.length e - 1) else e in
                 match String.split_on_char ',' e with
                 | [ a; b; i; p; c ] -> { m_glob = gl; m_src = ni a; m_dst = ni b; m_idx = zi i; m_path = ni p; m_cond = ni c }
                 | _ -> failwith l
               in
               Some (OBuild (ni g, List.map me es))
           | [ _; "POP"; g; a; r ] ->
               let prs s =
                 if s = "-" then []
                 else List.map (fun x -> match String.split_on_char '>' x with [ i; j ] -> (zi i, zi j) | _ -> failwith l)
                     (String.split_on_char ',' s)
               in
               Some (OPopulate (ni g, prs a, prs r))
           | [ _; "LINK"; n; g ] -> Some (OLink (ni n, ni g))
           | [ _; "SYNC"; ps ] ->
               (* one OSyncClosure per closure node *)
               let ps = if ps = "-" then [] else String.split_on_char ',' ps in
               List.iter (fun x ->
                   match String.split_on_char ':' x with
                   | [ c; g ] -> (match !model with Some m -> model := Some (apply_op m (OSyncClosure (ni c, ni g))) | None -> ())
                   | _ -> failwith l) ps;
               None
           | _ -> failwith ("cannot parse op: " ^ l)
         in
         match o, !model with
         | Some o, Some m -> model := Some (apply_op m o)
         | _ -> ()
       end
       else if String.length l > 8 && String.sub l 0 8 = "ENDPROG " then Printf.printf "%s\n" l
       else if l.[0] = '#' then (if String.length l > 12 && String.sub l 0 12 = "# traversal " then Printf.printf "%s\n" l)
       else begin
         match parse_line l with
         | Some d -> cur_lines := d :: !cur_lines
         | None -> ()
       end
     done
   with End_of_file -> ());
  flush stdout
