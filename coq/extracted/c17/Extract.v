Require Extraction.
Require Import ExtrOcamlBasic.
From Argot Require Import Model.GraphOps.
Extraction "graphops.ml" load empty_over apply_op run dump_state mem has_node has_sum
  check_edges check_calls check_closures check_globals check_idx check_idx_partial check_clean check_consistent.
