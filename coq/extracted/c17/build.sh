#!/bin/sh
# builds the extracted model + driver; run after the Coq development is compiled
set -e
cd "$(dirname "$0")"
coqc -Q ../../theories Argot Extract.v >/dev/null
ocamlfind ocamlopt -w -a -O3 graphops.mli graphops.ml driver.ml -o ../../../build/bin/c17model 2>/dev/null || ocamlfind ocamlopt -w -a graphops.mli graphops.ml driver.ml -o ../../../build/bin/c17model
