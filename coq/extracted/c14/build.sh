#!/bin/sh
# builds the extracted escape model + driver; run after the Coq development is compiled
set -e
cd "$(dirname "$0")"
coqc -Q ../../theories Argot Extract.v >/dev/null
ocamlfind ocamlopt -w -a -O3 esc.mli esc.ml driver.ml -o ../../../build/bin/c14model 2>/dev/null || ocamlfind ocamlopt -w -a esc.mli esc.ml driver.ml -o ../../../build/bin/c14model
