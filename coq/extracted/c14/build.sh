#!/bin/sh
# builds the extracted escape model + driver; run after the Coq development is compiled.
# The model does not depend on /repo: rebuilt only when the compiled Coq model, the driver or this directory changed.
set -e
cd "$(dirname "$0")"
out=../../../build/bin/c14model
if [ -x "$out" ] && [ "$out" -nt ../../theories/Model/Esc.vo ] && [ "$out" -nt ../../theories/Lang/Conc.vo ] && \
   [ "$out" -nt driver.ml ] && [ "$out" -nt Extract.v ] && [ "$out" -nt build.sh ]; then
  exit 0
fi
mkdir -p ../../../build/bin
coqc -Q ../../theories Argot Extract.v >/dev/null
ocamlfind ocamlopt -w -a -O3 esc.mli esc.ml driver.ml -o "$out" 2>/dev/null || ocamlfind ocamlopt -w -a esc.mli esc.ml driver.ml -o "$out"
