Require Extraction.
Require Import ExtrOcamlBasic.
From Argot Require Import Lang.Conc Model.Esc.
Extraction "esc.ml" analyze verdicts check_annot.
