(* Reads calculus programs (Lang/Conc.v) in text form, runs the extracted escape-analysis model (Model/Esc.v: analyze,
   verdicts) and prints the per-instruction locality verdicts.

   input:   PROG <name>
            FUNC <arity>
            I <instr> | <succ> <succ> ...      instr = alloc r | copy r s | load r s f | store r f s | gload r g | gstore g s
                                                       | go fn a1 .. an | nop
            END
   output:  PROG <name>
            V <fn> <pc> L|N      (one per instruction)   or   OUTOFFUEL
            END *)
open Esc

let rec nat_of_int n = if n <= 0 then O else S (nat_of_int (n - 1))
let rec int_of_nat = function O -> 0 | S n -> 1 + int_of_nat n
let n s = nat_of_int (int_of_string s)
let split_ws s = List.filter (fun x -> x <> "") (String.split_on_char ' ' s)

let parse_instr ws =
  match ws with
  | ["alloc"; r] -> IAlloc (n r)
  | ["copy"; r; s] -> ICopy (n r, n s)
  | ["load"; r; s; f] -> ILoad (n r, n s, n f)
  | ["store"; r; f; s] -> IStore (n r, n f, n s)
  | ["gload"; r; g] -> IGLoad (n r, n g)
  | ["gstore"; g; s] -> IGStore (n g, n s)
  | "go" :: fn :: args -> IGo (n fn, List.map n args)
  | ["nop"] -> INop
  | _ -> failwith ("bad instruction: " ^ String.concat " " ws)

let () =
  let name = ref "" in
  let funcs = ref [] in           (* reversed list of (arity, reversed code) *)
  let flush_prog () =
    let p = List.rev_map (fun (a, code) -> { f_arity = a; f_code = List.rev code }) !funcs in
    Printf.printf "PROG %s\n" !name;
    (match analyze (nat_of_int 400) p with
     | OutOfFuel -> print_string "OUTOFFUEL\n"
     | Annot a ->
       List.iter (fun ((fn, pc), v) ->
           Printf.printf "V %d %d %s\n" (int_of_nat fn) (int_of_nat pc) (match v with VLocal -> "L" | VNonLocal -> "N"))
         (verdicts p a));
    print_string "END\n"
  in
  (try
     while true do
       let l = input_line stdin in
       match split_ws l with
       | "PROG" :: nm :: _ -> name := nm; funcs := []
       | ["FUNC"; a] -> funcs := (n a, []) :: !funcs
       | "I" :: rest ->
         let s = String.concat " " rest in
         (match String.split_on_char '|' s with
          | [left; right] ->
            let i = parse_instr (split_ws left) in
            let ss = List.map n (split_ws right) in
            (match !funcs with
             | (a, code) :: tl -> funcs := (a, (i, ss) :: code) :: tl
             | [] -> failwith "I before FUNC")
          | _ -> failwith ("bad I line: " ^ l))
       | ["END"] -> flush_prog ()
       | _ -> ()
     done
   with End_of_file -> ())
