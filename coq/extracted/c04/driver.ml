(* C04 driver: reads a tab-separated description (regex verdict table of Go's regexp, problems/specifications,
   ImplementationsByType, call-site descriptors, graph call nodes, field/alloc/store/recv instructions, functions, call
   forms, identities) and prints the verdicts of the extracted Coq model Model/CodeId.v in a canonical line format.
   The regex engine parameter [rmatch] of the model is instantiated with the finite table; pairs that are not in the
   table are reported as MISSING lines (the caller asks Go's regexp and re-runs). *)
module C = Codeid

let cs_of_string (s : string) : C.string =
  let r = ref C.EmptyString in
  for i = String.length s - 1 downto 0 do
    let c = Char.code s.[i] in
    let b k = (c lsr k) land 1 = 1 in
    r := C.String (C.Ascii (b 0, b 1, b 2, b 3, b 4, b 5, b 6, b 7), !r)
  done;
  !r

let string_of_cs (s : C.string) : string =
  let buf = Buffer.create 16 in
  let rec go = function
    | C.EmptyString -> ()
    | C.String (C.Ascii (b0, b1, b2, b3, b4, b5, b6, b7), r) ->
      let v x k = if x then 1 lsl k else 0 in
      Buffer.add_char buf (Char.chr (v b0 0 + v b1 1 + v b2 2 + v b3 3 + v b4 4 + v b5 5 + v b6 6 + v b7 7));
      go r
  in
  go s;
  Buffer.contents buf

let table : (string * string, bool) Hashtbl.t = Hashtbl.create 100000
let missing : (string * string, unit) Hashtbl.t = Hashtbl.create 100

let rmatch (p : C.string) (s : C.string) : bool =
  let k = (string_of_cs p, string_of_cs s) in
  match Hashtbl.find_opt table k with
  | Some b -> b
  | None -> Hashtbl.replace missing k (); false

let cs = cs_of_string
let fvpkg_mode = ref "pkgstring"
let fvpkg (p : C.string) : C.string = if !fvpkg_mode = "path" then C.pkg_path p else C.pkg_string p
let opt s = if s = "-" then None else Some (cs (String.sub s 1 (String.length s - 1)))
let bool_of s = s = "1"

let cid_of = function
  | [a; b; c; d; e; f; g; h; i] ->
    { C.c_context = cs a; c_package = cs b; c_interface = cs c; c_method = cs d; c_receiver = cs e; c_field = cs f;
      c_type = cs g; c_kind = cs h; c_valuematch = cs i }
  | l -> failwith (Printf.sprintf "cid needs 9 fields, got %d" (List.length l))

let cid_fields (c : C.cid) =
  List.map string_of_cs [c.C.c_context; c.c_package; c.c_interface; c.c_method; c.c_receiver; c.c_field; c.c_type;
                         c.c_kind; c.c_valuematch]

type problem = { mutable source : C.spec list; mutable sink : C.spec list; mutable sanitizer : C.spec list;
                 mutable validator : C.spec list; mutable backtrace : C.spec list; mutable sink_x : C.spec list option }

let new_problem () = { source = []; sink = []; sanitizer = []; validator = []; backtrace = []; sink_x = None }

let tproblems : problem list ref = ref []   (* reversed *)
let sproblems : problem list ref = ref []
let current : problem option ref = ref None
let impls : C.impl_entry list ref = ref []

let bits (f : problem -> bool) (ps : problem list) =
  String.concat "" (List.map (fun p -> if f p then "1" else "0") (List.rev ps))

let sinks_x p =
  match p.sink_x with
  | Some l -> l
  | None -> let l = C.expand_sinks (List.rev !impls) (List.rev p.sink) in p.sink_x <- Some l; l

let cls specs cands = C.classify rmatch specs cands

(* the configuration as the model sees it: taint problems in config order, sinks after interface expansion *)
let model_cfg () =
  List.map (fun p -> { C.p_sources = List.rev p.source; p_sinks = sinks_x p; p_sanitizers = List.rev p.sanitizer;
                       p_validators = List.rev p.validator }) (List.rev !tproblems)

let noi cands = if C.node_of_interest rmatch (model_cfg ()) cands then "1" else "0"

let fn_of = function
  | [fl; pk; nm; st] -> if fl = "-" then None else Some { C.f_pkg = cs pk; f_name = cs nm; f_str = cs st }
  | _ -> failwith "fn needs 4 fields"

let sites : (string, C.site) Hashtbl.t = Hashtbl.create 100

let site_diff (a : C.site) (b : C.site) =
  let d = ref [] in
  let chk n x = if not x then d := n :: !d in
  chk "instr" (a.C.s_instr = b.C.s_instr);
  chk "invoke" (a.s_invoke = b.s_invoke);
  chk "value_name" (a.s_value_name = b.s_value_name);
  chk "parent" (a.s_parent = b.s_parent);
  chk "static_pkg" (a.s_static_pkg = b.s_static_pkg);
  chk "inv_pkg" (a.s_inv_pkg = b.s_inv_pkg);
  chk "inv_method" (a.s_inv_method = b.s_inv_method);
  chk "recv_type" (a.s_recv_type = b.s_recv_type);
  chk "sig_recv" (a.s_sig_recv = b.s_sig_recv);
  chk "str" (a.s_str = b.s_str);
  (* aliases as sets of the function labels (non-function labels yield no candidate) *)
  let norm = function
    | None -> None
    | Some l -> Some (List.sort_uniq compare (List.filter (fun x -> x.C.a_is_func) l)) in
  chk "aliases" (norm a.s_aliases = norm b.s_aliases);
  List.rev !d

let () =
  let lines = ref [] in
  (try while true do lines := input_line stdin :: !lines done with End_of_file -> ());
  let lines = Array.of_list (List.rev !lines) in
  let n = Array.length lines in
  let i = ref 0 in
  let next () = let l = lines.(!i) in incr i; String.split_on_char '\t' l in
  let read_aliases k =
    if k < 0 then None
    else Some (List.init k (fun _ ->
        match next () with
        | ["A"; f; nm; pk] -> { C.a_is_func = bool_of f; a_name = cs nm; a_pkg = opt pk }
        | _ -> failwith "A line expected"))
  in
  let tmp_specs = ref [] in
  let tmp_probs : C.spec list list ref = ref [] in   (* finished problems of a matcher case, reversed *)
  let spec_of comp rest = { C.sp_cid = cid_of rest; sp_compiled = bool_of comp } in
  while !i < n do
    match next () with
    | ["R"; p; s; b] -> Hashtbl.replace table (p, s) (b = "1")
    | ["FVPKG"; m] -> fvpkg_mode := m
    | ["PT"] -> let p = new_problem () in tproblems := p :: !tproblems; current := Some p
    | ["PS"] -> let p = new_problem () in sproblems := p :: !sproblems; current := Some p
    | "SP" :: role :: comp :: rest ->
      let sp = spec_of comp rest in
      (match role, !current with
       | "source", Some p -> p.source <- sp :: p.source
       | "sink", Some p -> p.sink <- sp :: p.sink
       | "sanitizer", Some p -> p.sanitizer <- sp :: p.sanitizer
       | "validator", Some p -> p.validator <- sp :: p.validator
       | "backtrace", Some p -> p.backtrace <- sp :: p.backtrace
       | "tmp", _ -> tmp_specs := sp :: !tmp_specs
       | _ -> failwith ("bad SP role " ^ role))
    | ["IMPL"; key; k] ->
      let l = List.init (int_of_string k) (fun _ ->
          match next () with
          | ["I"; pk; nm; st; pt] -> ({ C.f_pkg = cs pk; f_name = cs nm; f_str = cs st }, cs pt)
          | _ -> failwith "I line expected") in
      impls := { C.i_key = cs key; i_impls = l } :: !impls
    | ["SITE"; sid; instr; inv; vn; par; spkg; ipkg; imeth; rt; sr; str; nal] ->
      let al = read_aliases (int_of_string nal) in
      let s = { C.s_instr = (match instr with "call" -> C.ICall | "go" -> C.IGo | "defer" -> C.IDefer | _ -> failwith "instr");
                s_invoke = bool_of inv; s_value_name = cs vn; s_parent = cs par; s_static_pkg = opt spkg;
                s_inv_pkg = opt ipkg; s_inv_method = cs imeth; s_recv_type = cs rt; s_sig_recv = opt sr; s_str = cs str;
                s_aliases = al } in
      Hashtbl.replace sites sid s;
      let ec = C.entry_cands fvpkg s in
      Printf.printf "E\t%s\t%s\t%s\t%s\t%s\t%s\t%s\n" sid
        (bits (fun p -> cls (List.rev p.source) ec) !tproblems)
        (bits (fun p -> cls (List.rev p.backtrace) ec) !sproblems)
        (bits (fun p -> cls (List.rev p.validator) (C.validator_cands s)) !tproblems)
        (bits (fun p -> cls (sinks_x p) (C.call_cands s None)) !tproblems)
        (bits (fun p -> cls (sinks_x p) ec) !tproblems)
        (noi ec)
    | "NODE" :: sid :: nid :: rest ->
      let s = Hashtbl.find sites sid in
      let (callee, param) = (match rest with
          | [a; b; c; d; e; f; g; h] -> (fn_of [a; b; c; d], fn_of [e; f; g; h])
          | _ -> failwith "NODE fields") in
      let cc = C.call_cands s callee and ac = C.arg_cands s callee param in
      Printf.printf "N\t%s\t%s\t%s\t%s\t%s\t%s\n" sid nid
        (bits (fun p -> cls (sinks_x p) cc) !tproblems)
        (bits (fun p -> cls (List.rev p.sanitizer) cc) !tproblems)
        (bits (fun p -> cls (sinks_x p) ac) !tproblems)
        (bits (fun p -> cls (List.rev p.sanitizer) ac) !tproblems)
    | ["OP"; oid; kind; par; field; wrappers; leaf; pkgname; pkgpath; name] ->
      let leaf_ty = (match leaf with
          | "named" -> C.TNamed (opt pkgname, opt pkgpath, cs name)
          | "named-noobj" -> C.TNamedNoObj
          | "other" -> C.TOther
          | "struct" -> C.TStruct
          | "unexpected" -> C.TUnexpected
          | _ -> failwith ("leaf " ^ leaf)) in
      let ws = if wrappers = "" then [] else String.split_on_char '|' wrappers in
      let t = List.fold_right (fun w acc ->
          if w = "ptr" then C.TPtr acc
          else if w = "slice" then C.TSlice acc
          else if w = "chan" then C.TChan acc
          else if String.length w > 6 && String.sub w 0 6 = "array=" then C.TArray (cs (String.sub w 6 (String.length w - 6)), acc)
          else if String.length w >= 4 && String.sub w 0 4 = "map=" then C.TMap (cs (String.sub w 4 (String.length w - 4)), acc)
          else failwith ("wrapper " ^ w)) ws leaf_ty in
      let o = { C.o_kind = (match kind with "field" -> C.OField | "fieldaddr" -> C.OFieldAddr | "alloc" -> C.OAlloc
                                          | "store" -> C.OStore | "recv" -> C.ORecv | _ -> failwith "opkind");
                o_parent = cs par; o_ty = t; o_field = cs field } in
      let ec = C.op_cands o and sc = C.op_sink_cands o and ids = C.op_ids o in
      let specs_cid l = List.map (fun sp -> sp.C.sp_cid) l in
      Printf.printf "O\t%s\t%s\t%s\t%s\t%s\t%s\t%s\t%s\t%s\n" oid
        (bits (fun p -> cls (List.rev p.source) ec) !tproblems)
        (bits (fun p -> cls (sinks_x p) sc) !tproblems)
        (bits (fun p -> cls (List.rev p.backtrace) ec) !sproblems)
        (* the property's executable spec evaluated by the extracted [classify_ideal] on [op_ids] *)
        (bits (fun p -> C.classify_ideal rmatch (specs_cid (List.rev p.source)) ids) !tproblems)
        (bits (fun p -> (match o.C.o_kind with C.OStore -> C.classify_ideal rmatch (specs_cid (List.rev p.sink)) ids | _ -> false)) !tproblems)
        (bits (fun p -> C.classify_ideal rmatch (specs_cid (List.rev p.backtrace)) ids) !sproblems)
        (bits (fun p -> cls (sinks_x p) ec) !tproblems)
        (noi ec)
    | ["FN"; fid; pk; nm; st] ->
      let c = C.fn_bt_cand { C.f_pkg = cs pk; f_name = cs nm; f_str = cs st } in
      Printf.printf "F\t%s\t%s\n" fid (bits (fun p -> cls (List.rev p.backtrace) [c]) !sproblems)
    | ["X"] ->
      List.iteri (fun pi p ->
          List.iter (fun sp -> Printf.printf "X\t%d\t%s\t%s\n" pi (if sp.C.sp_compiled then "1" else "0")
                        (String.concat "\t" (cid_fields sp.C.sp_cid))) (sinks_x p)) (List.rev !tproblems)
    | ["FORM"; sid; form; kp; kn; kr; krt; ks; ep; er; es; at; ipk; ity; nother] ->
      let others = (match read_aliases (int_of_string nother) with Some l -> l | None -> []) in
      let k = { C.k_pkg = cs kp; k_name = cs kn; k_recv = cs kr; k_recv_type = cs krt; k_str = cs ks } in
      let e = { C.e_parent = cs ep; e_reg = cs er; e_str = cs es; e_addr_taken = bool_of at; e_iface_pkg = cs ipk;
                e_iface_type = cs ity; e_other_aliases = others } in
      let f = (match form with
          | "Static" -> C.Static | "Method" -> C.Method | "IfaceInvoke" -> C.IfaceInvoke | "FuncValue" -> C.FuncValue
          | "MethodValue" -> C.MethodValue | "MethodExpr" -> C.MethodExpr | "Deferred" -> C.Deferred
          | "GoCall" -> C.GoCall | "InClosure" -> C.InClosure | _ -> failwith ("form " ^ form)) in
      let s = C.site_of f k e in
      let real = Hashtbl.find sites sid in
      let d = site_diff s real in
      let nc = C.node_callee f k in
      Printf.printf "FORMCHK\t%s\t%s\t%s\t%s\t%s\t%s\n" sid (if d = [] then "ok" else "diff:" ^ String.concat "," d)
        (string_of_cs nc.C.f_pkg) (string_of_cs nc.C.f_name) (string_of_cs nc.C.f_str)
        (String.concat "\t" (cid_fields (C.identity k e)))
    | ["IDS"; key; role; k] ->
      let ids = List.init (int_of_string k) (fun _ ->
          match next () with
          | "C" :: rest -> cid_of rest
          | _ -> failwith "C line expected") in
      let specs_cid l = List.map (fun sp -> sp.C.sp_cid) l in
      let sel p = (match role with
          | "source" -> p.source | "sink" -> p.sink | "sanitizer" -> p.sanitizer | "validator" -> p.validator
          | "backtrace" -> p.backtrace | _ -> failwith "role") in
      let ps = if role = "backtrace" then !sproblems else !tproblems in
      Printf.printf "ID\t%s\t%s\t%s\n" key role
        (bits (fun p -> C.classify_ideal rmatch (specs_cid (List.rev (sel p))) ids) ps)
    | ["MB"] -> tmp_specs := []; tmp_probs := []
    | ["MP"] -> tmp_probs := List.rev !tmp_specs :: !tmp_probs; tmp_specs := []
    | "MS" :: mid :: rest ->
      (* Config.IsSomeX: the problems of the case, in order; the role's list is held in p_sources *)
      let cfg = List.map (fun l -> { C.p_sources = l; p_sinks = []; p_sanitizers = []; p_validators = [] })
          (List.rev (List.rev !tmp_specs :: !tmp_probs)) in
      Printf.printf "M\t%s\t%s\n" mid (if C.is_some rmatch (fun p -> p.C.p_sources) cfg (cid_of rest) then "1" else "0")
    | "MC" :: mid :: rest ->
      Printf.printf "M\t%s\t%s\n" mid (if C.exists_cid rmatch (List.rev !tmp_specs) (cid_of rest) then "1" else "0")
    | [""] | [] -> ()
    | l -> failwith ("bad line: " ^ String.concat "\\t" l)
  done;
  Hashtbl.iter (fun (p, s) () -> Printf.printf "MISSING\t%s\t%s\n" p s) missing
