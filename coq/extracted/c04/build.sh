#!/bin/sh
# builds the extracted C04 model + driver; run after theories/Model/CodeId.vo is compiled.
# Skipped when build/bin/c04model is newer than the model's .vo, Extract.v and driver.ml.
set -e
cd "$(dirname "$0")"
OUT=../../../build/bin/c04model
VO=../../theories/Model/CodeId.vo
if [ -x "$OUT" ] && [ "$OUT" -nt "$VO" ] && [ "$OUT" -nt Extract.v ] && [ "$OUT" -nt driver.ml ] && [ "$OUT" -nt build.sh ]; then
  exit 0
fi
coqc -Q ../../theories Argot Extract.v >/dev/null
mkdir -p ../../../build/bin
ocamlfind ocamlopt -w -a -O3 codeid.mli codeid.ml driver.ml -o "$OUT" 2>/dev/null || ocamlfind ocamlopt -w -a codeid.mli codeid.ml driver.ml -o "$OUT"
