Require Extraction.
Require Import ExtrOcamlBasic.
From Argot Require Import Model.CodeId.
Extraction "codeid.ml" match1 match_ideal exists_cid classify classify_ideal entry_cands call_cands arg_cands
  validator_cands fn_bt_cand op_cands op_sink_cands op_ids expand_sinks site_of node_callee identity receiver_str elt pkg_string pkg_path is_some node_of_interest.
